// ---- lemmas of unit c35_export (all with bodies; no assumptions) ----

// ---------------------------------------------------------------------------------------------------------------------
// the string order is a total order on contents
// ---------------------------------------------------------------------------------------------------------------------
pub proof fn lemma_str_cmp_eq(a: Seq<char>, b: Seq<char>)
    ensures (str_cmp(a, b) == Ordering::Equal) <==> a == b,
    decreases a.len(),
{
    if a.len() == 0 || b.len() == 0 {
        if a.len() == 0 && b.len() == 0 { assert(a =~= b); }
    } else if a[0] as u32 == b[0] as u32 {
        lemma_str_cmp_eq(a.skip(1), b.skip(1));
        assert(a =~= seq![a[0]] + a.skip(1));
        assert(b =~= seq![b[0]] + b.skip(1));
    } else {
    }
}

pub proof fn lemma_str_cmp_rev(a: Seq<char>, b: Seq<char>)
    ensures str_cmp(b, a) == ord_rev(str_cmp(a, b)),
    decreases a.len(),
{
    if a.len() == 0 || b.len() == 0 {
    } else if a[0] as u32 == b[0] as u32 {
        lemma_str_cmp_rev(a.skip(1), b.skip(1));
    } else {
    }
}

pub proof fn lemma_str_cmp_trans(a: Seq<char>, b: Seq<char>, c: Seq<char>)
    requires str_cmp(a, b) == Ordering::Less, str_cmp(b, c) == Ordering::Less,
    ensures str_cmp(a, c) == Ordering::Less,
    decreases a.len(),
{
    if a.len() == 0 {
    } else if a[0] as u32 == b[0] as u32 && b[0] as u32 == c[0] as u32 {
        lemma_str_cmp_trans(a.skip(1), b.skip(1), c.skip(1));
    } else {
    }
}

/// lexicographic chaining of two comparisons that each satisfy the order laws on the compared pairs keeps them:
/// stated on the RESULTS (x1, x2 for (a, b); y1, y2 for (b, c); z1, z2 for (a, c)) so that it serves all three comparators
pub proof fn lemma_then_trans(x1: Ordering, x2: Ordering, y1: Ordering, y2: Ordering, z1: Ordering, z2: Ordering)
    requires
        // first component: transitive, and Equal behaves as identity
        x1 == Ordering::Less && y1 == Ordering::Less ==> z1 == Ordering::Less,
        x1 == Ordering::Equal ==> z1 == y1,
        y1 == Ordering::Equal ==> z1 == x1,
        // second component: transitive on Less and on Equal (used only when the first components are Equal)
        x2 == Ordering::Less && y2 == Ordering::Less ==> z2 == Ordering::Less,
        x2 == Ordering::Equal && y2 == Ordering::Equal ==> z2 == Ordering::Equal,
        x2 == Ordering::Equal && y2 == Ordering::Less ==> z2 == Ordering::Less,
        x2 == Ordering::Less && y2 == Ordering::Equal ==> z2 == Ordering::Less,
    ensures
        ord_then(x1, x2) == Ordering::Less && ord_then(y1, y2) == Ordering::Less ==> ord_then(z1, z2) == Ordering::Less,
        ord_then(x1, x2) == Ordering::Equal && ord_then(y1, y2) == Ordering::Equal ==> ord_then(z1, z2) == Ordering::Equal,
{
}

// ---------------------------------------------------------------------------------------------------------------------
// a strictly sorted enumeration of a selection is unique
// ---------------------------------------------------------------------------------------------------------------------
pub proof fn lemma_sorted_enum_unique<K>(ks1: Seq<K>, ks2: Seq<K>, sel: spec_fn(K) -> bool, lt: spec_fn(K, K) -> bool)
    requires asymmetric(lt), is_sorted_enum(ks1, sel, lt), is_sorted_enum(ks2, sel, lt),
    ensures ks1 == ks2,
    decreases ks1.len(),
{
    if ks1.len() == 0 {
        if ks2.len() > 0 { assert(ks2.contains(ks2[0])); assert(sel(ks2[0])); assert(ks1.contains(ks2[0])); }
        assert(ks1 =~= ks2);
    } else {
        let x = ks1[0];
        assert(ks1.contains(x));
        assert(sel(x));
        assert(ks2.contains(x));
        let i = choose|i: int| 0 <= i < ks2.len() && ks2[i] == x;
        let y = ks2[0];
        assert(ks2.contains(y));
        assert(sel(y));
        assert(ks1.contains(y));
        let j = choose|j: int| 0 <= j < ks1.len() && ks1[j] == y;
        if i > 0 && j > 0 {
            assert(lt(ks2[0], ks2[i]));
            assert(lt(ks1[0], ks1[j]));
            assert(false);
        }
        assert(x == y);
        let t1 = ks1.skip(1);
        let t2 = ks2.skip(1);
        let sel2 = |k: K| sel(k) && k != x;
        assert forall|k: K| #[trigger] t1.contains(k) <==> sel2(k) by {
            if t1.contains(k) {
                let n = choose|n: int| 0 <= n < t1.len() && t1[n] == k;
                assert(ks1[n + 1] == k);
                assert(ks1.contains(k));
                if k == x { assert(lt(ks1[0], ks1[n + 1])); assert(false); }
            }
            if sel2(k) {
                assert(ks1.contains(k));
                let n = choose|n: int| 0 <= n < ks1.len() && ks1[n] == k;
                assert(n > 0);
                assert(t1[n - 1] == k);
            }
        }
        assert forall|k: K| #[trigger] t2.contains(k) <==> sel2(k) by {
            if t2.contains(k) {
                let n = choose|n: int| 0 <= n < t2.len() && t2[n] == k;
                assert(ks2[n + 1] == k);
                assert(ks2.contains(k));
                if k == x { assert(lt(ks2[0], ks2[n + 1])); assert(false); }
            }
            if sel2(k) {
                assert(ks2.contains(k));
                let n = choose|n: int| 0 <= n < ks2.len() && ks2[n] == k;
                assert(n > 0);
                assert(t2[n - 1] == k);
            }
        }
        assert forall|a: int, b: int| 0 <= a < b < t1.len() implies lt(#[trigger] t1[a], #[trigger] t1[b]) by {
            assert(lt(ks1[a + 1], ks1[b + 1]));
        }
        assert forall|a: int, b: int| 0 <= a < b < t2.len() implies lt(#[trigger] t2[a], #[trigger] t2[b]) by {
            assert(lt(ks2[a + 1], ks2[b + 1]));
        }
        lemma_sorted_enum_unique(t1, t2, sel2, lt);
        assert(ks1 =~= seq![x] + t1);
        assert(ks2 =~= seq![y] + t2);
    }
}

/// consequence used by the three export functions: a strictly sorted enumeration IS the canonical one
pub proof fn lemma_is_canonical<K>(ks: Seq<K>, sel: spec_fn(K) -> bool, lt: spec_fn(K, K) -> bool)
    requires asymmetric(lt), is_sorted_enum(ks, sel, lt),
    ensures ks == canonical(sel, lt),
{
    lemma_sorted_enum_unique(ks, canonical(sel, lt), sel, lt);
}

// ---------------------------------------------------------------------------------------------------------------------
// a rearrangement of an enumeration of the values is an enumeration of the values
// ---------------------------------------------------------------------------------------------------------------------
pub proof fn lemma_perm_values_enum<K, V>(m: Map<K, V>, s0: Seq<&V>, ks0: Seq<K>, s1: Seq<&V>, p: Seq<int>, q: Seq<int>) -> (ks1: Seq<K>)
    requires
        is_values_enum(m, s0, ks0),
        is_rearrangement(s0, s1, p, q),
    ensures
        is_values_enum(m, s1, ks1),
        ks1.len() == s1.len(),
{
    let ks1 = Seq::new(s0.len(), |i: int| ks0[p[i]]);
    assert forall|i: int, j: int| 0 <= i < ks1.len() && 0 <= j < ks1.len() && i != j implies ks1[i] != ks1[j] by {
        assert(q[p[i]] == i && q[p[j]] == j);
    }
    assert forall|k: K| #[trigger] ks1.contains(k) <==> m.contains_key(k) by {
        if ks1.contains(k) {
            let i = choose|i: int| 0 <= i < ks1.len() && ks1[i] == k;
            assert(ks0.contains(ks0[p[i]]));
        }
        if m.contains_key(k) {
            assert(ks0.contains(k));
            let j = choose|j: int| 0 <= j < ks0.len() && ks0[j] == k;
            assert(p[q[j]] == j);
            assert(ks1[q[j]] == k);
        }
    }
    assert forall|i: int| 0 <= i < s1.len() implies *(#[trigger] s1[i]) == m[ks1[i]] by {
        assert(s1[i] == s0[p[i]]);
    }
    ks1
}

// ---------------------------------------------------------------------------------------------------------------------
// the three comparators are total orders (obligation of `sort_by`: `cmp_total`), and Equal means "same key"
// ---------------------------------------------------------------------------------------------------------------------
pub proof fn lemma_trans_all(xy: Ordering, yz: Ordering, xz: Ordering, yx: Ordering, zy: Ordering, zx: Ordering)
    requires
        yx == ord_rev(xy), zy == ord_rev(yz), zx == ord_rev(xz),
        xy == Ordering::Less && yz == Ordering::Less ==> xz == Ordering::Less,
        zy == Ordering::Less && yx == Ordering::Less ==> zx == Ordering::Less,
        xy == Ordering::Equal && yz == Ordering::Equal ==> xz == Ordering::Equal,
    ensures xy == yz ==> xz == xy,
{
}

pub proof fn lemma_type_id_cmp_step(x: LuaTypeDeclId, y: LuaTypeDeclId, z: LuaTypeDeclId)
    requires type_id_order_laws(),
    ensures
        type_id_cmp(y, x) == ord_rev(type_id_cmp(x, y)),
        type_id_cmp(x, y) == Ordering::Less && type_id_cmp(y, z) == Ordering::Less ==> type_id_cmp(x, z) == Ordering::Less,
        type_id_cmp(x, y) == Ordering::Equal && type_id_cmp(y, z) == Ordering::Equal ==> type_id_cmp(x, z) == Ordering::Equal,
        type_id_cmp(x, y) == Ordering::Equal ==> x == y,
{
    let nx = sp_id_name(x); let ny = sp_id_name(y); let nz = sp_id_name(z);
    lemma_str_cmp_rev(nx, ny);
    lemma_str_cmp_eq(nx, ny); lemma_str_cmp_eq(ny, nz); lemma_str_cmp_eq(nx, nz);
    if str_cmp(nx, ny) == Ordering::Less && str_cmp(ny, nz) == Ordering::Less { lemma_str_cmp_trans(nx, ny, nz); }
    lemma_then_trans(str_cmp(nx, ny), x.cmp_spec(&y), str_cmp(ny, nz), y.cmp_spec(&z), str_cmp(nx, nz), x.cmp_spec(&z));
}
pub proof fn lemma_type_id_cmp_laws()
    requires type_id_order_laws(),
    ensures
        forall|x: LuaTypeDeclId, y: LuaTypeDeclId| type_id_cmp(y, x) == ord_rev(#[trigger] type_id_cmp(x, y)),
        forall|x: LuaTypeDeclId, y: LuaTypeDeclId, z: LuaTypeDeclId| #![trigger type_id_cmp(x, y), type_id_cmp(y, z), type_id_cmp(x, z)]
            type_id_cmp(x, y) == type_id_cmp(y, z) ==> type_id_cmp(x, z) == type_id_cmp(x, y),
        forall|x: LuaTypeDeclId, y: LuaTypeDeclId| #[trigger] type_id_cmp(x, y) == Ordering::Equal ==> x == y,
{
    assert forall|x: LuaTypeDeclId, y: LuaTypeDeclId| type_id_cmp(y, x) == ord_rev(#[trigger] type_id_cmp(x, y)) by { lemma_type_id_cmp_step(x, y, y); }
    assert forall|x: LuaTypeDeclId, y: LuaTypeDeclId| #[trigger] type_id_cmp(x, y) == Ordering::Equal implies x == y by { lemma_type_id_cmp_step(x, y, y); }
    assert forall|x: LuaTypeDeclId, y: LuaTypeDeclId, z: LuaTypeDeclId| #![trigger type_id_cmp(x, y), type_id_cmp(y, z), type_id_cmp(x, z)]
        type_id_cmp(x, y) == type_id_cmp(y, z) implies type_id_cmp(x, z) == type_id_cmp(x, y) by {
        lemma_type_id_cmp_step(x, y, z); lemma_type_id_cmp_step(z, y, x); lemma_type_id_cmp_step(y, z, z); lemma_type_id_cmp_step(x, z, z);
        lemma_trans_all(type_id_cmp(x, y), type_id_cmp(y, z), type_id_cmp(x, z), type_id_cmp(y, x), type_id_cmp(z, y), type_id_cmp(z, x));
    }
}

pub proof fn lemma_module_cmp_step(x: &ModuleInfo, y: &ModuleInfo, z: &ModuleInfo)
    ensures
        module_cmp(y, x) == ord_rev(module_cmp(x, y)),
        module_cmp(x, y) == Ordering::Less && module_cmp(y, z) == Ordering::Less ==> module_cmp(x, z) == Ordering::Less,
        module_cmp(x, y) == Ordering::Equal && module_cmp(y, z) == Ordering::Equal ==> module_cmp(x, z) == Ordering::Equal,
        module_cmp(x, y) == Ordering::Equal ==> x.full_module_name@ == y.full_module_name@ && x.file_id == y.file_id,
{
    let nx = x.full_module_name@; let ny = y.full_module_name@; let nz = z.full_module_name@;
    lemma_str_cmp_rev(nx, ny);
    lemma_str_cmp_eq(nx, ny); lemma_str_cmp_eq(ny, nz); lemma_str_cmp_eq(nx, nz);
    if str_cmp(nx, ny) == Ordering::Less && str_cmp(ny, nz) == Ordering::Less { lemma_str_cmp_trans(nx, ny, nz); }
    lemma_then_trans(str_cmp(nx, ny), int_cmp(x.file_id.id as int, y.file_id.id as int), str_cmp(ny, nz), int_cmp(y.file_id.id as int, z.file_id.id as int),
                     str_cmp(nx, nz), int_cmp(x.file_id.id as int, z.file_id.id as int));
}
pub proof fn lemma_module_cmp_laws()
    ensures
        forall|x: &ModuleInfo, y: &ModuleInfo| module_cmp(y, x) == ord_rev(#[trigger] module_cmp(x, y)),
        forall|x: &ModuleInfo, y: &ModuleInfo, z: &ModuleInfo| #![trigger module_cmp(x, y), module_cmp(y, z), module_cmp(x, z)]
            module_cmp(x, y) == module_cmp(y, z) ==> module_cmp(x, z) == module_cmp(x, y),
        forall|x: &ModuleInfo, y: &ModuleInfo| #[trigger] module_cmp(x, y) == Ordering::Equal ==> x.file_id == y.file_id,
{
    assert forall|x: &ModuleInfo, y: &ModuleInfo| module_cmp(y, x) == ord_rev(#[trigger] module_cmp(x, y)) by { lemma_module_cmp_step(x, y, y); }
    assert forall|x: &ModuleInfo, y: &ModuleInfo| #[trigger] module_cmp(x, y) == Ordering::Equal implies x.file_id == y.file_id by { lemma_module_cmp_step(x, y, y); }
    assert forall|x: &ModuleInfo, y: &ModuleInfo, z: &ModuleInfo| #![trigger module_cmp(x, y), module_cmp(y, z), module_cmp(x, z)]
        module_cmp(x, y) == module_cmp(y, z) implies module_cmp(x, z) == module_cmp(x, y) by {
        lemma_module_cmp_step(x, y, z); lemma_module_cmp_step(z, y, x); lemma_module_cmp_step(y, z, z); lemma_module_cmp_step(x, z, z);
        lemma_trans_all(module_cmp(x, y), module_cmp(y, z), module_cmp(x, z), module_cmp(y, x), module_cmp(z, y), module_cmp(z, x));
    }
}

pub proof fn lemma_decl_cmp_laws()
    ensures
        forall|x: LuaDeclId, y: LuaDeclId| decl_cmp(y, x) == ord_rev(#[trigger] decl_cmp(x, y)),
        forall|x: LuaDeclId, y: LuaDeclId, z: LuaDeclId| #![trigger decl_cmp(x, y), decl_cmp(y, z), decl_cmp(x, z)]
            decl_cmp(x, y) == decl_cmp(y, z) ==> decl_cmp(x, z) == decl_cmp(x, y),
        forall|x: LuaDeclId, y: LuaDeclId| #[trigger] decl_cmp(x, y) == Ordering::Equal ==> x == y,
{
}

// ---------------------------------------------------------------------------------------------------------------------
// the filter loop: what the kept positions `ix` (increasing, exactly the selected ones) say about the kept keys
// ---------------------------------------------------------------------------------------------------------------------
pub open spec fn picks<K>(all_ks: Seq<K>, ix: Seq<int>, upto: int, sel: spec_fn(K) -> bool) -> bool {
    &&& forall|n: int| 0 <= n < ix.len() ==> 0 <= #[trigger] ix[n] < upto && sel(all_ks[ix[n]])
    &&& forall|n1: int, n2: int| 0 <= n1 < n2 < ix.len() ==> #[trigger] ix[n1] < #[trigger] ix[n2]
    &&& forall|i: int| 0 <= i < upto && sel(#[trigger] all_ks[i]) ==> ix.contains(i)
}
pub open spec fn picked<K>(all_ks: Seq<K>, ix: Seq<int>) -> Seq<K> { Seq::new(ix.len(), |n: int| all_ks[ix[n]]) }

pub proof fn lemma_picks_push<K>(all_ks: Seq<K>, ix: Seq<int>, upto: int, sel: spec_fn(K) -> bool)
    requires picks(all_ks, ix, upto, sel), 0 <= upto < all_ks.len(), sel(all_ks[upto]),
    ensures picks(all_ks, ix.push(upto), upto + 1, sel),
{
    let ix2 = ix.push(upto);
    assert forall|i: int| 0 <= i < upto + 1 && sel(#[trigger] all_ks[i]) implies ix2.contains(i) by {
        if i < upto {
            assert(ix.contains(i));
            let n = choose|n: int| 0 <= n < ix.len() && ix[n] == i;
            assert(ix2[n] == i);
        } else {
            assert(ix2[ix.len() as int] == i);
        }
    }
}
pub proof fn lemma_picks_skip<K>(all_ks: Seq<K>, ix: Seq<int>, upto: int, sel: spec_fn(K) -> bool)
    requires picks(all_ks, ix, upto, sel), 0 <= upto < all_ks.len(), !sel(all_ks[upto]),
    ensures picks(all_ks, ix, upto + 1, sel),
{
}

pub proof fn lemma_picked<K>(all_ks: Seq<K>, ix: Seq<int>, sel: spec_fn(K) -> bool, lt: spec_fn(K, K) -> bool)
    requires
        all_ks.no_duplicates(),
        picks(all_ks, ix, all_ks.len() as int, sel),
        forall|k: K| sel(k) ==> all_ks.contains(k),
    ensures
        picked(all_ks, ix).no_duplicates(),
        forall|k: K| #[trigger] picked(all_ks, ix).contains(k) <==> sel(k),
        (forall|i: int, j: int| 0 <= i < j < all_ks.len() ==> lt(#[trigger] all_ks[i], #[trigger] all_ks[j]))
            ==> is_sorted_enum(picked(all_ks, ix), sel, lt),
{
    let ks = picked(all_ks, ix);
    assert forall|k: K| #[trigger] ks.contains(k) <==> sel(k) by {
        if ks.contains(k) {
            let n = choose|n: int| 0 <= n < ks.len() && ks[n] == k;
            assert(sel(all_ks[ix[n]]));
        }
        if sel(k) {
            assert(all_ks.contains(k));
            let i = choose|i: int| 0 <= i < all_ks.len() && all_ks[i] == k;
            assert(ix.contains(i));
            let n = choose|n: int| 0 <= n < ix.len() && ix[n] == i;
            assert(ks[n] == k);
        }
    }
    assert forall|n1: int, n2: int| 0 <= n1 < ks.len() && 0 <= n2 < ks.len() && n1 != n2 implies ks[n1] != ks[n2] by {
        if n1 < n2 { assert(ix[n1] < ix[n2]); } else { assert(ix[n2] < ix[n1]); }
    }
    if forall|i: int, j: int| 0 <= i < j < all_ks.len() ==> lt(#[trigger] all_ks[i], #[trigger] all_ks[j]) {
        assert forall|n1: int, n2: int| 0 <= n1 < n2 < ks.len() implies lt(#[trigger] ks[n1], #[trigger] ks[n2]) by {
            assert(ix[n1] < ix[n2]);
            assert(lt(all_ks[ix[n1]], all_ks[ix[n2]]));
        }
    }
}

// ---------------------------------------------------------------------------------------------------------------------
// end of the three export loops: from the loop invariant to the three clauses of the property
// ---------------------------------------------------------------------------------------------------------------------
pub proof fn lemma_types_finish(db: &DbIndex, ts: Seq<&LuaTypeDecl>, all_ks: Seq<LuaTypeDeclId>, ix: Seq<int>, out: Seq<Type>)
    requires
        index_wf(db), type_id_order_laws(),
        is_values_enum(type_map(db), ts, all_ks),
        picks(all_ks, ix, all_ks.len() as int, type_sel(db)),
        out.len() == ix.len(),
        forall|n: int| 0 <= n < out.len() ==> #[trigger] out[n] == type_entry(db, &type_map(db)[all_ks[ix[n]]]),
    ensures
        types_exactly_once(db, out),
        types_only_main(db, out),
        types_sorted(ts) ==> types_listing(db, canonical_type_keys(db), out),
{
    let ks = picked(all_ks, ix);
    assert forall|k: LuaTypeDeclId| (type_sel(db))(k) implies all_ks.contains(k) by { }
    lemma_picked(all_ks, ix, type_sel(db), type_lt());
    assert(types_listing(db, ks, out));
    assert forall|k: LuaTypeDeclId| type_selected(db, k) implies #[trigger] ks.contains(k) by { assert((type_sel(db))(k)); }
    assert forall|i: int| 0 <= i < ks.len() implies type_selected(db, #[trigger] ks[i]) by { assert(ks.contains(ks[i])); assert((type_sel(db))(ks[i])); }
    if types_sorted(ts) {
        lemma_type_id_cmp_laws();
        assert forall|i: int, j: int| 0 <= i < j < all_ks.len() implies (type_lt())(#[trigger] all_ks[i], #[trigger] all_ks[j]) by {
            assert(all_ks.contains(all_ks[i]) && all_ks.contains(all_ks[j]));
            assert(ts[i].id == all_ks[i] && ts[j].id == all_ks[j]);
            assert(type_id_cmp(ts[i].id, ts[j].id) != Ordering::Greater);
        }
        assert(asymmetric(type_lt())) by {
            assert forall|a: LuaTypeDeclId, b: LuaTypeDeclId| !(#[trigger] (type_lt())(a, b) && (type_lt())(b, a)) by {
                assert(type_id_cmp(b, a) == ord_rev(type_id_cmp(a, b)));
            }
        }
        lemma_is_canonical(ks, type_sel(db), type_lt());
    }
}

pub proof fn lemma_modules_finish(db: &DbIndex, ts: Seq<&ModuleInfo>, all_ks: Seq<FileId>, ix: Seq<int>, out: Seq<Module>)
    requires
        index_wf(db),
        is_values_enum(module_map(db), ts, all_ks),
        picks(all_ks, ix, all_ks.len() as int, module_sel(db)),
        out.len() == ix.len(),
        forall|n: int| 0 <= n < out.len() ==> module_entry_for(#[trigger] out[n], &module_map(db)[all_ks[ix[n]]]),
    ensures
        modules_exactly_once(db, out),
        modules_only_main(db, out),
        modules_sorted(ts) ==> modules_listing(db, canonical_module_keys(db), out),
{
    let ks = picked(all_ks, ix);
    assert forall|k: FileId| (module_sel(db))(k) implies all_ks.contains(k) by { }
    lemma_picked(all_ks, ix, module_sel(db), module_lt(db));
    assert(modules_listing(db, ks, out));
    assert forall|k: FileId| module_selected(db, k) implies #[trigger] ks.contains(k) by { assert((module_sel(db))(k)); }
    assert forall|i: int| 0 <= i < ks.len() implies module_selected(db, #[trigger] ks[i]) by { assert(ks.contains(ks[i])); assert((module_sel(db))(ks[i])); }
    if modules_sorted(ts) {
        lemma_module_cmp_laws();
        assert forall|i: int, j: int| 0 <= i < j < all_ks.len() implies (module_lt(db))(#[trigger] all_ks[i], #[trigger] all_ks[j]) by {
            assert(all_ks.contains(all_ks[i]) && all_ks.contains(all_ks[j]));
            assert(*ts[i] == module_map(db)[all_ks[i]] && *ts[j] == module_map(db)[all_ks[j]]);
            assert(module_cmp(ts[i], ts[j]) != Ordering::Greater);
            assert(ts[i].file_id == all_ks[i] && ts[j].file_id == all_ks[j]);
        }
        assert(asymmetric(module_lt(db))) by {
            assert forall|a: FileId, b: FileId| !(#[trigger] (module_lt(db))(a, b) && (module_lt(db))(b, a)) by {
                assert(module_cmp(&module_map(db)[b], &module_map(db)[a]) == ord_rev(module_cmp(&module_map(db)[a], &module_map(db)[b])));
            }
        }
        lemma_is_canonical(ks, module_sel(db), module_lt(db));
    }
}

// ---------------------------------------------------------------------------------------------------------------------
// globals: the flattened slot enumeration, as a duplicate-free list of the recorded declaration ids (under wf_globals)
// ---------------------------------------------------------------------------------------------------------------------
pub open spec fn slot_in(m: Map<GlobalId, Vec<LuaDeclId>>, gs: Seq<GlobalId>, d: LuaDeclId) -> bool {
    exists|n: int, j: int| 0 <= n < gs.len() && 0 <= j < m[gs[n]]@.len() && #[trigger] m[gs[n]]@[j] == d
}
/// `s` lists the recorded declaration ids, each once
pub open spec fn is_recorded_enum(m: Map<GlobalId, Vec<LuaDeclId>>, s: Seq<LuaDeclId>) -> bool {
    s.no_duplicates() && forall|d: LuaDeclId| #[trigger] s.contains(d) <==> recorded(m, d)
}

pub proof fn lemma_flat(m: Map<GlobalId, Vec<LuaDeclId>>, gs: Seq<GlobalId>)
    requires wf_globals(m), gs.no_duplicates(), forall|n: int| 0 <= n < gs.len() ==> m.contains_key(#[trigger] gs[n]),
    ensures
        flat_ids(m, gs).no_duplicates(),
        forall|d: LuaDeclId| #[trigger] flat_ids(m, gs).contains(d) <==> slot_in(m, gs, d),
    decreases gs.len(),
{
    if gs.len() == 0 {
        assert forall|d: LuaDeclId| #[trigger] flat_ids(m, gs).contains(d) <==> slot_in(m, gs, d) by { }
    } else {
        let pre = gs.drop_last();
        let g = gs.last();
        let f0 = flat_ids(m, pre);
        let v = m[g]@;
        let f = flat_ids(m, gs);
        assert(f == f0 + v);
        lemma_flat(m, pre);
        assert forall|d: LuaDeclId| #[trigger] f.contains(d) <==> slot_in(m, gs, d) by {
            if f.contains(d) {
                let i = choose|i: int| 0 <= i < f.len() && f[i] == d;
                if i < f0.len() {
                    assert(f0[i] == d);
                    assert(f0.contains(d));
                    assert(slot_in(m, pre, d));
                    let (n, j) = choose|n: int, j: int| 0 <= n < pre.len() && 0 <= j < m[pre[n]]@.len() && #[trigger] m[pre[n]]@[j] == d;
                    assert(pre[n] == gs[n]);
                    assert(m[gs[n]]@[j] == d);
                } else {
                    assert(v[i - f0.len()] == d);
                    assert(m[gs[gs.len() - 1]]@[i - f0.len()] == d);
                }
            }
            if slot_in(m, gs, d) {
                let (n, j) = choose|n: int, j: int| 0 <= n < gs.len() && 0 <= j < m[gs[n]]@.len() && #[trigger] m[gs[n]]@[j] == d;
                if n < gs.len() - 1 {
                    assert(pre[n] == gs[n]);
                    assert(m[pre[n]]@[j] == d);
                    assert(slot_in(m, pre, d));
                    assert(f0.contains(d));
                    let i = choose|i: int| 0 <= i < f0.len() && f0[i] == d;
                    assert(f[i] == d);
                } else {
                    assert(f[f0.len() + j] == d);
                }
            }
        }
        assert forall|i1: int, i2: int| 0 <= i1 < f.len() && 0 <= i2 < f.len() && i1 != i2 implies f[i1] != f[i2] by {
            if i1 < f0.len() && i2 < f0.len() {
                assert(f0[i1] != f0[i2]);
            } else if i1 >= f0.len() && i2 >= f0.len() {
                let j1 = i1 - f0.len(); let j2 = i2 - f0.len();
                assert(f[i1] == m[g]@[j1] && f[i2] == m[g]@[j2]);
                assert(m.contains_key(gs[gs.len() - 1]));
            } else {
                let (a, b) = if i1 < f0.len() { (i1, i2) } else { (i2, i1) };
                let d = f0[a];
                assert(f0.contains(d));
                assert(slot_in(m, pre, d));
                let (n, j) = choose|n: int, j: int| 0 <= n < pre.len() && 0 <= j < m[pre[n]]@.len() && #[trigger] m[pre[n]]@[j] == d;
                let jb = b - f0.len();
                assert(f[b] == m[g]@[jb]);
                assert(pre[n] == gs[n]);
                assert(m.contains_key(gs[n]) && m.contains_key(gs[gs.len() - 1]));
                if f[a] == f[b] {
                    assert(m[gs[n]]@[j] == m[g]@[jb]);
                    assert(gs[n] == g);
                    assert(false);
                }
            }
        }
    }
}

pub proof fn lemma_slot_enum_values(m: Map<GlobalId, Vec<LuaDeclId>>, gs: Seq<GlobalId>, s: Seq<LuaDeclId>)
    requires wf_globals(m), is_slot_enum(m, gs, s),
    ensures is_recorded_enum(m, s),
{
    assert forall|n: int| 0 <= n < gs.len() implies m.contains_key(#[trigger] gs[n]) by { assert(gs.contains(gs[n])); }
    lemma_flat(m, gs);
    assert forall|d: LuaDeclId| #[trigger] s.contains(d) <==> recorded(m, d) by {
        if slot_in(m, gs, d) {
            let (n, j) = choose|n: int, j: int| 0 <= n < gs.len() && 0 <= j < m[gs[n]]@.len() && #[trigger] m[gs[n]]@[j] == d;
            assert(m.contains_key(gs[n]));
        }
        if recorded(m, d) {
            let (g, j) = choose|g: GlobalId, j: int| m.contains_key(g) && 0 <= j < m[g]@.len() && #[trigger] m[g]@[j] == d;
            assert(gs.contains(g));
            let n = choose|n: int| 0 <= n < gs.len() && gs[n] == g;
            assert(m[gs[n]]@[j] == d);
        }
    }
}

pub proof fn lemma_perm_recorded_enum(m: Map<GlobalId, Vec<LuaDeclId>>, s0: Seq<LuaDeclId>, s1: Seq<LuaDeclId>, p: Seq<int>, q: Seq<int>)
    requires is_recorded_enum(m, s0), is_rearrangement(s0, s1, p, q),
    ensures is_recorded_enum(m, s1),
{
    assert forall|i: int, j: int| 0 <= i < s1.len() && 0 <= j < s1.len() && i != j implies s1[i] != s1[j] by {
        assert(q[p[i]] == i && q[p[j]] == j);
        assert(s1[i] == s0[p[i]] && s1[j] == s0[p[j]]);
    }
    assert forall|d: LuaDeclId| #[trigger] s1.contains(d) <==> recorded(m, d) by {
        if s1.contains(d) {
            let i = choose|i: int| 0 <= i < s1.len() && s1[i] == d;
            assert(s1[i] == s0[p[i]]);
            assert(s0.contains(s0[p[i]]));
        }
        if recorded(m, d) {
            assert(s0.contains(d));
            let j = choose|j: int| 0 <= j < s0.len() && s0[j] == d;
            assert(p[q[j]] == j);
            assert(s1[q[j]] == s0[p[q[j]]]);
        }
    }
}

pub proof fn lemma_globals_finish(db: &DbIndex, ts: Seq<LuaDeclId>, ix: Seq<int>, out: Seq<Global>)
    requires
        is_recorded_enum(global_map(db), ts),
        picks(ts, ix, ts.len() as int, global_sel(db)),
        out.len() == ix.len(),
        forall|n: int| 0 <= n < out.len() ==> global_entry_for(db, #[trigger] out[n], ts[ix[n]]),
    ensures
        globals_exactly_once(db, out),
        globals_only_main(db, out),
        globals_sorted(ts) ==> globals_listing(db, canonical_global_keys(db), out),
{
    let ks = picked(ts, ix);
    assert forall|k: LuaDeclId| (global_sel(db))(k) implies ts.contains(k) by { }
    lemma_picked(ts, ix, global_sel(db), global_lt());
    assert(globals_listing(db, ks, out));
    assert forall|k: LuaDeclId| global_selected(db, k) implies #[trigger] ks.contains(k) by { assert((global_sel(db))(k)); }
    assert forall|i: int| 0 <= i < ks.len() implies global_selected(db, #[trigger] ks[i]) by { assert(ks.contains(ks[i])); assert((global_sel(db))(ks[i])); }
    if globals_sorted(ts) {
        lemma_decl_cmp_laws();
        assert forall|i: int, j: int| 0 <= i < j < ts.len() implies (global_lt())(#[trigger] ts[i], #[trigger] ts[j]) by {
            assert(decl_cmp(ts[i], ts[j]) != Ordering::Greater);
        }
        assert(asymmetric(global_lt())) by {
            assert forall|a: LuaDeclId, b: LuaDeclId| !(#[trigger] (global_lt())(a, b) && (global_lt())(b, a)) by {
                assert(decl_cmp(b, a) == ord_rev(decl_cmp(a, b)));
            }
        }
        lemma_is_canonical(ks, global_sel(db), global_lt());
    }
}
