// unit c10_module — LuaModuleIndex under contract (C10 remove / C33 add+find / C09 clear)
#![feature(allocator_api)]
use vstd::prelude::*;
use std::collections::{HashMap, HashSet};
use std::collections::hash_map::Entry;
use std::alloc::Allocator;
use std::hash::{Hash, BuildHasher};
use std::borrow::Borrow;
verus! {

//@@ FileId
//@@ ModuleNodeId
//@@ WorkspaceId
//@@ ModuleNode
//@@ ModuleVisibility
#[verifier::external_body] pub struct LuaType { _p: () }
#[verifier::external_body] pub struct LuaVersionCondition { _p: () }
#[verifier::external_body] pub struct LuaSemanticDeclId { _p: () }
#[verifier::external_body] pub struct Regex { _p: () }
#[verifier::external_body] pub struct Workspace { _p: () }
//@@ ModuleInfo
//@@ LuaModuleIndex

pub open spec fn keys_ok() -> bool {
    &&& vstd::std_specs::hash::obeys_key_model::<FileId>()
    &&& vstd::std_specs::hash::obeys_key_model::<ModuleNodeId>()
    &&& vstd::std_specs::hash::obeys_key_model::<String>()
}

// ---- std contracts (trusted, restated from the std documentation; same text as unit c10_remove2) -------
pub open spec fn filter_by<T>(s: Seq<T>, keep: Seq<bool>) -> Seq<T>
    decreases s.len()
{
    if s.len() == 0 || keep.len() != s.len() { Seq::empty() }
    else if keep.last() { filter_by(s.drop_last(), keep.drop_last()).push(s.last()) }
    else { filter_by(s.drop_last(), keep.drop_last()) }
}

/// Vec::retain: "Retains only the elements specified by the predicate ... removes all elements e for which
/// f(&e) returns false. This method operates in place, visiting each element exactly once in the original
/// order, and preserves the order of the retained elements."
pub assume_specification<T, A: Allocator, F: FnMut(&T) -> bool>[ Vec::<T, A>::retain ](v: &mut Vec<T, A>, f: F)
    requires
        forall|i: int| 0 <= i < old(v)@.len() ==> call_requires(f, (&#[trigger] old(v)@[i],)),
    ensures
        exists|keep: Seq<bool>| keep.len() == old(v)@.len()
            && (forall|i: int| 0 <= i < keep.len() ==> call_ensures(f, (&old(v)@[i],), #[trigger] keep[i]))
            && final(v)@ == filter_by(old(v)@, keep);

/// HashMap::retain: "Retains only the elements specified by the predicate. In other words, remove all pairs
/// (k, v) for which f(&k, &mut v) returns false. The elements are visited in unsorted (and unspecified) order."
pub assume_specification<K, V, S, A: Allocator, F: FnMut(&K, &mut V) -> bool>[ HashMap::<K, V, S, A>::retain ](m: &mut HashMap<K, V, S, A>, f: F)
    requires
        forall|k: K, v: &mut V| old(m)@.contains_key(k) && *v == old(m)@[k] ==> call_requires(f, (&k, v)),
    ensures
        vstd::std_specs::hash::obeys_key_model::<K>() && vstd::std_specs::hash::builds_valid_hashers::<S>() ==> {
            &&& forall|k: K| #[trigger] final(m)@.contains_key(k) ==> old(m)@.contains_key(k)
            &&& forall|k: K| #[trigger] old(m)@.contains_key(k) ==> exists|v: &mut V, keep: bool| *v == old(m)@[k]
                    && #[trigger] call_ensures(f, (&k, v), keep)
                    && final(m)@.contains_key(k) == keep && (keep ==> final(m)@[k] == *final(v))
        };

/// HashMap::get_mut: "Returns a mutable reference to the value corresponding to the key."
pub assume_specification<'a, K: Eq + Hash + Borrow<Q>, V, S: BuildHasher, A: Allocator, Q: Hash + Eq + ?Sized>[ HashMap::<K, V, S, A>::get_mut ](m: &'a mut HashMap<K, V, S, A>, k: &Q) -> (r: Option<&'a mut V>)
    ensures
        vstd::std_specs::hash::obeys_key_model::<K>() && vstd::std_specs::hash::builds_valid_hashers::<S>() ==> match r {
            Some(v) => vstd::std_specs::hash::contains_borrowed_key(old(m)@, k)
                && vstd::std_specs::hash::maps_borrowed_key_to_value(old(m)@, k, *v)
                && exists|kk: K| #[trigger] old(m)@.contains_key(kk) && old(m)@[kk] == *v
                    && vstd::std_specs::hash::contains_borrowed_key(Map::<K, V>::empty().insert(kk, *v), k)
                    && final(m)@ == old(m)@.insert(kk, *final(v)),
            None => !vstd::std_specs::hash::contains_borrowed_key(old(m)@, k) && final(m)@ == old(m)@,
        };

/// Entry::or_default: "Ensures a value is in the entry by inserting the default value if empty, and returns a mutable reference to the
/// value in the entry." (same shape as vstd's contract of Entry::or_insert, with `V::default()` as the inserted value)
pub assume_specification<'a, K, V: Default>[ Entry::<'a, K, V>::or_default ](entry: Entry<'a, K, V>) -> (r: &'a mut V)
    ensures
        match vstd::std_specs::hash::EntrySpecFns::value(entry) { Some(v) => *r == v, None => call_ensures(V::default, (), *r) },
        vstd::std_specs::hash::EntrySpecFns::final_value(entry) == Some(*final(r));

// ---- strings: the module path is only split at '.', looked up part by part, and joined again -----------------
/// the texts of a vector of string slices
pub open spec fn texts(v: Seq<&str>) -> Seq<Seq<char>> { v.map_values(|p: &str| p@) }
/// str::split('.'): "An iterator over substrings of this string slice, separated by characters matched by a pattern" - the parts
/// are a function of the text; there is one more part than there are separators (so at least one, and at most len + 1)
pub uninterp spec fn dot_parts(s: Seq<char>) -> Seq<Seq<char>>;
#[verifier::external_body]
pub fn vx_split_dot<'a>(s: &'a str) -> (r: Vec<&'a str>)
    ensures texts(r@) == dot_parts(s@), 1 <= r@.len() <= s@.len() + 1,
{ s.split('.').collect() }
/// [&str]::join("."): a function of the parts' texts
pub uninterp spec fn join_dot(parts: Seq<Seq<char>>) -> Seq<char>;
#[verifier::external_body]
pub fn vx_join_dot(v: &Vec<&str>) -> (r: String)
    ensures r@ == join_dot(texts(v@)),
{ v.join(".") }

//@@include c10_module/seq_lemmas.rs

//@@include c10_module/module_spec.rs

pub open spec fn module_wf(s: &LuaModuleIndex) -> bool {
    wf_parts(s.module_nodes@, s.module_root_id, s.file_module_map@, s.module_name_to_file_ids@, s.id_counter)
}

/// the fields that `remove` / `add` / `clear` never write (configuration and the id of the root node)
pub open spec fn config_same(a: &LuaModuleIndex, b: &LuaModuleIndex) -> bool {
    &&& a.module_root_id == b.module_root_id &&& a.id_counter == b.id_counter &&& a.fuzzy_search == b.fuzzy_search
    &&& a.module_patterns == b.module_patterns &&& a.workspaces == b.workspaces &&& a.module_replace_vec == b.module_replace_vec
}
//@@include c10_module/remove_lemmas.rs

impl LuaModuleIndex {
    //@@ LuaModuleIndex::remove
    //@@ LuaModuleIndex::add_module_by_module_path
}

} // verus!
fn main() {}
