// unit c10_module — LuaModuleIndex under contract (C10 remove / C33 add+find / C09 clear)
#![feature(allocator_api)]
use vstd::prelude::*;
use std::collections::{HashMap, HashSet};
use std::collections::hash_map::Entry;
use std::alloc::Allocator;
use std::hash::{Hash, BuildHasher};
use std::borrow::Borrow;
verus! {

//@@ FileId
//@@ ModuleNodeId
//@@ WorkspaceId
//@@ ModuleNode
//@@ ModuleVisibility
#[verifier::external_body] pub struct LuaType { _p: () }
#[verifier::external_body] pub struct LuaVersionCondition { _p: () }
#[verifier::external_body] pub struct LuaSemanticDeclId { _p: () }
#[verifier::external_body] pub struct Regex { _p: () }
#[verifier::external_body] pub struct Workspace { _p: () }
//@@ ModuleInfo
//@@ LuaModuleIndex

pub open spec fn keys_ok() -> bool {
    &&& vstd::std_specs::hash::obeys_key_model::<FileId>()
    &&& vstd::std_specs::hash::obeys_key_model::<ModuleNodeId>()
    &&& vstd::std_specs::hash::obeys_key_model::<String>()
}

// ---- std contracts (trusted, restated from the std documentation; same text as unit c10_remove2) -------
pub open spec fn filter_by<T>(s: Seq<T>, keep: Seq<bool>) -> Seq<T>
    decreases s.len()
{
    if s.len() == 0 || keep.len() != s.len() { Seq::empty() }
    else if keep.last() { filter_by(s.drop_last(), keep.drop_last()).push(s.last()) }
    else { filter_by(s.drop_last(), keep.drop_last()) }
}

/// Vec::retain: "Retains only the elements specified by the predicate ... removes all elements e for which
/// f(&e) returns false. This method operates in place, visiting each element exactly once in the original
/// order, and preserves the order of the retained elements."
pub assume_specification<T, A: Allocator, F: FnMut(&T) -> bool>[ Vec::<T, A>::retain ](v: &mut Vec<T, A>, f: F)
    requires
        forall|i: int| 0 <= i < old(v)@.len() ==> call_requires(f, (&#[trigger] old(v)@[i],)),
    ensures
        exists|keep: Seq<bool>| keep.len() == old(v)@.len()
            && (forall|i: int| 0 <= i < keep.len() ==> call_ensures(f, (&old(v)@[i],), #[trigger] keep[i]))
            && final(v)@ == filter_by(old(v)@, keep);

/// HashMap::retain: "Retains only the elements specified by the predicate. In other words, remove all pairs
/// (k, v) for which f(&k, &mut v) returns false. The elements are visited in unsorted (and unspecified) order."
pub assume_specification<K, V, S, A: Allocator, F: FnMut(&K, &mut V) -> bool>[ HashMap::<K, V, S, A>::retain ](m: &mut HashMap<K, V, S, A>, f: F)
    requires
        forall|k: K, v: &mut V| old(m)@.contains_key(k) && *v == old(m)@[k] ==> call_requires(f, (&k, v)),
    ensures
        vstd::std_specs::hash::obeys_key_model::<K>() && vstd::std_specs::hash::builds_valid_hashers::<S>() ==> {
            &&& forall|k: K| #[trigger] final(m)@.contains_key(k) ==> old(m)@.contains_key(k)
            &&& forall|k: K| #[trigger] old(m)@.contains_key(k) ==> exists|v: &mut V, keep: bool| *v == old(m)@[k]
                    && #[trigger] call_ensures(f, (&k, v), keep)
                    && final(m)@.contains_key(k) == keep && (keep ==> final(m)@[k] == *final(v))
        };

/// HashMap::get_mut: "Returns a mutable reference to the value corresponding to the key."
pub assume_specification<'a, K: Eq + Hash + Borrow<Q>, V, S: BuildHasher, A: Allocator, Q: Hash + Eq + ?Sized>[ HashMap::<K, V, S, A>::get_mut ](m: &'a mut HashMap<K, V, S, A>, k: &Q) -> (r: Option<&'a mut V>)
    ensures
        vstd::std_specs::hash::obeys_key_model::<K>() && vstd::std_specs::hash::builds_valid_hashers::<S>() ==> match r {
            Some(v) => vstd::std_specs::hash::contains_borrowed_key(old(m)@, k)
                && vstd::std_specs::hash::maps_borrowed_key_to_value(old(m)@, k, *v)
                && exists|kk: K| #[trigger] old(m)@.contains_key(kk) && old(m)@[kk] == *v
                    && vstd::std_specs::hash::contains_borrowed_key(Map::<K, V>::empty().insert(kk, *v), k)
                    && final(m)@ == old(m)@.insert(kk, *final(v)),
            None => !vstd::std_specs::hash::contains_borrowed_key(old(m)@, k) && final(m)@ == old(m)@,
        };

/// Entry::or_default: "Ensures a value is in the entry by inserting the default value if empty, and returns a mutable reference to the
/// value in the entry." (same shape as vstd's contract of Entry::or_insert, with `V::default()` as the inserted value)
pub assume_specification<'a, K, V: Default>[ Entry::<'a, K, V>::or_default ](entry: Entry<'a, K, V>) -> (r: &'a mut V)
    ensures
        match vstd::std_specs::hash::EntrySpecFns::value(entry) { Some(v) => *r == v, None => call_ensures(V::default, (), *r) },
        vstd::std_specs::hash::EntrySpecFns::final_value(entry) == Some(*final(r));

// ---- strings: the module path is only split at '.', looked up part by part, and joined again -----------------
/// the texts of a vector of string slices
pub open spec fn texts(v: Seq<&str>) -> Seq<Seq<char>> { v.map_values(|p: &str| p@) }
/// str::split('.'): "An iterator over substrings of this string slice, separated by characters matched by a pattern" - the parts
/// are a function of the text; there is one more part than there are separators (so at least one, and at most len + 1)
pub uninterp spec fn dot_parts(s: Seq<char>) -> Seq<Seq<char>>;
#[verifier::external_body]
pub fn vx_split_dot<'a>(s: &'a str) -> (r: Vec<&'a str>)
    ensures texts(r@) == dot_parts(s@), 1 <= r@.len() <= s@.len() + 1,
{ s.split('.').collect() }
/// HashMap<String, V>::get(&str): "Returns a reference to the value corresponding to the key. The key may be any borrowed form of the
/// map's key type, but Hash and Eq on the borrowed form must match those for the key type" - String: Borrow<str>, equal iff same text.
/// vstd gives no meaning to a `&str` lookup in a String-keyed map; this helper (its body is that very call) carries the contract.
#[verifier::external_body]
pub fn vx_get_str_key<'a, V>(m: &'a HashMap<String, V>, k: &str) -> (r: Option<&'a V>)
    ensures match r {
        Some(v) => exists|s: String| #[trigger] m@.contains_key(s) && s@ == k@ && m@[s] == *v,
        None => forall|s: String| #[trigger] m@.contains_key(s) ==> s@ != k@,
    }
{ m.get(k) }
/// <&str as ToString>::to_string: "Converts the given value to a String" through Display, and `Display for &T` forwards to `T`
#[verifier::external_body]
pub fn vx_ref_str_to_string(s: &&str) -> (r: String)
    ensures r@ == s@,
{ s.to_string() }
/// str::replace(['\\', '/'], "."): a function of the text
pub uninterp spec fn seps_to_dots(s: Seq<char>) -> Seq<char>;
#[verifier::external_body]
pub fn vx_seps_to_dots(s: &str) -> (r: String)
    ensures r@ == seps_to_dots(s@),
{ s.replace(['\\', '/'], ".") }
#[verifier::external_body]
pub fn vx_opt_string_as_str(o: &Option<String>) -> (r: Option<&str>)
    ensures match (*o, r) { (Some(s), Some(d)) => d@ == s@, (None, None) => true, _ => false },
{ o.as_deref() }
pub uninterp spec fn module_map_rewrite(rules: Vec<(Regex, String)>, s: Seq<char>) -> Seq<char>;
/// [&str]::join("."): a function of the parts' texts
pub uninterp spec fn join_dot(parts: Seq<Seq<char>>) -> Seq<char>;
#[verifier::external_body]
pub fn vx_join_dot(v: &Vec<&str>) -> (r: String)
    ensures r@ == join_dot(texts(v@)),
{ v.join(".") }

//@@include c10_module/seq_lemmas.rs

//@@include c10_module/module_spec.rs

pub open spec fn module_wf(s: &LuaModuleIndex) -> bool {
    wf_parts(s.module_nodes@, s.module_root_id, s.file_module_map@, s.module_name_to_file_ids@, s.id_counter)
}

/// the fields that `remove` / `add` / `clear` never write (configuration and the id of the root node)
pub open spec fn config_same(a: &LuaModuleIndex, b: &LuaModuleIndex) -> bool {
    &&& a.module_root_id == b.module_root_id &&& a.fuzzy_search == b.fuzzy_search
    &&& a.module_patterns == b.module_patterns &&& a.workspaces == b.workspaces &&& a.module_replace_vec == b.module_replace_vec
}
//@@include c10_module/remove_lemmas.rs
//@@include c10_module/add_spec.rs
//@@include c10_module/find_spec.rs

/// what `add_module_by_module_path` puts into the file map: a fresh ModuleInfo (not meta, default visibility, nothing exported yet)
pub open spec fn info_fresh(i: ModuleInfo, f: FileId, ws: WorkspaceId, parts: Seq<Seq<char>>) -> bool {
    &&& i.file_id == f &&& i.workspace_id == ws &&& !i.is_meta &&& i.export_type is None &&& i.version_conds is None &&& i.semantic_id is None
    &&& i.full_module_name@ == join_dot(parts) &&& i.name@ == parts.last()
}

/// derive(Default): "the Default implementation of each field type is used": Option -> None, HashMap -> empty, Vec -> empty
pub assume_specification[ <ModuleNode as Default>::default ]() -> (r: ModuleNode)
    ensures root_node_fresh(r);
pub open spec fn root_node_fresh(r: ModuleNode) -> bool {
    r.parent is None && r.children@ == Map::<String, ModuleNodeId>::empty() && r.file_ids@ == Seq::<FileId>::empty()
}

/// everything but the file map is unchanged
pub open spec fn rest_same(a: &LuaModuleIndex, b: &LuaModuleIndex) -> bool {
    &&& config_same(a, b) &&& a.id_counter == b.id_counter &&& a.module_nodes == b.module_nodes &&& a.module_name_to_file_ids == b.module_name_to_file_ids
}
/// `LuaModuleIndex::is_meta_file`
pub open spec fn is_meta(s: &LuaModuleIndex, f: FileId) -> bool { s.file_module_map@.contains_key(f) && s.file_module_map@[f].is_meta }

/// `r` is the answer to the lookup of the path with parts `parts`: the ModuleInfo of the file it resolves to, or nothing
pub open spec fn found(s: &LuaModuleIndex, r: Option<&ModuleInfo>, parts: Seq<Seq<char>>) -> bool {
    match r {
        Some(i) => find_spec(s.module_nodes@, s.module_root_id, s.file_module_map@, parts) is Some
            && *i == s.file_module_map@[find_spec(s.module_nodes@, s.module_root_id, s.file_module_map@, parts)->0],
        None => find_spec(s.module_nodes@, s.module_root_id, s.file_module_map@, parts) is None,
    }
}
/// `find_module_node`: the empty path is the root; otherwise separators become dots and the parts are followed from the root
pub open spec fn node_of_path(s: &LuaModuleIndex, path: Seq<char>) -> Option<ModuleNodeId> {
    if path.len() == 0 { Some(s.module_root_id) } else { resolve(s.module_nodes@, s.module_root_id, dot_parts(seps_to_dots(path))) }
}
pub uninterp spec fn spec_extract_module_path(ws: Vec<Workspace>, pats: Vec<Regex>, path: Seq<char>) -> Option<(String, WorkspaceId)>;
/// the module path (text) and workspace `add_module_by_path` registers a file path under: extracted, separators turned into dots,
/// rewritten by the moduleMap rules when there are any
pub open spec fn path_module(s: &LuaModuleIndex, path: Seq<char>) -> Option<(Seq<char>, WorkspaceId)> {
    match spec_extract_module_path(s.workspaces, s.module_patterns, path) {
        Some((mp, ws)) => Some((if s.module_replace_vec@.len() > 0 { module_map_rewrite(s.module_replace_vec, seps_to_dots(mp@)) } else { seps_to_dots(mp@) }, ws)),
        None => None,
    }
}
impl ModuleVisibility {
    //@@ ModuleVisibility::is_hidden
}
impl ModuleInfo {
    //@@ ModuleInfo::set_visibility
}

impl LuaModuleIndex {
    //@@ LuaModuleIndex::set_meta
    //@@ LuaModuleIndex::is_meta_file
    //@@ LuaModuleIndex::set_module_visibility
    //@@ LuaModuleIndex::get_module
    //@@ LuaModuleIndex::new
    //@@ LuaModuleIndex::clear
    //@@ LuaModuleIndex::remove
    //@@ LuaModuleIndex::add_module_by_module_path
    //@@ LuaModuleIndex::add_module_by_path
    /// shim of the callee (std::path prefix stripping, WorkspaceImport filter, regex patterns): an uninterpreted function of the
    /// workspace list, the pattern list and the path - the only things the real function reads
    #[verifier::external_body]
    pub fn extract_module_path(&self, path: &str) -> (r: Option<(String, WorkspaceId)>)
        ensures r == spec_extract_module_path(self.workspaces, self.module_patterns, path@),
    { unimplemented!() }
    //@@ LuaModuleIndex::exact_find_module
    //@@ LuaModuleIndex::find_module_by_normalized_path
    //@@ LuaModuleIndex::find_module
    //@@ LuaModuleIndex::find_module_node
    /// shim of the callee (regex rewriting by the user's `workspace.moduleMap`): an uninterpreted function of the rule list and the text
    #[verifier::external_body]
    pub fn replace_module_path(&self, module_path: &str) -> (r: String)
        ensures r@ == module_map_rewrite(self.module_replace_vec, module_path@),
    { unimplemented!() }
    /// shim of the callee (suffix search through `module_name_to_file_ids`; iterator adapters are outside the dialect): NO contract
    #[verifier::external_body]
    pub fn fuzzy_find_module(&self, module_path: &str, last_name: &str) -> (r: Option<&ModuleInfo>)
    { unimplemented!() }
}

// ---- C20: `---@meta` marks the file as a meta file (statement slice of analyze_doc_tag_meta) ---------------------
/// projection of `DeclAnalyzer` to the two members the slice writes besides the module index (`db` is the explicit `index` parameter)
pub struct DeclAnalyzerMetaSink { pub is_meta: bool, pub context: AnalyzeContext }
#[verifier::external_body] pub struct AnalyzeContext { _p: () }
impl AnalyzeContext { #[verifier::external_body] pub fn add_meta(&mut self, file_id: FileId) { unimplemented!() } }
/// syntax-tree accessors: opaque (rowan); the name token and its text are uninterpreted functions of the tag
#[verifier::external_body] pub struct LuaDocTagMeta { _p: () }
#[verifier::external_body] pub struct LuaNameToken { _p: () }
impl LuaDocTagMeta {
    pub uninterp spec fn name_token(&self) -> Option<LuaNameToken>;
    #[verifier::external_body] pub fn get_name_token(&self) -> (r: Option<LuaNameToken>) ensures r == self.name_token() { unimplemented!() }
}
impl LuaNameToken {
    pub uninterp spec fn text(&self) -> Seq<char>;
    #[verifier::external_body] pub fn get_name_text(&self) -> (r: &str) ensures r@ == self.text() { unimplemented!() }
}
//@@ analyze_doc_tag_meta::mark

} // verus!
fn main() {}
