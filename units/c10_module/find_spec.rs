// ---- resolution of a require path (exact_find_module / find_module_node) -----------------------------------------
pub open spec fn hidden(i: ModuleInfo) -> bool { i.visible == ModuleVisibility::Hide }

/// index of the first file at or after `from` whose module is not hidden (`fs.len()` if there is none)
pub open spec fn first_shown(fs: Seq<FileId>, fm: FileMap, from: int) -> int
    decreases fs.len() - from
{
    if from < 0 || from >= fs.len() { fs.len() as int } else if !hidden(fm[fs[from]]) { from } else { first_shown(fs, fm, from + 1) }
}

/// the file `exact_find_module` answers with, among the files a node lists: the only one; of several the first that is not hidden,
/// or the very first when all are hidden
pub open spec fn picked(fs: Seq<FileId>, fm: FileMap) -> Option<FileId> {
    if fs.len() == 0 { None } else if fs.len() == 1 { Some(fs[0]) }
    else if first_shown(fs, fm, 0) < fs.len() { Some(fs[first_shown(fs, fm, 0)]) } else { Some(fs[0]) }
}

/// the file a path (given by the texts of its parts) resolves to
pub open spec fn find_spec(n: Nodes, root: ModuleNodeId, fm: FileMap, parts: Seq<Seq<char>>) -> Option<FileId> {
    match resolve(n, root, parts) {
        Some(x) => if n.contains_key(x) { picked(n[x].file_ids@, fm) } else { None },
        None => None,
    }
}

pub proof fn lemma_resolve_exists(n: Nodes, root: ModuleNodeId, ex: Option<ModuleNodeId>, parts: Seq<Seq<char>>)
    requires tree_wf_ex(n, root, ex), resolve(n, root, parts) is Some,
    ensures n.contains_key(resolve(n, root, parts)->0),
{
    if parts.len() > 0 {
        let p = resolve(n, root, parts.drop_last())->0;
        let ch = n[p].children@;
        let k = choose|k: String| #[trigger] ch.contains_key(k) && k@ == parts.last();
        assert(has_child(n, p, k));
    }
}

/// a path whose prefix does not resolve does not resolve
pub proof fn lemma_resolve_prefix_none(n: Nodes, root: ModuleNodeId, parts: Seq<Seq<char>>, i: int)
    requires 0 <= i <= parts.len(), resolve(n, root, parts.take(i)) is None,
    ensures resolve(n, root, parts) is None,
    decreases parts.len() - i
{
    if i < parts.len() {
        assert(parts.take(i + 1).drop_last() =~= parts.take(i));
        lemma_resolve_prefix_none(n, root, parts, i + 1);
    } else {
        assert(parts.take(i) =~= parts);
    }
}

/// one step of the walk
pub proof fn lemma_resolve_step(n: Nodes, root: ModuleNodeId, parts: Seq<Seq<char>>, i: int)
    requires 0 <= i < parts.len(),
    ensures resolve(n, root, parts.take(i + 1)) == (match resolve(n, root, parts.take(i)) {
            Some(p) => if n.contains_key(p) { child_by_text(n[p].children@, parts[i]) } else { None },
            None => None }),
{
    assert(parts.take(i + 1).drop_last() =~= parts.take(i));
    assert(parts.take(i + 1).last() == parts[i]);
}

/// C33 "removing the file makes it unresolvable": if the path resolved to a node that listed only `f`, then after `remove(f)`
/// (tree swept as `remove` ensures) the path finds nothing
pub proof fn lemma_removed_is_unresolvable(n: Nodes, m: Nodes, root: ModuleNodeId, fm: FileMap, f: FileId, parts: Seq<Seq<char>>)
    requires tree_wf(n, root), tree_wf(m, root), tree_swept(n, m, root, f),
        resolve(n, root, parts) is Some, n[resolve(n, root, parts)->0].file_ids@ =~= seq![f],
    ensures find_spec(m, root, fm.remove(f), parts) is None /*@C33.module.removed-is-unresolvable*/,
{
    if resolve(m, root, parts) is Some {
        // every child entry of the swept tree is an entry of the old tree: the path resolves to the same node there
        lemma_resolve_mono(m, n, root, None, parts);
        let x = resolve(m, root, parts)->0;
        if m.contains_key(x) {
            lemma_fids_not_gone(n[x].file_ids@, f);
            lemma_fids_not_contains(n[x].file_ids@, f, m[x].file_ids@[0]);
            if m[x].file_ids@.len() > 0 {
                assert(m[x].file_ids@.contains(m[x].file_ids@[0]));
                assert(n[x].file_ids@.contains(m[x].file_ids@[0]));
                let j = choose|j: int| 0 <= j < n[x].file_ids@.len() && n[x].file_ids@[j] == m[x].file_ids@[0];
                assert(n[x].file_ids@[j] == f);
            }
        }
    }
}

/// `first_module` of exact_find_module's second loop: the info of the node's first file once one file has been looked at
pub open spec fn first_is(o: Option<&ModuleInfo>, idx: int, fm: FileMap, fs: Seq<FileId>) -> bool {
    match o { Some(i) => idx > 0 && *i == fm[fs[0]], None => idx == 0 }
}

/// FINDING witness (C08 "re-submitting an unchanged file leaves module resolution unchanged" / C33 "the choice among files sharing a
/// module name"): the choice depends on the ORDER of a node's file list, and re-registering a file - which is what re-submitting the
/// unchanged file does: `remove` leaves `fids_not(files, a)` (C10.module.no-dead-node), `add_module_by_module_path` pushes `a` at the
/// end (tree_added) - moves it behind the others. With two visible files [a, b] under one module path the path resolves to `a`
/// before and to `b` after the re-submission of `a`. (This lemma VERIFIES: it is a machine-checked counterexample built from the
/// exact contracts of remove / add / exact_find_module, not an obligation of the unit.)
pub proof fn lemma_resubmission_changes_choice(a: FileId, b: FileId, fm: FileMap)
    requires a != b, !hidden(fm[a]), !hidden(fm[b]),
    ensures picked(seq![a, b], fm) == Some(a), picked(fids_not(seq![a, b], a).push(a), fm) == Some(b),
{
    let s = seq![a, b];
    assert(first_shown(s, fm, 0) == 0);
    lemma_fids_not_contains(s, a, b);
    lemma_fids_not_gone(s, a);
    lemma_filter_len(s, not_file(a));
    let t = fids_not(s, a);
    assert(s[1] == b && s.contains(b));
    assert(t.contains(b));
    // t has no `a`, has `b`, and is a sub-list of a two-element list: t == [b]
    assert(t.len() >= 1);
    lemma_fids_not_nodup_pair(a, b);
    assert(t =~= seq![b]);
    let u = t.push(a);
    assert(u =~= seq![b, a]);
    assert(first_shown(u, fm, 0) == 0);
}

pub proof fn lemma_fids_not_nodup_pair(a: FileId, b: FileId)
    requires a != b,
    ensures fids_not(seq![a, b], a) =~= seq![b],
{
    reveal_with_fuel(Seq::filter, 4);
    let s = seq![a, b];
    let p = not_file(a);
    let s1 = s.drop_last();
    assert(s1 =~= seq![a]);
    assert(s1.len() == 1 && s1.last() == a && !p(a));
    let s0 = s1.drop_last();
    assert(s0.len() == 0);
    assert(s0.filter(p) =~= Seq::<FileId>::empty());
    assert(s1.filter(p) =~= Seq::<FileId>::empty());
    assert(s.last() == b && p(b));
    assert(s.filter(p) =~= s1.filter(p).push(b));
}
