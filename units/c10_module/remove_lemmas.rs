// ---- lemmas for LuaModuleIndex::remove (bodies verified) -------------------------------------------------
/// what `children.retain(|_, id| *id != c)` leaves
pub open spec fn ch_swept(o: Map<String, ModuleNodeId>, n: Map<String, ModuleNodeId>, c: ModuleNodeId) -> bool {
    &&& forall|k: String| #[trigger] n.contains_key(k) <==> o.contains_key(k) && o[k] != c
    &&& forall|k: String| #[trigger] n.contains_key(k) ==> n[k] == o[k]
}

/// the tree after `remove(f)` (the statement of C10 for the node map): see `rm_inv`
pub open spec fn tree_swept(n: Nodes, m: Nodes, root: ModuleNodeId, f: FileId) -> bool { rm_inv(n, m, root, f, None, root) }

/// the file is not registered: the node map is untouched and satisfies the sweep relation
#[verifier::spinoff_prover]
pub proof fn lemma_rm_no_file(n: Nodes, root: ModuleNodeId, fm: FileMap, f: FileId)
    requires tree_wf(n, root), files_wf(n, fm), !fm.contains_key(f),
    ensures rm_inv(n, n, root, f, None, root),
{
    assert forall|x: ModuleNodeId| #[trigger] n.contains_key(x) implies n[x].file_ids@ == fids_not(n[x].file_ids@, f) by {
        if n[x].file_ids@.contains(f) { assert(lists(n, x, f)); }
        lemma_fids_not_absent(n[x].file_ids@, f);
    }
}

/// the file's node `x` stays (it is the root, or still has a file or a child); `nd` is the node with `f` dropped from its list
#[verifier::spinoff_prover]
pub proof fn lemma_rm_first_kept(n: Nodes, root: ModuleNodeId, fm: FileMap, f: FileId, x: ModuleNodeId, nd: ModuleNode, m: Nodes)
    requires tree_wf(n, root), files_wf(n, fm), fm.contains_key(f), x == fm[f].module_id,
        nd.parent == n[x].parent, nd.children@ == n[x].children@, nd.file_ids@ == fids_not(n[x].file_ids@, f),
        x == root || live(nd), m == n.insert(x, nd),
    ensures rm_inv(n, m, root, f, None, root),
{
    assert(lists(n, x, f));
    assert forall|y: ModuleNodeId| #[trigger] m.contains_key(y) implies n.contains_key(y) && m[y].parent == n[y].parent
            && m[y].file_ids@ == fids_not(n[y].file_ids@, f) by {
        if y != x {
            if n[y].file_ids@.contains(f) { assert(lists(n, y, f)); }
            lemma_fids_not_absent(n[y].file_ids@, f);
        }
    }
    assert forall|y: ModuleNodeId, name: String| #[trigger] has_child(m, y, name) implies has_child(n, y, name) && child(m, y, name) == child(n, y, name) by {}
    assert forall|y: ModuleNodeId, name: String| #[trigger] has_child(n, y, name) && m.contains_key(y) implies
            (has_child(m, y, name) <==> m.contains_key(child(n, y, name)) || (None::<ModuleNodeId> == Some(y) && child(n, y, name) == root)) by {}
    assert forall|y: ModuleNodeId| #[trigger] m.contains_key(y) && y != root implies live(m[y]) by {
        if y != x { assert(n.contains_key(y)); }
    }
}

/// the file's node `x` is dropped (no other file, no child, not the root): its parent becomes the pending node
#[verifier::spinoff_prover]
pub proof fn lemma_rm_first_removed(n: Nodes, root: ModuleNodeId, fm: FileMap, f: FileId, x: ModuleNodeId, m: Nodes)
    requires tree_wf(n, root), files_wf(n, fm), fm.contains_key(f), x == fm[f].module_id,
        x != root, fids_not(n[x].file_ids@, f).len() == 0, n[x].children@.dom().is_empty(), m == n.remove(x),
    ensures rm_inv(n, m, root, f, n[x].parent, x), n.contains_key(x), !m.contains_key(x),
{
    assert(lists(n, x, f));
    assert forall|y: ModuleNodeId| #[trigger] m.contains_key(y) implies n.contains_key(y) && m[y].parent == n[y].parent
            && m[y].file_ids@ == fids_not(n[y].file_ids@, f) by {
        if n[y].file_ids@.contains(f) { assert(lists(n, y, f)); }
        lemma_fids_not_absent(n[y].file_ids@, f);
    }
    assert forall|y: ModuleNodeId, name: String| #[trigger] has_child(m, y, name) implies has_child(n, y, name) && child(m, y, name) == child(n, y, name) by {}
    assert forall|y: ModuleNodeId, name: String| #[trigger] has_child(n, y, name) && m.contains_key(y) implies
            (has_child(m, y, name) <==> m.contains_key(child(n, y, name)) || (n[x].parent == Some(y) && child(n, y, name) == x)) by {
        assert(has_child(m, y, name));
    }
    assert forall|y: ModuleNodeId, name: String| #[trigger] has_child(n, y, name) && !m.contains_key(y) implies !m.contains_key(child(n, y, name)) by {
        assert(y == x);
        assert(n[x].children@.dom().contains(name));
    }
    assert forall|y: ModuleNodeId| #[trigger] m.contains_key(y) && y != root && n[x].parent != Some(y) implies live(m[y]) by {
        assert(n.contains_key(y));
    }
}

/// the pending parent is gone from the map (defensive `None => break` of the loop): nothing is pending
#[verifier::spinoff_prover]
pub proof fn lemma_rm_pending_absent(n: Nodes, m: Nodes, root: ModuleNodeId, f: FileId, id: ModuleNodeId, c: ModuleNodeId)
    requires rm_inv(n, m, root, f, Some(id), c), !m.contains_key(id),
    ensures rm_inv(n, m, root, f, None, root),
{
}

/// the pending parent `id` had its entry of `c` swept and stays (root, or still live): nothing is pending any more
#[verifier::spinoff_prover]
pub proof fn lemma_rm_step_kept(n: Nodes, m: Nodes, m1: Nodes, root: ModuleNodeId, f: FileId, id: ModuleNodeId, c: ModuleNodeId, nd: ModuleNode)
    requires rm_inv(n, m, root, f, Some(id), c), m.contains_key(id), !m.contains_key(c), m1 == m.insert(id, nd),
        nd.parent == m[id].parent, nd.file_ids@ == m[id].file_ids@, ch_swept(m[id].children@, nd.children@, c),
        id == root || live(nd),
    ensures rm_inv(n, m1, root, f, None, root),
{
    assert forall|x: ModuleNodeId, name: String| #[trigger] has_child(m1, x, name) implies has_child(n, x, name) && child(m1, x, name) == child(n, x, name) by {
        assert(has_child(m, x, name));
    }
    assert forall|x: ModuleNodeId, name: String| #[trigger] has_child(n, x, name) && m1.contains_key(x) implies
            (has_child(m1, x, name) <==> m1.contains_key(child(n, x, name))) by {
        assert(m.contains_key(x));
        if x == id {
            if has_child(m, x, name) { assert(child(m, x, name) == child(n, x, name)); }
        } else {
            assert(has_child(m1, x, name) == has_child(m, x, name));
        }
    }
    assert forall|x: ModuleNodeId| #[trigger] m1.contains_key(x) && x != root implies live(m1[x]) by {
        if x != id { assert(m.contains_key(x)); }
    }
}

/// the pending parent `id` had its entry of `c` swept, is dead and not the root: it is dropped and its own parent becomes pending
#[verifier::spinoff_prover]
pub proof fn lemma_rm_step_removed(n: Nodes, m: Nodes, m2: Nodes, root: ModuleNodeId, f: FileId, id: ModuleNodeId, c: ModuleNodeId)
    requires tree_wf(n, root), rm_inv(n, m, root, f, Some(id), c), m.contains_key(id), !m.contains_key(c), id != root,
        m[id].file_ids@.len() == 0,
        forall|name: String| #[trigger] m[id].children@.contains_key(name) ==> m[id].children@[name] == c,
        m2 == m.remove(id),
    ensures rm_inv(n, m2, root, f, n[id].parent, id), n.contains_key(id), !m2.contains_key(id), m2.len() < m.len(),
{
    assert forall|x: ModuleNodeId, name: String| #[trigger] has_child(m2, x, name) implies has_child(n, x, name) && child(m2, x, name) == child(n, x, name) by {
        assert(has_child(m, x, name));
    }
    assert forall|x: ModuleNodeId, name: String| #[trigger] has_child(n, x, name) && m2.contains_key(x) implies
            (has_child(m2, x, name) <==> m2.contains_key(child(n, x, name)) || (n[id].parent == Some(x) && child(n, x, name) == id)) by {
        assert(m.contains_key(x) && x != id);
        assert(has_child(m2, x, name) == has_child(m, x, name));
        if child(n, x, name) == id {
            assert(n[id].parent == Some(x));
        }
    }
    assert forall|x: ModuleNodeId, name: String| #[trigger] has_child(n, x, name) && !m2.contains_key(x) implies !m2.contains_key(child(n, x, name)) by {
        if x == id {
            if m.contains_key(child(n, x, name)) {
                assert(has_child(m, x, name));
                assert(child(m, x, name) == child(n, x, name));
            }
        }
    }
    assert forall|x: ModuleNodeId| #[trigger] m2.contains_key(x) && x != root && n[id].parent != Some(x) implies live(m2[x]) by {
        assert(m.contains_key(x));
    }
}

/// end of `remove`: the swept tree, the file map without `f` and the swept name table satisfy the invariant again,
/// and no node lists `f`
#[verifier::spinoff_prover]
pub proof fn lemma_rm_final(n: Nodes, root: ModuleNodeId, fm: FileMap, nt: NameTable, counter: u32, f: FileId, m: Nodes, nt1: NameTable)
    requires wf_parts(n, root, fm, nt, counter), rm_inv(n, m, root, f, None, root), names_swept(nt, nt1, f),
    ensures wf_parts(m, root, fm.remove(f), nt1, counter),
        forall|x: ModuleNodeId| #[trigger] m.contains_key(x) ==> !m[x].file_ids@.contains(f),
{
    lemma_rm_final_tree(n, root, f, m);
    lemma_rm_final_rooted(n, root, f, m);
    lemma_rm_final_files(n, root, fm, f, m);
    let fm1 = fm.remove(f);
    assert forall|k: String, g: FileId| nt1.contains_key(k) && #[trigger] nt1[k]@.contains(g) implies fm1.contains_key(g) by {
        lemma_fids_not_contains(nt[k]@, f, g);
    }
}

#[verifier::spinoff_prover]
pub proof fn lemma_rm_final_tree(n: Nodes, root: ModuleNodeId, f: FileId, m: Nodes)
    requires tree_wf(n, root), rm_inv(n, m, root, f, None, root),
    ensures tree_wf(m, root),
{
    assert forall|x: ModuleNodeId| #[trigger] m.contains_key(x) && x != root implies m[x].parent is Some && m.contains_key(m[x].parent->0)
            && exists|name: String| #[trigger] has_child(m, m[x].parent->0, name) && child(m, m[x].parent->0, name) == x by {
        assert(n.contains_key(x));
        let p = n[x].parent->0;
        let name = choose|name: String| #[trigger] has_child(n, p, name) && child(n, p, name) == x;
        assert(has_child(n, p, name));
        assert(m.contains_key(p));
        assert(has_child(m, p, name));
    }
    assert forall|p: ModuleNodeId, a: String, b: String| #[trigger] has_child(m, p, a) && #[trigger] has_child(m, p, b) && child(m, p, a) == child(m, p, b) implies a == b by {
        assert(has_child(n, p, a) && has_child(n, p, b));
    }
    assert forall|p: ModuleNodeId, a: String, b: String| #[trigger] has_child(m, p, a) && #[trigger] has_child(m, p, b) && a@ == b@ implies a == b by {
        assert(has_child(n, p, a) && has_child(n, p, b));
    }
    assert forall|p: ModuleNodeId, name: String| #[trigger] has_child(m, p, name) implies m.contains_key(child(m, p, name)) && m[child(m, p, name)].parent == Some(p) by {
        assert(has_child(n, p, name));
    }
}

#[verifier::spinoff_prover]
pub proof fn lemma_rm_final_files(n: Nodes, root: ModuleNodeId, fm: FileMap, f: FileId, m: Nodes)
    requires files_wf(n, fm), rm_inv(n, m, root, f, None, root),
    ensures files_wf(m, fm.remove(f)),
        forall|x: ModuleNodeId| #[trigger] m.contains_key(x) ==> !m[x].file_ids@.contains(f),
{
    let fm1 = fm.remove(f);
    assert forall|g: FileId| #[trigger] fm1.contains_key(g) implies lists(m, fm1[g].module_id, g) && fm1[g].file_id == g by {
        let x = fm[g].module_id;
        assert(lists(n, x, g));
        lemma_fids_not_contains(n[x].file_ids@, f, g);
        if !m.contains_key(x) {
            assert(fids_not(n[x].file_ids@, f).len() == 0);
            let j = choose|j: int| 0 <= j < fids_not(n[x].file_ids@, f).len() && fids_not(n[x].file_ids@, f)[j] == g;
        }
    }
    assert forall|x: ModuleNodeId, g: FileId| #[trigger] lists(m, x, g) implies fm1.contains_key(g) && fm1[g].module_id == x by {
        lemma_fids_not_contains(n[x].file_ids@, f, g);
        assert(lists(n, x, g));
    }
    assert forall|x: ModuleNodeId| #[trigger] m.contains_key(x) implies m[x].file_ids@.no_duplicates() && !m[x].file_ids@.contains(f) by {
        assert(n.contains_key(x));
        lemma_fids_not_nodup(n[x].file_ids@, f);
        lemma_fids_not_gone(n[x].file_ids@, f);
    }
}

pub proof fn names_no_file(o: NameTable, n: NameTable, f: FileId)
    requires names_swept(o, n, f),
    ensures forall|k: String| #[trigger] n.contains_key(k) ==> !n[k]@.contains(f) && n[k]@.len() > 0,
{
    assert forall|k: String| #[trigger] n.contains_key(k) implies !n[k]@.contains(f) && n[k]@.len() > 0 by { lemma_fids_not_gone(o[k]@, f); }
}

/// a kept node keeps its whole ancestor chain (a removed node has all its children removed)
pub proof fn lemma_anc_swept(n: Nodes, m: Nodes, root: ModuleNodeId, f: FileId, x: ModuleNodeId, d: nat)
    requires tree_wf(n, root), rm_inv(n, m, root, f, None, root), m.contains_key(x), anc(n, x, d) == Some(root),
    ensures anc(m, x, d) == Some(root),
    decreases d
{
    if d > 0 {
        assert(n.contains_key(x));
        let p = n[x].parent->0;
        assert(x != root);
        let name = choose|name: String| #[trigger] has_child(n, p, name) && child(n, p, name) == x;
        assert(has_child(n, p, name));
        assert(m.contains_key(p));
        lemma_anc_swept(n, m, root, f, p, (d - 1) as nat);
    }
}

#[verifier::spinoff_prover]
pub proof fn lemma_rm_final_rooted(n: Nodes, root: ModuleNodeId, f: FileId, m: Nodes)
    requires tree_wf(n, root), rooted(n, root), rm_inv(n, m, root, f, None, root),
    ensures rooted(m, root),
{
    assert forall|x: ModuleNodeId| #[trigger] m.contains_key(x) implies exists|d: nat| #[trigger] anc(m, x, d) == Some(root) by {
        assert(n.contains_key(x));
        let d = choose|d: nat| #[trigger] anc(n, x, d) == Some(root);
        lemma_anc_swept(n, m, root, f, x, d);
    }
}
