// ---- lemmas about Seq::filter (bodies verified; same text as units/c10_remove2/lemmas.rs, which cannot be included here because it
// also mentions types of the other indexes) ------------------------------------------------------------------------------------------
pub proof fn lemma_filter_by_is_filter<T>(s: Seq<T>, keep: Seq<bool>, p: spec_fn(T) -> bool)
    requires keep.len() == s.len(), forall|i: int| 0 <= i < s.len() ==> #[trigger] keep[i] == p(s[i]),
    ensures filter_by(s, keep) == s.filter(p),
    decreases s.len()
{
    reveal(Seq::filter);
    if s.len() > 0 {
        lemma_filter_by_is_filter(s.drop_last(), keep.drop_last(), p);
    }
}

pub proof fn lemma_filter_all<T>(s: Seq<T>, p: spec_fn(T) -> bool)
    requires forall|i: int| 0 <= i < s.len() ==> p(#[trigger] s[i]),
    ensures s.filter(p) == s,
    decreases s.len()
{
    reveal(Seq::filter);
    if s.len() > 0 { lemma_filter_all(s.drop_last(), p); assert(s.drop_last().push(s.last()) == s); }
}
pub proof fn lemma_filter_len<T>(s: Seq<T>, p: spec_fn(T) -> bool)
    ensures s.filter(p).len() <= s.len(),
    decreases s.len()
{
    reveal(Seq::filter);
    if s.len() > 0 { lemma_filter_len(s.drop_last(), p); }
}
