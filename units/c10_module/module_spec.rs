// ---- property vocabulary of the module index ---------------------------------------------------------
pub type Nodes = Map<ModuleNodeId, ModuleNode>;
pub type FileMap = Map<FileId, ModuleInfo>;
pub type NameTable = Map<String, Vec<FileId>>;

/// the file ids of a list that are not `f`, in their original order
pub open spec fn not_file(f: FileId) -> spec_fn(FileId) -> bool { |x: FileId| x != f }
pub open spec fn fids_not(s: Seq<FileId>, f: FileId) -> Seq<FileId> { s.filter(not_file(f)) }

/// node `p` exists and has a child registered under `name`
pub open spec fn has_child(n: Nodes, p: ModuleNodeId, name: String) -> bool { n.contains_key(p) && n[p].children@.contains_key(name) }
pub open spec fn child(n: Nodes, p: ModuleNodeId, name: String) -> ModuleNodeId { n[p].children@[name] }
/// node `x` exists and lists file `f`
pub open spec fn lists(n: Nodes, x: ModuleNodeId, f: FileId) -> bool { n.contains_key(x) && n[x].file_ids@.contains(f) }
/// a node that still carries something: a file or a child
pub open spec fn live(x: ModuleNode) -> bool { x.file_ids@.len() > 0 || !x.children@.dom().is_empty() }

/// shape of the module tree (established by `new` / `clear`, kept by `add_module_by_module_path` and `remove`)
pub open spec fn tree_wf(n: Nodes, root: ModuleNodeId) -> bool { tree_wf_ex(n, root, None) }

/// `ex`: a node that is allowed to be a dead leaf for the moment (the node `add_module_by_module_path` is walking through)
pub open spec fn tree_wf_ex(n: Nodes, root: ModuleNodeId, ex: Option<ModuleNodeId>) -> bool {
    // the root node exists and has no parent
    &&& n.contains_key(root) && n[root].parent is None
    // every other node has a parent that exists and lists it as a child ...
    &&& forall|x: ModuleNodeId| #[trigger] n.contains_key(x) && x != root ==> n[x].parent is Some && n.contains_key(n[x].parent->0)
            && exists|name: String| #[trigger] has_child(n, n[x].parent->0, name) && child(n, n[x].parent->0, name) == x
    // ... under exactly one name
    &&& forall|p: ModuleNodeId, a: String, b: String| #[trigger] has_child(n, p, a) && #[trigger] has_child(n, p, b) && child(n, p, a) == child(n, p, b) ==> a == b
    // children ids exist and point back
    &&& forall|p: ModuleNodeId, name: String| #[trigger] has_child(n, p, name) ==> n.contains_key(child(n, p, name)) && n[child(n, p, name)].parent == Some(p)
    // child names are distinct as texts (the keys of a HashMap<String, _> are pairwise different strings)
    &&& forall|p: ModuleNodeId, a: String, b: String| #[trigger] has_child(n, p, a) && #[trigger] has_child(n, p, b) && a@ == b@ ==> a == b
    // no dead leaves: every node but the root has a file or a child
    &&& forall|x: ModuleNodeId| #[trigger] n.contains_key(x) && x != root && ex != Some(x) ==> live(n[x])
}

/// files <-> nodes
pub open spec fn files_wf(n: Nodes, fm: FileMap) -> bool {
    // every registered file names an existing node that lists it
    &&& forall|f: FileId| #[trigger] fm.contains_key(f) ==> lists(n, fm[f].module_id, f) && fm[f].file_id == f
    // every listed file is registered and points back to the listing node
    &&& forall|x: ModuleNodeId, f: FileId| #[trigger] lists(n, x, f) ==> fm.contains_key(f) && fm[f].module_id == x
    // a node lists a file once
    &&& forall|x: ModuleNodeId| #[trigger] n.contains_key(x) ==> n[x].file_ids@.no_duplicates()
}

/// name -> files table (only filled while fuzzy search is on): no empty vector, only registered files
pub open spec fn names_wf(nt: NameTable, fm: FileMap) -> bool {
    &&& forall|k: String| #[trigger] nt.contains_key(k) ==> nt[k]@.len() > 0
    &&& forall|k: String, f: FileId| nt.contains_key(k) && #[trigger] nt[k]@.contains(f) ==> fm.contains_key(f)
}

/// node ids are allocated from `id_counter`
pub open spec fn ids_wf(n: Nodes, counter: u32) -> bool {
    forall|x: ModuleNodeId| #[trigger] n.contains_key(x) ==> x.id < counter
}

/// the `d`-th ancestor of `x` (following `parent`)
pub open spec fn anc(n: Nodes, x: ModuleNodeId, d: nat) -> Option<ModuleNodeId>
    decreases d
{
    if d == 0 { Some(x) } else if !n.contains_key(x) { None } else {
        match n[x].parent { Some(p) => anc(n, p, (d - 1) as nat), None => None }
    }
}

/// every node hangs under the root: following `parent` reaches the root (so there is no detached cycle that would keep memory alive)
pub open spec fn rooted(n: Nodes, root: ModuleNodeId) -> bool {
    forall|x: ModuleNodeId| #[trigger] n.contains_key(x) ==> exists|d: nat| #[trigger] anc(n, x, d) == Some(root)
}

pub open spec fn wf_parts(n: Nodes, root: ModuleNodeId, fm: FileMap, nt: NameTable, counter: u32) -> bool {
    &&& tree_wf(n, root) &&& rooted(n, root) &&& files_wf(n, fm) &&& names_wf(nt, fm) &&& ids_wf(n, counter)
}

/// nodes are only added and keep their parent: every ancestor chain stays what it was
pub proof fn lemma_anc_same_parents(o: Nodes, n: Nodes, x: ModuleNodeId, d: nat, r: ModuleNodeId)
    requires forall|y: ModuleNodeId| #[trigger] o.contains_key(y) ==> n.contains_key(y) && n[y].parent == o[y].parent,
        anc(o, x, d) == Some(r),
    ensures anc(n, x, d) == Some(r),
    decreases d
{
    if d > 0 {
        assert(o.contains_key(x));
        lemma_anc_same_parents(o, n, o[x].parent->0, (d - 1) as nat, r);
    }
}

// ---- what `remove(f)` does to the tree ----------------------------------------------------------------
/// `m` is the node map at some point of `remove`, `n` the map on entry. `pend`: the parent whose `children` entry of the node just
/// removed (`c`) has not been swept yet (and which therefore may be momentarily dead).
pub open spec fn rm_inv(n: Nodes, m: Nodes, root: ModuleNodeId, f: FileId, pend: Option<ModuleNodeId>, c: ModuleNodeId) -> bool {
    &&& m.contains_key(root)
    // kept nodes: same parent, the files other than f in order, the children that were kept (under the same names)
    &&& forall|x: ModuleNodeId| #[trigger] m.contains_key(x) ==> n.contains_key(x) && m[x].parent == n[x].parent
            && m[x].file_ids@ == fids_not(n[x].file_ids@, f)
    &&& forall|x: ModuleNodeId, name: String| #[trigger] has_child(m, x, name) ==> has_child(n, x, name) && child(m, x, name) == child(n, x, name)
    &&& forall|x: ModuleNodeId, name: String| #[trigger] has_child(n, x, name) && m.contains_key(x) ==>
            (has_child(m, x, name) <==> m.contains_key(child(n, x, name)) || (pend == Some(x) && child(n, x, name) == c))
    // removed nodes: not the root, no file other than f, every child removed as well
    &&& forall|x: ModuleNodeId| #[trigger] n.contains_key(x) && !m.contains_key(x) ==> x != root && fids_not(n[x].file_ids@, f).len() == 0
    &&& forall|x: ModuleNodeId, name: String| #[trigger] has_child(n, x, name) && !m.contains_key(x) ==> !m.contains_key(child(n, x, name))
    // kept nodes are live (the pending parent excepted)
    &&& forall|x: ModuleNodeId| #[trigger] m.contains_key(x) && x != root && pend != Some(x) ==> live(m[x])
}

/// the name table after `remove(f)`: every vector keeps exactly its other files, emptied vectors are dropped
pub open spec fn names_swept(o: NameTable, n: NameTable, f: FileId) -> bool {
    &&& forall|k: String| #[trigger] n.contains_key(k) <==> o.contains_key(k) && fids_not(o[k]@, f).len() > 0
    &&& forall|k: String| #[trigger] n.contains_key(k) ==> n[k]@ == fids_not(o[k]@, f)
}

// ---- lemmas about fids_not ------------------------------------------------------------------------------
pub proof fn lemma_fids_not_contains(s: Seq<FileId>, f: FileId, g: FileId)
    ensures fids_not(s, f).contains(g) <==> s.contains(g) && g != f,
    decreases s.len()
{
    reveal(Seq::filter);
    let p = not_file(f);
    if s.len() > 0 {
        lemma_fids_not_contains(s.drop_last(), f, g);
        let t = s.drop_last().filter(p);
        if s.contains(g) && g != f {
            let i = choose|i: int| 0 <= i < s.len() && s[i] == g;
            if i == s.len() - 1 {
                assert(t.push(s.last())[t.len() as int] == g);
            } else {
                assert(s.drop_last()[i] == g);
                let j = choose|j: int| 0 <= j < t.len() && t[j] == g;
                if p(s.last()) { assert(t.push(s.last())[j] == g); }
            }
        }
        if fids_not(s, f).contains(g) {
            let j = choose|j: int| 0 <= j < fids_not(s, f).len() && fids_not(s, f)[j] == g;
            if p(s.last()) && j == t.len() {
                assert(s[s.len() - 1] == g);
            } else {
                assert(t[j] == g);
                let i = choose|i: int| 0 <= i < s.drop_last().len() && s.drop_last()[i] == g;
                assert(s[i] == g);
            }
        }
    }
}

pub proof fn lemma_fids_not_nodup(s: Seq<FileId>, f: FileId)
    requires s.no_duplicates(),
    ensures fids_not(s, f).no_duplicates(),
    decreases s.len()
{
    reveal(Seq::filter);
    if s.len() > 0 {
        lemma_fids_not_nodup(s.drop_last(), f);
        let t = fids_not(s.drop_last(), f);
        if s.last() != f {
            lemma_fids_not_contains(s.drop_last(), f, s.last());
            if s.drop_last().contains(s.last()) {
                let i = choose|i: int| 0 <= i < s.drop_last().len() && s.drop_last()[i] == s.last();
                assert(s[i] == s[s.len() - 1]);
            }
            assert forall|i: int, j: int| 0 <= i < t.len() + 1 && 0 <= j < t.len() + 1 && i != j implies t.push(s.last())[i] != t.push(s.last())[j] by {
                if i < t.len() && j < t.len() { }
                else if i < t.len() { assert(t.contains(t[i])); }
                else { assert(t.contains(t[j])); }
            }
        }
    }
}

pub proof fn lemma_fids_not_absent(s: Seq<FileId>, f: FileId)
    requires !s.contains(f),
    ensures fids_not(s, f) == s,
{
    assert forall|i: int| 0 <= i < s.len() implies not_file(f)(#[trigger] s[i]) by { assert(s.contains(s[i])); }
    lemma_filter_all(s, not_file(f));
}

pub proof fn lemma_fids_not_gone(s: Seq<FileId>, f: FileId)
    ensures !fids_not(s, f).contains(f),
{
    lemma_fids_not_contains(s, f, f);
}
