"""unit c10_module - `LuaModuleIndex` under contract.

C10  remove(file_id): nothing refers to the removed file (file map, node lists, name table), memory released (no dead node, emptied ancestors dropped), invariant kept.
C33  add_module_by_module_path / add_module_by_path register the file under the node reached from the root by the parts of its module path;
     exact_find_module / find_module_by_normalized_path / find_module / find_module_node walk that path; removing the only file of a path makes it unresolvable.
C09  new / clear establish the fresh state (module_wf of the one-node tree); re-registration = sweep as by remove, then grow by the path.
C20  set_meta / is_meta_file exact; the `---@meta` tag slice of analyze_doc_tag_meta leaves the file marked meta on every branch.

The invariant `module_wf` (units/c10_module/module_spec.rs) is derived from the writers: root exists without parent; every other node has an existing parent that lists it
under exactly one name; child ids exist and point back; child names are pairwise different texts; no dead leaves; every node reaches the root by `parent` (no detached cycle);
file map <-> node lists agree, a node lists a file once; the name table has no empty vector and only registered files; node ids are below id_counter.
"""
import re
from vc import rules as R
from vc import rustlex as L

SRC = 'crates/emmylua_code_analysis/src/'
DB = SRC + 'db_index/'
MOD = DB + 'module/'


@R.rule('analyzer-db-module-index')
def analyzer_db_module_index(text, **_):
    """analyzer.db.get_module_index_mut() / analyzer.db.get_module_index() -> index: the statement slice of `analyze_doc_tag_meta` gets the module
    index as an explicit `&mut LuaModuleIndex` parameter instead of reaching it through `analyzer.db` (`db: &mut DbIndex`). Both accessors are
    one-line field projections; the rule re-reads them from the repository on every run and refuses (undecided) unless their bodies are exactly
    `&mut self.modules_index` / `&self.modules_index` with `modules_index: LuaModuleIndex`."""
    import os
    from vc import extract as X
    repo = os.environ.get('VERIF_REPO', '/repo')
    for nm, want in (('get_module_index_mut', '&mut self.modules_index'), ('get_module_index', '&self.modules_index')):
        w = X.find_item(repo, {'file': DB + 'mod.rs', 'kind': 'fn', 'impl': 'DbIndex', 'name': nm})
        sh = X.fn_shape(w.raw)
        body = ' '.join(w.raw[sh.body_open + 1:sh.body_close].split())
        if body != want:
            raise R.Undecided('analyzer-db-module-index: DbIndex::%s is no longer the plain field projection (%r)' % (nm, body))
    dbs = X.find_item(repo, {'file': DB + 'mod.rs', 'kind': 'struct', 'name': 'DbIndex'})
    if not re.search(r'\bmodules_index\s*:\s*LuaModuleIndex\s*,', dbs.raw):
        raise R.Undecided('analyzer-db-module-index: DbIndex.modules_index is no longer a LuaModuleIndex')
    return re.subn(r'\banalyzer\s*\.db\s*\.get_module_index(?:_mut)?\(\)', 'index', text)


def st(file, name, attrs=None, **kw):
    d = {'src': {'file': file, 'kind': 'struct', 'name': name}, 'rules': [('struct-fields', kw)]}
    if attrs: d['attrs'] = attrs
    return d


FILTER_PROOF = '''proof {
                    assert(exists|keep: Seq<bool>| keep.len() == %(v0)s.len() && (forall|i: int| 0 <= i < keep.len() ==> #[trigger] keep[i] == (%(v0)s[i] != file_id)) && %(cur)s == filter_by(%(v0)s, keep));
                    let keep = choose|keep: Seq<bool>| keep.len() == %(v0)s.len() && (forall|i: int| 0 <= i < keep.len() ==> #[trigger] keep[i] == (%(v0)s[i] != file_id)) && %(cur)s == filter_by(%(v0)s, keep);
                    lemma_filter_by_is_filter(%(v0)s, keep, not_file(file_id));
                }'''

RM_ENSURES = '''
            // the file's entry is gone, every other entry is untouched
            final(self).file_module_map@ == old(self).file_module_map@.remove(file_id) /*@C10.module.file-map*/,
            // no node lists the file any more
            forall|x: ModuleNodeId| #[trigger] final(self).module_nodes@.contains_key(x) ==> !final(self).module_nodes@[x].file_ids@.contains(file_id) /*@C10.module.no-node-lists-file*/,
            // kept nodes: same parent, their other files in order, their kept children under the same names; removed nodes: not the root,
            // no other file, all children removed too (the chain of ancestors that became empty); every kept node but the root has a file or a child
            tree_swept(old(self).module_nodes@, final(self).module_nodes@, old(self).module_root_id, file_id) /*@C10.module.no-dead-node*/,
            // name table: every vector keeps exactly its other files in order; emptied vectors are dropped
            names_swept(old(self).module_name_to_file_ids@, final(self).module_name_to_file_ids@, file_id) /*@C10.module.name-table*/,
            forall|k: String| #[trigger] final(self).module_name_to_file_ids@.contains_key(k) ==>
                !final(self).module_name_to_file_ids@[k]@.contains(file_id) && final(self).module_name_to_file_ids@[k]@.len() > 0 /*@C10.module.name-table.no-file-no-empty*/,
            module_wf(final(self)) /*@C10.module.wf-preserved*/,
            config_same(old(self), final(self)), final(self).id_counter == old(self).id_counter'''

RM_FIRST = '''let ghost n0 = self.module_nodes@; let ghost fm0 = self.file_module_map@; let ghost nt0 = self.module_name_to_file_ids@;
        let ghost root = self.module_root_id; let ghost cnt0 = self.id_counter; let ghost pre = *self;'''

RM_LOOP = '''invariant_except_break
                child_id is Some, n0.contains_key(child_id->0), !self.module_nodes@.contains_key(child_id->0), parent_id == n0[child_id->0].parent,
                rm_inv(n0, self.module_nodes@, root, file_id, parent_id, child_id->0) /*@C10.module.ancestor-sweep.inv*/,
            invariant
                keys_ok(), wf_parts(n0, root, fm0, nt0, cnt0), config_same(&pre, self), pre == *old(self), self.id_counter == cnt0,
                n0 == pre.module_nodes@, fm0 == pre.file_module_map@, nt0 == pre.module_name_to_file_ids@, root == pre.module_root_id, cnt0 == pre.id_counter,
                self.file_module_map@ == fm0.remove(file_id), names_swept(nt0, self.module_name_to_file_ids@, file_id),
            ensures rm_inv(n0, self.module_nodes@, root, file_id, None, root) /*@C10.module.ancestor-sweep.done*/,
            decreases self.module_nodes@.len()'''

RM_FINAL = 'proof { lemma_rm_final(n0, root, fm0, nt0, cnt0, file_id, self.module_nodes@, self.module_name_to_file_ids@); names_no_file(nt0, self.module_name_to_file_ids@, file_id); }'

RM_PROOF = [
    # ---- first part: the file's own node
    (r'let node = match self\.module_nodes\.get_mut\(&module_id\)', 'before', 'proof { assert(lists(n0, module_id, file_id)); }'),
    (r'node\.file_ids\.retain\(', 'before', 'let ghost nd0 = *node; let ghost v0 = node.file_ids@;'),
    (r'node\.file_ids\.retain\([^;]*\);', 'after', FILTER_PROOF % {'v0': 'v0', 'cur': 'node.file_ids@'}),
    (r'\(parent, Some\(module_id\)\)', 'before',
     '''proof {
                        assert(self.module_nodes@ =~= n0.remove(module_id)); /*@C10.module.no-dead-node.emptied-leaf-dropped*/
                        lemma_rm_first_removed(n0, root, fm0, file_id, module_id, self.module_nodes@);
                    }'''),
    (r'if node\.file_ids\.is_empty\(\)\s*&& node\.children\.is_empty\(\)\s*&& module_id', 'before', 'let ghost nd1 = *node;'),
    (r'\} else \{(?=\s*\(None, None\)\s*\}\s*\} else)', 'after',
     'proof { lemma_rm_first_kept(n0, root, fm0, file_id, module_id, nd1, self.module_nodes@); } /*@C10.module.no-node-lists-file.own-node*/'),
    (r'\} else \{(?=\s*\(None, None\)\s*\};)', 'after', 'proof { lemma_rm_no_file(n0, root, fm0, file_id); }'),
    # ---- name table
    (r'\n\s+file_ids\.retain\(', 'before', 'let ghost w0 = file_ids@;'),
    (r'\n\s+file_ids\.retain\([^;]*\);', 'after', FILTER_PROOF % {'v0': 'w0', 'cur': 'file_ids@'}),
    (r'if parent_id\.is_none\(\) \|\| child_id\.is_none\(\) \{', 'after', RM_FINAL),
    # ---- ancestor loop
    (r'let child_module_id = match child_id', 'before', 'let ghost m_in = self.module_nodes@;'),
    (r'node\.children\s*\.retain\(', 'before', 'let ghost nd0 = *node;'),
    (r'node\.children\s*\.retain\([^;]*\);', 'after', 'let ghost nd1 = *node; proof { assert(ch_swept(nd0.children@, nd1.children@, child_module_id)); } /*@C10.module.ancestor-sweep.child-entry-dropped*/'),
    (r'return;\s*\}\s*if node\.file_ids\.is_empty\(\) && node\.children', 'before', 'proof { lemma_rm_step_kept(n0, m_in, self.module_nodes@, root, file_id, id, child_module_id, nd1); } /*@C10.module.ancestor-sweep.root-kept*/\n' + RM_FINAL),
    (r'parent_id = node\.parent;\s*[^;]*;', 'after',
     '''proof {
                    assert(self.module_nodes@ =~= m_in.remove(id)); /*@C10.module.no-dead-node.emptied-ancestor-dropped*/
                    lemma_rm_step_removed(n0, m_in, self.module_nodes@, root, file_id, id, child_module_id); /*@C10.module.ancestor-sweep.step*/
                }'''),
    (r'\} else \{(?=\s*break;)', 'after', 'proof { lemma_rm_step_kept(n0, m_in, self.module_nodes@, root, file_id, id, child_module_id, nd1); } /*@C10.module.ancestor-sweep.live-ancestor-kept*/'),
    (r'\}\s*$', 'before', RM_FINAL),
]

ADD_ENSURES = '''
            r is Some /*@C33.module.add-succeeds*/,
            module_wf(final(self)) /*@C33.module.add-wf-preserved*/,
            // the file is registered under the node reached from the root by the parts of the path ...
            final(self).file_module_map@.contains_key(file_id)
                && resolve(final(self).module_nodes@, final(self).module_root_id, dot_parts(module_path@)) == Some(final(self).file_module_map@[file_id].module_id) /*@C33.module.add-registers-path*/,
            // ... and that node lists it, once
            lists(final(self).module_nodes@, final(self).file_module_map@[file_id].module_id, file_id)
                && final(self).module_nodes@[final(self).file_module_map@[file_id].module_id].file_ids@.no_duplicates() /*@C33.module.add-lists-file-once*/,
            // every other file's entry is untouched
            final(self).file_module_map@ == old(self).file_module_map@.insert(file_id, final(self).file_module_map@[file_id]) /*@C33.module.add-frame-file-map*/,
            // the new entry is a fresh ModuleInfo
            info_fresh(final(self).file_module_map@[file_id], file_id, workspace_id, dot_parts(module_path@)) /*@C33.module.add-fresh-info*/,
            !final(self).file_module_map@[file_id].is_meta /*@C20.meta.fresh-registration-not-meta*/,
            // the tree: the previous registration of the file (if any) swept as by `remove`, then grown by the nodes of the path
            exists|m: Nodes| #[trigger] tree_added(m, final(self).module_nodes@, final(self).file_module_map@[file_id].module_id, file_id)
                && (if old(self).file_module_map@.contains_key(file_id) { tree_swept(old(self).module_nodes@, m, old(self).module_root_id, file_id) } else { m == old(self).module_nodes@ }) /*@C09.module.readd-sweeps-then-grows*/,
            exists|t: NameTable| #[trigger] names_added(t, final(self).module_name_to_file_ids@, old(self).fuzzy_search, dot_parts(module_path@).last(), file_id)
                && (if old(self).file_module_map@.contains_key(file_id) { names_swept(old(self).module_name_to_file_ids@, t, file_id) } else { t == old(self).module_name_to_file_ids@ }) /*@C33.module.add-name-table*/,
            config_same(old(self), final(self)), old(self).id_counter <= final(self).id_counter'''

ADD_FIRST = '''let ghost pre = *self; let ghost root = self.module_root_id;'''

ADD_LOOP = '''invariant
                keys_ok(), config_same(&pre, self), root == pre.module_root_id,
                self.file_module_map@ == fm1, self.module_name_to_file_ids@ == nt1, cnt1 as int + module_parts@.len() <= u32::MAX,
                add_inv(n1, self.module_nodes@, root, parent_node_id, texts(module_parts@).take(it.index@ as int), fm1, cnt1, self.id_counter) /*@C33.module.add-walk.inv*/,'''

ADD_PROOF = [
    (r'let module_parts: Vec<&str> =', 'before', '''let ghost n1 = self.module_nodes@; let ghost fm1 = self.file_module_map@; let ghost nt1 = self.module_name_to_file_ids@;
        let ghost cnt1 = self.id_counter;
        proof { lemma_add_inv_init(n1, root, fm1, nt1, cnt1); }'''),
    (r'let mut parent_node_id = self\.module_root_id;', 'after', 'proof { assert(texts(module_parts@).take(0) =~= Seq::<Seq<char>>::empty()); }'),
    (r'let child_id = \{', 'before', '''let ghost m_in = self.module_nodes@; let ghost cnt_in = self.id_counter; let ghost cur = parent_node_id;
            let ghost pre_parts = texts(module_parts@).take(it.index@ as int); let ghost t = part@;
            proof { assert(*part == module_parts@[it.index@ as int]); lemma_add_inv_facts(n1, m_in, root, cur, pre_parts, fm1, cnt1, cnt_in); }'''),
    (r'if let std::collections::hash_map::Entry::Vacant\(e\)', 'before', 'let ghost m1 = self.module_nodes@;'),
    (r'\bparent_node_id = \w+;', 'before', '''proof {
                assert(texts(module_parts@).take(it.index@ as int + 1) =~= pre_parts.push(t));
                if exists|k: String| #[trigger] has_child(m_in, cur, k) && k@ == t {
                    let k = choose|k: String| #[trigger] has_child(m_in, cur, k) && k@ == t;
                    assert(m_in[cur].children@.contains_key(k));
                    assert(child_id == child(m_in, cur, k));
                    assert(m1 =~= m_in);
                    assert(self.module_nodes@ =~= m_in);
                    lemma_add_step_existing(n1, m_in, root, cur, pre_parts, fm1, cnt1, cnt_in, k); /*@C33.module.add-walk.existing-child*/
                } else {
                    assert(forall|s: String| #[trigger] m_in[cur].children@.contains_key(s) ==> has_child(m_in, cur, s));
                    assert(m1.contains_key(cur));
                    assert(m1 == m_in.insert(cur, m1[cur]));
                    assert(exists|k: String| #[trigger] m_in[cur].children@.insert(k, child_id) == m1[cur].children@ && k@ == t);
                    let key = choose|k: String| #[trigger] m_in[cur].children@.insert(k, child_id) == m1[cur].children@ && k@ == t;
                    assert(!m1.contains_key(child_id));
                    lemma_add_step_new(n1, m_in, self.module_nodes@, root, cur, pre_parts, fm1, cnt1, cnt_in, key, child_id, m1[cur], self.module_nodes@[child_id]); /*@C33.module.add-walk.new-child*/
                }
            }'''),
    (r'let node = self\.module_nodes\.get_mut\(&parent_node_id\)\?;', 'before', '''let ghost m_end = self.module_nodes@; let ghost cnt_end = self.id_counter;
        proof {
            assert(texts(module_parts@).take(module_parts@.len() as int) =~= texts(module_parts@));
            lemma_add_inv_facts(n1, m_end, root, parent_node_id, texts(module_parts@), fm1, cnt1, cnt_end);
        }'''),
    (r'if self\.fuzzy_search \{', 'before', 'let ghost mname = module_name;'),
    (r'Some\(\(\)\)\s*\}\s*$', 'before', '''proof {
            let info = self.file_module_map@[file_id];
            lemma_add_final(n1, m_end, self.module_nodes@, root, parent_node_id, texts(module_parts@), fm1, cnt1, cnt_end, file_id, self.module_nodes@[parent_node_id], info); /*@C33.module.add-final*/
            if self.fuzzy_search {
                let n = self.module_name_to_file_ids@;
                assert(n.contains_key(mname) && mname@ == texts(module_parts@).last() && n =~= nt1.insert(mname, n[mname])
                    && n[mname]@ == (if nt1.contains_key(mname) { nt1[mname]@ } else { Seq::<FileId>::empty() }).push(file_id));
            }
            assert(names_added(nt1, self.module_name_to_file_ids@, self.fuzzy_search, texts(module_parts@).last(), file_id));
            lemma_names_add(nt1, self.module_name_to_file_ids@, fm1, self.fuzzy_search, texts(module_parts@).last(), file_id, info);
            assert(self.file_module_map@ =~= pre.file_module_map@.insert(file_id, info));
        }'''),
]

UNIT = {
    'extra_rules': [
        ('opt-string-as-deref', r'(\w+)\.as_deref\(\)', r'vx_opt_string_as_str(&\1)',
         'O.as_deref() (O: Option<String>) -> vx_opt_string_as_str(&O): the helper\'s body is that very call; Option::as_deref "converts from &Option<T> to '
         'Option<&T::Target> ... coercing the contents via Deref", and String derefs to the str with the same text'),
        ('str-seps-to-dots', r'''(\w+)\.replace\(\['\\\\', '/'\], "\."\)''', r'vx_seps_to_dots(&\1)',
         'S.replace([\'\\\\\', \'/\'], ".") (S: &str or String) -> vx_seps_to_dots(&S): the helper\'s body is that very call; its result is an uninterpreted function of the text'),
        ('ref-str-to-string', r'\b(part|name)\.to_string\(\)', r'vx_ref_str_to_string(\1)',
         'P.to_string() with P: &&str -> vx_ref_str_to_string(P): the helper\'s body is that very call; vstd knows `str::to_string` (result has the same text) '
         'but not the instance for `&str` (Display for &T forwards to T, std doc), which is what method resolution picks for a `&&str` receiver'),
        ('str-key-get-part', r'(\w+)\.children\.get\(\*part\)', r'vx_get_str_key(&\1.children, *part)',
         'M.get(S) with M: HashMap<String, V>, S: &str -> vx_get_str_key(&M, S): the helper\'s body is that very call; it only attaches the std contract of '
         'HashMap::get through String: Borrow<str> (found iff a key with that text is present), which vstd does not model'),
        ('str-split-dot-collect', r"(\w+)\.split\('\.'\)\.collect\(\)", r'vx_split_dot(&\1)',
         "S.split('.').collect() (collected into a Vec<&str>, S: String or &str) -> vx_split_dot(&S): the helper's body is that very call chain; it only attaches "
         "the std-doc facts used here (str::split yields the substrings between the separators: one more item than there are separators, hence at least one; "
         "the items are a function of the text)"),
        ('slice-join-dot', r'(\w+)\.join\("\."\)', r'vx_join_dot(&\1)',
         'V.join(".") (V: Vec<&str>) -> vx_join_dot(&V): the helper\'s body is that very call; its result is an uninterpreted function of the parts\' texts'),
        ('c10m-file-ids-closure-contract', r'\|id\| ([^;]*?)\);',
         r'|id: &FileId| -> (b: bool) ensures b == (*id != file_id) /*@C10.module.retain-predicate*/ { \1 });',
         'contract overlay on the closure handed to Vec::retain: parameter type, named result and `ensures` are added; the body expression is kept verbatim '
         'and Verus checks the ensures against it'),
        ('c10m-name-table-closure-contract', r'\|_, file_ids\| \{(.*?)\n(\s*)\}\);',
         r'|_k: &String, file_ids: &mut Vec<FileId>| -> (b: bool)\n                ensures final(file_ids)@ == fids_not(old(file_ids)@, file_id) /*@C10.module.name-table.inner-retain*/,\n                    b == (final(file_ids)@.len() > 0) /*@C10.module.name-table.drop-empty*/\n            {\1\n\2});',
         'contract overlay on the closure handed to HashMap::retain: parameter types, a name for the ignored `_` key parameter (never used), '
         'named result and `ensures` are added; the body statements are kept verbatim and Verus checks the ensures against them', 16),
        ('c10m-children-closure-contract', r'\|_, node_child_idid\| ([^;]*?)\);',
         r'|_k: &String, node_child_idid: &mut ModuleNodeId| -> (b: bool) ensures b == (*old(node_child_idid) != child_module_id) /*@C10.module.children-retain-predicate*/, *final(node_child_idid) == *old(node_child_idid) { \1 });',
         'contract overlay on the closure handed to HashMap::retain: parameter types, a name for the ignored `_` key parameter, named result and `ensures` are added; body verbatim'),
    ],
    'items': {
        'FileId': {'src': {'file': SRC + 'vfs/file_id.rs', 'kind': 'struct', 'name': 'FileId', 'drop_attrs': False}, 'attrs': '#[derive(Structural)]'},
        'ModuleNodeId': {'src': {'file': MOD + 'module_node.rs', 'kind': 'struct', 'name': 'ModuleNodeId', 'drop_attrs': False}, 'attrs': '#[derive(Structural)]'},
        'WorkspaceId': {'src': {'file': MOD + 'workspace.rs', 'kind': 'struct', 'name': 'WorkspaceId', 'drop_attrs': False}, 'attrs': '#[derive(Structural)]'},
        'ModuleNode': {'src': {'file': MOD + 'module_node.rs', 'kind': 'struct', 'name': 'ModuleNode', 'drop_attrs': False}},
        'ModuleVisibility': {'src': {'file': MOD + 'module_info.rs', 'kind': 'enum', 'name': 'ModuleVisibility', 'drop_attrs': False}, 'attrs': '#[derive(Structural)]'},
        'ModuleVisibility::is_hidden': {'src': {'file': MOD + 'module_info.rs', 'kind': 'fn', 'impl': 'ModuleVisibility', 'name': 'is_hidden'},
                                        'ret': 'r', 'ensures': 'r == (self == ModuleVisibility::Hide)'},
        'ModuleInfo': st(MOD + 'module_info.rs', 'ModuleInfo'),
        'LuaModuleIndex': st(MOD + 'mod.rs', 'LuaModuleIndex'),
        'LuaModuleIndex::remove': {
            'src': {'file': MOD + 'mod.rs', 'kind': 'fn', 'impl': 'LuaIndex for LuaModuleIndex', 'name': 'remove'},
            'rules': [('c10m-file-ids-closure-contract', {'count': 2}), 'c10m-name-table-closure-contract', 'c10m-children-closure-contract'],
            'attrs': '#[verifier::spinoff_prover]',
            'requires': 'keys_ok(), module_wf(old(self))',
            'ensures': RM_ENSURES, 'body_first': RM_FIRST, 'loops': {0: RM_LOOP}, 'proof': RM_PROOF},
        'LuaModuleIndex::add_module_by_module_path': {
            'src': {'file': MOD + 'mod.rs', 'kind': 'fn', 'impl': 'LuaModuleIndex', 'name': 'add_module_by_module_path'},
            'rules': ['hashbrown-std', 'str-split-dot-collect', 'slice-join-dot', 'str-key-get-part', ('ref-str-to-string', {'count': 2})],
            'attrs': '#[verifier::spinoff_prover]', 'ret': 'r',
            'requires': 'keys_ok(), module_wf(old(self)), old(self).id_counter as int + module_path@.len() + 1 <= u32::MAX',
            'ensures': ADD_ENSURES, 'body_first': ADD_FIRST, 'loops': {0: ADD_LOOP}, 'iter_names': {0: 'it'}, 'proof': ADD_PROOF},
        'LuaModuleIndex::clear': {
            'src': {'file': MOD + 'mod.rs', 'kind': 'fn', 'impl': 'LuaIndex for LuaModuleIndex', 'name': 'clear'},
            'requires': 'keys_ok(), old(self).module_root_id.id < old(self).id_counter',
            'ensures': '''
            // the fresh state: only the root node (no parent, no child, no file), no registered file, no name entry
            final(self).module_nodes@ == Map::<ModuleNodeId, ModuleNode>::empty().insert(old(self).module_root_id, final(self).module_nodes@[old(self).module_root_id])
                && root_node_fresh(final(self).module_nodes@[old(self).module_root_id]) /*@C09.module.clear-only-root-node*/,
            final(self).file_module_map@ == Map::<FileId, ModuleInfo>::empty() /*@C09.module.clear-file-map*/,
            final(self).module_name_to_file_ids@ == Map::<String, Vec<FileId>>::empty() /*@C09.module.clear-name-table*/,
            module_wf(final(self)) /*@C09.module.clear-establishes-wf*/,
            config_same(old(self), final(self)), final(self).id_counter == old(self).id_counter''',
            'proof': [(r'\}\s*$', 'before', 'proof { assert(anc(self.module_nodes@, self.module_root_id, 0) == Some(self.module_root_id)); }')]},
        'LuaModuleIndex::new': {
            'src': {'file': MOD + 'mod.rs', 'kind': 'fn', 'impl': 'LuaModuleIndex', 'name': 'new'},
            'ret': 'r', 'requires': 'keys_ok()',
            'ensures': '''
            r.module_nodes@ == Map::<ModuleNodeId, ModuleNode>::empty().insert(r.module_root_id, r.module_nodes@[r.module_root_id])
                && root_node_fresh(r.module_nodes@[r.module_root_id]) /*@C09.module.new-only-root-node*/,
            r.file_module_map@ == Map::<FileId, ModuleInfo>::empty(), r.module_name_to_file_ids@ == Map::<String, Vec<FileId>>::empty(),
            module_wf(&r) /*@C09.module.new-establishes-wf*/''',
            'proof': [(r'\n\s*index\s*\}\s*$', 'before', 'proof { assert(anc(index.module_nodes@, index.module_root_id, 0) == Some(index.module_root_id)); }')]},
        'ModuleInfo::set_visibility': {
            'src': {'file': MOD + 'module_info.rs', 'kind': 'fn', 'impl': 'ModuleInfo', 'name': 'set_visibility'},
            'ensures': '*final(self) == (ModuleInfo { visible: visibility, ..*old(self) })'},
        'LuaModuleIndex::set_meta': {
            'src': {'file': MOD + 'mod.rs', 'kind': 'fn', 'impl': 'LuaModuleIndex', 'name': 'set_meta'},
            'requires': 'keys_ok()',
            'ensures': '''
            // only the `is_meta` flag of the file's ModuleInfo changes (to true); a file without entry: nothing changes
            final(self).file_module_map@ == (if old(self).file_module_map@.contains_key(file_id) {
                    old(self).file_module_map@.insert(file_id, ModuleInfo { is_meta: true, ..old(self).file_module_map@[file_id] })
                } else { old(self).file_module_map@ }) /*@C20.meta.set-meta-exact*/,
            rest_same(old(self), final(self)) /*@C20.meta.set-meta-frame*/'''},
        'LuaModuleIndex::is_meta_file': {
            'src': {'file': MOD + 'mod.rs', 'kind': 'fn', 'impl': 'LuaModuleIndex', 'name': 'is_meta_file'},
            'ret': 'r', 'requires': 'keys_ok()',
            'ensures': 'r == is_meta(self, *file_id) /*@C20.meta.is-meta-file-exact*/'},
        'LuaModuleIndex::set_module_visibility': {
            'src': {'file': MOD + 'mod.rs', 'kind': 'fn', 'impl': 'LuaModuleIndex', 'name': 'set_module_visibility'},
            'requires': 'keys_ok()',
            'ensures': '''
            final(self).file_module_map@ == (if old(self).file_module_map@.contains_key(file_id) {
                    old(self).file_module_map@.insert(file_id, ModuleInfo { visible: visible, ..old(self).file_module_map@[file_id] })
                } else { old(self).file_module_map@ }),
            rest_same(old(self), final(self))'''},
        'LuaModuleIndex::get_module': {
            'src': {'file': MOD + 'mod.rs', 'kind': 'fn', 'impl': 'LuaModuleIndex', 'name': 'get_module'},
            'ret': 'r', 'requires': 'keys_ok()',
            'ensures': '''match r { Some(i) => self.file_module_map@.contains_key(file_id) && *i == self.file_module_map@[file_id],
                                    None => !self.file_module_map@.contains_key(file_id) }'''},
        'LuaModuleIndex::add_module_by_path': {
            'src': {'file': MOD + 'mod.rs', 'kind': 'fn', 'impl': 'LuaModuleIndex', 'name': 'add_module_by_path'},
            'rules': ['str-seps-to-dots'], 'ret': 'r', 'attrs': '#[verifier::spinoff_prover]',
            'requires': '''keys_ok(), module_wf(old(self)),
            path_module(old(self), path@) is Some ==> old(self).id_counter as int + (path_module(old(self), path@)->0).0.len() + 1 <= u32::MAX''',
            'ensures': '''
            module_wf(final(self)) /*@C33.module.add-by-path-wf-preserved*/,
            config_same(old(self), final(self)),
            match path_module(old(self), path@) {
                // the path is under no workspace root / matches no pattern: the file ends up unregistered (a previous registration is removed)
                None => r is None && final(self).file_module_map@ == old(self).file_module_map@.remove(file_id)
                    && (forall|x: ModuleNodeId| #[trigger] final(self).module_nodes@.contains_key(x) ==> !final(self).module_nodes@[x].file_ids@.contains(file_id)),
                // otherwise it is registered under the node reached from the root by the parts of its module path
                Some((mp, ws)) => r == Some(ws) && final(self).file_module_map@.contains_key(file_id)
                    && resolve(final(self).module_nodes@, final(self).module_root_id, dot_parts(mp)) == Some(final(self).file_module_map@[file_id].module_id)
                    && lists(final(self).module_nodes@, final(self).file_module_map@[file_id].module_id, file_id)
                    && info_fresh(final(self).file_module_map@[file_id], file_id, ws, dot_parts(mp))
                    && final(self).file_module_map@ == old(self).file_module_map@.insert(file_id, final(self).file_module_map@[file_id]),
            } /*@C33.module.add-by-path-registers-path*/''',
            'proof': [
                (r'let \(module_path, workspace_id\) = self\.extract_module_path\(path\)\?;', 'before', '''proof {
            if !old(self).file_module_map@.contains_key(file_id) {
                assert(self.file_module_map@ =~= old(self).file_module_map@.remove(file_id));
                assert forall|x: ModuleNodeId| #[trigger] self.module_nodes@.contains_key(x) implies !self.module_nodes@[x].file_ids@.contains(file_id) by {
                    if self.module_nodes@[x].file_ids@.contains(file_id) { assert(lists(self.module_nodes@, x, file_id)); }
                }
            }
        }
        let ghost fm1 = self.file_module_map@;'''),
                (r'Some\(workspace_id\)\s*\}\s*$', 'before', '''proof {
            assert(self.file_module_map@ =~= old(self).file_module_map@.insert(file_id, self.file_module_map@[file_id]));
        }'''),
            ]},
        'LuaModuleIndex::exact_find_module': {
            'src': {'file': MOD + 'mod.rs', 'kind': 'fn', 'impl': 'LuaModuleIndex', 'name': 'exact_find_module'},
            'rules': ['str-key-get-part'], 'ret': 'r', 'attrs': '#[verifier::spinoff_prover]',
            'requires': 'keys_ok(), module_wf(self)',
            'ensures': '''
            // the answer is the ModuleInfo of the file the path resolves to: walk the parts from the root, then pick among the node's files
            found(self, r, texts(module_parts@)) /*@C33.module.find-resolves-path*/''',
            'iter_names': {0: 'it', 1: 'it2'},
            'loops': {0: '''invariant keys_ok(), module_wf(self), self.module_nodes@.contains_key(parent_node_id),
                    resolve(self.module_nodes@, self.module_root_id, texts(module_parts@).take(it.index@ as int)) == Some(parent_node_id) /*@C33.module.find-walk.inv*/,''',
                      1: '''invariant keys_ok(), module_wf(self), fs == node.file_ids@, self.module_nodes@.contains_key(parent_node_id), *node == self.module_nodes@[parent_node_id],
                    prefer_non_hidden == (fs.len() > 1),
                    resolve(self.module_nodes@, self.module_root_id, texts(module_parts@)) == Some(parent_node_id),
                    prefer_non_hidden ==> first_shown(fs, self.file_module_map@, 0) == first_shown(fs, self.file_module_map@, it2.index@ as int),
                    it2.index@ > 0 ==> prefer_non_hidden,
                    first_is(first_module, it2.index@ as int, self.file_module_map@, fs) /*@C33.module.find-pick.inv*/,'''},
            'proof': [
                (r'let parent_node = self\.module_nodes\.get\(&parent_node_id\)\?;', 'before', '''let ghost i = it.index@ as int;
            proof {
                assert(*part == module_parts@[i]);
                lemma_resolve_step(self.module_nodes@, self.module_root_id, texts(module_parts@), i);
                lemma_texts_distinct(self.module_nodes@, self.module_root_id, None, parent_node_id);
            }'''),
                (r'let child_id = \{', 'before', '''proof {
                if child_by_text(parent_node.children@, part@) is None {
                    lemma_resolve_prefix_none(self.module_nodes@, self.module_root_id, texts(module_parts@), i + 1);
                } else {
                    let k = choose|k: String| #[trigger] parent_node.children@.contains_key(k) && k@ == part@;
                    assert(has_child(self.module_nodes@, parent_node_id, k));
                }
            }'''),
                (r'\bparent_node_id = \w+;', 'before', '''proof {
                let k = choose|k: String| #[trigger] parent_node.children@.contains_key(k) && k@ == part@;
                assert(has_child(self.module_nodes@, parent_node_id, k));
                lemma_child_by_text_hit(parent_node.children@, k);
            }'''),
                (r'let node = self\.module_nodes\.get\(&parent_node_id\)\?;', 'before',
                 'proof { assert(texts(module_parts@).take(module_parts@.len() as int) =~= texts(module_parts@)); }'),
                (r'let mut first_module = None;', 'after', 'let ghost fs = node.file_ids@;'),
                (r'let module_info = self\.file_module_map\.get\(file_id\)\?;', 'before', '''let ghost j = it2.index@ as int;
            proof { assert(*file_id == fs[j]); assert(lists(self.module_nodes@, parent_node_id, fs[j])); }'''),
            ]},
        'LuaModuleIndex::find_module_by_normalized_path': {
            'src': {'file': MOD + 'mod.rs', 'kind': 'fn', 'impl': 'LuaModuleIndex', 'name': 'find_module_by_normalized_path'},
            'rules': ['str-split-dot-collect'], 'ret': 'r',
            'requires': 'keys_ok(), module_wf(self)',
            'ensures': '''found(self, r, dot_parts(module_path@)) /*@C33.module.find-normalized-resolves-path*/'''},
        'LuaModuleIndex::find_module': {
            'src': {'file': MOD + 'mod.rs', 'kind': 'fn', 'impl': 'LuaModuleIndex', 'name': 'find_module'},
            'rules': ['str-seps-to-dots', ('str-split-dot-collect', {'count': 2}), ('opt-string-as-deref', {'count': 2})], 'ret': 'r',
            'requires': 'keys_ok(), module_wf(self)',
            'ensures': '''
            // an exact hit of the (separator-normalized) path wins over moduleMap rewriting and fuzzy search
            find_spec(self.module_nodes@, self.module_root_id, self.file_module_map@, dot_parts(seps_to_dots(module_path@))) is Some
                ==> found(self, r, dot_parts(seps_to_dots(module_path@))) /*@C33.module.find-module-exact-hit-first*/,
            // strict require paths (fuzzy search off): the answer is the exact resolution of the path, or else of its moduleMap rewriting; nothing else
            !self.fuzzy_search ==> found(self, r, dot_parts(seps_to_dots(module_path@)))
                || (find_spec(self.module_nodes@, self.module_root_id, self.file_module_map@, dot_parts(seps_to_dots(module_path@))) is None
                    && self.module_replace_vec@.len() > 0
                    && found(self, r, dot_parts(module_map_rewrite(self.module_replace_vec, seps_to_dots(module_path@))))) /*@C33.module.find-module-strict-is-exact*/'''},
        'LuaModuleIndex::find_module_node': {
            'src': {'file': MOD + 'mod.rs', 'kind': 'fn', 'impl': 'LuaModuleIndex', 'name': 'find_module_node'},
            'rules': ['str-seps-to-dots', 'str-split-dot-collect', 'str-key-get-part'], 'ret': 'r', 'attrs': '#[verifier::spinoff_prover]\n#[verifier::loop_isolation(false)]',
            'requires': 'keys_ok(), module_wf(self)',
            'ensures': '''
            // the node reached from the root by the parts of the path (the root itself for the empty path)
            match r {
                Some(nd) => node_of_path(self, module_path@) is Some && self.module_nodes@.contains_key(node_of_path(self, module_path@)->0)
                    && *nd == self.module_nodes@[node_of_path(self, module_path@)->0],
                None => node_of_path(self, module_path@) is None,
            } /*@C33.module.find-node-resolves-path*/''',
            'iter_names': {0: 'it'}, 'body_first': 'let ghost path0 = module_path@;',
            'loops': {0: '''invariant keys_ok(), module_wf(self), self.module_nodes@.contains_key(parent_node_id),
                    path0.len() > 0, texts(module_parts@) == dot_parts(seps_to_dots(path0)),
                    resolve(self.module_nodes@, self.module_root_id, texts(module_parts@).take(it.index@ as int)) == Some(parent_node_id) /*@C33.module.find-node-walk.inv*/,'''},
            'proof': [
                (r'let parent_node = self\.module_nodes\.get\(&parent_node_id\)\?;', 'before', '''let ghost i = it.index@ as int;
            proof {
                assert(*part == module_parts@[i]);
                lemma_resolve_step(self.module_nodes@, self.module_root_id, texts(module_parts@), i);
                lemma_texts_distinct(self.module_nodes@, self.module_root_id, None, parent_node_id);
            }'''),
                (r'let child_id = vx_get_str_key', 'before', '''proof {
                if child_by_text(parent_node.children@, part@) is None {
                    lemma_resolve_prefix_none(self.module_nodes@, self.module_root_id, texts(module_parts@), i + 1);
                } else {
                    let k = choose|k: String| #[trigger] parent_node.children@.contains_key(k) && k@ == part@;
                    assert(has_child(self.module_nodes@, parent_node_id, k));
                }
            }'''),
                (r'\bparent_node_id = \*?\w+;', 'before', '''proof {
                let k = choose|k: String| #[trigger] parent_node.children@.contains_key(k) && k@ == part@;
                assert(has_child(self.module_nodes@, parent_node_id, k));
                lemma_child_by_text_hit(parent_node.children@, k);
            }'''),
                (r'self\.module_nodes\.get\(&parent_node_id\)\s*\}\s*$', 'before',
                 'proof { assert(texts(module_parts@).take(module_parts@.len() as int) =~= texts(module_parts@)); }'),
            ]},
        'analyze_doc_tag_meta::mark': {
            'src': {'kind': 'slice', 'name': 'mark',
                    'in': {'file': SRC + 'compilation/analyzer/decl/docs.rs', 'kind': 'fn', 'name': 'analyze_doc_tag_meta'},
                    'from': r'analyzer\.db\.get_module_index_mut\(\)\.set_meta\(file_id\);\s*analyzer\.is_meta = true;',
                    'to': r'\n    \}(?=\n)',   # the end of the `if let Some(name_token) = tag.get_name_token() { .. }` block (first closing brace at the indentation of the fn body), not a particular statement: a change INSIDE the block stays inside the slice
                    'head': 'pub fn mark(index: &mut LuaModuleIndex, analyzer: &mut DeclAnalyzerMetaSink, tag: &LuaDocTagMeta, file_id: FileId) -> Option<()>',
                    'tail': 'Some(())'},
            'rules': ['analyzer-db-module-index'],
            'ret': 'r',
            'requires': '''keys_ok(), module_wf(old(index)), old(index).file_module_map@.contains_key(file_id),
            tag.name_token() is Some ==> old(index).id_counter as int + tag.name_token()->0.text().len() + 1 <= u32::MAX''',
            'ensures': '''
            // every path that reaches the end of the slice leaves the file marked as a meta file
            r is Some ==> is_meta(final(index), file_id) /*@C20.meta.tag-marks-file-meta*/,
            r is Some /*@C20.meta.tag-slice-completes*/,
            module_wf(final(index))'''},
    },
    'allow': [r'external_body', r'assume_specification\[ <ModuleNode as Default>::default \]', r'uninterp spec fn (dot_parts|join_dot|name_token|text|seps_to_dots|module_map_rewrite|spec_extract_module_path)',
              r"assume_specification<'a, K, V: Default>\[ Entry::<'a, K, V>::or_default \]",
              r'assume_specification<\'a, K: Eq \+ Hash \+ Borrow<Q>, V, S: BuildHasher, A: Allocator, Q: Hash \+ Eq \+ \?Sized>\[ HashMap::<K, V, S, A>::get_mut \]',
              r'assume_specification<T, A: Allocator, F: FnMut\(&T\) -> bool>\[ Vec::<T, A>::retain \]',
              r'assume_specification<K, V, S, A: Allocator, F: FnMut\(&K, &mut V\) -> bool>\[ HashMap::<K, V, S, A>::retain \]'],
    'mutants': [
        {'name': 'name-table-sweep-dropped', 'item': 'LuaModuleIndex::remove', 'pattern': r'(self\.module_name_to_file_ids\.retain\(.*?\n        \}\);)',
         'repl': r'if false { \1 }', 'expect': r'C10\.module\.name-table'},
        {'name': 'name-table-sweep-after-early-return', 'item': 'LuaModuleIndex::remove',
         'pattern': r'(self\.module_name_to_file_ids\.retain\(.*?\n        \}\);)(\s*)(if parent_id\.is_none\(\) \|\| child_id\.is_none\(\) \{\s*return;\s*\})',
         'repl': r'\3\2\1', 'expect': r'C10\.module\.name-table'},
        {'name': 'emptied-leaf-kept', 'item': 'LuaModuleIndex::remove', 'pattern': r'self\.module_nodes\.remove\(&module_id\);', 'repl': '',
         'expect': r'C10\.module\.no-dead-node'},
        {'name': 'file-ids-retain-negated', 'item': 'LuaModuleIndex::remove', 'pattern': r'node\.file_ids\.retain\(\|id\| \*id != file_id\)', 'repl': 'node.file_ids.retain(|id| *id == file_id)',
         'expect': r'C10\.module\.retain-predicate'},
        {'name': 'ancestor-break-instead-of-remove', 'item': 'LuaModuleIndex::remove', 'pattern': r'self\.module_nodes\.remove\(&id\);', 'repl': 'break;',
         'expect': r'loop-invariant-not-satisfied\{break;\}|C10\.module\.(no-dead-node|ancestor-sweep)'},
        {'name': 'file-map-remove-after-early-return', 'item': 'LuaModuleIndex::remove',
         'pattern': r'self\.file_module_map\.remove\(&file_id\)(.*?)(if parent_id\.is_none\(\) \|\| child_id\.is_none\(\) \{\s*return;\s*\})',
         'repl': r'self.file_module_map.get(&file_id)\1\2\n        self.file_module_map.remove(&file_id);', 'expect': r'C10\.module\.file-map'},
        {'name': 'name-table-keeps-empty-vector', 'item': 'LuaModuleIndex::remove', 'pattern': r'!file_ids\.is_empty\(\)', 'repl': 'true',
         'expect': r'C10\.module\.name-table\.drop-empty'},
        {'name': 'ancestor-child-entry-kept', 'item': 'LuaModuleIndex::remove', 'pattern': r'\*node_child_idid != child_module_id', 'repl': 'true',
         'expect': r'C10\.module\.children-retain-predicate'},
        {'name': 'meta-tag-second-set-meta-dropped', 'item': 'analyze_doc_tag_meta::mark',
         'pattern': r'(add_module_by_module_path\(file_id, text\.to_string\(\), workspace_id\);\s*)analyzer\.db\.get_module_index_mut\(\)\.set_meta\(file_id\);', 'repl': r'\1',
         'expect': r'C20\.meta\.tag-marks-file-meta'},
        {'name': 'meta-tag-first-set-meta-dropped', 'item': 'analyze_doc_tag_meta::mark',
         'pattern': r'analyzer\.db\.get_module_index_mut\(\)\.set_meta\(file_id\);(\s*analyzer\.is_meta = true;)', 'repl': r'\1',
         'expect': r'C20\.meta\.tag-marks-file-meta'},
        {'name': 'set-meta-clears-flag', 'item': 'LuaModuleIndex::set_meta', 'pattern': r'module_info\.is_meta = true;', 'repl': 'module_info.is_meta = false;',
         'expect': r'C20\.meta\.set-meta-exact'},
        {'name': 'is-meta-file-always-true', 'item': 'LuaModuleIndex::is_meta_file', 'pattern': r'return module_info\.is_meta;', 'repl': 'return true;',
         'expect': r'C20\.meta\.is-meta-file-exact'},
        {'name': 'add-registers-as-meta', 'item': 'LuaModuleIndex::add_module_by_module_path', 'pattern': r'is_meta: false,', 'repl': 'is_meta: true,',
         'expect': r'C20\.meta\.fresh-registration-not-meta'},
        {'name': 'add-file-not-pushed', 'item': 'LuaModuleIndex::add_module_by_module_path', 'pattern': r'node\.file_ids\.push\(file_id\);', 'repl': '',
         'expect': r'C33\.module\.add-final'},
        {'name': 'add-registers-root', 'item': 'LuaModuleIndex::add_module_by_module_path', 'pattern': r'module_id: parent_node_id,', 'repl': 'module_id: self.module_root_id,',
         'expect': r'C33\.module\.add-final'},
        {'name': 'add-new-node-without-parent', 'item': 'LuaModuleIndex::add_module_by_module_path', 'pattern': r'parent: Some\(parent_node_id\),', 'repl': 'parent: None,',
         'expect': r'C33\.module\.add-walk\.new-child'},
        {'name': 'add-id-counter-not-advanced', 'item': 'LuaModuleIndex::add_module_by_module_path', 'pattern': r'self\.id_counter \+= 1;', 'repl': '',
         'expect': r'C33\.module\.add-walk'},
        {'name': 'add-skips-removal-of-old-registration', 'item': 'LuaModuleIndex::add_module_by_module_path', 'pattern': r'if self\.file_module_map\.contains_key\(&file_id\) \{', 'repl': 'if false {',
         'expect': r'C33\.module\.'},
        {'name': 'add-walk-does-not-descend', 'item': 'LuaModuleIndex::add_module_by_module_path', 'pattern': r'parent_node_id = child_id;', 'repl': 'parent_node_id = parent_node_id;',
         'expect': r'C33\.module\.'},
        {'name': 'find-walk-does-not-descend', 'item': 'LuaModuleIndex::exact_find_module', 'pattern': r'parent_node_id = child_id;', 'repl': 'parent_node_id = parent_node_id;',
         'expect': r'C33\.module\.find-walk\.inv'},
        {'name': 'find-prefers-hidden', 'item': 'LuaModuleIndex::exact_find_module', 'pattern': r'\|\| !module_info\.visible\.is_hidden\(\)', 'repl': '|| module_info.visible.is_hidden()',
         'expect': r'C33\.module\.find-(resolves-path|pick)'},
        {'name': 'find-module-drops-exact-hit', 'item': 'LuaModuleIndex::find_module',
         'pattern': r'(if let Some\(module_info\) = self\.find_module_by_normalized_path\(&module_path\) \{\s*)return Some\(module_info\);', 'repl': r'\1return None;',
         'expect': r'C33\.module\.find-module-(exact-hit-first|strict-is-exact)'},
        {'name': 'find-node-ignores-last-part', 'item': 'LuaModuleIndex::find_module_node', 'pattern': r'parent_node_id = \*child_id;', 'repl': 'parent_node_id = parent_node_id;',
         'expect': r'C33\.module\.find-node'},
        {'name': 'clear-forgets-root', 'item': 'LuaModuleIndex::clear', 'pattern': r'self\.module_nodes\.insert\(self\.module_root_id, root_node\);', 'repl': '',
         'expect': r'C09\.module\.clear'},
        {'name': 'clear-keeps-file-map', 'item': 'LuaModuleIndex::clear', 'pattern': r'self\.file_module_map\.clear\(\);', 'repl': '',
         'expect': r'C09\.module\.clear'},
        {'name': 'root-check-dropped', 'item': 'LuaModuleIndex::remove', 'pattern': r'if id == self\.module_root_id \{', 'repl': 'if false {',
         'expect': r'C10\.module\.'},
    ],
    'min_obligations': 55,
    'trusted': [
        'hashbrown::{HashMap, hash_map::Entry} -> std::collections (rule hashbrown-std for the one qualified path; same API subset and documented behaviour for '
        'get/get_mut/insert/remove/retain/entry/or_default/contains_key/is_empty/clear; iteration order never relied on)',
        'Vec::retain, HashMap::retain, HashMap::get_mut: std-doc contracts as assume_specification (same text as unit c10_remove2)',
        'Entry::or_default: std-doc contract as assume_specification (the value in the entry, or V::default() inserted; shape of vstd\'s own Entry::or_insert contract)',
        '<ModuleNode as Default>::default (derive(Default), the repository\'s own derive list kept): parent None, children empty, file_ids empty (std doc of derive(Default) / '
        'Option, HashMap, Vec defaults)',
        'derive(PartialEq) is field-wise equality (Verus `Structural`): derive lists of FileId, ModuleNodeId, WorkspaceId, ModuleVisibility kept verbatim from the repository',
        'obeys_key_model for FileId, ModuleNodeId (derived Hash/Eq on a u32 newtype) and String (keys_ok())',
        'String-keyed lookups by &str: vx_get_str_key (external_body, body = m.get(k)): found iff a key with that text is present (String: Borrow<str>; vstd has no model of it). '
        'Distinctness of key TEXTS is not assumed: it is part of the proved invariant (tree_wf clause 5), kept by add (inserts only after a miss) and remove',
        'string shims with the weakest true contracts (external_body, body = the very call): vx_split_dot [str::split(\'.\').collect(): parts are a function of the text (uninterp dot_parts), '
        'at least one part, at most len+1 parts], vx_join_dot [uninterp join_dot of the parts], vx_ref_str_to_string [<&str>::to_string has the same text], vx_seps_to_dots '
        '[str::replace([\'\\\\\', \'/\'], "."): uninterp seps_to_dots], vx_opt_string_as_str [Option<String>::as_deref keeps Some/None and the text]',
        'callee shims (external_body): replace_module_path [regex moduleMap rewriting: uninterp function of the rule vector and the text], extract_module_path [uninterp function of '
        'workspaces, module_patterns and the path - the only state the real fn reads], fuzzy_find_module [NO contract: result unconstrained], '
        'AnalyzeContext::add_meta, LuaDocTagMeta::get_name_token, LuaNameToken::get_name_text [uninterp token / text]',
        'opaque payload types: LuaType, LuaVersionCondition, LuaSemanticDeclId, Regex, Workspace (never inspected by the code under proof)',
        'trait-impl methods LuaIndex::{remove, clear} are placed in the inherent impl block (the real calls `self.remove(file_id)` are statically dispatched on LuaModuleIndex)',
        'DeclAnalyzerMetaSink: hand-written projection of DeclAnalyzer to the two members the slice of analyze_doc_tag_meta writes (is_meta, context); `analyzer.db.get_module_index[_mut]()` '
        'becomes the explicit `index` parameter (rule analyzer-db-module-index, re-checks the accessors on every run); `file_id` (= analyzer.get_file_id()) is a parameter of the slice',
        'module_wf is ASSUMED on entry of remove / add_* / find_* (precondition); it is PROVED to be established by new / clear and re-established by remove, add_module_by_module_path, '
        'add_module_by_path, set_meta, set_module_visibility (via the slice) - so it holds in every state reachable through these writers. The other writers of the index '
        '(get_module_mut handing out &mut ModuleInfo, set_module_version_conds, update_config toggling fuzzy_search) do not touch module_id / file_id / the maps: by reading '
        '(callers of get_module_mut only write export_type, semantic_id, visible), not proved',
    ],
    'not_covered': [
        'id_counter overflow: add_module_by_module_path requires id_counter + len(module_path) + 1 <= u32::MAX (`self.id_counter += 1` is unchecked; the counter is never reset, '
        'not even by clear). After 2^32 node creations a release build would wrap to id 0 = the root id. Precondition, not proved unreachable',
        'fuzzy_find_module (iterator adapters filter_map/min_by, strip_suffix, format!) is an opaque shim without contract: find_module is characterised exactly only when fuzzy search '
        'is off (strict.requirePath) and for exact hits; with fuzzy search on, that no stale ModuleInfo can come back follows from C10.module.file-map + C10.module.name-table '
        '(no id of the removed file left in either table) but is not stated as a postcondition of find_module',
        'extract_module_path, replace_module_path, match_pattern, set_module_extract_patterns, set_module_replace_patterns, update_config, workspace functions: not under contract (regex / std::path)',
        'get_module_mut / set_module_version_conds / get_module_infos / get_std_file_ids / is_main / is_std / is_library / get_*_file_ids / get_workspace_id: not extracted (plain reads of file_module_map)',
        'DbIndex::remove delegating to LuaModuleIndex::remove is in unit c10_remove2 (there the module index is still an opaque shim): the integrator may replace that shim\'s '
        'empty contract by the one proved here',
        'the rest of analyze_doc_tag_meta (version conditions after the slice) and DeclAnalyzer::get_file_id',
        'that ModuleNodeIds stay unobservable / that re-adding yields an isomorphic tree is only stated as C09.module.readd-sweeps-then-grows (sweep as by remove, then grow by the path), not as an isomorphism theorem',
    ],
    'findings': [
        'C08/C33 (not an obligation of this unit; machine-checked witness: lemma_resubmission_changes_choice): which of several files registered under ONE module path a require '
        'resolves to is the first visible entry of the node\'s file list (C33.module.find-resolves-path), and re-registering a file moves it to the END of that list '
        '(remove leaves the other files in order, add pushes). Re-submitting the unchanged file /ws/a.lua while /ws/a/init.lua also exists (patterns ?.lua, ?/init.lua: both are '
        'module "a") flips require("a") from a.lua to a/init.lua. Sequence on LuaModuleIndex: add_module_by_path(1, "/ws/a.lua"); add_module_by_path(2, "/ws/a/init.lua"); '
        'find_module("a") -> file 1; add_module_by_path(1, "/ws/a.lua") [= update_file_by_uri: remove_index + module_analyze]; find_module("a") -> file 2',
        'C20 (outside the precondition of the slice): a file WITHOUT module entry (add_module_by_path returned None: under no workspace root / matching no pattern, or a remote file) is never '
        'marked meta by `---@meta`: set_meta is a no-op, `---@meta name` returns early at get_module(file_id)?; is_meta_file stays false and is_checker_enable_by_code does not suppress its diagnostics',
    ],
    'samples': [
        'remove(f): file_module_map\' = file_module_map - f; no node lists f; kept nodes keep parent / other files in order / kept children; removed nodes were not the root, had no other file '
        'and only removed children; every kept non-root node has a file or a child; name table vectors = old vectors minus f, emptied ones dropped; module_wf kept',
        'add_module_by_module_path(f, "a.b.c", ws): Some; resolve(nodes\', root, dot_parts(path)) == Some(file_module_map\'[f].module_id); that node lists f (no duplicates); '
        'ModuleInfo fresh (is_meta false); other entries untouched; module_wf kept',
        'clear(): nodes = {root: no parent / child / file}, both tables empty, module_wf',
        'exact_find_module(parts): Some(info of the file picked among the files of resolve(parts)) / None iff the path does not resolve or its node lists no file',
        'lemma_removed_is_unresolvable: path resolved to a node listing only f  ==>  after remove(f) find_spec(path) is None',
        'analyze_doc_tag_meta slice: file has a module entry on entry ==> is_meta_file(file_id) at the end of the slice, on every branch (incl. `---@meta some.module` re-registration)',
    ],
}
