import re
from vc import rules as R
from vc import rustlex as L

SRC = 'crates/emmylua_code_analysis/src/'
DB = SRC + 'db_index/'
MOD = DB + 'module/'


def st(file, name, attrs=None, **kw):
    d = {'src': {'file': file, 'kind': 'struct', 'name': name}, 'rules': [('struct-fields', kw)]}
    if attrs: d['attrs'] = attrs
    return d


FILTER_PROOF = '''proof {
                    assert(exists|keep: Seq<bool>| keep.len() == %(v0)s.len() && (forall|i: int| 0 <= i < keep.len() ==> #[trigger] keep[i] == (%(v0)s[i] != file_id)) && %(cur)s == filter_by(%(v0)s, keep));
                    let keep = choose|keep: Seq<bool>| keep.len() == %(v0)s.len() && (forall|i: int| 0 <= i < keep.len() ==> #[trigger] keep[i] == (%(v0)s[i] != file_id)) && %(cur)s == filter_by(%(v0)s, keep);
                    lemma_filter_by_is_filter(%(v0)s, keep, not_file(file_id));
                }'''

RM_ENSURES = '''
            // the file's entry is gone, every other entry is untouched
            final(self).file_module_map@ == old(self).file_module_map@.remove(file_id) /*@C10.module.file-map*/,
            // no node lists the file any more
            forall|x: ModuleNodeId| #[trigger] final(self).module_nodes@.contains_key(x) ==> !final(self).module_nodes@[x].file_ids@.contains(file_id) /*@C10.module.no-node-lists-file*/,
            // kept nodes: same parent, their other files in order, their kept children under the same names; removed nodes: not the root,
            // no other file, all children removed too (the chain of ancestors that became empty); every kept node but the root has a file or a child
            tree_swept(old(self).module_nodes@, final(self).module_nodes@, old(self).module_root_id, file_id) /*@C10.module.no-dead-node*/,
            // name table: every vector keeps exactly its other files in order; emptied vectors are dropped
            names_swept(old(self).module_name_to_file_ids@, final(self).module_name_to_file_ids@, file_id) /*@C10.module.name-table*/,
            forall|k: String| #[trigger] final(self).module_name_to_file_ids@.contains_key(k) ==>
                !final(self).module_name_to_file_ids@[k]@.contains(file_id) && final(self).module_name_to_file_ids@[k]@.len() > 0 /*@C10.module.name-table.no-file-no-empty*/,
            module_wf(final(self)) /*@C10.module.wf-preserved*/,
            config_same(old(self), final(self))'''

RM_FIRST = '''let ghost n0 = self.module_nodes@; let ghost fm0 = self.file_module_map@; let ghost nt0 = self.module_name_to_file_ids@;
        let ghost root = self.module_root_id; let ghost cnt0 = self.id_counter; let ghost pre = *self;'''

RM_LOOP = '''invariant_except_break
                child_id is Some, n0.contains_key(child_id->0), !self.module_nodes@.contains_key(child_id->0), parent_id == n0[child_id->0].parent,
                rm_inv(n0, self.module_nodes@, root, file_id, parent_id, child_id->0) /*@C10.module.ancestor-sweep.inv*/,
            invariant
                keys_ok(), wf_parts(n0, root, fm0, nt0, cnt0), config_same(&pre, self), pre == *old(self),
                n0 == pre.module_nodes@, fm0 == pre.file_module_map@, nt0 == pre.module_name_to_file_ids@, root == pre.module_root_id, cnt0 == pre.id_counter,
                self.file_module_map@ == fm0.remove(file_id), names_swept(nt0, self.module_name_to_file_ids@, file_id),
            ensures rm_inv(n0, self.module_nodes@, root, file_id, None, root) /*@C10.module.ancestor-sweep.done*/,
            decreases self.module_nodes@.len()'''

RM_FINAL = 'proof { lemma_rm_final(n0, root, fm0, nt0, cnt0, file_id, self.module_nodes@, self.module_name_to_file_ids@); names_no_file(nt0, self.module_name_to_file_ids@, file_id); }'

RM_PROOF = [
    # ---- first part: the file's own node
    (r'let node = match self\.module_nodes\.get_mut\(&module_id\)', 'before', 'proof { assert(lists(n0, module_id, file_id)); }'),
    (r'node\.file_ids\.retain\(', 'before', 'let ghost nd0 = *node; let ghost v0 = node.file_ids@;'),
    (r'node\.file_ids\.retain\([^;]*\);', 'after', FILTER_PROOF % {'v0': 'v0', 'cur': 'node.file_ids@'}),
    (r'\(parent, Some\(module_id\)\)', 'before',
     '''proof {
                        assert(self.module_nodes@ =~= n0.remove(module_id)); /*@C10.module.no-dead-node.emptied-leaf-dropped*/
                        lemma_rm_first_removed(n0, root, fm0, file_id, module_id, self.module_nodes@);
                    }'''),
    (r'if node\.file_ids\.is_empty\(\)\s*&& node\.children\.is_empty\(\)\s*&& module_id', 'before', 'let ghost nd1 = *node;'),
    (r'\} else \{(?=\s*\(None, None\)\s*\}\s*\} else)', 'after',
     'proof { lemma_rm_first_kept(n0, root, fm0, file_id, module_id, nd1, self.module_nodes@); } /*@C10.module.no-node-lists-file.own-node*/'),
    (r'\} else \{(?=\s*\(None, None\)\s*\};)', 'after', 'proof { lemma_rm_no_file(n0, root, fm0, file_id); }'),
    # ---- name table
    (r'\n\s+file_ids\.retain\(', 'before', 'let ghost w0 = file_ids@;'),
    (r'\n\s+file_ids\.retain\([^;]*\);', 'after', FILTER_PROOF % {'v0': 'w0', 'cur': 'file_ids@'}),
    (r'if parent_id\.is_none\(\) \|\| child_id\.is_none\(\) \{', 'after', RM_FINAL),
    # ---- ancestor loop
    (r'let child_module_id = match child_id', 'before', 'let ghost m_in = self.module_nodes@;'),
    (r'node\.children\s*\.retain\(', 'before', 'let ghost nd0 = *node;'),
    (r'node\.children\s*\.retain\([^;]*\);', 'after', 'let ghost nd1 = *node; proof { assert(ch_swept(nd0.children@, nd1.children@, child_module_id)); } /*@C10.module.ancestor-sweep.child-entry-dropped*/'),
    (r'return;\s*\}\s*if node\.file_ids\.is_empty\(\) && node\.children', 'before', 'proof { lemma_rm_step_kept(n0, m_in, self.module_nodes@, root, file_id, id, child_module_id, nd1); } /*@C10.module.ancestor-sweep.root-kept*/\n' + RM_FINAL),
    (r'parent_id = node\.parent;\s*[^;]*;', 'after',
     '''proof {
                    assert(self.module_nodes@ =~= m_in.remove(id)); /*@C10.module.no-dead-node.emptied-ancestor-dropped*/
                    lemma_rm_step_removed(n0, m_in, self.module_nodes@, root, file_id, id, child_module_id); /*@C10.module.ancestor-sweep.step*/
                }'''),
    (r'\} else \{(?=\s*break;)', 'after', 'proof { lemma_rm_step_kept(n0, m_in, self.module_nodes@, root, file_id, id, child_module_id, nd1); } /*@C10.module.ancestor-sweep.live-ancestor-kept*/'),
    (r'\}\s*$', 'before', RM_FINAL),
]

UNIT = {
    'extra_rules': [
        ('str-split-dot-collect', r"(\w+)\.split\('\.'\)\.collect\(\)", r'vx_split_dot(&\1)',
         "S.split('.').collect() (collected into a Vec<&str>, S: String or &str) -> vx_split_dot(&S): the helper's body is that very call chain; it only attaches "
         "the std-doc facts used here (str::split yields the substrings between the separators: one more item than there are separators, hence at least one; "
         "the items are a function of the text)"),
        ('slice-join-dot', r'(\w+)\.join\("\."\)', r'vx_join_dot(&\1)',
         'V.join(".") (V: Vec<&str>) -> vx_join_dot(&V): the helper\'s body is that very call; its result is an uninterpreted function of the parts\' texts'),
        ('c10m-file-ids-closure-contract', r'\|id\| ([^;]*?)\);',
         r'|id: &FileId| -> (b: bool) ensures b == (*id != file_id) /*@C10.module.retain-predicate*/ { \1 });',
         'contract overlay on the closure handed to Vec::retain: parameter type, named result and `ensures` are added; the body expression is kept verbatim '
         'and Verus checks the ensures against it'),
        ('c10m-name-table-closure-contract', r'\|_, file_ids\| \{(.*?)\n(\s*)\}\);',
         r'|_k: &String, file_ids: &mut Vec<FileId>| -> (b: bool)\n                ensures final(file_ids)@ == fids_not(old(file_ids)@, file_id) /*@C10.module.name-table.inner-retain*/,\n                    b == (final(file_ids)@.len() > 0) /*@C10.module.name-table.drop-empty*/\n            {\1\n\2});',
         'contract overlay on the closure handed to HashMap::retain: parameter types, a name for the ignored `_` key parameter (never used), '
         'named result and `ensures` are added; the body statements are kept verbatim and Verus checks the ensures against them', 16),
        ('c10m-children-closure-contract', r'\|_, node_child_idid\| ([^;]*?)\);',
         r'|_k: &String, node_child_idid: &mut ModuleNodeId| -> (b: bool) ensures b == (*old(node_child_idid) != child_module_id) /*@C10.module.children-retain-predicate*/, *final(node_child_idid) == *old(node_child_idid) { \1 });',
         'contract overlay on the closure handed to HashMap::retain: parameter types, a name for the ignored `_` key parameter, named result and `ensures` are added; body verbatim'),
    ],
    'items': {
        'FileId': {'src': {'file': SRC + 'vfs/file_id.rs', 'kind': 'struct', 'name': 'FileId', 'drop_attrs': False}, 'attrs': '#[derive(Structural)]'},
        'ModuleNodeId': {'src': {'file': MOD + 'module_node.rs', 'kind': 'struct', 'name': 'ModuleNodeId', 'drop_attrs': False}, 'attrs': '#[derive(Structural)]'},
        'WorkspaceId': {'src': {'file': MOD + 'workspace.rs', 'kind': 'struct', 'name': 'WorkspaceId', 'drop_attrs': False}, 'attrs': '#[derive(Structural)]'},
        'ModuleNode': st(MOD + 'module_node.rs', 'ModuleNode'),
        'ModuleVisibility': {'src': {'file': MOD + 'module_info.rs', 'kind': 'enum', 'name': 'ModuleVisibility', 'drop_attrs': False}},
        'ModuleInfo': st(MOD + 'module_info.rs', 'ModuleInfo'),
        'LuaModuleIndex': st(MOD + 'mod.rs', 'LuaModuleIndex'),
        'LuaModuleIndex::remove': {
            'src': {'file': MOD + 'mod.rs', 'kind': 'fn', 'impl': 'LuaIndex for LuaModuleIndex', 'name': 'remove'},
            'rules': [('c10m-file-ids-closure-contract', {'count': 2}), 'c10m-name-table-closure-contract', 'c10m-children-closure-contract'],
            'attrs': '#[verifier::spinoff_prover]',
            'requires': 'keys_ok(), module_wf(old(self))',
            'ensures': RM_ENSURES, 'body_first': RM_FIRST, 'loops': {0: RM_LOOP}, 'proof': RM_PROOF},
        'LuaModuleIndex::add_module_by_module_path': {
            'src': {'file': MOD + 'mod.rs', 'kind': 'fn', 'impl': 'LuaModuleIndex', 'name': 'add_module_by_module_path'},
            'rules': ['hashbrown-std', 'str-split-dot-collect', 'slice-join-dot'],
            'requires': 'keys_ok(), module_wf(old(self))'},
    },
    'allow': [r'external_body', r'uninterp spec fn (dot_parts|join_dot)',
              r"assume_specification<'a, K, V: Default>\[ Entry::<'a, K, V>::or_default \]",
              r'assume_specification<\'a, K: Eq \+ Hash \+ Borrow<Q>, V, S: BuildHasher, A: Allocator, Q: Hash \+ Eq \+ \?Sized>\[ HashMap::<K, V, S, A>::get_mut \]',
              r'assume_specification<T, A: Allocator, F: FnMut\(&T\) -> bool>\[ Vec::<T, A>::retain \]',
              r'assume_specification<K, V, S, A: Allocator, F: FnMut\(&K, &mut V\) -> bool>\[ HashMap::<K, V, S, A>::retain \]'],
    'mutants': [
        {'name': 'name-table-sweep-dropped', 'item': 'LuaModuleIndex::remove', 'pattern': r'(self\.module_name_to_file_ids\.retain\(.*?\n        \}\);)',
         'repl': r'if false { \1 }', 'expect': r'C10\.module\.name-table'},
        {'name': 'emptied-leaf-kept', 'item': 'LuaModuleIndex::remove', 'pattern': r'self\.module_nodes\.remove\(&module_id\);', 'repl': '',
         'expect': r'C10\.module\.no-dead-node'},
        {'name': 'file-ids-retain-negated', 'item': 'LuaModuleIndex::remove', 'pattern': r'node\.file_ids\.retain\(\|id\| \*id != file_id\)', 'repl': 'node.file_ids.retain(|id| *id == file_id)',
         'expect': r'C10\.module\.retain-predicate'},
        {'name': 'ancestor-break-instead-of-remove', 'item': 'LuaModuleIndex::remove', 'pattern': r'self\.module_nodes\.remove\(&id\);', 'repl': 'break;',
         'expect': r'loop-invariant-not-satisfied\{break;\}|C10\.module\.(no-dead-node|ancestor-sweep)'},
        {'name': 'file-map-remove-after-early-return', 'item': 'LuaModuleIndex::remove',
         'pattern': r'self\.file_module_map\.remove\(&file_id\)(.*?)(if parent_id\.is_none\(\) \|\| child_id\.is_none\(\) \{\s*return;\s*\})',
         'repl': r'self.file_module_map.get(&file_id)\1\2\n        self.file_module_map.remove(&file_id);', 'expect': r'C10\.module\.file-map'},
        {'name': 'name-table-keeps-empty-vector', 'item': 'LuaModuleIndex::remove', 'pattern': r'!file_ids\.is_empty\(\)', 'repl': 'true',
         'expect': r'C10\.module\.name-table\.drop-empty'},
        {'name': 'ancestor-child-entry-kept', 'item': 'LuaModuleIndex::remove', 'pattern': r'\*node_child_idid != child_module_id', 'repl': 'true',
         'expect': r'C10\.module\.children-retain-predicate'},
        {'name': 'root-check-dropped', 'item': 'LuaModuleIndex::remove', 'pattern': r'if id == self\.module_root_id \{', 'repl': 'if false {',
         'expect': r'C10\.module\.'},
    ],
    'min_obligations': 1,
    'trusted': [],
    'not_covered': [],
}
