// ---- path resolution and what `add_module_by_module_path` does to the tree ------------------------------------
/// the child registered under a name whose text is `t`
pub open spec fn child_by_text(ch: Map<String, ModuleNodeId>, t: Seq<char>) -> Option<ModuleNodeId> {
    if exists|k: String| #[trigger] ch.contains_key(k) && k@ == t { Some(ch[choose|k: String| #[trigger] ch.contains_key(k) && k@ == t]) } else { None }
}

/// the node reached from `root` by following the names `parts` (what `find_module_node` / `exact_find_module` walk)
pub open spec fn resolve(n: Nodes, root: ModuleNodeId, parts: Seq<Seq<char>>) -> Option<ModuleNodeId>
    decreases parts.len()
{
    if parts.len() == 0 { Some(root) } else {
        match resolve(n, root, parts.drop_last()) {
            Some(p) => if n.contains_key(p) { child_by_text(n[p].children@, parts.last()) } else { None },
            None => None,
        }
    }
}

/// `n` is `o` with nodes / child entries added (nothing of `o` is touched; new nodes list no file)
pub open spec fn grown(o: Nodes, n: Nodes) -> bool {
    &&& forall|x: ModuleNodeId| #[trigger] o.contains_key(x) ==> n.contains_key(x) && n[x].parent == o[x].parent && n[x].file_ids@ == o[x].file_ids@
    &&& forall|x: ModuleNodeId, name: String| #[trigger] has_child(o, x, name) ==> has_child(n, x, name) && child(n, x, name) == child(o, x, name)
    &&& forall|x: ModuleNodeId, name: String| #[trigger] has_child(n, x, name) && o.contains_key(x) && !has_child(o, x, name) ==> !o.contains_key(child(n, x, name))
    &&& forall|x: ModuleNodeId| #[trigger] n.contains_key(x) && !o.contains_key(x) ==> n[x].file_ids@.len() == 0
}

/// loop invariant of the walk: `cur` is the node reached by the parts consumed so far (`pre`); it may still be a dead leaf
#[verifier::opaque]
pub open spec fn add_inv(n1: Nodes, m: Nodes, root: ModuleNodeId, cur: ModuleNodeId, pre: Seq<Seq<char>>, fm: FileMap, cnt1: u32, cnt: u32) -> bool {
    &&& tree_wf_ex(m, root, Some(cur)) &&& m.contains_key(cur) &&& resolve(m, root, pre) == Some(cur)
    &&& files_wf(m, fm) &&& ids_wf(m, cnt) &&& grown(n1, m) &&& cnt1 <= cnt <= cnt1 + pre.len() &&& rooted(m, root)
}

pub open spec fn texts_distinct(ch: Map<String, ModuleNodeId>) -> bool {
    forall|a: String, b: String| #[trigger] ch.contains_key(a) && #[trigger] ch.contains_key(b) && a@ == b@ ==> a == b
}

pub proof fn lemma_child_by_text_hit(ch: Map<String, ModuleNodeId>, k: String)
    requires ch.contains_key(k), texts_distinct(ch),
    ensures child_by_text(ch, k@) == Some(ch[k]),
{
    let k2 = choose|k2: String| #[trigger] ch.contains_key(k2) && k2@ == k@;
    assert(ch.contains_key(k2) && ch.contains_key(k));
}

pub proof fn lemma_texts_distinct(n: Nodes, root: ModuleNodeId, ex: Option<ModuleNodeId>, p: ModuleNodeId)
    requires tree_wf_ex(n, root, ex), n.contains_key(p),
    ensures texts_distinct(n[p].children@),
{
    assert forall|a: String, b: String| #[trigger] n[p].children@.contains_key(a) && #[trigger] n[p].children@.contains_key(b) && a@ == b@ implies a == b by {
        assert(has_child(n, p, a) && has_child(n, p, b));
    }
}

/// resolution only depends on the child entries: entries that stay (same node under the same name) keep every resolved path
pub proof fn lemma_resolve_mono(o: Nodes, n: Nodes, root: ModuleNodeId, ex: Option<ModuleNodeId>, parts: Seq<Seq<char>>)
    requires
        forall|x: ModuleNodeId, name: String| #[trigger] has_child(o, x, name) ==> has_child(n, x, name) && child(n, x, name) == child(o, x, name),
        tree_wf_ex(n, root, ex), resolve(o, root, parts) is Some,
    ensures resolve(n, root, parts) == resolve(o, root, parts),
    decreases parts.len()
{
    if parts.len() > 0 {
        lemma_resolve_mono(o, n, root, ex, parts.drop_last());
        let p = resolve(o, root, parts.drop_last())->0;
        let ch = o[p].children@;
        let k = choose|k: String| #[trigger] ch.contains_key(k) && k@ == parts.last();
        assert(has_child(o, p, k));
        assert(has_child(n, p, k));
        lemma_texts_distinct(n, root, ex, p);
        lemma_child_by_text_hit(n[p].children@, k);
    }
}

/// the next part names an existing child: walk into it
#[verifier::spinoff_prover]
pub proof fn lemma_add_step_existing(n1: Nodes, m: Nodes, root: ModuleNodeId, cur: ModuleNodeId, pre: Seq<Seq<char>>, fm: FileMap, cnt1: u32, cnt: u32, k: String)
    requires add_inv(n1, m, root, cur, pre, fm, cnt1, cnt), has_child(m, cur, k),
    ensures add_inv(n1, m, root, child(m, cur, k), pre.push(k@), fm, cnt1, cnt),
{
    reveal(add_inv);
    let c = child(m, cur, k);
    assert(m[cur].children@.dom().contains(k));
    assert(live(m[cur]));
    assert(pre.push(k@).drop_last() =~= pre);
    lemma_texts_distinct(m, root, Some(cur), cur);
    lemma_child_by_text_hit(m[cur].children@, k);
}

/// the next part names no child yet: a fresh node `nid` is registered under `key` in `cur` and created
#[verifier::spinoff_prover]
pub proof fn lemma_add_step_new(n1: Nodes, m: Nodes, m2: Nodes, root: ModuleNodeId, cur: ModuleNodeId, pre: Seq<Seq<char>>, fm: FileMap, cnt1: u32, cnt: u32,
                                key: String, nid: ModuleNodeId, nd: ModuleNode, nn: ModuleNode)
    requires add_inv(n1, m, root, cur, pre, fm, cnt1, cnt), cnt < u32::MAX, nid.id == cnt,
        forall|s: String| #[trigger] m[cur].children@.contains_key(s) ==> s@ != key@,
        nd.parent == m[cur].parent, nd.file_ids@ == m[cur].file_ids@, nd.children@ == m[cur].children@.insert(key, nid),
        nn.parent == Some(cur), nn.children@ == Map::<String, ModuleNodeId>::empty(), nn.file_ids@ == Seq::<FileId>::empty(),
        m2 == m.insert(cur, nd).insert(nid, nn),
    ensures add_inv(n1, m2, root, nid, pre.push(key@), fm, cnt1, (cnt + 1) as u32),
{
    reveal(add_inv);
    assert(!m.contains_key(nid));
    assert(nid != cur && nid != root);
    // child entries of m stay
    assert forall|x: ModuleNodeId, name: String| #[trigger] has_child(m, x, name) implies has_child(m2, x, name) && child(m2, x, name) == child(m, x, name) by {
        if x == cur { assert(name != key); }
    }
    // child entries of m2 are those of m plus (cur, key) -> nid
    assert forall|x: ModuleNodeId, name: String| #[trigger] has_child(m2, x, name) implies
            (x == cur && name == key && child(m2, x, name) == nid) || (has_child(m, x, name) && child(m2, x, name) == child(m, x, name)) by {
        if x == nid { assert(nn.children@.contains_key(name)); }
    }
    assert(has_child(m2, cur, key) && child(m2, cur, key) == nid);
    // tree_wf_ex(m2, root, Some(nid))
    assert forall|x: ModuleNodeId| #[trigger] m2.contains_key(x) && x != root implies m2[x].parent is Some && m2.contains_key(m2[x].parent->0)
            && exists|name: String| #[trigger] has_child(m2, m2[x].parent->0, name) && child(m2, m2[x].parent->0, name) == x by {
        if x == nid {
            assert(has_child(m2, cur, key));
        } else {
            assert(m.contains_key(x));
            let p = m[x].parent->0;
            let name = choose|name: String| #[trigger] has_child(m, p, name) && child(m, p, name) == x;
            assert(has_child(m2, p, name));
        }
    }
    assert forall|p: ModuleNodeId, a: String, b: String| #[trigger] has_child(m2, p, a) && #[trigger] has_child(m2, p, b) && child(m2, p, a) == child(m2, p, b) implies a == b by {
        if has_child(m, p, a) { assert(m.contains_key(child(m, p, a))); }
        if has_child(m, p, b) { assert(m.contains_key(child(m, p, b))); }
    }
    assert forall|p: ModuleNodeId, name: String| #[trigger] has_child(m2, p, name) implies m2.contains_key(child(m2, p, name)) && m2[child(m2, p, name)].parent == Some(p) by {
        if has_child(m, p, name) {
            let c = child(m, p, name);
            assert(m.contains_key(c) && m[c].parent == Some(p));
        }
    }
    assert forall|p: ModuleNodeId, a: String, b: String| #[trigger] has_child(m2, p, a) && #[trigger] has_child(m2, p, b) && a@ == b@ implies a == b by {
        if p == cur && a == key && b != key { assert(has_child(m, p, b)); assert(m[cur].children@.contains_key(b)); }
        if p == cur && b == key && a != key { assert(has_child(m, p, a)); assert(m[cur].children@.contains_key(a)); }
    }
    assert forall|x: ModuleNodeId| #[trigger] m2.contains_key(x) && x != root && Some(nid) != Some(x) implies live(m2[x]) by {
        if x == cur {
            assert(nd.children@.dom().contains(key));
        } else {
            assert(m.contains_key(x));
        }
    }
    assert(tree_wf_ex(m2, root, Some(nid)));
    // rooted
    assert forall|x: ModuleNodeId| #[trigger] m2.contains_key(x) implies exists|d: nat| #[trigger] anc(m2, x, d) == Some(root) by {
        if x == nid {
            let d = choose|d: nat| #[trigger] anc(m, cur, d) == Some(root);
            lemma_anc_same_parents(m, m2, cur, d, root);
            assert(anc(m2, nid, d + 1) == Some(root));
        } else {
            assert(m.contains_key(x));
            let d = choose|d: nat| #[trigger] anc(m, x, d) == Some(root);
            lemma_anc_same_parents(m, m2, x, d, root);
        }
    }
    // resolution
    lemma_resolve_mono(m, m2, root, Some(nid), pre);
    assert(pre.push(key@).drop_last() =~= pre);
    lemma_texts_distinct(m2, root, Some(nid), cur);
    lemma_child_by_text_hit(m2[cur].children@, key);
    // files
    assert forall|x: ModuleNodeId, g: FileId| #[trigger] lists(m2, x, g) implies lists(m, x, g) by {
        if x == nid { assert(nn.file_ids@.len() == 0); }
    }
    assert forall|g: FileId| #[trigger] fm.contains_key(g) implies lists(m2, fm[g].module_id, g) by {
        assert(lists(m, fm[g].module_id, g));
    }
    assert forall|x: ModuleNodeId| #[trigger] m2.contains_key(x) implies m2[x].file_ids@.no_duplicates() by {
        if x != nid { assert(m.contains_key(x)); }
    }
    assert(files_wf(m2, fm));
    // grown(n1, m2)
    assert forall|x: ModuleNodeId, name: String| #[trigger] has_child(n1, x, name) implies has_child(m2, x, name) && child(m2, x, name) == child(n1, x, name) by {
        assert(has_child(m, x, name));
    }
    assert forall|x: ModuleNodeId, name: String| #[trigger] has_child(m2, x, name) && n1.contains_key(x) && !has_child(n1, x, name) implies !n1.contains_key(child(m2, x, name)) by {
        if has_child(m, x, name) { } else { if n1.contains_key(nid) { assert(m.contains_key(nid)); } }
    }
    assert forall|x: ModuleNodeId| #[trigger] m2.contains_key(x) && !n1.contains_key(x) implies m2[x].file_ids@.len() == 0 by {
        if x != nid { assert(m.contains_key(x)); }
    }
    assert forall|x: ModuleNodeId| #[trigger] n1.contains_key(x) implies m2.contains_key(x) && m2[x].parent == n1[x].parent && m2[x].file_ids@ == n1[x].file_ids@ by {
        assert(m.contains_key(x));
    }
}

/// the tree after `add_module_by_module_path(f, ..)` relative to the tree `o` it started from (after the removal of a previous
/// registration of `f`): grown by the nodes of the path, and the node `x` of the path lists `f` as its last file
pub open spec fn tree_added(o: Nodes, n: Nodes, x: ModuleNodeId, f: FileId) -> bool {
    exists|m: Nodes| #[trigger] grown(o, m) && m.contains_key(x) && n == m.insert(x, n[x])
        && n[x].parent == m[x].parent && n[x].children@ == m[x].children@ && n[x].file_ids@ == m[x].file_ids@.push(f)
}

/// end of the walk: the file is pushed onto the node reached and registered in the file map
#[verifier::spinoff_prover]
pub proof fn lemma_add_final(n1: Nodes, m: Nodes, m2: Nodes, root: ModuleNodeId, cur: ModuleNodeId, parts: Seq<Seq<char>>, fm: FileMap, cnt1: u32, cnt: u32,
                             f: FileId, nd: ModuleNode, info: ModuleInfo)
    requires add_inv(n1, m, root, cur, parts, fm, cnt1, cnt), !fm.contains_key(f),
        nd.parent == m[cur].parent, nd.children@ == m[cur].children@, nd.file_ids@ == m[cur].file_ids@.push(f),
        m2 == m.insert(cur, nd), info.module_id == cur, info.file_id == f,
    ensures tree_wf(m2, root), rooted(m2, root), files_wf(m2, fm.insert(f, info)), ids_wf(m2, cnt), resolve(m2, root, parts) == Some(cur),
        lists(m2, cur, f), tree_added(n1, m2, cur, f),
{
    reveal(add_inv);
    let fm2 = fm.insert(f, info);
    assert forall|x: ModuleNodeId, name: String| has_child(m2, x, name) == has_child(m, x, name) && (has_child(m, x, name) ==> child(m2, x, name) == child(m, x, name)) by {}
    assert(nd.file_ids@[m[cur].file_ids@.len() as int] == f);
    assert(lists(m2, cur, f));
    assert forall|x: ModuleNodeId| #[trigger] m2.contains_key(x) && x != root implies m2[x].parent is Some && m2.contains_key(m2[x].parent->0)
            && exists|name: String| #[trigger] has_child(m2, m2[x].parent->0, name) && child(m2, m2[x].parent->0, name) == x by {
        assert(m.contains_key(x));
        let p = m[x].parent->0;
        let name = choose|name: String| #[trigger] has_child(m, p, name) && child(m, p, name) == x;
        assert(has_child(m2, p, name));
    }
    assert forall|p: ModuleNodeId, a: String, b: String| #[trigger] has_child(m2, p, a) && #[trigger] has_child(m2, p, b) && child(m2, p, a) == child(m2, p, b) implies a == b by {
        assert(has_child(m, p, a) && has_child(m, p, b));
    }
    assert forall|p: ModuleNodeId, name: String| #[trigger] has_child(m2, p, name) implies m2.contains_key(child(m2, p, name)) && m2[child(m2, p, name)].parent == Some(p) by {
        assert(has_child(m, p, name));
    }
    assert forall|p: ModuleNodeId, a: String, b: String| #[trigger] has_child(m2, p, a) && #[trigger] has_child(m2, p, b) && a@ == b@ implies a == b by {
        assert(has_child(m, p, a) && has_child(m, p, b));
    }
    assert forall|x: ModuleNodeId| #[trigger] m2.contains_key(x) && x != root implies live(m2[x]) by {
        if x != cur { assert(m.contains_key(x)); }
    }
    assert(tree_wf(m2, root));
    assert forall|x: ModuleNodeId| #[trigger] m2.contains_key(x) implies exists|d: nat| #[trigger] anc(m2, x, d) == Some(root) by {
        assert(m.contains_key(x));
        let d = choose|d: nat| #[trigger] anc(m, x, d) == Some(root);
        lemma_anc_same_parents(m, m2, x, d, root);
    }
    lemma_resolve_mono(m, m2, root, None, parts);
    // files
    assert forall|x: ModuleNodeId, g: FileId| #[trigger] lists(m2, x, g) implies fm2.contains_key(g) && fm2[g].module_id == x by {
        if x == cur {
            let i = choose|i: int| 0 <= i < nd.file_ids@.len() && nd.file_ids@[i] == g;
            if i < m[cur].file_ids@.len() { assert(m[cur].file_ids@[i] == g); assert(lists(m, x, g)); }
        } else {
            assert(lists(m, x, g));
        }
        if g == f && x != cur { assert(lists(m, x, f)); }
    }
    assert forall|g: FileId| #[trigger] fm2.contains_key(g) implies lists(m2, fm2[g].module_id, g) && fm2[g].file_id == g by {
        if g != f {
            let x = fm[g].module_id;
            assert(lists(m, x, g));
            if x == cur {
                let i = choose|i: int| 0 <= i < m[cur].file_ids@.len() && m[cur].file_ids@[i] == g;
                assert(nd.file_ids@[i] == g);
            }
        }
    }
    assert forall|x: ModuleNodeId| #[trigger] m2.contains_key(x) implies m2[x].file_ids@.no_duplicates() by {
        assert(m.contains_key(x));
        if x == cur {
            if m[cur].file_ids@.contains(f) { assert(lists(m, cur, f)); }
            assert forall|i: int, j: int| 0 <= i < nd.file_ids@.len() && 0 <= j < nd.file_ids@.len() && i != j implies nd.file_ids@[i] != nd.file_ids@[j] by {
                let l = m[cur].file_ids@.len() as int;
                if i < l { assert(m[cur].file_ids@.contains(m[cur].file_ids@[i])); }
                if j < l { assert(m[cur].file_ids@.contains(m[cur].file_ids@[j])); }
            }
        }
    }
    assert(grown(n1, m) && m.contains_key(cur) && m2 == m.insert(cur, m2[cur]));
}

/// the name table after a registration: untouched (fuzzy search off) or `f` appended to the vector of the module's last name
pub open spec fn names_added(o: NameTable, n: NameTable, fuzzy: bool, name: Seq<char>, f: FileId) -> bool {
    if fuzzy {
        exists|key: String| #[trigger] n.contains_key(key) && key@ == name && n == o.insert(key, n[key])
            && n[key]@ == (if o.contains_key(key) { o[key]@ } else { Seq::<FileId>::empty() }).push(f)
    } else { n == o }
}

pub proof fn lemma_names_add(o: NameTable, n: NameTable, fm: FileMap, fuzzy: bool, name: Seq<char>, f: FileId, info: ModuleInfo)
    requires names_wf(o, fm), names_added(o, n, fuzzy, name, f),
    ensures names_wf(n, fm.insert(f, info)),
{
    let fm2 = fm.insert(f, info);
    if fuzzy {
        let key = choose|key: String| #[trigger] n.contains_key(key) && key@ == name && n == o.insert(key, n[key])
            && n[key]@ == (if o.contains_key(key) { o[key]@ } else { Seq::<FileId>::empty() }).push(f);
        let base = if o.contains_key(key) { o[key]@ } else { Seq::<FileId>::empty() };
        assert forall|k: String, g: FileId| n.contains_key(k) && #[trigger] n[k]@.contains(g) implies fm2.contains_key(g) by {
            if k == key {
                let i = choose|i: int| 0 <= i < n[k]@.len() && n[k]@[i] == g;
                if i < base.len() { assert(base[i] == g); assert(o[key]@.contains(g)); }
            } else {
                assert(o.contains_key(k) && o[k]@.contains(g));
            }
        }
    } else {
        assert forall|k: String, g: FileId| n.contains_key(k) && #[trigger] n[k]@.contains(g) implies fm2.contains_key(g) by {
            assert(o.contains_key(k) && o[k]@.contains(g));
        }
    }
}

/// start of the walk: at the root, nothing consumed
pub proof fn lemma_add_inv_init(n1: Nodes, root: ModuleNodeId, fm: FileMap, nt: NameTable, cnt1: u32)
    requires wf_parts(n1, root, fm, nt, cnt1),
    ensures add_inv(n1, n1, root, root, Seq::<Seq<char>>::empty(), fm, cnt1, cnt1),
{
    reveal(add_inv);
}

/// what the code of the walk needs to know about the current node
pub proof fn lemma_add_inv_facts(n1: Nodes, m: Nodes, root: ModuleNodeId, cur: ModuleNodeId, pre: Seq<Seq<char>>, fm: FileMap, cnt1: u32, cnt: u32)
    requires add_inv(n1, m, root, cur, pre, fm, cnt1, cnt),
    ensures m.contains_key(cur), texts_distinct(m[cur].children@), cnt1 <= cnt <= cnt1 + pre.len(),
        forall|k: String| #[trigger] m[cur].children@.contains_key(k) ==> m.contains_key(m[cur].children@[k]),
        forall|x: ModuleNodeId| #[trigger] m.contains_key(x) ==> x.id < cnt,
{
    reveal(add_inv);
    lemma_texts_distinct(m, root, Some(cur), cur);
    assert forall|k: String| #[trigger] m[cur].children@.contains_key(k) implies m.contains_key(m[cur].children@[k]) by {
        assert(has_child(m, cur, k));
    }
}
