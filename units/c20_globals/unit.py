"""unit c20_globals — the undefined-global checker's guard sequence (C20) and the three DiagnosticIndex writers (C19/C20)."""
import re

from vc.extract import Undecided
from vc.rules import rule

UG = 'crates/emmylua_code_analysis/src/diagnostic/checker/undefined_global.rs'
CFG = 'crates/emmylua_code_analysis/src/diagnostic/lua_diagnostic_config.rs'
IDX = 'crates/emmylua_code_analysis/src/db_index/diagnostic/mod.rs'
ACT = 'crates/emmylua_code_analysis/src/db_index/diagnostic/diagnostic_action.rs'


@rule('iter-any-if-return')
def iter_any_if_return(text, **_):
    """`if E.iter().any(|X| P) { return R; }`  ->  `for X in E.iter() { if P { return R; } }`
    std (`Iterator::any`): "tests if any element of the iterator matches a predicate ... short-circuiting; it will stop
    processing as soon as it finds a true" — P is evaluated on the elements in order up to the first `true`, then the
    `if` body runs (a `return`); with no `true` control falls through. The for-loop does exactly that. X binds the same
    `&T` item of `E.iter()` in both forms. Side condition (checked): P contains no `return` / `?` / `break` / `continue`
    (they would refer to the closure in one form and to the function / loop in the other), and the `if` has no `else`."""
    pat = re.compile(r'if\s+((?:\w+\s*\.\s*)*\w+)\s*\.\s*iter\(\)\s*\.\s*any\(\|(\w+)\|\s*(.*?)\)\s*\{\s*return ([^;{}]*);\s*\}(\s*else\b)?', re.S)
    n = 0
    while True:
        m = pat.search(text)
        if not m:
            break
        if m.group(5):
            raise Undecided('iter-any-if-return: the `if` has an else branch')
        p = m.group(3)
        if re.search(r'\b(return|break|continue)\b|\?', p):
            raise Undecided('iter-any-if-return: control flow inside the predicate')
        recv = re.sub(r'\s+', '', m.group(1))
        new = 'for %s in %s.iter() {\n        if %s {\n            return %s;\n        }\n    }' % (m.group(2), recv, p.strip(), m.group(4).strip())
        text = text[:m.start()] + new + text[m.end():]
        n += 1
    return text, n


CALLS_OLD, CALLS_NEW = 'old(context).calls@', 'final(context).calls@'

CHECK_NAME_EXPR = {
    'src': {'file': UG, 'kind': 'fn', 'name': 'check_name_expr'},
    'rules': [('smolset-contains-str', {'count': 1}), ('iter-any-if-return', {'count': 1}), ('i18n-message-opaque', {'count': 1})],
    'ret': 'r',
    'ensures': '''
            final(context).config == old(context).config,
            // a name in `globals`, or matched by a `globalsRegex` pattern, never reaches add_diagnostic(UndefinedGlobal, ..)
            listed_name(&*old(context).config, &name_expr) ==> %(N)s == %(O)s /*@C20.globals.listed-names-never-reported*/,
            // whatever the name: at most ONE call, with the UndefinedGlobal code at the name's own range
            %(N)s == %(O)s || %(N)s == %(O)s.push((DiagnosticCode::UndefinedGlobal, sp_range(&name_expr))) /*@C20.globals.reports-only-this-name*/''' % dict(N=CALLS_NEW, O=CALLS_OLD),
    'iter_names': {0: 'it'},
    'loops': {0: '''invariant
                    context.calls@ == old(context).calls@ && context.config == old(context).config,
                    forall|i: int| 0 <= i < it.index@ ==> !sp_is_match(&#[trigger] context.config.global_disable_glob@[i], name_text@) /*@C20.globals.listed-names-never-reported.inv*/,'''},
}


def writer(name, field, clause, label, kind):
    others = [f for f in ('diagnostic_actions', 'diagnostics', 'file_diagnostic_disabled', 'file_diagnostic_enabled') if f != field]
    return {
        'src': {'file': IDX, 'kind': 'fn', 'impl': 'DiagnosticIndex', 'name': name},
        'requires': 'keys_ok()',
        'ensures': '''
            final(self).%(f)s@.contains_key(file_id) && %(clause)s /*@%(label)s*/,
            others_unchanged(old(self).%(f)s@, final(self).%(f)s@, file_id) /*@%(label)s.other-files-unchanged*/,
            %(frame)s /*@%(label)s.other-maps-unchanged*/''' % dict(
            f=field, clause=clause, label=label,
            frame=' && '.join('final(self).%s == old(self).%s' % (o, o) for o in others)),
        'body_first': 'broadcast use vstd::std_specs::hash::group_hash_axioms;',
    }


UNIT = {
    'items': {
        # (A)
        'LuaDiagnosticConfig': {'src': {'file': CFG, 'kind': 'struct', 'name': 'LuaDiagnosticConfig'},
                                'rules': [('struct-fields', {'keep': ['global_disable_set', 'global_disable_glob']})]},
        'check_name_expr': CHECK_NAME_EXPR,
        # (B)
        'DiagnosticActionKind': {'src': {'file': ACT, 'kind': 'enum', 'name': 'DiagnosticActionKind'}},
        'DiagnosticAction': {'src': {'file': ACT, 'kind': 'struct', 'name': 'DiagnosticAction'}, 'rules': [('struct-fields', {})]},
        'DiagnosticIndex': {'src': {'file': IDX, 'kind': 'struct', 'name': 'DiagnosticIndex'}, 'rules': [('struct-fields', {})]},
        'DiagnosticIndex::add_diagnostic_action': writer(
            'add_diagnostic_action', 'diagnostic_actions',
            'final(self).diagnostic_actions@[file_id]@ == vec_of(old(self).diagnostic_actions@, file_id).push(diagnostic)',
            'C19.index.action-recorded-for-its-file', 'vec'),
        'DiagnosticIndex::add_file_diagnostic_disabled': writer(
            'add_file_diagnostic_disabled', 'file_diagnostic_disabled',
            'final(self).file_diagnostic_disabled@[file_id]@ == set_of(old(self).file_diagnostic_disabled@, file_id).insert(code)',
            'C20.index.file-level-code-recorded-for-its-file', 'set'),
        'DiagnosticIndex::add_file_diagnostic_enabled': writer(
            'add_file_diagnostic_enabled', 'file_diagnostic_enabled',
            'final(self).file_diagnostic_enabled@[file_id]@ == set_of(old(self).file_diagnostic_enabled@, file_id).insert(code)',
            'C20.index.file-level-code-recorded-for-its-file', 'set'),
    },
    'extra_rules': [
        ('smolset-contains-str', r'(\w+(?:\s*\.\s*\w+)*)\s*\.\s*contains\((\w+)\.as_str\(\)\)',
         lambda m: 'vx_smol_set_contains(&%s, %s.as_str())' % (re.sub(r'\s+', '', m.group(1)), m.group(2)),
         'S.contains(X.as_str()) with S: HashSet<SmolStr> -> vx_smol_set_contains(&S, X.as_str()), ensures r == S@.contains(sp_smol(X@)): '
         'HashSet::contains compares through the borrowed form (SmolStr: Borrow<str>, Hash/Eq agree with str), i.e. asks for the '
         'SmolStr whose content is X; rustc checks S: HashSet<SmolStr> through the helper\'s parameter type'),
        ('i18n-message-opaque', r't!\((?:[^()]|\([^()]*\))*\)\s*\.to_string\(\)', 'vx_i18n_message()',
         't!(..).to_string() (rust_i18n message lookup + formatting) -> vx_i18n_message(): a String without contract; the message '
         'text is not part of the claim'),
    ],
    'allow': [r'external_body', r'uninterp spec fn sp_', r'assume_specification<\'a, K, V: Default> \[Entry::<\'a, K, V>::or_default\]'],
    'min_obligations': 4,
    'trusted': [
        'shims: DiagnosticCode / FileId / TextRange as opaque value types (DiagnosticCode::UndefinedGlobal = some fixed code); SmolStr, Regex opaque; Regex::is_match uninterpreted (sp_is_match)',
        'DiagnosticContext projected by hand to `config` + a ghost log of add_diagnostic CALLS (code, range); what a call does is the contract of the real add_diagnostic in unit c20_config',
        'AST / semantic model opaque: LuaNameExpr::{get_range, get_name_text}, SemanticModel::get_db, DbIndex::get_global_index, LuaGlobalIndex::is_exist_global_decl, check_self_name return uninterpreted / unconstrained values',
        'vx_smol_set_contains: HashSet<SmolStr>::contains(&str) answers whether the set holds SmolStr::new(s) (std Borrow-form lookup + smol_str: Borrow<str>, Hash/Eq agree with str); sp_smol is the vocabulary of unit c20_inputs',
        'vx_i18n_message: the t!(..) message text, no contract',
        'assume_specification Entry::or_default restating std ("inserts the default value if empty, returns a mutable reference to the value in the entry"), same shape as vstd\'s Entry::or_insert; Vec::default / HashSet::default through vstd',
        'hashbrown::{HashMap,HashSet} (fields of DiagnosticIndex and LuaDiagnosticConfig) -> std::collections (same API subset; order never relied on)',
        'obeys_key_model::<FileId>() and ::<DiagnosticCode>() (derived Hash/Eq) are preconditions of the three index writers; RandomState builds valid hashers (vstd axiom)',
    ],
    'not_covered': [
        'UndefinedGlobalChecker::check (the loop over root.descendants::<LuaNameExpr>() that calls check_name_expr once per name expression) and calc_name_expr_ref: AST iterators',
        'globalsRegex: which configured patterns compile (LuaDiagnosticConfig::new drops invalid ones, unit c20_inputs gives no contract) and what a pattern matches; the claim is about the COMPILED patterns in config.global_disable_glob',
        'other checkers that might report an undefined name under another code',
        'DiagnosticIndex::add_diagnostic (AnalyzeError list; same entry().or_default().push shape) — not part of C19/C20',
    ],
    'samples': [
        'check_name_expr: name in config.global_disable_set or matched by one of config.global_disable_glob ==> no add_diagnostic call; always at most one call, (UndefinedGlobal, the name\'s range)',
        'DiagnosticIndex::add_diagnostic_action: diagnostic_actions\'[file_id] == (old vector or empty).push(action); every other file\'s entry and the three other maps unchanged',
        'add_file_diagnostic_disabled / _enabled: the file\'s set gains exactly `code`; other files and maps unchanged',
    ],
    'mutants': [
        {'name': 'drop-globals-set-check', 'item': 'check_name_expr',
         'pattern': r'if context\s*\.config\s*\.global_disable_set\s*\.contains\(name_text\.as_str\(\)\)\s*\{\s*return Some\(\(\)\);\s*\}',
         'repl': 'let _listed = context.config.global_disable_set.contains(name_text.as_str());',
         'expect': r'C20\.globals\.listed-names-never-reported'},
        {'name': 'globals-set-check-negated', 'item': 'check_name_expr',
         'pattern': r'if context(\s*\.config\s*\.global_disable_set\s*\.contains\(name_text\.as_str\(\)\))',
         'repl': r'if !context\1',
         'expect': r'C20\.globals\.listed-names-never-reported'},
        {'name': 'regex-test-negated', 'item': 'check_name_expr',
         'pattern': r'\.any\(\|re\| re\.is_match\(&name_text\)\)', 'repl': '.any(|re| !re.is_match(&name_text))',
         'expect': r'C20\.globals\.listed-names-never-reported'},
        {'name': 'regex-loop-dropped', 'item': 'check_name_expr',
         'pattern': r'\.any\(\|re\| re\.is_match\(&name_text\)\)', 'repl': '.any(|re| false && re.is_match(&name_text))',
         'expect': r'C20\.globals\.listed-names-never-reported'},
        {'name': 'globals-checked-after-report', 'item': 'check_name_expr',
         'pattern': r'(if context\s*\.config\s*\.global_disable_set\s*\.contains\(name_text\.as_str\(\)\)\s*\{\s*return Some\(\(\)\);\s*\})(.*?)(\n\s*Some\(\(\)\)\s*\})$',
         'repl': r'\2\n    \1\3',
         'expect': r'C20\.globals\.listed-names-never-reported'},
        {'name': 'reports-other-code', 'item': 'check_name_expr',
         'pattern': r'DiagnosticCode::UndefinedGlobal,', 'repl': 'DiagnosticCode { id: 7 },',
         'expect': r'C20\.globals\.reports-only-this-name'},
        {'name': 'action-recorded-under-file-0', 'item': 'DiagnosticIndex::add_diagnostic_action',
         'pattern': r'\.entry\(file_id\)', 'repl': '.entry(FileId { id: 0 })',
         'expect': r'C19\.index\.action-recorded-for-its-file'},
        {'name': 'action-replaces-vector', 'item': 'DiagnosticIndex::add_diagnostic_action',
         'pattern': r'self\.diagnostic_actions\s*\.entry\(file_id\)\s*\.or_default\(\)\s*\.push\(diagnostic\);',
         'repl': 'let mut v = Vec::new(); v.push(diagnostic); self.diagnostic_actions.insert(file_id, v);',
         'expect': r'C19\.index\.action-recorded-for-its-file'},
        {'name': 'file-disabled-recorded-as-enabled', 'item': 'DiagnosticIndex::add_file_diagnostic_disabled',
         'pattern': r'self\.file_diagnostic_disabled', 'repl': 'self.file_diagnostic_enabled',
         'expect': r'C20\.index\.file-level-code-recorded-for-its-file'},
        {'name': 'file-enabled-clears-other-files', 'item': 'DiagnosticIndex::add_file_diagnostic_enabled',
         'pattern': r'self\.file_diagnostic_enabled\s*\.entry', 'repl': 'self.file_diagnostic_enabled.clear();\n        self.file_diagnostic_enabled.entry',
         'expect': r'C20\.index\.file-level-code-recorded-for-its-file\.other-files-unchanged'},
    ],
}
