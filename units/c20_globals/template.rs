// unit c20_globals — two gaps left by the proved units of C20 / C19:
//   (A) C20 "... names in `globals`/`globalsRegex` are never reported as undefined globals": the REAL
//       `check_name_expr` of the undefined-global checker (checker/undefined_global.rs): the guard sequence in front
//       of its only `context.add_diagnostic(DiagnosticCode::UndefinedGlobal, ..)`.
//       (`add_diagnostic` itself is proved in unit c20_config; `LuaDiagnosticConfig::new`, which builds
//       `global_disable_set` from the configured `globals`, in unit c20_inputs.)
//   (B) C19 / C20: the REAL bodies of the three `DiagnosticIndex` writers that unit c20_inputs models as ghost logs:
//       `add_diagnostic_action`, `add_file_diagnostic_disabled`, `add_file_diagnostic_enabled`
//       (`map.entry(file_id).or_default().push(x)` / `.insert(code)`), in the vocabulary of the readers proved in
//       unit c19_match (the maps themselves).
// Hand-written part: shims of external types (weakest contracts: uninterpreted spec functions), the helpers the rewrite
// rules introduce (std contracts), the property vocabulary. Everything marked `//@@` is extracted from /repo on every run.
use vstd::prelude::*;
use std::collections::{HashMap, HashSet};
use std::collections::hash_map::Entry;
use std::sync::Arc;
use vstd::std_specs::hash::EntrySpecFns;
verus! {

// ---------------------------------------------------------------------------------------------
// shims shared by (A) and (B)
// ---------------------------------------------------------------------------------------------
/// field-less enum with derived Clone/Copy/PartialEq/Eq/Hash in the repository: an opaque value type here
#[derive(Clone, Copy, PartialEq, Eq, Hash)]
pub struct DiagnosticCode { pub id: u32 }
#[allow(non_upper_case_globals)]
impl DiagnosticCode {
    /// the one variant the undefined-global checker names
    pub const UndefinedGlobal: DiagnosticCode = DiagnosticCode { id: 0 };
}

#[derive(Clone, Copy, PartialEq, Eq, Hash)]
pub struct FileId { pub id: u32 }

/// rowan::TextRange: a Copy + Hash value; nothing is computed on it here
#[derive(Clone, Copy, PartialEq, Eq, Hash)]
pub struct TextRange { pub start: u32, pub end: u32 }

// ---------------------------------------------------------------------------------------------
// (A) shims
// ---------------------------------------------------------------------------------------------
/// smol_str::SmolStr: opaque; `sp_smol(s)` is the value `SmolStr::new(s)` (a function of the content only) — the same
/// vocabulary as unit c20_inputs, where `global_disable_set@ == globals@.map_values(|s| sp_smol(s@)).to_set()`
#[verifier::external_body]
#[derive(PartialEq, Eq, Hash)]
pub struct SmolStr { _p: () }
pub uninterp spec fn sp_smol(s: Seq<char>) -> SmolStr;

/// regex::Regex: opaque; `Regex::is_match` is uninterpreted
#[verifier::external_body]
pub struct Regex { _p: () }
pub uninterp spec fn sp_is_match(re: &Regex, s: Seq<char>) -> bool;
impl Regex {
    #[verifier::external_body]
    pub fn is_match(&self, haystack: &str) -> (r: bool) ensures r == sp_is_match(self, haystack@) { unimplemented!() }
}

/// helper of rule `smolset-contains-str`. std (`HashSet::contains<Q>(&self, value: &Q) where T: Borrow<Q>, Q: Hash + Eq`):
/// "returns true if the set contains a value", the value being compared through the borrowed form; `SmolStr: Borrow<str>`
/// with `Hash`/`Eq` agreeing with `str` (smol_str doc), so the answer is: the set holds the SmolStr whose content is `s`.
#[verifier::external_body]
pub fn vx_smol_set_contains(set: &HashSet<SmolStr>, s: &str) -> (r: bool)
    ensures r == set@.contains(sp_smol(s@)),
{ unimplemented!() }

/// helper of rule `i18n-message-opaque`: the translated message text (rust_i18n `t!`): NO contract
#[verifier::external_body]
pub fn vx_i18n_message() -> (r: String) { unimplemented!() }

pub mod serde_json {
    use vstd::prelude::*;
    verus!{
    #[verifier::external_body]
    pub struct Value { _p: () }
    }
}

/// `DiagnosticContext` as the undefined-global checker sees it: the public `config` field and `add_diagnostic`,
/// modelled as a ghost log of its CALLS (code, range). What a call does (enabled? suppressed? severity) is the
/// contract proved on the real `add_diagnostic` in unit c20_config.
pub struct DiagnosticContext {
    pub config: Arc<LuaDiagnosticConfig>,
    pub calls: Ghost<Seq<(DiagnosticCode, TextRange)>>,
}
impl DiagnosticContext {
    #[verifier::external_body]
    pub fn add_diagnostic(&mut self, code: DiagnosticCode, range: TextRange, message: String, data: Option<serde_json::Value>)
        ensures final(self).calls@ == old(self).calls@.push((code, range)), final(self).config == old(self).config,
    { }
}

// the AST / semantic model: opaque, every accessor uninterpreted
#[verifier::external_body]
pub struct LuaNameExpr { _p: () }
#[verifier::external_body]
pub struct SemanticModel { _p: () }
#[verifier::external_body]
pub struct DbIndex { _p: () }
#[verifier::external_body]
pub struct LuaGlobalIndex { _p: () }
pub uninterp spec fn sp_range(e: &LuaNameExpr) -> TextRange;
pub uninterp spec fn sp_name_text(e: &LuaNameExpr) -> Option<Seq<char>>;
impl LuaNameExpr {
    #[verifier::external_body]
    pub fn get_range(&self) -> (r: TextRange) ensures r == sp_range(self) { unimplemented!() }
    #[verifier::external_body]
    pub fn get_name_text(&self) -> (r: Option<String>)
        ensures r is Some <==> sp_name_text(self) is Some, r matches Some(s) ==> s@ == sp_name_text(self)->0,
    { unimplemented!() }
}
impl SemanticModel {
    #[verifier::external_body]
    pub fn get_db(&self) -> (r: &DbIndex) { unimplemented!() }
}
impl DbIndex {
    #[verifier::external_body]
    pub fn get_global_index(&self) -> (r: &LuaGlobalIndex) { unimplemented!() }
}
impl LuaGlobalIndex {
    #[verifier::external_body]
    pub fn is_exist_global_decl(&self, name: &str) -> (r: bool) { unimplemented!() }
}
/// `check_self_name` (walks the enclosing closures): no contract
#[verifier::external_body]
pub fn check_self_name(semantic_model: &SemanticModel, name_expr: LuaNameExpr) -> (r: Option<()>) { unimplemented!() }

// ---------------------------------------------------------------------------------------------
// (A) property vocabulary
// ---------------------------------------------------------------------------------------------
/// "names in `globals`": the name is in the set built from the configured list
pub open spec fn in_globals(cfg: &LuaDiagnosticConfig, name: Seq<char>) -> bool {
    cfg.global_disable_set@.contains(sp_smol(name))
}
/// "names in `globalsRegex`": one of the compiled patterns matches the name
pub open spec fn matches_globals_regex(cfg: &LuaDiagnosticConfig, name: Seq<char>) -> bool {
    exists|i: int| 0 <= i < cfg.global_disable_glob@.len() && sp_is_match(&#[trigger] cfg.global_disable_glob@[i], name)
}
pub open spec fn listed_name(cfg: &LuaDiagnosticConfig, e: &LuaNameExpr) -> bool {
    sp_name_text(e) matches Some(name) && (in_globals(cfg, name) || matches_globals_regex(cfg, name))
}

/// bridge to unit c20_inputs: its postcondition on `LuaDiagnosticConfig::new` (C20.config.globals-set-is-configured-list,
/// `global_disable_set@ == globals@.map_values(|s| sp_smol(s@)).to_set()`) makes every configured `globals` entry a
/// listed name in the sense of this unit
pub proof fn lemma_configured_global_is_listed(cfg: &LuaDiagnosticConfig, globals: Seq<String>, i: int)
    requires
        cfg.global_disable_set@ == globals.map_values(|s: String| sp_smol(s@)).to_set(),
        0 <= i < globals.len(),
    ensures
        in_globals(cfg, globals[i]@),
{
    let m = globals.map_values(|s: String| sp_smol(s@));
    assert(m[i] == sp_smol(globals[i]@));
    assert(m.contains(m[i]));
}

// ---------------------------------------------------------------------------------------------
// (B) shims and vocabulary
// ---------------------------------------------------------------------------------------------
#[verifier::external_body]
pub struct AnalyzeError { _p: () }

/// std (`Entry::or_default`): "Ensures a value is in the entry by inserting the default value if empty, and returns a
/// mutable reference to the value in the entry." Same shape as vstd's specification of `Entry::or_insert`, with the
/// inserted value being whatever `V::default()` returns.
pub assume_specification<'a, K, V: Default> [Entry::<'a, K, V>::or_default] (entry: Entry<'a, K, V>) -> (value: &'a mut V)
    ensures
        match entry.value() { Some(v) => *value == v, None => call_ensures(V::default, (), *value) },
        entry.final_value() == Some(*final(value));

pub open spec fn keys_ok() -> bool {
    &&& vstd::std_specs::hash::obeys_key_model::<FileId>()
    &&& vstd::std_specs::hash::obeys_key_model::<DiagnosticCode>()
}

/// "every other file's entry is unchanged"
pub open spec fn others_unchanged<V>(old_m: Map<FileId, V>, new_m: Map<FileId, V>, f: FileId) -> bool {
    forall|g: FileId| g != f ==> (#[trigger] new_m.contains_key(g) == old_m.contains_key(g))
        && (old_m.contains_key(g) ==> new_m[g] == old_m[g])
}
/// the file's recorded vector before the call (no entry = nothing recorded)
pub open spec fn vec_of<T>(m: Map<FileId, Vec<T>>, f: FileId) -> Seq<T> {
    if m.contains_key(f) { m[f]@ } else { Seq::empty() }
}
pub open spec fn set_of<T>(m: Map<FileId, HashSet<T>>, f: FileId) -> Set<T> {
    if m.contains_key(f) { m[f]@ } else { Set::empty() }
}

// ---------------------------------------------------------------------------------------------
// extracted from /repo
// ---------------------------------------------------------------------------------------------
// (A)
//@@ LuaDiagnosticConfig

//@@ check_name_expr

// (B)
//@@ DiagnosticActionKind
//@@ DiagnosticAction
//@@ DiagnosticIndex

impl DiagnosticIndex {
    //@@ DiagnosticIndex::add_diagnostic_action
    //@@ DiagnosticIndex::add_file_diagnostic_disabled
    //@@ DiagnosticIndex::add_file_diagnostic_enabled
}

} // verus!
fn main() {}
