"""unit c26_semantic_tokens — C26, semantic-token sentence: legend indices, delta encoding, multi-line split.

All code under proof is extracted from semantic_token_builder.rs on every run. Functions whose bodies are needed as
*specifications* (to relate several exec functions in one lemma) are extracted a SECOND time under an `sp_…` key and
turned into `open spec fn`s by the documented `c26-spec-*` rules (dual extraction): the spec text is still the
repository's text, and each exec fn carries `ensures r == sp_…`, which Verus checks against the exec body.
"""
F = 'crates/emmylua_ls/src/handlers/semantic_token/semantic_token_builder.rs'
TK = 'SemanticTokenTypeKind'
MK = 'SemanticTokenModifierKind'
MOD_CONSTS = ['DECLARATION', 'DEFINITION', 'READONLY', 'STATIC', 'ABSTRACT', 'DEPRECATED', 'ASYNC', 'MODIFICATION',
              'DOCUMENTATION', 'DEFAULT_LIBRARY']


def fn(owner, name, **kw):
    d = {'src': {'file': F, 'kind': 'fn', 'impl': owner, 'name': name}}
    d.update(kw)
    return d


def const(owner, name, **kw):
    d = {'src': {'file': F, 'kind': 'const', 'impl': owner, 'name': name}}
    d.update(kw)
    return d


SPEC_FN = ['c26-spec-copy-fn']

# ---------------------------------------------------------------------------------------------------------------
# contracts
# ---------------------------------------------------------------------------------------------------------------
DOC = 'old(self).document'
LEGEND_PUSH_PROOF = '''proof {
                if raw_in_legend(typ, modifiers) && legend_inv(old(self).data@) {
                    assert(self.data@.drop_last() =~= old(self).data@);
                    assert(self.data@ =~= old(self).data@.push(self.data@.last()));
                    lemma_legend_inv_push(old(self).data@, self.data@.last());
                }
            }'''
KEYS = 'vstd::std_specs::hash::obeys_key_model::<TextSize>()'
FRAME = 'final(self).document == old(self).document && final(self).multi_line_support == old(self).multi_line_support /*@C26.tokens.push.frame*/'
INV = 'legend_inv(old(self).data@) ==> legend_inv(final(self).data@) /*@C26.legend.pushed-in-legend*/'
PUSH_DATA = fn(
    'SemanticBuilder', 'push_data',
    requires='''vstd::std_specs::hash::obeys_key_model::<TextSize>(),
        range.wf(),
        sp_doc_ok(%(d)s), sp_in_doc(%(d)s, range.start), sp_in_doc(%(d)s, range.end)''' % {'d': DOC},
    ensures='''
        final(self).document == old(self).document && final(self).multi_line_support == old(self).multi_line_support /*@C26.tokens.push.frame*/,
        final(self).seen_positions@ == old(self).seen_positions@.insert(range.start) /*@C26.tokens.push.seen*/,
        // nothing is pushed when the start offset was already seen, or a position is unavailable
        (old(self).seen_positions@.contains(range.start) || sp_pos(%(d)s, range.start) is None || sp_pos(%(d)s, range.end) is None)
            ==> final(self).data@ == old(self).data@ /*@C26.tokens.nothing-pushed*/,
        // otherwise exactly one entry is appended: the multi-line split, or one basic token
        !old(self).seen_positions@.contains(range.start) ==> (match (sp_pos(%(d)s, range.start), sp_pos(%(d)s, range.end)) {
            (Some(s), Some(e)) => final(self).data@.len() == old(self).data@.len() + 1
                && final(self).data@.drop_last() == old(self).data@
                && pushed_ok(final(self).data@.last(), old(self).multi_line_support, s, e, typ, modifiers),
            _ => true,
        }) /*@C26.tokens.multiline-split*/,
        // builder invariant: a type index / modifier bitset inside the legend keeps every held piece inside the legend
        raw_in_legend(typ, modifiers) && legend_inv(old(self).data@) ==> legend_inv(final(self).data@) /*@C26.legend.pushed-in-legend*/''' % {'d': DOC},
    iter_names={0: 'it'},
    loops={0: '''invariant
                start_line < end_line,
                multi_line_data@.len() == it.index@ + 1,
                it.index@ + 1 <= end_line - start_line,
                forall|k: int| 0 <= k < multi_line_data@.len() ==> piece_ok(#[trigger] multi_line_data@[k], k,
                    (end_line - start_line + 1) as int, start_line, start_col, end_col, typ, modifiers) /*@C26.tokens.multiline-split.inv*/,'''},
    proof=[
        # start <= end (range.wf) and positions are monotone (c22) => start_line <= end_line; with start_line != end_line the
        # `start_line + 1` of the loop header cannot overflow
        (r'let end_col = end_col as u32;', 'after',
         'proof { axiom_line_col_monotonic(self.document, range.start, range.end); }'),
        (r'for i in start_line \+ \d+\.\.end_line', 'before',
         'proof { assert(start_line < end_line) /*@C26.tokens.split-no-overflow*/; }'),
        (r'self\.data\s*\.push\(SemanticTokenData::MultiLine\(multi_line_data\)\);', 'before',
         '''proof {
                assert(multi_line_data@.len() == end_line - start_line + 1);
                assert(split_ok(multi_line_data@, start_line, start_col, end_line, end_col, typ, modifiers)) /*@C26.tokens.multiline-split*/;
            }'''),
        (r'\.push\(SemanticTokenData::MultiLine\(multi_line_data\)\);', 'after', LEGEND_PUSH_PROOF),
        (r'length: [^;]*?,\s*typ,\s*modifiers,\s*\}\)\);', 'after', LEGEND_PUSH_PROOF),
    ],
)

BUILD = fn(
    'SemanticBuilder', 'build',
    rules=['c26-closure-contract-cmp'],
    ret='r',
    ensures='''
        // every pushed piece is encoded, none is lost or invented
        r@.len() == flat(self.data@).len() /*@C26.tokens.decode-complete*/,
        // LSP decoding (prefix sums) of the result gives back the pushed pieces, sorted by (line, col), with their
        // length / type index / modifier bitset unchanged
        exists|sorted: Seq<BasicSemanticTokenData>| encodes(flat(self.data@), sorted, r@) /*@C26.tokens.decode-inverse*/,
        // hence: decoded token positions are ordered
        forall|i: int, j: int| 0 <= i <= j < r@.len() ==> pos_le(#[trigger] decode(r@, i), #[trigger] decode(r@, j)) /*@C26.tokens.decode-ordered*/,
        // type index and modifier bitset of every emitted token are inside the advertised legend (builder invariant)
        legend_inv(self.data@) ==> forall|i: int| 0 <= i < r@.len() ==> token_in_legend(#[trigger] r@[i]) /*@C26.legend.tokens-in-legend*/''',
    body_first='let ghost src = self.data@;',
    iter_names={0: 'it', 1: 'it2', 2: 'it3'},
    loops={
        0: '''invariant
                it.seq() == src,
                data@ == flat(src.take(it.index@)) /*@C26.tokens.flatten.inv*/,''',
        1: '''invariant
                it2.seq() == multi_data@,
                data@ == pre + multi_data@.take(it2.index@) /*@C26.tokens.flatten.inv*/,''',
        2: '''invariant
                it3.seq() == sorted,
                lex_sorted(sorted),
                result@.len() == it3.index@,
                it3.index@ == 0 ==> prev_line == 0 && prev_col == 0,
                it3.index@ > 0 ==> prev_line == sorted[it3.index@ - 1].line && prev_col == sorted[it3.index@ - 1].col,
                forall|i: int| 0 <= i < it3.index@ ==> decode(result@, i) == tok_pos(#[trigger] sorted[i]) && carries(result@[i], sorted[i]) /*@C26.tokens.decode-inverse.inv*/,''',
    },
    proof=[
        (r'match token_data \{', 'before',
         'proof { assert(src.take(it.index@ + 1).drop_last() =~= src.take(it.index@)); }'),
        (r'for basic_data in multi_data', 'before', 'let ghost pre = data@;'),
        (r'for basic_data in multi_data \{\s*data\.push\(basic_data\);\s*\}', 'after',
         'proof { assert(multi_data@.take(multi_data@.len() as int) =~= multi_data@); }'),
        (r'data\.sort_unstable_by\(', 'before',
         'proof { assert(src.take(src.len() as int) =~= src); }\nlet ghost pushed = data@;'),
        (r'line1\.cmp\(&line2\)\s*\}\);', 'after',
         'let ghost sorted = data@;\nproof { assert(lex_sorted(sorted)); }'),
        # the two u32 subtractions cannot underflow BECAUSE the data is sorted by (line, col) and prev_col is reset on a new line
        (r'let line_diff = ', 'before',
         '''proof {
                if it3.index@ > 0 { assert(pos_le(tok_pos(sorted[it3.index@ - 1]), tok_pos(sorted[it3.index@]))); }
                assert(token_data.line >= prev_line) /*@C26.tokens.no-underflow*/;
            }'''),
        (r'let col_diff = ', 'before',
         'proof { assert(token_data.col >= prev_col) /*@C26.tokens.no-underflow*/; }'),
        (r'result\.push\(SemanticToken \{', 'before', 'let ghost old_r = result@;'),
        (r'token_modifiers_bitset: [^,]*,\s*\}\);', 'after',
         '''proof {
                assert(result@ =~= old_r.push(result@.last()));
                assert forall|i: int| 0 <= i < it3.index@ implies decode(result@, i) == tok_pos(#[trigger] sorted[i]) && carries(result@[i], sorted[i]) by {
                    lemma_decode_push(old_r, result@.last(), i);
                }
                if it3.index@ > 0 { lemma_decode_push(old_r, result@.last(), it3.index@ - 1); }
            }'''),
        (r'prev_col = token_data\.col;\s*\}', 'after',
         '''proof {
                assert(encodes(pushed, sorted, result@));
                lemma_encoded_is_ordered(pushed, sorted, result@);
                if legend_inv(src) { lemma_encoded_in_legend(pushed, sorted, result@); }
            }'''),
        # the closure's `ensures` (C26.tokens.sort-key) restated at its two return points
        (r'return character1\.cmp\(&character2\);', 'before',
         'proof { assert(a.line == b.line && character1 == a.col && character2 == b.col) /*@C26.tokens.sort-key*/; }'),
        (r'line1\.cmp\(&line2\)\s*\}\);', 'before',
         'proof { assert(a.line != b.line && line1 == a.line && line2 == b.line) /*@C26.tokens.sort-key*/; }'),
    ],
)

ITEMS = {
    # ---- legend: token types ------------------------------------------------------------------------------------
    'CustomSemanticTokenType': {'src': {'file': F, 'kind': 'struct', 'name': 'CustomSemanticTokenType'}},
    'CustomSemanticTokenType::SP_DELIMITER': const('CustomSemanticTokenType', 'DELIMITER', rules=['c26-spec-const'], pub=False),
    'CustomSemanticTokenType::DELIMITER': const('CustomSemanticTokenType', 'DELIMITER', rules=['c26-exec-const'], pub=False),
    TK: {'src': {'file': F, 'kind': 'enum', 'name': TK, 'drop_attrs': False}},
    TK + '::sp_to_semantic_token_type': fn(TK, 'to_semantic_token_type', rules=SPEC_FN),
    TK + '::sp_to_u32': fn(TK, 'to_u32', rules=SPEC_FN),
    TK + '::sp_all_types': fn(TK, 'all_types', rules=SPEC_FN + ['c26-spec-vec-seq']),
    TK + '::to_semantic_token_type': fn(TK, 'to_semantic_token_type', ret='r',
                                        ensures='r == self.sp_to_semantic_token_type() /*@C26.legend.spec-is-code*/'),
    TK + '::to_u32': fn(TK, 'to_u32', ret='r', ensures='r == self.sp_to_u32() /*@C26.legend.spec-is-code*/'),
    TK + '::all_types': fn(TK, 'all_types', ret='r', ensures='r@ =~= Self::sp_all_types() /*@C26.legend.spec-is-code*/'),
    # ---- legend: modifiers ----------------------------------------------------------------------------------------
    MK: {'src': {'file': F, 'kind': 'struct', 'name': MK, 'drop_attrs': False}, 'rules': ['c26-tuple-field-pub']},
    **{MK + '::' + c: const(MK, c) for c in MOD_CONSTS},
    MK + '::sp_to_modifier': fn(MK, 'to_modifier', rules=SPEC_FN + ['c26-spec-unreachable-arbitrary']),
    MK + '::sp_all_modifier_kinds': fn(MK, 'all_modifiers', rules=['c26-spec-kinds-literal']),
    MK + '::empty': fn(MK, 'empty', ret='r', ensures='r.0 == 0 && legend_bits(r) /*@C26.legend.modifier-bits-in-legend*/'),
    MK + '::to_modifier': fn(
        MK, 'to_modifier', ret='r',
        # called only by `all_modifiers` (private fn): on the ten constants
        requires='is_legend_const(self)',
        # `unreachable!` is a proof obligation: Verus must show the `_` arm cannot be taken
        ensures='r == self.sp_to_modifier() /*@C26.legend.spec-is-code*/'),
    MK + '::to_u32': fn(MK, 'to_u32', ret='r', ensures='r == self.0 /*@C26.legend.modifier-bitset*/'),
    MK + '::all_modifiers': fn(
        MK, 'all_modifiers', rules=['c26-map-collect', 'c26-closure-contract-to-modifier'], ret='r',
        ensures='''r@.len() == Self::sp_all_modifier_kinds().len() /*@C26.legend.modifier-legend*/,
            forall|k: int| 0 <= k < r@.len() ==> #[trigger] r@[k] == Self::sp_all_modifier_kinds()[k].sp_to_modifier() /*@C26.legend.modifier-legend*/''',
        proof=[(r'vx_into_iter_map_collect\(', 'before',
                '''proof {
                    // every entry of the vec literal (= the literal of sp_all_modifier_kinds, same repository text) is a legend const
                    assert forall|m: SemanticTokenModifierKind| Self::sp_all_modifier_kinds().contains(m) implies #[trigger] is_legend_const(m) by { }
                }''')]),
    MK + '::bitor': {
        'src': {'file': F, 'kind': 'fn', 'impl': 'BitOr for ' + MK, 'name': 'bitor'}, 'pub': False, 'ret': 'r',
        'ensures': 'legend_bits(self) && legend_bits(rhs) ==> legend_bits(r) /*@C26.legend.modifier-bits-in-legend*/',
        'body_first': 'proof { if legend_bits(self) && legend_bits(rhs) { lemma_or_in_legend(self.0, rhs.0); } }'},
    MK + '::bitor_assign': {
        'src': {'file': F, 'kind': 'fn', 'impl': 'BitOrAssign for ' + MK, 'name': 'bitor_assign'}, 'pub': False,
        'ensures': 'legend_bits(*old(self)) && legend_bits(rhs) ==> legend_bits(*final(self)) /*@C26.legend.modifier-bits-in-legend*/',
        'body_first': 'proof { if legend_bits(*self) && legend_bits(rhs) { lemma_or_in_legend(self.0, rhs.0); } }'},
    # ---- encoder ----------------------------------------------------------------------------------------------------
    'BasicSemanticTokenData': {'src': {'file': F, 'kind': 'struct', 'name': 'BasicSemanticTokenData'},
                               'rules': [('struct-fields', {}), 'vis-pub']},
    'SemanticTokenData': {'src': {'file': F, 'kind': 'enum', 'name': 'SemanticTokenData'}, 'rules': ['vis-pub']},
    'SemanticBuilder': {'src': {'file': F, 'kind': 'struct', 'name': 'SemanticBuilder'},
                        'rules': [('struct-fields', {'keep': ['document', 'multi_line_support', 'data', 'seen_positions']})]},
    'SemanticBuilder::new': fn(
        'SemanticBuilder', 'new', rules=['c26-drop-projected-field-init'], ret='r',
        ensures='''r.document == document && r.multi_line_support == multi_line_support && r.data@.len() == 0 && r.seen_positions@ == Set::<TextSize>::empty() /*@C26.tokens.new*/,
        legend_inv(r.data@) /*@C26.legend.pushed-in-legend*/''',
        proof=[(r'\n\s*Self \{', 'before', 'proof { assert(flat(Seq::<SemanticTokenData>::empty()) =~= Seq::empty()); }')]),
    'SemanticBuilder::push_data': PUSH_DATA,
    'SemanticBuilder::push': fn(
        'SemanticBuilder', 'push',
        requires=KEYS + ', sp_doc_ok(old(self).document), range_in_doc(old(self).document, sp_token_range(token))',
        ensures=FRAME + ',\n        ' + INV,
        body_first='proof { lemma_type_index_in_legend(ty); }'),
    'SemanticBuilder::push_with_modifier': fn(
        'SemanticBuilder', 'push_with_modifier',
        requires=KEYS + ', sp_doc_ok(old(self).document), range_in_doc(old(self).document, sp_token_range(token)), legend_bits(modifier)',
        ensures=FRAME + ',\n        ' + INV,
        body_first='proof { lemma_type_index_in_legend(ty); }'),
    'SemanticBuilder::push_at_position': fn(
        'SemanticBuilder', 'push_at_position', rules=['c26-closure-contract-to-u32-ref'],
        requires=KEYS + ', sp_doc_ok(old(self).document), sp_in_doc(old(self).document, position), opt_legend_bits(modifiers)',
        ensures=FRAME + ',\n        ' + INV + ''',
        final(self).seen_positions@ == old(self).seen_positions@.insert(position) /*@C26.tokens.push.seen*/,
        (old(self).seen_positions@.contains(position) || sp_pos(old(self).document, position) is None)
            ==> final(self).data@ == old(self).data@ /*@C26.tokens.nothing-pushed*/,
        (!old(self).seen_positions@.contains(position) && sp_pos(old(self).document, position) is Some) ==> ({
            let lc = sp_pos(old(self).document, position)->Some_0;
            &&& final(self).data@.len() == old(self).data@.len() + 1
            &&& final(self).data@.drop_last() == old(self).data@
            &&& final(self).data@.last() matches SemanticTokenData::Basic(b) && b.line == lc.0 && b.col == lc.1 && b.length == length
                    && b.typ == ty.sp_to_u32() && b.modifiers == opt_bits(modifiers)
        }) /*@C26.tokens.push-at-position*/''',
        body_first='proof { lemma_type_index_in_legend(ty); }',
        proof=[(r'modifiers: modifiers\.as_ref\(\)[^;]*\}\)\);', 'after', '''proof {
                if legend_inv(old(self).data@) {
                    assert(self.data@.drop_last() =~= old(self).data@);
                    assert(self.data@ =~= old(self).data@.push(self.data@.last()));
                    lemma_legend_inv_push(old(self).data@, self.data@.last());
                }
            }''')]),
    'SemanticBuilder::push_at_range': fn(
        'SemanticBuilder', 'push_at_range', rules=['c26-closure-contract-to-u32'],
        requires=KEYS + ', sp_doc_ok(old(self).document), range_in_doc(old(self).document, range), opt_legend_bits(modifiers)',
        ensures=FRAME + ',\n        ' + INV,
        body_first='proof { lemma_type_index_in_legend(ty); }'),
    'SemanticBuilder::build': BUILD,
}

UNIT = {
    'items': ITEMS,
    'extra_rules': [
        ('c26-spec-copy-fn', r'\A(?:pub\s+)?(?:const\s+)?fn (\w+)\(', r'pub open spec fn sp_\1(',
         'dual extraction: the same repository fn, extracted a second time, becomes `pub open spec fn sp_<name>` with the '
         'body text unchanged (match / literals are pure expressions, identical in spec mode); the exec copy carries '
         '`ensures r == sp_<name>(..)` so Verus checks that the spec IS the code'),
        ('c26-spec-vec-seq', r'-> Vec<(\w+)> \{(\s*)vec!\[', r'-> Seq<\1> {\2seq![',
         'spec copy of a fn returning a vec literal: `Vec<T>`/`vec![..]` -> `Seq<T>`/`seq![..]` (the view of `vec![a, b, ..]` '
         'is `seq![a, b, ..]`; checked by the exec copy\'s `ensures r@ =~= sp_..()`)'),
        ('c26-spec-unreachable-arbitrary', r'unreachable!\("[^"]*"\)', 'arbitrary()',
         'spec copy only: a spec fn is total, the panicking arm becomes an unspecified value. The exec copy keeps '
         '`unreachable!` and Verus proves that arm dead under the fn\'s precondition, so the value is never observed'),
        ('c26-spec-kinds-literal',
         r'\Apub fn all_modifiers\(\) -> Vec<SemanticTokenModifier> \{\s*vec!\[(.*?)\]\s*\.into_iter\(\)\s*\.map\(\|m\| m\.to_modifier\(\)\)\s*\.collect\(\)\s*\}\Z',
         r'pub open spec fn sp_all_modifier_kinds() -> Seq<SemanticTokenModifierKind> {\n        seq![\1]\n    }',
         'spec copy of `all_modifiers` restricted to the literal the pipeline starts from: `vec![K0, K1, ..].into_iter()'
         '.map(|m| m.to_modifier()).collect()` -> `seq![K0, K1, ..]` (the list of modifier kinds in legend order). The exec '
         'copy\'s contract states element k of the result == sp_to_modifier(element k of this list)', __import__('re').S),
        ('c26-map-collect', r'(vec!\[[^\]]*\])\s*\.into_iter\(\)\s*\.map\((\|m\| m\.to_modifier\(\))\)\s*\.collect\(\)',
         r'vx_into_iter_map_collect(\1, \2)',
         'V.into_iter().map(f).collect() into a Vec -> vx_into_iter_map_collect(V, f): std contract of map + collect '
         '(same length, element-wise image in order; f\'s precondition must hold for every element)'),
        ('c26-closure-contract-to-modifier', r'\|m\| m\.to_modifier\(\)',
         '|m: SemanticTokenModifierKind| -> (r: SemanticTokenModifier) requires is_legend_const(m) ensures r == m.sp_to_modifier() { m.to_modifier() }',
         'contract overlay on a closure: parameter type, named result, `requires`/`ensures` are added, the body expression '
         'is kept verbatim; Verus checks the contract against the body and the `requires` at the (helper\'s) call'),
        ('c26-drop-projected-field-init', r'\n\s*string_special_range: HashSet::new\(\),', '',
         'struct projection (rule struct-fields drops `string_special_range`, which none of the functions under proof reads): '
         'its initialiser is dropped from the struct literal in `new`'),
        ('c26-closure-contract-to-u32', r'\|m\| m\.to_u32\(\)',
         '|m: SemanticTokenModifierKind| -> (r: u32) ensures r == m.0 { m.to_u32() }',
         'contract overlay on the closure passed to Option::map (vstd specifies map through the closure\'s contract): '
         'parameter type, named result and `ensures` added, body kept verbatim and checked against it'),
        ('c26-closure-contract-to-u32-ref', r'\|m\| m\.to_u32\(\)',
         '|m: &SemanticTokenModifierKind| -> (r: u32) ensures r == m.0 { m.to_u32() }',
         'same overlay for the closure after `.as_ref()` (parameter is a reference)'),
        ('c26-closure-contract-cmp', r'\|a, b\| \{',
         '|a: &BasicSemanticTokenData, b: &BasicSemanticTokenData| -> (o: Ordering)\n'
         '            ensures o == lex_cmp(*a, *b) /*@C26.tokens.sort-key*/\n        {',
         'contract overlay on the comparator closure: parameter types (those `sort_unstable_by` demands), named result and '
         '`ensures` (= lexicographic comparison by (line, col)) are added; the body block is kept verbatim and Verus checks '
         'the ensures against it'),
        ('c26-tuple-field-pub', r'pub struct SemanticTokenModifierKind\(u32\);', 'pub struct SemanticTokenModifierKind(pub u32);',
         'visibility has no run-time meaning; Verus needs the field visible to state the `pub const`s as specs. The rule only '
         'matches while the field is PRIVATE in the repository (module-private tuple field): the frame "only the ten consts, '
         '`empty`, `|`, `|=` construct values" is by privacy and is lost (rule no longer matches -> undecided) if it becomes pub'),
        ('c26-exec-const', r'\Apub const (\w+): (\w+) = (.*?);\Z',
         r'#[verifier::when_used_as_spec(SP_\1)]\n    pub exec const \1: \2\n        ensures Self::\1 == Self::SP_\1 /*@C26.legend.spec-is-code*/,\n    { \3 }',
         'a const whose initialiser calls an exec `const fn` (shimmed `SemanticTokenType::new`) cannot be a dual-mode Verus '
         'const: it becomes `exec const` with the initialiser kept verbatim as its body, tied to its spec copy by `ensures`', __import__('re').S),
        ('c26-spec-const', r'\Apub const (\w+): (\w+) = SemanticTokenType::new\((.*?)\);\Z',
         r'pub spec const SP_\1: \2 = SemanticTokenType::sp_new(\3);',
         'spec copy of that const (dual extraction): `SemanticTokenType::new(tag)` -> its spec `SemanticTokenType::sp_new(tag)`', __import__('re').S),
    ],
    'allow': [
        r'external_body', r'\buninterp\b', r'axiom_line_col_monotonic',
        r'assume_specification<T, F: FnMut\(&T, &T\) -> Ordering>\[ <\[T\]>::sort_unstable_by \]',
    ],
    'min_obligations': 100,
    'trusted': [
        '<[T]>::sort_unstable_by: std doc contract as assume_specification (result is a permutation of the input and is '
        'ascending w.r.t. the comparator; precondition: the comparator is a total order — proved for the real closure)',
        'vx_into_iter_map_collect: std contract of Vec::into_iter + Iterator::map + collect::<Vec<_>> (rule c26-map-collect)',
        'LuaDocument::get_line_col shim: r == sp_pos(doc, off); line, col <= u32::MAX — proved in unit c22_lineindex '
        '(C22.doc.get_line_col, lemma_position_fits) under sp_doc_ok = c22 wf(line_index, text) [includes text.len() < 2^32 - 1] '
        'and sp_in_doc = offset <= text.len() on a char boundary',
        'axiom_line_col_monotonic (external_body proof fn): proved in unit c22_lineindex: lemma_line_col_monotonic',
        'input bounds (preconditions of push_data): document well-formed and shorter than 2^32 - 1 bytes (so that the '
        '`as u32` casts of usize line/col do not truncate), range.start <= range.end, both ends inside the text on char '
        'boundaries (ranges of syntax tokens)',
        'obeys_key_model::<TextSize>() (text-size derives Hash/Eq on a u32 newtype) is a precondition of push_data; the '
        'Hash impl added to the shim is external_body',
        'lsp_types::{SemanticTokenType, SemanticTokenModifier} shimmed as opaque id newtypes: the 23 + 10 predefined '
        'constants are pairwise distinct (distinct string literals in emmy_lsp_types 0.1.0); SemanticTokenType::new(tag) is '
        'an uninterpreted function of the tag; lsp_types::SemanticToken transcribed (five u32 fields)',
        'LuaDocument::to_lsp_position shim: Some(p) with (p.line, p.character) == sp_pos(doc, off) — proved in unit c22_lineindex '
        '(C22.doc.to_lsp_position); LuaSyntaxToken opaque with text_range() an uninterpreted function of the token',
        'text-size shim (units/common/textsize.rs)',
        'frame by privacy: the tuple field of SemanticTokenModifierKind is module-private in the repository, so only the ten '
        'consts, empty(), bitor, bitor_assign construct values (rule c26-tuple-field-pub matches only while it is private)',
    ],
    'not_covered': [
        'non-overlap of decoded tokens: depends on what the ~30 handlers push (dedup is by start offset only)',
        'in-document extent of token LENGTHS: the non-last pieces of a multi-line split have the sentinel length 9999, and '
        'with multi_line_support a token spanning lines gets length end_col.saturating_sub(start_col); neither is checked '
        'against the line length',
        'the handlers that call push / push_with_modifier / push_at_position / push_at_range: that they pass ranges of the '
        'document\'s own tokens and modifier values built from the ten consts (the preconditions of those four fns) is by '
        'reading / by privacy of the tuple field, not checked here',
        'columns are counts of Unicode scalar values (unit c22), not UTF-16 code units (property C23)',
    ],
    'samples': [
        'lemma_type_index_in_legend: for every SemanticTokenTypeKind k: to_u32(k) < all_types().len() && all_types()[to_u32(k)] == to_semantic_token_type(k)',
        'lemma_modifier_consts_in_legend: 10 modifier kinds, kind k == bit k, all < 2^10; all_modifiers()[k] == to_modifier(kind k)',
        'build: exists sorted. permutation(flat(data), sorted) && lex_sorted(sorted) && forall i. decode(r, i) == (sorted[i].line, sorted[i].col) && carries(r[i], sorted[i])',
        'push_data: multi-line split = one piece per line start_line..=end_line, first at start_col, others at 0, last length end_col',
        'new / push / push_with_modifier / push_at_position / push_at_range keep legend_inv(data); build: legend_inv(data) ==> every emitted token has token_type < all_types().len() and token_modifiers_bitset < 2^10',
    ],
    'mutants': [
        # legend (mutate the spec copy: the exec copy then disagrees too, but the property lemma is what must die)
        {'name': 'all-types-swapped', 'item': TK + '::sp_all_types',
         'pattern': r'SemanticTokenType::CLASS,(\s*)SemanticTokenType::ENUM,', 'repl': r'SemanticTokenType::ENUM,\1SemanticTokenType::CLASS,',
         'expect': r'lemma_type_index_in_legend.*C26\.legend\.type-index-in-legend'},
        {'name': 'two-kinds-same-index', 'item': TK + '::sp_to_u32',
         'pattern': r'SemanticTokenTypeKind::Method => 13', 'repl': 'SemanticTokenTypeKind::Method => 12',
         'expect': r'lemma_type_index_in_legend.*C26\.legend\.type-index-in-legend'},
        {'name': 'index-past-legend', 'item': TK + '::sp_to_u32',
         'pattern': r'SemanticTokenTypeKind::Delimiter => 23', 'repl': 'SemanticTokenTypeKind::Delimiter => 24',
         'expect': r'lemma_type_index_in_legend.*C26\.legend\.type-index-in-legend'},
        {'name': 'exec-to-u32-drifts-from-spec', 'item': TK + '::to_u32',
         'pattern': r'SemanticTokenTypeKind::Method => 13', 'repl': 'SemanticTokenTypeKind::Method => 12',
         'expect': r'C26\.legend\.spec-is-code'},
        {'name': 'modifier-bit-10', 'item': MK + '::DEFAULT_LIBRARY',
         'pattern': r'1 << 9', 'repl': '1 << 10', 'expect': r'C26\.legend\.modifier-bit'},
        {'name': 'modifier-legend-order', 'item': MK + '::sp_all_modifier_kinds',
         'pattern': r'Self::STATIC,(\s*)Self::ABSTRACT,', 'repl': r'Self::ABSTRACT,\1Self::STATIC,',
         'expect': r'C26\.legend\.modifier-bit-k-is-entry-k'},
        {'name': 'to-modifier-misses-a-const', 'item': MK + '::to_modifier',
         'pattern': r'Self::ASYNC => SemanticTokenModifier::ASYNC,\s*', 'repl': '',
         # Verus reports a reachable `unreachable!` as "precondition not satisfied" with its primary span inside vstd
         # (std_specs/core.rs), so the driver cannot attribute it to the item; the drift from the spec copy is labelled
         'expect': r'precondition-not-satisfied|to_modifier:.*C26\.legend\.spec-is-code'},
        {'name': 'bitor-sets-foreign-bit', 'item': MK + '::bitor',
         'pattern': r'self\.0 \| rhs\.0', 'repl': 'self.0 | rhs.0 | 1024', 'expect': r'C26\.legend\.modifier-bits-in-legend|postcondition'},
        # encoder
        {'name': 'no-col-reset-on-new-line', 'item': 'SemanticBuilder::build',
         'pattern': r'if line_diff != 0 \{\s*prev_col = 0;\s*\}', 'repl': '', 'expect': r'C26\.tokens\.no-underflow'},
        {'name': 'delta-start-absolute', 'item': 'SemanticBuilder::build',
         'pattern': r'let col_diff = token_data\.col - prev_col;', 'repl': 'let col_diff = token_data.col;',
         'expect': r'C26\.tokens\.decode-inverse'},
        {'name': 'sort-by-col-only', 'item': 'SemanticBuilder::build',
         'pattern': r'let line1 = a\.line;(\s*)let line2 = b\.line;', 'repl': r'let line1 = a.col;\1let line2 = b.col;',
         'expect': r'C26\.tokens\.sort-key'},
        {'name': 'drops-length', 'item': 'SemanticBuilder::build',
         'pattern': r'length: token_data\.length,', 'repl': 'length: 1,', 'expect': r'C26\.tokens\.decode-inverse'},
        {'name': 'push-type-index-off-by-one', 'item': 'SemanticBuilder::push',
         'pattern': r'ty\.to_u32\(\)', 'repl': '(ty.to_u32() + 1)', 'expect': r'C26\.legend\.pushed-in-legend'},
        {'name': 'push-at-range-foreign-modifier-bit', 'item': 'SemanticBuilder::push_at_range',
         'pattern': r'\.unwrap_or\(0\)', 'repl': '.unwrap_or(1 << 10)', 'expect': r'C26\.legend\.pushed-in-legend'},
        {'name': 'encoder-touches-modifiers', 'item': 'SemanticBuilder::build',
         'pattern': r'token_modifiers_bitset: token_data\.modifiers,', 'repl': 'token_modifiers_bitset: token_data.modifiers | 1024,',
         'expect': r'C26\.tokens\.decode-inverse'},
        {'name': 'split-middle-at-start-col', 'item': 'SemanticBuilder::push_data',
         'pattern': r'line: i,(\s*)col: 0,', 'repl': r'line: i,\1col: start_col,', 'expect': r'C26\.tokens\.multiline-split'},
        {'name': 'split-last-length-9999', 'item': 'SemanticBuilder::push_data',
         'pattern': r'length: end_col,', 'repl': 'length: 9999,', 'expect': r'C26\.tokens\.multiline-split'},
        {'name': 'split-skips-a-line', 'item': 'SemanticBuilder::push_data',
         'pattern': r'for i in start_line \+ 1\.\.end_line', 'repl': 'for i in start_line + 2..end_line',
         'expect': r'C26\.tokens\.multiline-split|overflow'},
        {'name': 'no-dedup', 'item': 'SemanticBuilder::push_data',
         'pattern': r'if !self\.seen_positions\.insert\(position\) \{\s*return;\s*\}', 'repl': 'self.seen_positions.insert(position);',
         'expect': r'C26\.tokens\.nothing-pushed'},
    ],
}
