// unit c26_semantic_tokens — C26, semantic-token sentence: "Semantic tokens decode to in-document tokens
// that are ordered and don't overlap, with type and modifier indices inside the advertised legend."
// Real code: crates/emmylua_ls/src/handlers/semantic_token/semantic_token_builder.rs (legend enums/consts,
// `SemanticBuilder::{push_data, build}`). Hand-written part: shims of lsp_types / LuaDocument, the std contracts
// used, the vocabulary of the property (LSP delta decoding, legend), lemmas. `//@@` items are extracted from
// /repo on every run. NOT claimed: non-overlap of tokens (depends on what ~30 handlers push).
use vstd::prelude::*;
use core::cmp::Ordering;
use std::collections::HashSet;
use std::ops::{BitOr, BitOrAssign};
verus! {

//@@include common/textsize.rs

// ---------------------------------------------------------------------------------------------
// shims
// ---------------------------------------------------------------------------------------------
/// `TextSize` derives `Hash` in text-size 1.1.1 (`#[derive(Default, Copy, Clone, PartialEq, Eq, PartialOrd, Ord, Hash)]`);
/// the common shim omits it. The body is outside the proof: `obeys_key_model::<TextSize>()` is a *precondition*
/// of `push_data` (listed under `trusted`).
impl core::hash::Hash for TextSize {
    #[verifier::external_body]
    fn hash<H: core::hash::Hasher>(&self, state: &mut H) { self.raw.hash(state) }
}

/// lsp_types::SemanticTokenType = `struct SemanticTokenType(Cow<'static, str>)` with 23 predefined constants
/// `pub const NAMESPACE: SemanticTokenType = SemanticTokenType::new("namespace");` … (emmy_lsp_types 0.1.0,
/// semantic_tokens.rs:19-43). Shimmed as an opaque value type: the tag is abstracted to an id; the 23 constants are
/// 23 pairwise different string literals in the crate, hence 23 pairwise different ids here (only distinctness is
/// used). `new` of any other tag is uninterpreted (`sp_type_new`), nothing is assumed about it.
pub struct SemanticTokenType { pub id: u32 }
pub uninterp spec fn sp_type_new(tag: Seq<char>) -> SemanticTokenType;
impl SemanticTokenType {
    pub const NAMESPACE: SemanticTokenType = SemanticTokenType { id: 0 };
    pub const TYPE: SemanticTokenType = SemanticTokenType { id: 1 };
    pub const CLASS: SemanticTokenType = SemanticTokenType { id: 2 };
    pub const ENUM: SemanticTokenType = SemanticTokenType { id: 3 };
    pub const INTERFACE: SemanticTokenType = SemanticTokenType { id: 4 };
    pub const STRUCT: SemanticTokenType = SemanticTokenType { id: 5 };
    pub const TYPE_PARAMETER: SemanticTokenType = SemanticTokenType { id: 6 };
    pub const PARAMETER: SemanticTokenType = SemanticTokenType { id: 7 };
    pub const VARIABLE: SemanticTokenType = SemanticTokenType { id: 8 };
    pub const PROPERTY: SemanticTokenType = SemanticTokenType { id: 9 };
    pub const ENUM_MEMBER: SemanticTokenType = SemanticTokenType { id: 10 };
    pub const EVENT: SemanticTokenType = SemanticTokenType { id: 11 };
    pub const FUNCTION: SemanticTokenType = SemanticTokenType { id: 12 };
    pub const METHOD: SemanticTokenType = SemanticTokenType { id: 13 };
    pub const MACRO: SemanticTokenType = SemanticTokenType { id: 14 };
    pub const KEYWORD: SemanticTokenType = SemanticTokenType { id: 15 };
    pub const MODIFIER: SemanticTokenType = SemanticTokenType { id: 16 };
    pub const COMMENT: SemanticTokenType = SemanticTokenType { id: 17 };
    pub const STRING: SemanticTokenType = SemanticTokenType { id: 18 };
    pub const NUMBER: SemanticTokenType = SemanticTokenType { id: 19 };
    pub const REGEXP: SemanticTokenType = SemanticTokenType { id: 20 };
    pub const OPERATOR: SemanticTokenType = SemanticTokenType { id: 21 };
    pub const DECORATOR: SemanticTokenType = SemanticTokenType { id: 22 };

    pub open spec fn sp_new(tag: &'static str) -> SemanticTokenType { sp_type_new(tag@) }
    /// `pub const fn new(tag: &'static str) -> Self { SemanticTokenType(Cow::Borrowed(tag)) }`: a function of the tag.
    /// (The body below is only there for rustc's const evaluation; the verifier sees the `ensures`.)
    #[verifier::external_body]
    pub const fn new(tag: &'static str) -> (r: SemanticTokenType)
        ensures r == Self::sp_new(tag),
    { SemanticTokenType { id: 0xffff_ffff } }
}

/// lsp_types::SemanticTokenModifier, same construction (semantic_tokens.rs:75-84): ten distinct string literals.
pub struct SemanticTokenModifier { pub id: u32 }
impl SemanticTokenModifier {
    pub const DECLARATION: SemanticTokenModifier = SemanticTokenModifier { id: 0 };
    pub const DEFINITION: SemanticTokenModifier = SemanticTokenModifier { id: 1 };
    pub const READONLY: SemanticTokenModifier = SemanticTokenModifier { id: 2 };
    pub const STATIC: SemanticTokenModifier = SemanticTokenModifier { id: 3 };
    pub const DEPRECATED: SemanticTokenModifier = SemanticTokenModifier { id: 4 };
    pub const ABSTRACT: SemanticTokenModifier = SemanticTokenModifier { id: 5 };
    pub const ASYNC: SemanticTokenModifier = SemanticTokenModifier { id: 6 };
    pub const MODIFICATION: SemanticTokenModifier = SemanticTokenModifier { id: 7 };
    pub const DOCUMENTATION: SemanticTokenModifier = SemanticTokenModifier { id: 8 };
    pub const DEFAULT_LIBRARY: SemanticTokenModifier = SemanticTokenModifier { id: 9 };
}

/// lsp_types::SemanticToken, transcribed field by field (semantic_tokens.rs:147-153)
pub struct SemanticToken {
    pub delta_line: u32,
    pub delta_start: u32,
    pub length: u32,
    pub token_type: u32,
    pub token_modifiers_bitset: u32,
}

/// emmylua_code_analysis::LuaDocument, opaque. `get_line_col` carries the contract that unit c22_lineindex PROVES for
/// the real `LuaDocument::get_line_col` (C22.doc.get_line_col + lemma_position_fits + lemma_line_col_monotonic),
/// stated through uninterpreted functions of (document, offset):
///   sp_doc_ok(doc)      = c22 `wf(doc.line_index, doc.text.bytes)`  (includes text.len() < 2^32 - 1)
///   sp_in_doc(doc, off) = c22 `off <= text.len() && is_char_boundary(text, off)`
///   sp_pos(doc, off)    = the (line, col) that the call returns (c22: always `Some`, the line the offset lies on
///                         and the number of chars before it on that line)
#[verifier::external_body]
pub struct LuaDocument<'a> { _p: core::marker::PhantomData<&'a ()> }
pub uninterp spec fn sp_doc_ok(doc: &LuaDocument) -> bool;
pub uninterp spec fn sp_in_doc(doc: &LuaDocument, off: TextSize) -> bool;
pub uninterp spec fn sp_pos(doc: &LuaDocument, off: TextSize) -> Option<(usize, usize)>;
impl<'a> LuaDocument<'a> {
    #[verifier::external_body]
    pub fn get_line_col(&self, offset: TextSize) -> (r: Option<(usize, usize)>)
        requires sp_doc_ok(self), sp_in_doc(self, offset),
        ensures
            r == sp_pos(self, offset),
            // c22 lemma_position_fits: line and column fit in u32 because the text is shorter than 2^32 - 1 bytes
            r matches Some((l, c)) ==> l <= u32::MAX && c <= u32::MAX,
    { unimplemented!() }
}
/// lsp_types::Position (the two fields read by `push_at_position`)
pub mod lsp_types {
    use vstd::prelude::*;
    verus!{
    pub struct Position { pub line: u32, pub character: u32 }
    }
}
impl<'a> LuaDocument<'a> {
    /// proved in unit c22_lineindex (C22.doc.to_lsp_position): the LSP position of an offset is the (line, col) that
    /// `get_line_col` returns for it, cast to u32 (which fits, lemma_position_fits)
    #[verifier::external_body]
    pub fn to_lsp_position(&self, offset: TextSize) -> (r: Option<lsp_types::Position>)
        requires sp_doc_ok(self), sp_in_doc(self, offset),
        ensures
            match r {
                Some(p) => sp_pos(self, offset) matches Some(lc) && p.line == lc.0 && p.character == lc.1,
                None => sp_pos(self, offset) is None,
            },
    { unimplemented!() }
}
/// emmylua_parser::LuaSyntaxToken (= rowan::SyntaxToken<LuaLanguage>), opaque; `text_range()` is an uninterpreted
/// function of the token
#[verifier::external_body]
pub struct LuaSyntaxToken { _p: () }
pub uninterp spec fn sp_token_range(t: &LuaSyntaxToken) -> TextRange;
impl LuaSyntaxToken {
    #[verifier::external_body]
    pub fn text_range(&self) -> (r: TextRange) ensures r == sp_token_range(self) { unimplemented!() }
}
/// input assumption of the `push*` functions: the range is ordered and both ends are offsets of the document on char
/// boundaries (ranges of tokens of the document's own syntax tree are)
pub open spec fn range_in_doc(doc: &LuaDocument, range: TextRange) -> bool {
    range.wf() && sp_in_doc(doc, range.start) && sp_in_doc(doc, range.end)
}
/// positions are monotone in the offset — proved in unit c22_lineindex: lemma_line_col_monotonic
#[verifier::external_body]
pub proof fn axiom_line_col_monotonic(doc: &LuaDocument, a: TextSize, b: TextSize)
    requires sp_doc_ok(doc), sp_in_doc(doc, a), sp_in_doc(doc, b), a.raw <= b.raw,
    ensures
        match (sp_pos(doc, a), sp_pos(doc, b)) {
            (Some((l1, c1)), Some((l2, c2))) => l1 < l2 || (l1 == l2 && c1 <= c2),
            _ => true,
        },
{ }

// ---- std contracts (trusted) -------------------------------------------------------------------
/// `vec.into_iter().map(f).collect::<Vec<_>>()` (rule c26-map-collect): std doc of Iterator::map / collect into Vec:
/// `f` is called once on every element in order and the results are collected in order.
#[verifier::external_body]
pub fn vx_into_iter_map_collect<T, U, F: FnMut(T) -> U>(v: Vec<T>, f: F) -> (r: Vec<U>)
    requires forall|i: int| 0 <= i < v@.len() ==> call_requires(f, (#[trigger] v@[i],)),
    ensures
        r@.len() == v@.len(),
        forall|i: int| 0 <= i < v@.len() ==> call_ensures(f, (v@[i],), #[trigger] r@[i]),
{ v.into_iter().map(f).collect() }

pub open spec fn ord_rev(o: Ordering) -> Ordering {
    match o { Ordering::Less => Ordering::Greater, Ordering::Equal => Ordering::Equal, Ordering::Greater => Ordering::Less }
}
/// "the comparator implements a total order" (std doc of slice::sort_unstable_by: for all a, b, c exactly one of
/// a < b, a == b, a > b holds, and each of <, ==, > is transitive), phrased over the possible results of `f`:
/// defined everywhere, deterministic, antisymmetric, transitive.
pub open spec fn cmp_total<T, F: FnMut(&T, &T) -> Ordering>(f: F) -> bool {
    &&& forall|a: &T, b: &T| #[trigger] call_requires(f, (a, b))
    &&& forall|a: &T, b: &T, o1: Ordering, o2: Ordering|
            #[trigger] call_ensures(f, (a, b), o1) && #[trigger] call_ensures(f, (a, b), o2) ==> o1 == o2
    &&& forall|a: &T, b: &T, o1: Ordering, o2: Ordering|
            #[trigger] call_ensures(f, (a, b), o1) && #[trigger] call_ensures(f, (b, a), o2) ==> o2 == ord_rev(o1)
    &&& forall|a: &T, b: &T, c: &T, o1: Ordering, o2: Ordering, o3: Ordering|
            #[trigger] call_ensures(f, (a, b), o1) && #[trigger] call_ensures(f, (b, c), o2) && #[trigger] call_ensures(f, (a, c), o3) && o1 == o2
                ==> o3 == o1
}
/// "calling the comparator on (a, b) does not answer Greater"
pub open spec fn cmp_says_le<T, F: FnMut(&T, &T) -> Ordering>(f: F, a: T, b: T) -> bool {
    exists|o: Ordering| #[trigger] call_ensures(f, (&a, &b), o) && o != Ordering::Greater
}
/// std doc of `<[T]>::sort_unstable_by`: "Sorts the slice in ascending order with a comparison function, without
/// preserving the initial order of equal elements … May panic if the implementation of `compare` does not implement a
/// total order": the result is a permutation of the input, and ascending w.r.t. the comparator.
pub assume_specification<T, F: FnMut(&T, &T) -> Ordering>[ <[T]>::sort_unstable_by ](v: &mut [T], f: F)
    requires cmp_total::<T, F>(f),
    ensures
        final(v)@.to_multiset() == old(v)@.to_multiset(),
        forall|i: int, j: int| #![trigger final(v)@[i], final(v)@[j]] 0 <= i < j < final(v)@.len() ==> cmp_says_le(f, final(v)@[i], final(v)@[j]);

// ---------------------------------------------------------------------------------------------
// property vocabulary (from the LSP specification and the statement of C26, not from the code)
// ---------------------------------------------------------------------------------------------
pub open spec fn pos_le(a: (int, int), b: (int, int)) -> bool { a.0 < b.0 || (a.0 == b.0 && a.1 <= b.1) }

/// LSP 3.17, textDocument/semanticTokens, "Integer Encoding for Tokens": `deltaLine`: token line number, relative to
/// the previous token; `deltaStart`: token start character, relative to the previous token (relative to 0 or the
/// previous token's start if they are on the same line). The first token is relative to (0, 0).
/// decode(r, i) = absolute (line, start character) of token i.
pub open spec fn decode(r: Seq<SemanticToken>, i: int) -> (int, int)
    decreases i
{
    let prev = if i <= 0 { (0int, 0int) } else { decode(r, i - 1) };
    if 0 <= i < r.len() {
        (prev.0 + r[i].delta_line, if r[i].delta_line == 0 { prev.1 + r[i].delta_start } else { r[i].delta_start as int })
    } else {
        prev
    }
}

pub open spec fn tok_pos(b: BasicSemanticTokenData) -> (int, int) { (b.line as int, b.col as int) }
/// the comparison the builder must sort by: (line, col) lexicographically
pub open spec fn lex_cmp(a: BasicSemanticTokenData, b: BasicSemanticTokenData) -> Ordering {
    if a.line < b.line { Ordering::Less } else if a.line > b.line { Ordering::Greater }
    else if a.col < b.col { Ordering::Less } else if a.col > b.col { Ordering::Greater }
    else { Ordering::Equal }
}
pub open spec fn lex_sorted(s: Seq<BasicSemanticTokenData>) -> bool {
    forall|i: int, j: int| 0 <= i < j < s.len() ==> pos_le(tok_pos(#[trigger] s[i]), tok_pos(#[trigger] s[j]))
}
/// what the builder holds, token by token, in push order
pub open spec fn pieces(d: SemanticTokenData) -> Seq<BasicSemanticTokenData> {
    match d { SemanticTokenData::Basic(b) => seq![b], SemanticTokenData::MultiLine(v) => v@ }
}
pub open spec fn flat(s: Seq<SemanticTokenData>) -> Seq<BasicSemanticTokenData>
    decreases s.len()
{
    if s.len() == 0 { Seq::empty() } else { flat(s.drop_last()) + pieces(s.last()) }
}
/// token i of the result decodes to the position of the i-th pushed token in (line, col) order and carries its
/// length, type index and modifier bitset unchanged
pub open spec fn carries(t: SemanticToken, b: BasicSemanticTokenData) -> bool {
    t.length == b.length && t.token_type == b.typ && t.token_modifiers_bitset == b.modifiers
}
pub open spec fn encodes(pushed: Seq<BasicSemanticTokenData>, sorted: Seq<BasicSemanticTokenData>, r: Seq<SemanticToken>) -> bool {
    &&& sorted.to_multiset() == pushed.to_multiset()
    &&& lex_sorted(sorted)
    &&& r.len() == sorted.len()
    &&& forall|i: int| 0 <= i < r.len() ==> decode(r, i) == tok_pos(#[trigger] sorted[i]) && carries(r[i], sorted[i])
}

/// multi-line split demanded of `push_data` for a client without multi-line token support: one piece per line
/// start_line..=end_line in increasing order, the first at start_col, all others at column 0, the last of length
/// end_col; every piece carries the token's type and modifiers. (The length of the other pieces — the code uses the
/// sentinel 9999 "to the end of the line" — is not constrained here, see `not_covered`.)
pub open spec fn split_ok(v: Seq<BasicSemanticTokenData>, sl: u32, sc: u32, el: u32, ec: u32, typ: u32, modifiers: u32) -> bool {
    &&& sl < el
    &&& v.len() == el - sl + 1
    &&& forall|k: int| 0 <= k < v.len() ==> piece_ok(#[trigger] v[k], k, v.len() as int, sl, sc, ec, typ, modifiers)
}
pub open spec fn piece_ok(p: BasicSemanticTokenData, k: int, n: int, sl: u32, sc: u32, ec: u32, typ: u32, modifiers: u32) -> bool {
    &&& p.line == sl + k
    &&& p.col == (if k == 0 { sc } else { 0 })
    &&& (k == n - 1 ==> p.length == ec)
    &&& p.typ == typ
    &&& p.modifiers == modifiers
}
/// what one `push_data(range, typ, modifiers)` must append, given the positions of the two ends
pub open spec fn pushed_ok(d: SemanticTokenData, mls: bool, s: (usize, usize), e: (usize, usize), typ: u32, modifiers: u32) -> bool {
    let (sl, sc, el, ec) = (s.0 as u32, s.1 as u32, e.0 as u32, e.1 as u32);
    if !mls && sl != el {
        d matches SemanticTokenData::MultiLine(v) && split_ok(v@, sl, sc, el, ec, typ, modifiers)
    } else {
        d matches SemanticTokenData::Basic(b) && b.line == sl && b.col == sc
            && b.length == (if ec >= sc { (ec - sc) as u32 } else { 0u32 }) && b.typ == typ && b.modifiers == modifiers
    }
}

/// "type and modifier indices inside the advertised legend": the type index addresses an entry of `all_types()`, the
/// modifier bitset only uses bits 0..all_modifiers().len() (= 10, lemma_modifier_consts_in_legend: two_pow(10) == 1024)
pub open spec fn raw_in_legend(typ: u32, modifiers: u32) -> bool {
    typ < SemanticTokenTypeKind::sp_all_types().len() && modifiers < 1024
}
pub open spec fn in_legend(p: BasicSemanticTokenData) -> bool { raw_in_legend(p.typ, p.modifiers) }
/// builder invariant: every piece held is inside the legend
pub open spec fn legend_inv(s: Seq<SemanticTokenData>) -> bool {
    forall|j: int| 0 <= j < flat(s).len() ==> in_legend(#[trigger] flat(s)[j])
}
pub open spec fn token_in_legend(t: SemanticToken) -> bool { raw_in_legend(t.token_type, t.token_modifiers_bitset) }
/// the modifier bitset an optional modifier kind stands for
pub open spec fn opt_bits(m: Option<SemanticTokenModifierKind>) -> u32 { match m { Some(m) => m.0, None => 0 } }
pub open spec fn opt_legend_bits(m: Option<SemanticTokenModifierKind>) -> bool { match m { Some(m) => legend_bits(m), None => true } }

/// the legend bits: modifier k of the legend is bit k; only bits 0..9 exist in the advertised legend
pub open spec fn legend_bits(m: SemanticTokenModifierKind) -> bool { m.0 < 1024 }
pub open spec fn is_legend_const(m: SemanticTokenModifierKind) -> bool {
    exists|k: int| 0 <= k < SemanticTokenModifierKind::sp_all_modifier_kinds().len() && SemanticTokenModifierKind::sp_all_modifier_kinds()[k] == m
}

// ---------------------------------------------------------------------------------------------
// lemmas (proved)
// ---------------------------------------------------------------------------------------------
//@@include c26_semantic_tokens/lemmas.rs

// ---------------------------------------------------------------------------------------------
// extracted from /repo
// ---------------------------------------------------------------------------------------------
//@@ CustomSemanticTokenType
impl CustomSemanticTokenType {
    //@@ CustomSemanticTokenType::SP_DELIMITER
    //@@ CustomSemanticTokenType::DELIMITER
}

//@@ SemanticTokenTypeKind
impl SemanticTokenTypeKind {
    //@@ SemanticTokenTypeKind::sp_to_semantic_token_type
    //@@ SemanticTokenTypeKind::sp_to_u32
    //@@ SemanticTokenTypeKind::sp_all_types
    //@@ SemanticTokenTypeKind::to_semantic_token_type
    //@@ SemanticTokenTypeKind::to_u32
    //@@ SemanticTokenTypeKind::all_types
}

//@@ SemanticTokenModifierKind
impl SemanticTokenModifierKind {
    //@@ SemanticTokenModifierKind::DECLARATION
    //@@ SemanticTokenModifierKind::DEFINITION
    //@@ SemanticTokenModifierKind::READONLY
    //@@ SemanticTokenModifierKind::STATIC
    //@@ SemanticTokenModifierKind::ABSTRACT
    //@@ SemanticTokenModifierKind::DEPRECATED
    //@@ SemanticTokenModifierKind::ASYNC
    //@@ SemanticTokenModifierKind::MODIFICATION
    //@@ SemanticTokenModifierKind::DOCUMENTATION
    //@@ SemanticTokenModifierKind::DEFAULT_LIBRARY
    //@@ SemanticTokenModifierKind::sp_to_modifier
    //@@ SemanticTokenModifierKind::sp_all_modifier_kinds
    //@@ SemanticTokenModifierKind::empty
    //@@ SemanticTokenModifierKind::to_modifier
    //@@ SemanticTokenModifierKind::to_u32
    //@@ SemanticTokenModifierKind::all_modifiers
}

// operator traits: vstd routes `|` / `|=` through BitOrSpec / BitOrAssignSpec; the spec below is checked against the
// extracted bodies (postcondition of the trait method)
impl vstd::std_specs::ops::BitOrSpecImpl<SemanticTokenModifierKind> for SemanticTokenModifierKind {
    open spec fn obeys_bitor_spec() -> bool { true }
    open spec fn bitor_req(self, rhs: Self) -> bool { true }
    open spec fn bitor_spec(self, rhs: Self) -> Self { SemanticTokenModifierKind(self.0 | rhs.0) }
}
impl vstd::std_specs::ops::BitOrAssignSpecImpl<SemanticTokenModifierKind> for SemanticTokenModifierKind {
    open spec fn obeys_bitor_assign_spec() -> bool { true }
    open spec fn bitor_assign_req(&self, rhs: Self) -> bool { true }
    open spec fn bitor_assign_spec(&self, rhs: Self) -> &Self { &SemanticTokenModifierKind(self.0 | rhs.0) }
}
impl BitOr for SemanticTokenModifierKind {
    type Output = Self;
    //@@ SemanticTokenModifierKind::bitor
}
impl BitOrAssign for SemanticTokenModifierKind {
    //@@ SemanticTokenModifierKind::bitor_assign
}

//@@ BasicSemanticTokenData
//@@ SemanticTokenData
//@@ SemanticBuilder
impl<'a> SemanticBuilder<'a> {
    //@@ SemanticBuilder::new
    //@@ SemanticBuilder::push_data
    //@@ SemanticBuilder::push
    //@@ SemanticBuilder::push_with_modifier
    //@@ SemanticBuilder::push_at_position
    //@@ SemanticBuilder::push_at_range
    //@@ SemanticBuilder::build
}

} // verus!
fn main() {}
