/// C26 legend, token types: for EVERY variant k of the real enum, the index the encoder emits (`to_u32`) is inside the
/// advertised legend (`all_types`, registered as `SemanticTokensLegend::token_types`) and the legend entry at that
/// index is the LSP type the variant stands for (`to_semantic_token_type`). The three spec functions are the
/// repository's own texts of the three functions (dual extraction), tied to the exec functions by `ensures r == sp_…`.
pub proof fn lemma_type_index_in_legend(k: SemanticTokenTypeKind)
    ensures
        k.sp_to_u32() < SemanticTokenTypeKind::sp_all_types().len() /*@C26.legend.type-index-in-legend*/,
        SemanticTokenTypeKind::sp_all_types()[k.sp_to_u32() as int] == k.sp_to_semantic_token_type() /*@C26.legend.type-index-in-legend*/,
{
}

pub open spec fn two_pow(k: nat) -> nat
    decreases k
{
    if k == 0 { 1 } else { 2 * two_pow((k - 1) as nat) }
}

/// C26 legend, modifiers: the k-th modifier constant (k-th entry of the `vec![…]` in `all_modifiers`, hence — by the
/// contract of `all_modifiers` — the constant whose `to_modifier()` is legend entry k) is exactly bit k, there are ten
/// of them, so every constant only has legend bits (< 2^10) set.
pub proof fn lemma_modifier_consts_in_legend()
    ensures
        SemanticTokenModifierKind::sp_all_modifier_kinds().len() == 10 /*@C26.legend.modifier-bits-in-legend*/,
        forall|k: int| 0 <= k < 10 ==> (#[trigger] SemanticTokenModifierKind::sp_all_modifier_kinds()[k]).0 == two_pow(k as nat) /*@C26.legend.modifier-bit-k-is-entry-k*/,
        forall|k: int| 0 <= k < 10 ==> legend_bits(#[trigger] SemanticTokenModifierKind::sp_all_modifier_kinds()[k]) /*@C26.legend.modifier-bits-in-legend*/,
        legend_bits(SemanticTokenModifierKind(0)),
        two_pow(SemanticTokenModifierKind::sp_all_modifier_kinds().len()) == 1024,
{
    reveal_with_fuel(two_pow, 11);
    assert(1u32 << 0 == 1) by (bit_vector);
    assert(1u32 << 1 == 2) by (bit_vector);
    assert(1u32 << 2 == 4) by (bit_vector);
    assert(1u32 << 3 == 8) by (bit_vector);
    assert(1u32 << 4 == 16) by (bit_vector);
    assert(1u32 << 5 == 32) by (bit_vector);
    assert(1u32 << 6 == 64) by (bit_vector);
    assert(1u32 << 7 == 128) by (bit_vector);
    assert(1u32 << 8 == 256) by (bit_vector);
    assert(1u32 << 9 == 512) by (bit_vector);
}

/// `|` keeps the bitset inside the legend bits
pub proof fn lemma_or_in_legend(a: u32, b: u32)
    requires a < 1024, b < 1024,
    ensures (a | b) < 1024,
{
    assert(a < 1024 && b < 1024 ==> (a | b) < 1024) by (bit_vector);
}

/// decoding a prefix does not depend on what is appended later
pub proof fn lemma_decode_push(r: Seq<SemanticToken>, x: SemanticToken, i: int)
    requires i < r.len(),
    ensures decode(r.push(x), i) == decode(r, i),
    decreases i
{
    if i > 0 {
        lemma_decode_push(r, x, i - 1);
    }
}

/// the decoded positions of an encoding of a (line, col)-sorted sequence are non-decreasing: "ordered"
pub proof fn lemma_encoded_is_ordered(pushed: Seq<BasicSemanticTokenData>, sorted: Seq<BasicSemanticTokenData>, r: Seq<SemanticToken>)
    requires encodes(pushed, sorted, r),
    ensures
        r.len() == pushed.len(),
        forall|i: int, j: int| 0 <= i <= j < r.len() ==> pos_le(#[trigger] decode(r, i), #[trigger] decode(r, j)),
{
    sorted.to_multiset_ensures();
    pushed.to_multiset_ensures();
    assert forall|i: int, j: int| 0 <= i <= j < r.len() implies pos_le(#[trigger] decode(r, i), #[trigger] decode(r, j)) by {
        assert(decode(r, i) == tok_pos(sorted[i]));
        assert(decode(r, j) == tok_pos(sorted[j]));
        if i < j {
            assert(pos_le(tok_pos(sorted[i]), tok_pos(sorted[j])));
        }
    }
}

/// appending an entry whose pieces are inside the legend keeps the builder invariant
pub proof fn lemma_legend_inv_push(s: Seq<SemanticTokenData>, d: SemanticTokenData)
    requires
        legend_inv(s),
        forall|k: int| 0 <= k < pieces(d).len() ==> in_legend(#[trigger] pieces(d)[k]),
    ensures legend_inv(s.push(d)),
{
    assert(s.push(d).drop_last() =~= s);
    assert(flat(s.push(d)) == flat(s) + pieces(d));
}

/// what `push_data` appends carries the given type index and modifier bitset on every piece
pub proof fn lemma_pushed_in_legend(d: SemanticTokenData, mls: bool, s: (usize, usize), e: (usize, usize), typ: u32, modifiers: u32)
    requires pushed_ok(d, mls, s, e, typ, modifiers), raw_in_legend(typ, modifiers),
    ensures forall|k: int| 0 <= k < pieces(d).len() ==> in_legend(#[trigger] pieces(d)[k]),
{
}

/// the encoder carries type index and modifier bitset unchanged, so the emitted tokens are inside the legend when
/// the pushed pieces are
pub proof fn lemma_encoded_in_legend(pushed: Seq<BasicSemanticTokenData>, sorted: Seq<BasicSemanticTokenData>, r: Seq<SemanticToken>)
    requires
        encodes(pushed, sorted, r),
        forall|j: int| 0 <= j < pushed.len() ==> in_legend(#[trigger] pushed[j]),
    ensures forall|i: int| 0 <= i < r.len() ==> token_in_legend(#[trigger] r[i]),
{
    sorted.to_multiset_ensures();
    pushed.to_multiset_ensures();
    assert forall|i: int| 0 <= i < r.len() implies token_in_legend(#[trigger] r[i]) by {
        let x = sorted[i];
        assert(sorted.contains(x));
        assert(pushed.to_multiset().count(x) > 0);
        assert(pushed.contains(x));
        let j = choose|j: int| 0 <= j < pushed.len() && pushed[j] == x;
        assert(in_legend(pushed[j]));
        assert(carries(r[i], sorted[i]));
    }
}
