PP = 'crates/emmylua_code_analysis/src/config/pre_process.rs'

UNIT = {
    'extra_rules': [
        ('str-pred-char', r"(\w+)\.starts_with\('~'\)", r"vx_starts_with_char(\1.as_str(), '~')",
         "S.starts_with('~') -> vx_starts_with_char(S, '~'), ensures r == (S@.len() > 0 && S@[0] == '~') (std doc of str::starts_with)"),
        ('str-pred-dot-slash', r'(\w+)\.starts_with\("\./"\)', r'vx_starts_with_dot_slash(\1.as_str())',
         'S.starts_with("./") -> vx_starts_with_dot_slash(S), ensures r == (S@ starts with \'.\', \'/\') (std doc)'),
        ('drop-log', r'log::error!\([^;]*\);', 'vx_note_error();', 'log::error!(..) -> vx_note_error(): logging has no effect on the verified state'),
        ('string-slice-from', r'&?\b(path)\[(\d)\.\.\]', r'&\1.as_str()[\2..]',
         '&S[k..] / S[k..] on a String -> &S.as_str()[k..]: String derefs to str for indexing (std: impl Index<RangeFrom<usize>> for String forwards to str); the slicing precondition (in bounds, char boundary) stays an obligation'),
        ('trim-start-seps', r"\.trim_start_matches\(\['/', '\\\\'\]\)", '.vx_trim_start_seps()',
         "S.trim_start_matches(['/', '\\\\']) -> S.vx_trim_start_seps() (opaque &str result; str::trim_start_matches never panics)"),
        ('join-rest', r'\.join\(rest\)', '.join(rest)', 'identity (keeps the call visible in the rule log)'),
        ('lossy-string', r'\.to_string_lossy\(\)\s*\.to_string\(\)', '.vx_lossy_string()', 'P.to_string_lossy().to_string() -> P.vx_lossy_string() (opaque String result)'),
        ('pathbuf-from-abs', r'PathBuf::from\(&(\w+)\)\.is_absolute\(\)', r'PathBuf::vx_from_is_absolute(\1.as_str())', 'PathBuf::from(&S).is_absolute() -> opaque bool'),
        ('join-string', r'\.join\(&path\)', '.join(path.as_str())', 'PathBuf::join(&String) -> join(str) (AsRef<Path>)'),
        ('self-assign', r'path = path\.to_string\(\);', 'path = path.clone();', 'String::to_string() on a String is clone()'),
    ],
    'items': {
        'PreProcessContext': {'src': {'file': PP, 'kind': 'struct', 'name': 'PreProcessContext'},
                              'rules': [('struct-fields', {'keep': ['workspace']})]},
        'pre_process_path::expand': {
            'src': {'kind': 'slice', 'name': 'expand',
                    'in': {'file': PP, 'kind': 'fn', 'impl': 'PreProcessContext', 'name': 'pre_process_path'},
                    'from': r"if path\.starts_with\('~'\) \{", 'to': r'path = self\.workspace\.join\(&path\)\.to_string_lossy\(\)\.to_string\(\);\s*\}',
                    'head': 'pub fn expand(&self, path: String) -> String', 'tail': 'path',
                    'head_prefix': ''},
            'rules': ['str-pred-char', 'str-pred-dot-slash', 'drop-log', 'string-slice-from', ('trim-start-seps', {'optional': True}), 'lossy-string', 'pathbuf-from-abs', 'join-string', 'self-assign', 'c31-mut-param'],
            'proof': [
                (r"let home_dir = match dirs::home_dir\(\) \{", 'before', "proof { lemma_one_ascii_prefix(path@); }"),
                (r'path = self\s*\.workspace\s*\.join\(&path\.as_str\(\)\[\d\.\.\]\)', 'before', "proof { lemma_two_ascii_prefix(path@); }"),
            ],
        },
    },
    'mutants': [
        {'name': 'tilde-slices-two-bytes', 'item': 'pre_process_path::expand',
         'pattern': r"let rest = path\[1\.\.\]\.trim_start_matches\(\['/', '\\\\'\]\);", 'repl': 'let rest = &path[2..];',
         'expect': r'precondition-not-satisfied'},
        {'name': 'dot-slash-slices-three-bytes', 'item': 'pre_process_path::expand',
         'pattern': r'\.join\(&path\[2\.\.\]\)', 'repl': '.join(&path[3..])',
         'expect': r'precondition-not-satisfied'},
    ],
    'allow': [r'external_body', r'assume_specification<I: core::slice::SliceIndex<str>>'],
    'min_obligations': 2,
    'trusted': ['std::path::PathBuf, dirs::home_dir: opaque shims', 'str::starts_with std contracts', '<str as Index>::index forwarding'],
    'samples': ["expand: the slicing preconditions of `&path[2..]` in the `~` and `./` branches for every String"],
}
UNIT['extra_rules'].append(('c31-mut-param', r'pub fn expand\(&self, path: String\)', 'pub fn expand(&self, mut path: String)', 'the slice assigns `path`: the wrapper parameter is `mut`'))
