// unit c31_path — C31 "Loading any configuration never crashes" (path-expansion clause):
// the `~` / `./` / absolute / relative chain of PreProcessContext::pre_process_path never panics,
// for every path string. The only panic sources are the two `&path[2..]` slices.
use vstd::prelude::*;
use vstd::utf8::*;
use vstd::string::*;
verus! {

//@@include common/utf8_lemmas.rs

// trusted std contract: `<str as Index<I>>::index` forwards to SliceIndex (see unit c22_lineindex)
pub assume_specification<I: core::slice::SliceIndex<str>>[ <str as core::ops::Index<I>>::index ](s: &str, index: I) -> (output: &<I as core::slice::SliceIndex<str>>::Output)
    ensures call_ensures(<I as core::slice::SliceIndex<str>>::index, (index, s), output);

// ---- shims: std::path / dirs (opaque; results uninterpreted) --------------------------------------
#[verifier::external_body]
pub struct PathBuf { _p: () }
impl PathBuf {
    #[verifier::external_body]
    pub fn join(&self, p: &str) -> (r: PathBuf) { unimplemented!() }
    #[verifier::external_body]
    pub fn vx_lossy_string(&self) -> (r: String) { unimplemented!() }
    #[verifier::external_body]
    pub fn vx_from_is_absolute(p: &str) -> (r: bool) { unimplemented!() }
}
pub mod dirs {
    use vstd::prelude::*;
    verus!{
    #[verifier::external_body]
    pub fn home_dir() -> (r: Option<super::PathBuf>) { unimplemented!() }
    }
}

// trusted std contracts introduced by rule `str-pred`
#[verifier::external_body]
pub fn vx_starts_with_char(s: &str, c: char) -> (r: bool)
    ensures r == (s@.len() > 0 && s@[0] == c),
{ s.starts_with(c) }
#[verifier::external_body]
pub fn vx_starts_with_dot_slash(s: &str) -> (r: bool)
    ensures r == (s@.len() >= 2 && s@[0] == '.' && s@[1] == '/'),
{ s.starts_with("./") }
#[verifier::external_body]
pub fn vx_note_error() {}
pub trait VxTrim { fn vx_trim_start_seps(&self) -> &str; }
impl VxTrim for str {
    #[verifier::external_body]
    fn vx_trim_start_seps(&self) -> (r: &str) { self.trim_start_matches(['/', '\\']) }
}

/// one leading ASCII character occupies exactly one byte: offset 1 is in bounds and a char boundary
pub proof fn lemma_one_ascii_prefix(cs: Seq<char>)
    requires cs.len() >= 1, (cs[0] as u32) < 0x80,
    ensures encode_utf8(cs).len() >= 1, is_char_boundary(encode_utf8(cs), 1),
            is_char_boundary(encode_utf8(cs), encode_utf8(cs).len() as int),
{
    let one = cs.subrange(0, 1);
    let rest = cs.subrange(1, cs.len() as int);
    assert(cs =~= one + rest);
    encode_utf8_concat(one, rest);
    assert(is_ascii_chars(one)) by {
        assert forall|i: int| 0 <= i < one.len() implies '\0' <= #[trigger] one[i] <= '\x7f' by {}
    }
    is_ascii_chars_encode_utf8(one);
    encode_utf8_valid_utf8(cs);
    encode_utf8_valid_utf8(rest);
    let b = encode_utf8(cs);
    assert(b == encode_utf8(one) + encode_utf8(rest));
    lemma_char_boundary_iff(b, 1);
    lemma_char_boundary_iff(b, b.len() as int);
    if b.len() > 1 {
        assert(b[1] == encode_utf8(rest)[0]);
        lemma_first_scalar_shape(encode_utf8(rest));
    }
}

/// two leading ASCII characters occupy exactly two bytes: offset 2 is in bounds and a char boundary
pub proof fn lemma_two_ascii_prefix(cs: Seq<char>)
    requires cs.len() >= 2, (cs[0] as u32) < 0x80, (cs[1] as u32) < 0x80,
    ensures encode_utf8(cs).len() >= 2, is_char_boundary(encode_utf8(cs), 2),
            is_char_boundary(encode_utf8(cs), encode_utf8(cs).len() as int),   // the end of the text (end of `[2..]`)
{
    let two = cs.subrange(0, 2);
    let rest = cs.subrange(2, cs.len() as int);
    assert(cs =~= two + rest);
    encode_utf8_concat(two, rest);
    assert(is_ascii_chars(two)) by {
        assert forall|i: int| 0 <= i < two.len() implies '\0' <= #[trigger] two[i] <= '\x7f' by {}
    }
    is_ascii_chars_encode_utf8(two);
    encode_utf8_valid_utf8(cs);
    encode_utf8_valid_utf8(rest);
    let b = encode_utf8(cs);
    assert(b == encode_utf8(two) + encode_utf8(rest));
    assert(encode_utf8(two).len() == 2);
    lemma_char_boundary_iff(b, 2);
    lemma_char_boundary_iff(b, b.len() as int);
    if b.len() > 2 {
        // the byte at offset 2 is the first byte of a valid sequence: not a continuation byte
        assert(b[2] == encode_utf8(rest)[0]);
        lemma_first_scalar_shape(encode_utf8(rest));
    }
}

//@@ PreProcessContext
impl PreProcessContext {
    //@@ pre_process_path::expand
}

} // verus!
fn main() {}
