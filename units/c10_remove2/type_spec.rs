// ---- type index: vocabulary and lemmas (bodies verified) ----------------------------------------------
pub type NameMap = Map<String, LuaTypeDeclId>;
pub open spec fn name_dropped(o: NameMap, n: NameMap, name: Seq<char>) -> bool {
    &&& forall|s: String| #[trigger] n.contains_key(s) <==> o.contains_key(s) && s@ != name
    &&& forall|s: String| #[trigger] n.contains_key(s) ==> n[s] == o[s]
}
pub open spec fn scoped_name_dropped<K>(o: Map<K, HashMap<String, LuaTypeDeclId>>, n: Map<K, HashMap<String, LuaTypeDeclId>>, k: K, name: Seq<char>) -> bool {
    &&& forall|k2: K| k2 != k ==> #[trigger] n.contains_key(k2) == o.contains_key(k2) && (o.contains_key(k2) ==> n[k2] == o[k2])
    &&& n.contains_key(k) ==> o.contains_key(k) && name_dropped(o[k]@, n[k]@, name) && !n[k]@.is_empty()
    &&& !n.contains_key(k) && o.contains_key(k) ==> forall|s: String| #[trigger] o[k]@.contains_key(s) ==> s@ == name
}
pub type FullMap = Map<LuaTypeDeclId, LuaTypeDecl>;
pub type SupMap = Map<LuaTypeDeclId, Vec<InFiled<LuaType>>>;
pub type GpMap = Map<LuaTypeDeclId, Vec<GenericParam>>;
pub open spec fn loc_not_file(f: FileId) -> spec_fn(LuaDeclLocation) -> bool { |l: LuaDeclLocation| l.file_id != f }
pub open spec fn sup_not_file(f: FileId) -> spec_fn(InFiled<LuaType>) -> bool { |s: InFiled<LuaType>| s.file_id != f }
/// the declaration has no location outside file f: it goes away with f
pub open spec fn decl_gone(d: LuaTypeDecl, f: FileId) -> bool { d.locations@.filter(loc_not_file(f)).len() == 0 }
/// the declaration after the removal of f: its locations in other files, in order; nothing else changed
pub open spec fn decl_rel(o: LuaTypeDecl, n: LuaTypeDecl, f: FileId) -> bool {
    n.locations@ == o.locations@.filter(loc_not_file(f)) && n.simple_name == o.simple_name && n.id == o.id
}
pub open spec fn ty_inv(full0: FullMap, full: FullMap, sup0: SupMap, sup: SupMap, gp0: GpMap, gp: GpMap, ids: Seq<LuaTypeDeclId>, n: int, f: FileId) -> bool {
    &&& forall|id: LuaTypeDeclId| #[trigger] full.contains_key(id) <==> full0.contains_key(id) && !(in_pref(ids, n, id) && decl_gone(full0[id], f))
    &&& forall|id: LuaTypeDeclId| #[trigger] full.contains_key(id) ==> (if in_pref(ids, n, id) { decl_rel(full0[id], full[id], f) } else { full[id] == full0[id] })
    &&& forall|id: LuaTypeDeclId| #[trigger] sup.contains_key(id) <==> sup0.contains_key(id) && !(in_pref(ids, n, id) && sup0[id]@.filter(sup_not_file(f)).len() == 0)
    &&& forall|id: LuaTypeDeclId| #[trigger] sup.contains_key(id) ==> (if in_pref(ids, n, id) { sup[id]@ == sup0[id]@.filter(sup_not_file(f)) } else { sup[id] == sup0[id] })
    &&& forall|id: LuaTypeDeclId| #[trigger] gp.contains_key(id) <==> gp0.contains_key(id) && !(in_pref(ids, n, id) && full0.contains_key(id) && decl_gone(full0[id], f))
    &&& forall|id: LuaTypeDeclId| #[trigger] gp.contains_key(id) ==> gp[id] == gp0[id]
}
pub proof fn lemma_filter_idem<T>(s: Seq<T>, p: spec_fn(T) -> bool)
    ensures s.filter(p).filter(p) == s.filter(p),
{
    lemma_filter_filter(s, p, p);
    lemma_filter_ext(s, and_pred(p, p), p);
}
/// one id of the file's list processed
pub proof fn lemma_ty_step(full0: FullMap, full: FullMap, full2: FullMap, sup0: SupMap, sup: SupMap, sup2: SupMap, gp0: GpMap, gp: GpMap, gp2: GpMap,
                           ids: Seq<LuaTypeDeclId>, n1: int, f: FileId)
    requires ty_inv(full0, full, sup0, sup, gp0, gp, ids, n1 - 1, f), 1 <= n1 <= ids.len(),
        forall|x: LuaTypeDeclId| x != ids[n1 - 1] ==> #[trigger] full2.contains_key(x) == full.contains_key(x) && (full.contains_key(x) ==> full2[x] == full[x]),
        full.contains_key(ids[n1 - 1]) ==> (if decl_gone(full[ids[n1 - 1]], f) { !full2.contains_key(ids[n1 - 1]) }
            else { full2.contains_key(ids[n1 - 1]) && decl_rel(full[ids[n1 - 1]], full2[ids[n1 - 1]], f) }),
        !full.contains_key(ids[n1 - 1]) ==> !full2.contains_key(ids[n1 - 1]),
        forall|x: LuaTypeDeclId| x != ids[n1 - 1] ==> #[trigger] sup2.contains_key(x) == sup.contains_key(x) && (sup.contains_key(x) ==> sup2[x] == sup[x]),
        sup.contains_key(ids[n1 - 1]) ==> (if sup[ids[n1 - 1]]@.filter(sup_not_file(f)).len() == 0 { !sup2.contains_key(ids[n1 - 1]) }
            else { sup2.contains_key(ids[n1 - 1]) && sup2[ids[n1 - 1]]@ == sup[ids[n1 - 1]]@.filter(sup_not_file(f)) }),
        !sup.contains_key(ids[n1 - 1]) ==> !sup2.contains_key(ids[n1 - 1]),
        forall|x: LuaTypeDeclId| x != ids[n1 - 1] ==> #[trigger] gp2.contains_key(x) == gp.contains_key(x),
        forall|x: LuaTypeDeclId| #[trigger] gp2.contains_key(x) ==> gp.contains_key(x) && gp2[x] == gp[x],
        gp2.contains_key(ids[n1 - 1]) <==> gp.contains_key(ids[n1 - 1]) && !(full.contains_key(ids[n1 - 1]) && decl_gone(full[ids[n1 - 1]], f)),
    ensures ty_inv(full0, full2, sup0, sup2, gp0, gp2, ids, n1, f),
{
    lemma_in_pref_step(ids, n1);
    let id = ids[n1 - 1]; let n = n1 - 1;
    if full0.contains_key(id) { lemma_filter_idem(full0[id].locations@, loc_not_file(f)); }
    if sup0.contains_key(id) { lemma_filter_idem(sup0[id]@, sup_not_file(f)); }
    assert forall|x: LuaTypeDeclId| #[trigger] full2.contains_key(x) <==> full0.contains_key(x) && !(in_pref(ids, n1, x) && decl_gone(full0[x], f)) by {
        if x != id { assert(full2.contains_key(x) == full.contains_key(x)); }
    }
    assert forall|x: LuaTypeDeclId| #[trigger] full2.contains_key(x) implies (if in_pref(ids, n1, x) { decl_rel(full0[x], full2[x], f) } else { full2[x] == full0[x] }) by {
        if x != id { assert(full2.contains_key(x) == full.contains_key(x)); }
    }
    assert forall|x: LuaTypeDeclId| #[trigger] sup2.contains_key(x) <==> sup0.contains_key(x) && !(in_pref(ids, n1, x) && sup0[x]@.filter(sup_not_file(f)).len() == 0) by {
        if x != id { assert(sup2.contains_key(x) == sup.contains_key(x)); }
    }
    assert forall|x: LuaTypeDeclId| #[trigger] sup2.contains_key(x) implies (if in_pref(ids, n1, x) { sup2[x]@ == sup0[x]@.filter(sup_not_file(f)) } else { sup2[x] == sup0[x] }) by {
        if x != id { assert(sup2.contains_key(x) == sup.contains_key(x)); }
    }
    assert forall|x: LuaTypeDeclId| #[trigger] gp2.contains_key(x) <==> gp0.contains_key(x) && !(in_pref(ids, n1, x) && full0.contains_key(x) && decl_gone(full0[x], f)) by {
        if x != id { assert(gp2.contains_key(x) == gp.contains_key(x)); }
        else {
            assert(full.contains_key(id) <==> full0.contains_key(id) && !(in_pref(ids, n, id) && decl_gone(full0[id], f)));
        }
    }
}


// ---- name maps: exact effect of the loop ------------------------------------------------------------------
/// the declaration x was removed while processing the first n ids of the file's list
pub open spec fn ty_rm(full0: FullMap, ids: Seq<LuaTypeDeclId>, n: int, f: FileId, x: LuaTypeDeclId) -> bool {
    in_pref(ids, n, x) && full0.contains_key(x) && decl_gone(full0[x], f)
}
/// scope and text under which a declaration id is registered in the name maps (None: not in this map)
pub open spec fn sel_global(i: LuaTypeIdentifier) -> Option<((), Seq<char>)> { match i { LuaTypeIdentifier::Global(nm) => Some(((), nm.text())), _ => None } }
pub open spec fn sel_internal(i: LuaTypeIdentifier) -> Option<(WorkspaceId, Seq<char>)> { match i { LuaTypeIdentifier::Internal(ws, nm) => Some((ws, nm.text())), _ => None } }
pub open spec fn sel_file(i: LuaTypeIdentifier) -> Option<(FileId, Seq<char>)> { match i { LuaTypeIdentifier::File(g, nm) => Some((g, nm.text())), _ => None } }
pub open spec fn sel_g() -> spec_fn(LuaTypeIdentifier) -> Option<((), Seq<char>)> { |i: LuaTypeIdentifier| sel_global(i) }
pub open spec fn sel_i() -> spec_fn(LuaTypeIdentifier) -> Option<(WorkspaceId, Seq<char>)> { |i: LuaTypeIdentifier| sel_internal(i) }
pub open spec fn sel_f() -> spec_fn(LuaTypeIdentifier) -> Option<(FileId, Seq<char>)> { |i: LuaTypeIdentifier| sel_file(i) }
/// a removed declaration was registered under scope k with text txt
pub open spec fn nm_hit<K>(full0: FullMap, ids: Seq<LuaTypeDeclId>, n: int, f: FileId, sel: spec_fn(LuaTypeIdentifier) -> Option<(K, Seq<char>)>, k: K, txt: Seq<char>) -> bool {
    exists|x: LuaTypeDeclId| ty_rm(full0, ids, n, f, x) && #[trigger] sel(x.ident()) == Some((k, txt))
}
/// a removed declaration was registered under scope k
pub open spec fn nm_touched<K>(full0: FullMap, ids: Seq<LuaTypeDeclId>, n: int, f: FileId, sel: spec_fn(LuaTypeIdentifier) -> Option<(K, Seq<char>)>, k: K) -> bool {
    exists|x: LuaTypeDeclId| ty_rm(full0, ids, n, f, x) && (#[trigger] sel(x.ident()) matches Some(p) && p.0 == k)
}
pub open spec fn all_hit<K>(full0: FullMap, ids: Seq<LuaTypeDeclId>, n: int, f: FileId, sel: spec_fn(LuaTypeIdentifier) -> Option<(K, Seq<char>)>, k: K, m: NameMap) -> bool {
    forall|s: String| #[trigger] m.contains_key(s) ==> nm_hit(full0, ids, n, f, sel, k, s@)
}
/// global_name_type_map after n ids: exactly the names of the removed Global declarations are gone
pub open spec fn gnames_inv(full0: FullMap, ids: Seq<LuaTypeDeclId>, n: int, f: FileId, g0: NameMap, g: NameMap) -> bool {
    &&& forall|s: String| #[trigger] g.contains_key(s) <==> g0.contains_key(s) && !nm_hit(full0, ids, n, f, sel_g(), (), s@)
    &&& forall|s: String| #[trigger] g.contains_key(s) ==> g[s] == g0[s]
}
/// a scoped name map (internal: per workspace, local: per file) after n ids: in every scope exactly the names of the removed
/// declarations of that scope are gone; a scope's map is dropped iff a removed declaration lived there and no name is left
pub open spec fn snames_inv<K>(full0: FullMap, ids: Seq<LuaTypeDeclId>, n: int, f: FileId, sel: spec_fn(LuaTypeIdentifier) -> Option<(K, Seq<char>)>,
                               m0: Map<K, HashMap<String, LuaTypeDeclId>>, m: Map<K, HashMap<String, LuaTypeDeclId>>) -> bool {
    &&& forall|k: K| #[trigger] m.contains_key(k) <==> m0.contains_key(k) && !(nm_touched(full0, ids, n, f, sel, k) && all_hit(full0, ids, n, f, sel, k, m0[k]@))
    &&& forall|k: K, s: String| m.contains_key(k) ==> (#[trigger] m[k]@.contains_key(s) <==> m0[k]@.contains_key(s) && !nm_hit(full0, ids, n, f, sel, k, s@))
    &&& forall|k: K, s: String| m.contains_key(k) && #[trigger] m[k]@.contains_key(s) ==> m[k]@[s] == m0[k]@[s]
}
/// ty_rm at n1 = n + 1 when the n-th id's declaration was not removed in this step
pub proof fn lemma_rm_same(full0: FullMap, ids: Seq<LuaTypeDeclId>, n1: int, f: FileId)
    requires 1 <= n1 <= ids.len(),
        !(full0.contains_key(ids[n1 - 1]) && decl_gone(full0[ids[n1 - 1]], f)) || in_pref(ids, n1 - 1, ids[n1 - 1]),
    ensures forall|x: LuaTypeDeclId| #[trigger] ty_rm(full0, ids, n1, f, x) == ty_rm(full0, ids, n1 - 1, f, x),
{
    lemma_in_pref_step(ids, n1);
}
/// ... and when it was
pub proof fn lemma_rm_new(full0: FullMap, ids: Seq<LuaTypeDeclId>, n1: int, f: FileId)
    requires 1 <= n1 <= ids.len(), full0.contains_key(ids[n1 - 1]), decl_gone(full0[ids[n1 - 1]], f),
    ensures forall|x: LuaTypeDeclId| #[trigger] ty_rm(full0, ids, n1, f, x) == (ty_rm(full0, ids, n1 - 1, f, x) || x == ids[n1 - 1]),
{
    lemma_in_pref_step(ids, n1);
}
/// the hit / touched relations of a selector when the set of removed declarations does not change
pub proof fn lemma_nm_same<K>(full0: FullMap, ids: Seq<LuaTypeDeclId>, n1: int, f: FileId, sel: spec_fn(LuaTypeIdentifier) -> Option<(K, Seq<char>)>)
    requires forall|x: LuaTypeDeclId| #[trigger] ty_rm(full0, ids, n1, f, x) == ty_rm(full0, ids, n1 - 1, f, x),
    ensures
        forall|k: K, t: Seq<char>| #[trigger] nm_hit(full0, ids, n1, f, sel, k, t) == nm_hit(full0, ids, n1 - 1, f, sel, k, t),
        forall|k: K| #[trigger] nm_touched(full0, ids, n1, f, sel, k) == nm_touched(full0, ids, n1 - 1, f, sel, k),
{
    let n = n1 - 1;
    assert forall|k: K, t: Seq<char>| #[trigger] nm_hit(full0, ids, n1, f, sel, k, t) == nm_hit(full0, ids, n, f, sel, k, t) by {
        if nm_hit(full0, ids, n1, f, sel, k, t) {
            let x = choose|x: LuaTypeDeclId| ty_rm(full0, ids, n1, f, x) && #[trigger] sel(x.ident()) == Some((k, t));
            assert(ty_rm(full0, ids, n, f, x) && sel(x.ident()) == Some((k, t)));
        }
        if nm_hit(full0, ids, n, f, sel, k, t) {
            let x = choose|x: LuaTypeDeclId| ty_rm(full0, ids, n, f, x) && #[trigger] sel(x.ident()) == Some((k, t));
            assert(ty_rm(full0, ids, n1, f, x) && sel(x.ident()) == Some((k, t)));
        }
    }
    assert forall|k: K| #[trigger] nm_touched(full0, ids, n1, f, sel, k) == nm_touched(full0, ids, n, f, sel, k) by {
        if nm_touched(full0, ids, n1, f, sel, k) {
            let x = choose|x: LuaTypeDeclId| ty_rm(full0, ids, n1, f, x) && (#[trigger] sel(x.ident()) matches Some(p) && p.0 == k);
            assert(ty_rm(full0, ids, n, f, x) && (sel(x.ident()) matches Some(p) && p.0 == k));
        }
        if nm_touched(full0, ids, n, f, sel, k) {
            let x = choose|x: LuaTypeDeclId| ty_rm(full0, ids, n, f, x) && (#[trigger] sel(x.ident()) matches Some(p) && p.0 == k);
            assert(ty_rm(full0, ids, n1, f, x) && (sel(x.ident()) matches Some(p) && p.0 == k));
        }
    }
}
/// ... and when exactly the declaration `gid` joins them
pub proof fn lemma_nm_new<K>(full0: FullMap, ids: Seq<LuaTypeDeclId>, n1: int, f: FileId, sel: spec_fn(LuaTypeIdentifier) -> Option<(K, Seq<char>)>, gid: LuaTypeDeclId)
    requires forall|x: LuaTypeDeclId| #[trigger] ty_rm(full0, ids, n1, f, x) == (ty_rm(full0, ids, n1 - 1, f, x) || x == gid),
    ensures
        forall|k: K, t: Seq<char>| #[trigger] nm_hit(full0, ids, n1, f, sel, k, t) == (nm_hit(full0, ids, n1 - 1, f, sel, k, t) || sel(gid.ident()) == Some((k, t))),
        forall|k: K| #[trigger] nm_touched(full0, ids, n1, f, sel, k) == (nm_touched(full0, ids, n1 - 1, f, sel, k) || (sel(gid.ident()) matches Some(p) && p.0 == k)),
{
    let n = n1 - 1;
    assert(ty_rm(full0, ids, n1, f, gid));
    assert forall|k: K, t: Seq<char>| #[trigger] nm_hit(full0, ids, n1, f, sel, k, t) == (nm_hit(full0, ids, n, f, sel, k, t) || sel(gid.ident()) == Some((k, t))) by {
        if nm_hit(full0, ids, n1, f, sel, k, t) {
            let x = choose|x: LuaTypeDeclId| ty_rm(full0, ids, n1, f, x) && #[trigger] sel(x.ident()) == Some((k, t));
            if x != gid { assert(ty_rm(full0, ids, n, f, x) && sel(x.ident()) == Some((k, t))); }
        }
        if nm_hit(full0, ids, n, f, sel, k, t) {
            let x = choose|x: LuaTypeDeclId| ty_rm(full0, ids, n, f, x) && #[trigger] sel(x.ident()) == Some((k, t));
            assert(ty_rm(full0, ids, n1, f, x) && sel(x.ident()) == Some((k, t)));
        }
        if sel(gid.ident()) == Some((k, t)) { assert(ty_rm(full0, ids, n1, f, gid) && sel(gid.ident()) == Some((k, t))); }
    }
    assert forall|k: K| #[trigger] nm_touched(full0, ids, n1, f, sel, k) == (nm_touched(full0, ids, n, f, sel, k) || (sel(gid.ident()) matches Some(p) && p.0 == k)) by {
        if nm_touched(full0, ids, n1, f, sel, k) {
            let x = choose|x: LuaTypeDeclId| ty_rm(full0, ids, n1, f, x) && (#[trigger] sel(x.ident()) matches Some(p) && p.0 == k);
            if x != gid { assert(ty_rm(full0, ids, n, f, x) && (sel(x.ident()) matches Some(p) && p.0 == k)); }
        }
        if nm_touched(full0, ids, n, f, sel, k) {
            let x = choose|x: LuaTypeDeclId| ty_rm(full0, ids, n, f, x) && (#[trigger] sel(x.ident()) matches Some(p) && p.0 == k);
            assert(ty_rm(full0, ids, n1, f, x) && (sel(x.ident()) matches Some(p) && p.0 == k));
        }
        if sel(gid.ident()) matches Some(p) && p.0 == k { assert(ty_rm(full0, ids, n1, f, gid) && (sel(gid.ident()) matches Some(p) && p.0 == k)); }
    }
}
/// a scoped map that did not change while the hit/touched relations of its selector did not change either
pub proof fn lemma_snames_keep<K>(full0: FullMap, ids: Seq<LuaTypeDeclId>, n1: int, f: FileId, sel: spec_fn(LuaTypeIdentifier) -> Option<(K, Seq<char>)>,
                                  m0: Map<K, HashMap<String, LuaTypeDeclId>>, m: Map<K, HashMap<String, LuaTypeDeclId>>)
    requires snames_inv(full0, ids, n1 - 1, f, sel, m0, m),
        forall|k: K, t: Seq<char>| #[trigger] nm_hit(full0, ids, n1, f, sel, k, t) == nm_hit(full0, ids, n1 - 1, f, sel, k, t),
        forall|k: K| #[trigger] nm_touched(full0, ids, n1, f, sel, k) == nm_touched(full0, ids, n1 - 1, f, sel, k),
    ensures snames_inv(full0, ids, n1, f, sel, m0, m),
{
    assert forall|k: K| all_hit(full0, ids, n1, f, sel, k, m0[k]@) == all_hit(full0, ids, n1 - 1, f, sel, k, m0[k]@) by {}
}
/// the scoped map after `remove_type_decl_name` dropped (k, nm), the registration of the newly removed declaration
pub proof fn lemma_snames_drop<K>(full0: FullMap, ids: Seq<LuaTypeDeclId>, n1: int, f: FileId, sel: spec_fn(LuaTypeIdentifier) -> Option<(K, Seq<char>)>,
                                  m0: Map<K, HashMap<String, LuaTypeDeclId>>, m: Map<K, HashMap<String, LuaTypeDeclId>>, m2: Map<K, HashMap<String, LuaTypeDeclId>>, k: K, nm: Seq<char>)
    requires snames_inv(full0, ids, n1 - 1, f, sel, m0, m), scoped_name_dropped(m, m2, k, nm),
        forall|k2: K, t: Seq<char>| #[trigger] nm_hit(full0, ids, n1, f, sel, k2, t) == (nm_hit(full0, ids, n1 - 1, f, sel, k2, t) || (k2 == k && t == nm)),
        forall|k2: K| #[trigger] nm_touched(full0, ids, n1, f, sel, k2) == (nm_touched(full0, ids, n1 - 1, f, sel, k2) || k2 == k),
    ensures snames_inv(full0, ids, n1, f, sel, m0, m2),
{
    let n = n1 - 1;
    assert forall|k2: K| #[trigger] m2.contains_key(k2) <==> m0.contains_key(k2) && !(nm_touched(full0, ids, n1, f, sel, k2) && all_hit(full0, ids, n1, f, sel, k2, m0[k2]@)) by {
        if k2 != k {
            assert(m2.contains_key(k2) == m.contains_key(k2));
            assert(all_hit(full0, ids, n1, f, sel, k2, m0[k2]@) == all_hit(full0, ids, n, f, sel, k2, m0[k2]@));
        } else if m.contains_key(k) {
            if m2.contains_key(k) {
                // something is left: that name is not hit
                assert(!m2[k]@.is_empty());
                lemma_map_not_empty_has_key(m2[k]@);
                let s = choose|s: String| m2[k]@.contains_key(s);
                assert(m[k]@.contains_key(s) && s@ != nm);
                assert(m0[k]@.contains_key(s) && !nm_hit(full0, ids, n, f, sel, k, s@));
                assert(!nm_hit(full0, ids, n1, f, sel, k, s@));
            } else {
                assert forall|s: String| #[trigger] m0[k]@.contains_key(s) implies nm_hit(full0, ids, n1, f, sel, k, s@) by {
                    if m[k]@.contains_key(s) { assert(s@ == nm); } else { assert(nm_hit(full0, ids, n, f, sel, k, s@)); }
                }
            }
        } else {
            assert(!m2.contains_key(k));
            if m0.contains_key(k) {
                assert(nm_touched(full0, ids, n, f, sel, k) && all_hit(full0, ids, n, f, sel, k, m0[k]@));
                assert forall|s: String| #[trigger] m0[k]@.contains_key(s) implies nm_hit(full0, ids, n1, f, sel, k, s@) by {
                    assert(nm_hit(full0, ids, n, f, sel, k, s@));
                }
            }
        }
    }
    assert forall|k2: K, s: String| m2.contains_key(k2) implies (#[trigger] m2[k2]@.contains_key(s) <==> m0[k2]@.contains_key(s) && !nm_hit(full0, ids, n1, f, sel, k2, s@)) by {
        if k2 != k { assert(m2.contains_key(k2) == m.contains_key(k2)); assert(m2[k2] == m[k2]); }
    }
    assert forall|k2: K, s: String| m2.contains_key(k2) && #[trigger] m2[k2]@.contains_key(s) implies m2[k2]@[s] == m0[k2]@[s] by {
        if k2 != k { assert(m2.contains_key(k2) == m.contains_key(k2)); assert(m2[k2] == m[k2]); }
    }
}
pub type ScopedNames<K> = Map<K, HashMap<String, LuaTypeDeclId>>;
/// what remove_type_decl_name does to the three name maps for a declaration with identifier `ident`
pub open spec fn rtdn_post(g1: NameMap, g2: NameMap, i1: ScopedNames<WorkspaceId>, i2: ScopedNames<WorkspaceId>, l1: ScopedNames<FileId>, l2: ScopedNames<FileId>, ident: LuaTypeIdentifier) -> bool {
    match ident {
        LuaTypeIdentifier::Global(name) => name_dropped(g1, g2, name.text()) && i2 == i1 && l2 == l1,
        LuaTypeIdentifier::Internal(ws, name) => scoped_name_dropped(i1, i2, ws, name.text()) && g2 == g1 && l2 == l1,
        LuaTypeIdentifier::File(fid, name) => scoped_name_dropped(l1, l2, fid, name.text()) && g2 == g1 && i2 == i1,
    }
}
pub open spec fn names_inv(full0: FullMap, ids: Seq<LuaTypeDeclId>, n: int, f: FileId, g0: NameMap, g: NameMap,
                           i0: ScopedNames<WorkspaceId>, i: ScopedNames<WorkspaceId>, l0: ScopedNames<FileId>, l: ScopedNames<FileId>) -> bool {
    gnames_inv(full0, ids, n, f, g0, g) && snames_inv(full0, ids, n, f, sel_i(), i0, i) && snames_inv(full0, ids, n, f, sel_f(), l0, l)
}
pub proof fn lemma_names_init(full0: FullMap, ids: Seq<LuaTypeDeclId>, f: FileId, g0: NameMap, i0: ScopedNames<WorkspaceId>, l0: ScopedNames<FileId>)
    ensures names_inv(full0, ids, 0, f, g0, g0, i0, i0, l0, l0),
{
    assert forall|x: LuaTypeDeclId| !ty_rm(full0, ids, 0, f, x) by {}
}
pub proof fn lemma_gnames_keep(full0: FullMap, ids: Seq<LuaTypeDeclId>, n1: int, f: FileId, g0: NameMap, g: NameMap)
    requires gnames_inv(full0, ids, n1 - 1, f, g0, g),
        forall|k: (), t: Seq<char>| #[trigger] nm_hit(full0, ids, n1, f, sel_g(), k, t) == nm_hit(full0, ids, n1 - 1, f, sel_g(), k, t),
    ensures gnames_inv(full0, ids, n1, f, g0, g),
{}
pub proof fn lemma_gnames_drop(full0: FullMap, ids: Seq<LuaTypeDeclId>, n1: int, f: FileId, g0: NameMap, g: NameMap, g2: NameMap, nm: Seq<char>)
    requires gnames_inv(full0, ids, n1 - 1, f, g0, g), name_dropped(g, g2, nm),
        forall|k: (), t: Seq<char>| #[trigger] nm_hit(full0, ids, n1, f, sel_g(), k, t) == (nm_hit(full0, ids, n1 - 1, f, sel_g(), k, t) || t == nm),
    ensures gnames_inv(full0, ids, n1, f, g0, g2),
{}
/// the three name maps across one iteration of the loop over the file's declaration ids
pub proof fn lemma_names_step(full0: FullMap, full1: FullMap, sup0: SupMap, sup1: SupMap, gp0: GpMap, gp1: GpMap, ids: Seq<LuaTypeDeclId>, n1: int, f: FileId, removed: bool,
                              g0: NameMap, g1: NameMap, g2: NameMap, i0: ScopedNames<WorkspaceId>, i1: ScopedNames<WorkspaceId>, i2: ScopedNames<WorkspaceId>,
                              l0: ScopedNames<FileId>, l1: ScopedNames<FileId>, l2: ScopedNames<FileId>)
    requires 1 <= n1 <= ids.len(), ty_inv(full0, full1, sup0, sup1, gp0, gp1, ids, n1 - 1, f),
        names_inv(full0, ids, n1 - 1, f, g0, g1, i0, i1, l0, l1),
        removed == (full1.contains_key(ids[n1 - 1]) && decl_gone(full1[ids[n1 - 1]], f)),
        if removed { rtdn_post(g1, g2, i1, i2, l1, l2, ids[n1 - 1].ident()) } else { g2 == g1 && i2 == i1 && l2 == l1 },
    ensures names_inv(full0, ids, n1, f, g0, g2, i0, i2, l0, l2),
{
    let n = n1 - 1; let gid = ids[n1 - 1];
    lemma_in_pref_step(ids, n1);
    if full0.contains_key(gid) { lemma_filter_idem(full0[gid].locations@, loc_not_file(f)); }
    if removed {
        assert(full0.contains_key(gid) && decl_gone(full0[gid], f));
        lemma_rm_new(full0, ids, n1, f);
        lemma_nm_new(full0, ids, n1, f, sel_g(), gid);
        lemma_nm_new(full0, ids, n1, f, sel_i(), gid);
        lemma_nm_new(full0, ids, n1, f, sel_f(), gid);
        match gid.ident() {
            LuaTypeIdentifier::Global(name) => {
                lemma_gnames_drop(full0, ids, n1, f, g0, g1, g2, name.text());
                lemma_snames_keep(full0, ids, n1, f, sel_i(), i0, i1);
                lemma_snames_keep(full0, ids, n1, f, sel_f(), l0, l1);
            }
            LuaTypeIdentifier::Internal(ws, name) => {
                lemma_gnames_keep(full0, ids, n1, f, g0, g1);
                lemma_snames_drop(full0, ids, n1, f, sel_i(), i0, i1, i2, ws, name.text());
                lemma_snames_keep(full0, ids, n1, f, sel_f(), l0, l1);
            }
            LuaTypeIdentifier::File(fid, name) => {
                lemma_gnames_keep(full0, ids, n1, f, g0, g1);
                lemma_snames_keep(full0, ids, n1, f, sel_i(), i0, i1);
                lemma_snames_drop(full0, ids, n1, f, sel_f(), l0, l1, l2, fid, name.text());
            }
        }
    } else {
        assert(!(full0.contains_key(gid) && decl_gone(full0[gid], f)) || in_pref(ids, n, gid)) by {
            assert(full1.contains_key(gid) <==> full0.contains_key(gid) && !(in_pref(ids, n, gid) && decl_gone(full0[gid], f)));
        }
        lemma_rm_same(full0, ids, n1, f);
        lemma_nm_same(full0, ids, n1, f, sel_g());
        lemma_nm_same(full0, ids, n1, f, sel_i());
        lemma_nm_same(full0, ids, n1, f, sel_f());
        lemma_gnames_keep(full0, ids, n1, f, g0, g1);
        lemma_snames_keep(full0, ids, n1, f, sel_i(), i0, i1);
        lemma_snames_keep(full0, ids, n1, f, sel_f(), l0, l1);
    }
}
