/// remove_type_decl_name touches the three name maps only
pub open spec fn type_other_fields_same(o: &LuaTypeIndex, n: &LuaTypeIndex) -> bool {
    &&& n.file_namespace == o.file_namespace &&& n.file_using_namespace == o.file_using_namespace &&& n.file_types == o.file_types
    &&& n.full_name_type_map == o.full_name_type_map &&& n.generic_params == o.generic_params &&& n.supers == o.supers
    &&& n.types == o.types &&& n.in_filed_type_owner == o.in_filed_type_owner
}
/// name maps only ever lose entries
pub open spec fn names_subset(o: NameMap, n: NameMap) -> bool {
    forall|s: String| #[trigger] n.contains_key(s) ==> o.contains_key(s) && n[s] == o[s]
}
pub open spec fn scoped_names_subset<K>(o: Map<K, HashMap<String, LuaTypeDeclId>>, n: Map<K, HashMap<String, LuaTypeDeclId>>) -> bool {
    forall|k: K| #[trigger] n.contains_key(k) ==> o.contains_key(k) && names_subset(o[k]@, n[k]@)
}
pub open spec fn ty_listed(s: &LuaTypeIndex, f: FileId) -> Seq<LuaTypeDeclId> {
    if s.file_types@.contains_key(f) { s.file_types@[f]@ } else { Seq::empty() }
}
pub open spec fn ty_owners(s: &LuaTypeIndex, f: FileId) -> Set<LuaTypeOwner> {
    if s.in_filed_type_owner@.contains_key(f) { s.in_filed_type_owner@[f]@ } else { Set::empty() }
}

// ---- the property-level statement for the type index ---------------------------------------------------
pub open spec fn owner_file(o: LuaTypeOwner) -> FileId {
    match o { LuaTypeOwner::Decl(d) => d.file_id, LuaTypeOwner::Member(m) => m.file_id, LuaTypeOwner::SyntaxId(x) => x.file_id }
}
/// index invariant of LuaTypeIndex as maintained by its writers: `add_type_decl(file_id, decl)` lists the id under every file
/// that contributes a location (new decl: one location of that file; merge_decl appends the new one), `add_super_type(id, file_id, ..)`
/// is issued for a class declared in that same file, `bind_type` lists the owner under `owner.get_file_id()`, a file-scoped name
/// (`File(file_id, name)`) is registered by `index_type_decl_name` under its own file and such a declaration has all its locations there.
pub open spec fn type_wf(s: &LuaTypeIndex) -> bool {
    // a declaration / super contributed by file g is listed under g; declarations and super lists are never empty
    &&& forall|id: LuaTypeDeclId, i: int| s.full_name_type_map@.contains_key(id) && 0 <= i < s.full_name_type_map@[id].locations@.len() ==>
            s.file_types@.contains_key((#[trigger] s.full_name_type_map@[id].locations@[i]).file_id)
            && s.file_types@[s.full_name_type_map@[id].locations@[i].file_id]@.contains(id)
    &&& forall|id: LuaTypeDeclId, i: int| s.supers@.contains_key(id) && 0 <= i < s.supers@[id]@.len() ==>
            s.file_types@.contains_key((#[trigger] s.supers@[id]@[i]).file_id) && s.file_types@[s.supers@[id]@[i].file_id]@.contains(id)
    &&& forall|id: LuaTypeDeclId| #[trigger] s.full_name_type_map@.contains_key(id) ==> s.full_name_type_map@[id].locations@.len() > 0
    &&& forall|id: LuaTypeDeclId| #[trigger] s.supers@.contains_key(id) ==> s.supers@[id]@.len() > 0
    // a bound type is listed under its owner's file, and only there
    &&& forall|o: LuaTypeOwner| #[trigger] s.types@.contains_key(o) ==> s.in_filed_type_owner@.contains_key(owner_file(o)) && s.in_filed_type_owner@[owner_file(o)]@.contains(o)
    &&& forall|g: FileId, o: LuaTypeOwner| s.in_filed_type_owner@.contains_key(g) && #[trigger] s.in_filed_type_owner@[g]@.contains(o) ==> owner_file(o) == g
    // file-scoped names: registered under their own file, for a live declaration that lives in that file only; no empty scope map
    &&& forall|g: FileId, nm: String| s.local_name_type_map@.contains_key(g) && #[trigger] s.local_name_type_map@[g]@.contains_key(nm) ==> {
            let x = s.local_name_type_map@[g]@[nm];
            sel_file(x.ident()) == Some((g, nm@)) && s.full_name_type_map@.contains_key(x)
            && forall|i: int| 0 <= i < s.full_name_type_map@[x].locations@.len() ==> (#[trigger] s.full_name_type_map@[x].locations@[i]).file_id == g }
    &&& forall|g: FileId| #[trigger] s.local_name_type_map@.contains_key(g) ==> !s.local_name_type_map@[g]@.is_empty()
}
/// C10 for the type index: nothing of file f remains, everything else is unchanged
pub open spec fn type_removed(o: &LuaTypeIndex, n: &LuaTypeIndex, f: FileId) -> bool {
    &&& dropped(o.file_namespace@, n.file_namespace@, f) &&& dropped(o.file_using_namespace@, n.file_using_namespace@, f)
    &&& dropped(o.file_types@, n.file_types@, f) &&& dropped(o.in_filed_type_owner@, n.in_filed_type_owner@, f)
    // every declaration keeps exactly its locations in other files; it is kept iff one is left ("while another file still declares it")
    &&& forall|id: LuaTypeDeclId| #[trigger] n.full_name_type_map@.contains_key(id) <==> o.full_name_type_map@.contains_key(id) && !decl_gone(o.full_name_type_map@[id], f)
    &&& forall|id: LuaTypeDeclId| #[trigger] n.full_name_type_map@.contains_key(id) ==> decl_rel(o.full_name_type_map@[id], n.full_name_type_map@[id], f)
    &&& forall|id: LuaTypeDeclId, i: int| n.full_name_type_map@.contains_key(id) && 0 <= i < n.full_name_type_map@[id].locations@.len() ==> (#[trigger] n.full_name_type_map@[id].locations@[i]).file_id != f
    // generic params go with their declaration
    &&& forall|id: LuaTypeDeclId| #[trigger] n.generic_params@.contains_key(id) <==> o.generic_params@.contains_key(id) && !(o.full_name_type_map@.contains_key(id) && decl_gone(o.full_name_type_map@[id], f))
    &&& forall|id: LuaTypeDeclId| #[trigger] n.generic_params@.contains_key(id) ==> n.generic_params@[id] == o.generic_params@[id]
    // every super list keeps exactly the supers contributed by other files, and is kept iff one is left
    &&& forall|id: LuaTypeDeclId| #[trigger] n.supers@.contains_key(id) <==> o.supers@.contains_key(id) && o.supers@[id]@.filter(sup_not_file(f)).len() > 0
    &&& forall|id: LuaTypeDeclId| #[trigger] n.supers@.contains_key(id) ==> n.supers@[id]@ == o.supers@[id]@.filter(sup_not_file(f))
    &&& forall|id: LuaTypeDeclId, i: int| n.supers@.contains_key(id) && 0 <= i < n.supers@[id]@.len() ==> (#[trigger] n.supers@[id]@[i]).file_id != f
    // bound types: exactly those whose owner is in another file
    &&& forall|w: LuaTypeOwner| #[trigger] n.types@.contains_key(w) <==> o.types@.contains_key(w) && owner_file(w) != f
    &&& forall|w: LuaTypeOwner| #[trigger] n.types@.contains_key(w) ==> n.types@[w] == o.types@[w]
    // no file-scoped name map for f
    &&& !n.local_name_type_map@.contains_key(f)
}
pub proof fn lemma_type_final(o: &LuaTypeIndex, n: &LuaTypeIndex, f: FileId)
    requires
        dropped(o.file_namespace@, n.file_namespace@, f), dropped(o.file_using_namespace@, n.file_using_namespace@, f),
        dropped(o.file_types@, n.file_types@, f), dropped(o.in_filed_type_owner@, n.in_filed_type_owner@, f),
        ty_inv(o.full_name_type_map@, n.full_name_type_map@, o.supers@, n.supers@, o.generic_params@, n.generic_params@, ty_listed(o, f), ty_listed(o, f).len() as int, f),
        names_inv(o.full_name_type_map@, ty_listed(o, f), ty_listed(o, f).len() as int, f, o.global_name_type_map@, n.global_name_type_map@,
                  o.internal_name_type_map@, n.internal_name_type_map@, o.local_name_type_map@, n.local_name_type_map@),
        forall|w: LuaTypeOwner| #[trigger] n.types@.contains_key(w) <==> o.types@.contains_key(w) && !ty_owners(o, f).contains(w),
        forall|w: LuaTypeOwner| #[trigger] n.types@.contains_key(w) ==> n.types@[w] == o.types@[w],
        type_wf(o),
    ensures type_removed(o, n, f),
{
    let ids = ty_listed(o, f); let len = ids.len() as int;
    let full0 = o.full_name_type_map@; let full = n.full_name_type_map@; let sup0 = o.supers@; let sup = n.supers@;
    lemma_in_pref_full(ids);
    // a declaration / super list that is not listed under f has nothing of f
    assert forall|id: LuaTypeDeclId| full0.contains_key(id) && !in_pref(ids, len, id) implies
        full0[id].locations@.filter(loc_not_file(f)) == full0[id].locations@ && !decl_gone(full0[id], f) by {
        assert forall|i: int| 0 <= i < full0[id].locations@.len() implies loc_not_file(f)(#[trigger] full0[id].locations@[i]) by {
            if full0[id].locations@[i].file_id == f { assert(o.file_types@[f]@.contains(id)); assert(ids.to_set().contains(id)); }
        }
        lemma_filter_all(full0[id].locations@, loc_not_file(f));
    }
    assert forall|id: LuaTypeDeclId| sup0.contains_key(id) && !in_pref(ids, len, id) implies
        sup0[id]@.filter(sup_not_file(f)) == sup0[id]@ && sup0[id]@.len() > 0 by {
        assert forall|i: int| 0 <= i < sup0[id]@.len() implies sup_not_file(f)(#[trigger] sup0[id]@[i]) by {
            if sup0[id]@[i].file_id == f { assert(o.file_types@[f]@.contains(id)); assert(ids.to_set().contains(id)); }
        }
        lemma_filter_all(sup0[id]@, sup_not_file(f));
    }
    assert forall|id: LuaTypeDeclId| #[trigger] full.contains_key(id) <==> full0.contains_key(id) && !decl_gone(full0[id], f) by {}
    assert forall|id: LuaTypeDeclId| #[trigger] full.contains_key(id) implies decl_rel(full0[id], full[id], f) by {}
    assert forall|id: LuaTypeDeclId, i: int| full.contains_key(id) && 0 <= i < full[id].locations@.len() implies (#[trigger] full[id].locations@[i]).file_id != f by {
        assert(decl_rel(full0[id], full[id], f));
        lemma_filter_mem(full0[id].locations@, loc_not_file(f));
    }
    assert forall|id: LuaTypeDeclId| #[trigger] sup.contains_key(id) <==> sup0.contains_key(id) && sup0[id]@.filter(sup_not_file(f)).len() > 0 by {}
    assert forall|id: LuaTypeDeclId| #[trigger] sup.contains_key(id) implies sup[id]@ == sup0[id]@.filter(sup_not_file(f)) by {}
    assert forall|id: LuaTypeDeclId, i: int| sup.contains_key(id) && 0 <= i < sup[id]@.len() implies (#[trigger] sup[id]@[i]).file_id != f by {
        assert(sup[id]@ == sup0[id]@.filter(sup_not_file(f)));
        lemma_filter_mem(sup0[id]@, sup_not_file(f));
    }
    assert forall|id: LuaTypeDeclId| #[trigger] n.generic_params@.contains_key(id) <==> o.generic_params@.contains_key(id) && !(full0.contains_key(id) && decl_gone(full0[id], f)) by {}
    assert forall|w: LuaTypeOwner| #[trigger] n.types@.contains_key(w) <==> o.types@.contains_key(w) && owner_file(w) != f by {
        if o.types@.contains_key(w) {
            if owner_file(w) == f { assert(o.in_filed_type_owner@[f]@.contains(w)); }
            if ty_owners(o, f).contains(w) { assert(o.in_filed_type_owner@[f]@.contains(w)); }
        }
    }
    // file-scoped names of f: every one belongs to a removed declaration, so the scope map went away
    let l0 = o.local_name_type_map@; let l = n.local_name_type_map@;
    if l0.contains_key(f) {
        assert forall|nm: String| #[trigger] l0[f]@.contains_key(nm) implies nm_hit(full0, ids, len, f, sel_f(), f, nm@) by {
            let x = l0[f]@[nm];
            assert(full0.contains_key(x) && full0[x].locations@.len() > 0);
            assert(full0[x].locations@[0].file_id == f);
            assert(o.file_types@[f]@.contains(x)); assert(ids.to_set().contains(x));
            assert forall|i: int| 0 <= i < full0[x].locations@.len() implies !loc_not_file(f)(#[trigger] full0[x].locations@[i]) by {}
            lemma_filter_mem(full0[x].locations@, loc_not_file(f));
            assert(decl_gone(full0[x], f)) by {
                let r = full0[x].locations@.filter(loc_not_file(f));
                if r.len() > 0 { assert(loc_not_file(f)(r[0]) && full0[x].locations@.contains(r[0])); let j = choose|j: int| 0 <= j < full0[x].locations@.len() && full0[x].locations@[j] == r[0]; assert(!loc_not_file(f)(full0[x].locations@[j])); }
            }
            assert(ty_rm(full0, ids, len, f, x) && sel_f()(x.ident()) == Some((f, nm@)));
        }
        lemma_map_not_empty_has_key(l0[f]@);
        let nm0 = choose|nm: String| l0[f]@.contains_key(nm);
        assert(nm_hit(full0, ids, len, f, sel_f(), f, nm0@));
        let x = choose|x: LuaTypeDeclId| ty_rm(full0, ids, len, f, x) && #[trigger] sel_f()(x.ident()) == Some((f, nm0@));
        assert(ty_rm(full0, ids, len, f, x) && (sel_f()(x.ident()) matches Some(p) && p.0 == f));
        assert(nm_touched(full0, ids, len, f, sel_f(), f));
        assert(all_hit(full0, ids, len, f, sel_f(), f, l0[f]@));
    }
}
