// ---- reference index: vocabulary and lemmas (bodies verified) ----------------------------------------
/// the C10 clause for a map keyed by file: the removed file's entry is gone and nothing else changed (as in unit c10_remove)
pub open spec fn dropped<V>(old_m: Map<FileId, V>, new_m: Map<FileId, V>, f: FileId) -> bool {
    new_m == old_m.remove(f)
}
pub type RefMap<K> = Map<K, HashMap<FileId, HashSet<LuaSyntaxId>>>;
/// nested key -> file -> set map after the sweep: file f is gone from every inner map, keys whose inner map became empty are gone, all else unchanged
pub open spec fn swept<K>(o: RefMap<K>, n: RefMap<K>, f: FileId) -> bool {
    &&& forall|k: K| #[trigger] n.contains_key(k) <==> o.contains_key(k) && !o[k]@.remove(f).is_empty()
    &&& forall|k: K| #[trigger] n.contains_key(k) ==> n[k]@ == o[k]@.remove(f)
}
/// first loop: inner maps of the visited keys have lost f; `tbr` collects exactly the visited keys whose inner map is empty now
pub open spec fn sweep_inv<K>(m0: RefMap<K>, fin: RefMap<K>, keys: Seq<K>, pos: int, tbr: Seq<K>, f: FileId) -> bool {
    &&& forall|j: int| 0 <= j < pos ==> (#[trigger] fin[keys[j]])@ == m0[keys[j]]@.remove(f)
    &&& forall|j: int| 0 <= j < pos && (#[trigger] fin[keys[j]])@.is_empty() ==> tbr.contains(keys[j])
    &&& forall|i: int| 0 <= i < tbr.len() ==> (#[trigger] fin[tbr[i]])@.is_empty()
}

pub proof fn lemma_sweep_step<K>(m0: RefMap<K>, fin: RefMap<K>, keys: Seq<K>, pos: int, tbr: Seq<K>, tbr2: Seq<K>, f: FileId)
    requires sweep_inv(m0, fin, keys, pos, tbr, f), 0 <= pos < keys.len(),
        fin[keys[pos]]@ == m0[keys[pos]]@.remove(f),
        tbr2 == (if fin[keys[pos]]@.is_empty() { tbr.push(keys[pos]) } else { tbr }),
    ensures sweep_inv(m0, fin, keys, pos + 1, tbr2, f),
{
    assert forall|j: int| 0 <= j < pos + 1 && (#[trigger] fin[keys[j]])@.is_empty() implies tbr2.contains(keys[j]) by {
        if j < pos {
            assert(tbr.contains(keys[j]));
            let i = choose|i: int| 0 <= i < tbr.len() && tbr[i] == keys[j];
            assert(tbr2[i] == keys[j]);
        } else {
            assert(tbr2[tbr.len() as int] == keys[pos]);
        }
    }
    assert forall|i: int| 0 <= i < tbr2.len() implies (#[trigger] fin[tbr2[i]])@.is_empty() by {
        if i < tbr.len() { assert(tbr2[i] == tbr[i]); } else { assert(tbr2[i] == keys[pos]); }
    }
}
pub proof fn lemma_sweep_final<K>(m0: RefMap<K>, fin: RefMap<K>, keys: Seq<K>, pos: int, tbr: Seq<K>, n: RefMap<K>, f: FileId)
    requires sweep_inv(m0, fin, keys, pos, tbr, f), pos >= keys.len(), keys.to_set() == m0.dom(), fin.dom() == m0.dom(),
        forall|k: K| #[trigger] n.contains_key(k) <==> fin.contains_key(k) && !(exists|j: int| 0 <= j < tbr.len() && tbr[j] == k),
        forall|k: K| #[trigger] n.contains_key(k) ==> n[k] == fin[k],
    ensures swept(m0, n, f),
{
    assert forall|k: K| m0.contains_key(k) implies fin[k]@ == m0[k]@.remove(f) && (fin[k]@.is_empty() ==> tbr.contains(k)) by {
        assert(keys.to_set().contains(k));
        let j = choose|j: int| 0 <= j < keys.len() && keys[j] == k;
        assert(fin[keys[j]]@ == m0[keys[j]]@.remove(f));
    }
    assert forall|k: K| #[trigger] n.contains_key(k) <==> m0.contains_key(k) && !m0[k]@.remove(f).is_empty() by {
        if m0.contains_key(k) {
            assert(fin.dom().contains(k));
            if fin[k]@.is_empty() {
                let i = choose|i: int| 0 <= i < tbr.len() && tbr[i] == k;
            } else {
                if exists|j: int| 0 <= j < tbr.len() && tbr[j] == k {
                    let j = choose|j: int| 0 <= j < tbr.len() && tbr[j] == k;
                    assert(fin[tbr[j]]@.is_empty());
                }
            }
        } else {
            assert(!fin.dom().contains(k));
        }
    }
}
