// ---- operator index: vocabulary and lemmas (bodies verified) ---------------------------------------
pub type OpMap = Map<LuaOperatorOwner, HashMap<LuaOperatorMetaMethod, Vec<LuaOperatorId>>>;
pub open spec fn tv_has(t: OpMap, o: LuaOperatorOwner, p: LuaOperatorMetaMethod) -> bool { t.contains_key(o) && t[o]@.contains_key(p) }
pub open spec fn tv(t: OpMap, o: LuaOperatorOwner, p: LuaOperatorMetaMethod) -> Seq<LuaOperatorId> { t[o]@[p]@ }
pub open spec fn in_prefix(ids: Seq<LuaOperatorId>, n: int, x: LuaOperatorId) -> bool { exists|j: int| 0 <= j < n && j < ids.len() && #[trigger] ids[j] == x }
pub open spec fn op_hit(ops: Map<LuaOperatorId, LuaOperator>, ids: Seq<LuaOperatorId>, n: int, o: LuaOperatorOwner, p: LuaOperatorMetaMethod, x: LuaOperatorId) -> bool {
    ops.contains_key(x) && ops[x].owner == o && ops[x].op == p && in_prefix(ids, n, x)
}
pub open spec fn op_kept(ops: Map<LuaOperatorId, LuaOperator>, ids: Seq<LuaOperatorId>, n: int, o: LuaOperatorOwner, p: LuaOperatorMetaMethod) -> spec_fn(LuaOperatorId) -> bool {
    |x: LuaOperatorId| !op_hit(ops, ids, n, o, p, x)
}
pub open spec fn no_empty(t: OpMap) -> bool {
    forall|o: LuaOperatorOwner| #[trigger] t.contains_key(o) ==> t[o]@.len() > 0 && forall|p: LuaOperatorMetaMethod| #[trigger] t[o]@.contains_key(p) ==> t[o]@[p]@.len() > 0
}
/// `no_empty(t)` for a `t` whose keys are among those of `t0` (quantifiers triggered on the fixed pre-state)
pub open spec fn no_empty_rel(t0: OpMap, t: OpMap) -> bool {
    &&& forall|o: LuaOperatorOwner| #[trigger] t0.contains_key(o) && t.contains_key(o) ==> t[o]@.len() > 0
    &&& forall|o: LuaOperatorOwner, p: LuaOperatorMetaMethod| #[trigger] tv_has(t0, o, p) && tv_has(t, o, p) ==> tv(t, o, p).len() > 0
}
/// type_operators_map `t` after the first n listed ids have been processed (pre-state t0 / ops):
/// every surviving vector is the old one minus the processed operators registered at that (owner, op), in order;
/// a vector / inner map disappeared only if nothing was left in it
#[verifier::opaque]
pub open spec fn tm_inv(t0: OpMap, t: OpMap, ops: Map<LuaOperatorId, LuaOperator>, ids: Seq<LuaOperatorId>, n: int) -> bool {
    &&& forall|o: LuaOperatorOwner| #[trigger] t0.contains_key(o) || !t.contains_key(o)
    &&& forall|o: LuaOperatorOwner, p: LuaOperatorMetaMethod| #![trigger tv_has(t0, o, p)] tv_has(t, o, p) ==> tv_has(t0, o, p) && tv(t, o, p) == tv(t0, o, p).filter(op_kept(ops, ids, n, o, p))
    &&& forall|o: LuaOperatorOwner, p: LuaOperatorMetaMethod| #![trigger tv_has(t0, o, p)] tv_has(t0, o, p) && !tv_has(t, o, p) ==> tv(t0, o, p).filter(op_kept(ops, ids, n, o, p)).len() == 0
    &&& no_empty(t0) ==> no_empty_rel(t0, t)
}
pub open spec fn ops_inv(ops0: Map<LuaOperatorId, LuaOperator>, ops: Map<LuaOperatorId, LuaOperator>, ids: Seq<LuaOperatorId>, n: int) -> bool {
    &&& forall|x: LuaOperatorId| #[trigger] ops.contains_key(x) <==> ops0.contains_key(x) && !in_prefix(ids, n, x)
    &&& forall|x: LuaOperatorId| #[trigger] ops.contains_key(x) ==> ops[x] == ops0[x]
}
pub proof fn lemma_init(t0: OpMap, ops0: Map<LuaOperatorId, LuaOperator>, ids: Seq<LuaOperatorId>)
    ensures tm_inv(t0, t0, ops0, ids, 0), ops_inv(ops0, ops0, ids, 0),
{
    reveal(tm_inv);
    assert forall|o: LuaOperatorOwner, p: LuaOperatorMetaMethod| #[trigger] tv_has(t0, o, p) implies tv(t0, o, p) == tv(t0, o, p).filter(op_kept(ops0, ids, 0, o, p)) by {
        lemma_filter_all(tv(t0, o, p), op_kept(ops0, ids, 0, o, p));
    }
}
pub proof fn lemma_in_prefix_step(ids: Seq<LuaOperatorId>, n: int, n1: int)
    requires 0 <= n < ids.len(), n1 == n + 1,
    ensures forall|x: LuaOperatorId| #[trigger] in_prefix(ids, n1, x) == (in_prefix(ids, n, x) || x == ids[n]),
{
    let id = ids[n];
    assert forall|x: LuaOperatorId| #[trigger] in_prefix(ids, n1, x) == (in_prefix(ids, n, x) || x == id) by {
        if in_prefix(ids, n1, x) {
            let j = choose|j: int| 0 <= j < n1 && j < ids.len() && #[trigger] ids[j] == x;
            assert(0 <= j < n1 && j < ids.len() && ids[j] == x);
            if j < n { assert(in_prefix(ids, n, x)); } else { assert(j == n); }
        }
        if in_prefix(ids, n, x) {
            let j = choose|j: int| 0 <= j < n && j < ids.len() && #[trigger] ids[j] == x;
            assert(0 <= j < n1 && j < ids.len() && ids[j] == x);
        }
        if x == id { assert(0 <= n < n1 && n < ids.len() && ids[n] == x); }
    }
}
/// the filters of step n+1 in terms of those of step n (id = ids[n]); speaks about the pre-state only
pub proof fn lemma_step(t0: OpMap, ops0: Map<LuaOperatorId, LuaOperator>, ids: Seq<LuaOperatorId>, n: int, n1: int)
    requires 0 <= n < ids.len(), n1 == n + 1,
    ensures
        !ops0.contains_key(ids[n]) || in_prefix(ids, n, ids[n]) ==> forall|o: LuaOperatorOwner, p: LuaOperatorMetaMethod|
            #[trigger] tv(t0, o, p).filter(op_kept(ops0, ids, n1, o, p)) == tv(t0, o, p).filter(op_kept(ops0, ids, n, o, p)),
        ops0.contains_key(ids[n]) ==> forall|o: LuaOperatorOwner, p: LuaOperatorMetaMethod| !(o == ops0[ids[n]].owner && p == ops0[ids[n]].op) ==>
            #[trigger] tv(t0, o, p).filter(op_kept(ops0, ids, n1, o, p)) == tv(t0, o, p).filter(op_kept(ops0, ids, n, o, p)),
        ops0.contains_key(ids[n]) ==> ({ let o = ops0[ids[n]].owner; let p = ops0[ids[n]].op;
            tv(t0, o, p).filter(op_kept(ops0, ids, n1, o, p)) == tv(t0, o, p).filter(op_kept(ops0, ids, n, o, p)).filter(is_not(ids[n]))
            && tv(t0, o, p).filter(op_kept(ops0, ids, n1, o, p)).len() <= tv(t0, o, p).filter(op_kept(ops0, ids, n, o, p)).len() }),
{
    let id = ids[n];
    lemma_in_prefix_step(ids, n, n1);
    assert forall|o: LuaOperatorOwner, p: LuaOperatorMetaMethod|
        (!ops0.contains_key(id) || in_prefix(ids, n, id) || !(o == ops0[id].owner && p == ops0[id].op))
        implies #[trigger] tv(t0, o, p).filter(op_kept(ops0, ids, n1, o, p)) == tv(t0, o, p).filter(op_kept(ops0, ids, n, o, p)) by {
        lemma_filter_ext(tv(t0, o, p), op_kept(ops0, ids, n1, o, p), op_kept(ops0, ids, n, o, p));
    }
    if ops0.contains_key(id) {
        let o = ops0[id].owner; let p = ops0[id].op;
        let s = tv(t0, o, p);
        lemma_filter_filter(s, op_kept(ops0, ids, n, o, p), is_not(id));
        lemma_filter_len(s.filter(op_kept(ops0, ids, n, o, p)), is_not(id));
        lemma_filter_ext(s, op_kept(ops0, ids, n1, o, p), and_pred(op_kept(ops0, ids, n, o, p), is_not(id)));
    }
}
/// tm_inv moves from n to n1 for a map `t` in which every existing vector's filter is the same at n and n1 and every
/// missing vector's filter can only have shrunk
pub proof fn lemma_tm_same(t0: OpMap, t: OpMap, ops0: Map<LuaOperatorId, LuaOperator>, ids: Seq<LuaOperatorId>, n: int, n1: int)
    requires tm_inv(t0, t, ops0, ids, n),
        forall|o: LuaOperatorOwner, p: LuaOperatorMetaMethod| #![trigger tv_has(t0, o, p)] tv_has(t0, o, p) && tv_has(t, o, p) ==>
            tv(t0, o, p).filter(op_kept(ops0, ids, n1, o, p)) == tv(t0, o, p).filter(op_kept(ops0, ids, n, o, p)),
        forall|o: LuaOperatorOwner, p: LuaOperatorMetaMethod| #![trigger tv_has(t0, o, p)] tv_has(t0, o, p) && !tv_has(t, o, p) ==>
            tv(t0, o, p).filter(op_kept(ops0, ids, n1, o, p)).len() <= tv(t0, o, p).filter(op_kept(ops0, ids, n, o, p)).len(),
    ensures tm_inv(t0, t, ops0, ids, n1),
{
    reveal(tm_inv);
    assert forall|o: LuaOperatorOwner, p: LuaOperatorMetaMethod| #![trigger tv_has(t0, o, p)] tv_has(t, o, p) implies
        tv_has(t0, o, p) && tv(t, o, p) == tv(t0, o, p).filter(op_kept(ops0, ids, n1, o, p)) by {
        assert(tv_has(t0, o, p));
    }
    assert forall|o: LuaOperatorOwner, p: LuaOperatorMetaMethod| #![trigger tv_has(t0, o, p)] tv_has(t0, o, p) && !tv_has(t, o, p) implies
        tv(t0, o, p).filter(op_kept(ops0, ids, n1, o, p)).len() == 0 by {
        assert(tv(t0, o, p).filter(op_kept(ops0, ids, n, o, p)).len() == 0);
    }
}
/// exit "operators.remove(&id) is None": id never was an operator, or was processed before
pub proof fn lemma_skip_dead(t0: OpMap, t: OpMap, ops0: Map<LuaOperatorId, LuaOperator>, ids: Seq<LuaOperatorId>, n: int, n1: int)
    requires 0 <= n < ids.len(), n1 == n + 1, tm_inv(t0, t, ops0, ids, n), !ops0.contains_key(ids[n]) || in_prefix(ids, n, ids[n]),
    ensures tm_inv(t0, t, ops0, ids, n1),
{
    lemma_step(t0, ops0, ids, n, n1);
    assert forall|o: LuaOperatorOwner, p: LuaOperatorMetaMethod| #![trigger tv_has(t0, o, p)] tv_has(t0, o, p) implies
        tv(t0, o, p).filter(op_kept(ops0, ids, n1, o, p)) == tv(t0, o, p).filter(op_kept(ops0, ids, n, o, p)) by {}
    lemma_tm_same(t0, t, ops0, ids, n, n1);
}
/// exit "type_operators_map has no entry for the operator's owner"
pub proof fn lemma_skip_owner(t0: OpMap, t: OpMap, ops0: Map<LuaOperatorId, LuaOperator>, ids: Seq<LuaOperatorId>, n: int, n1: int)
    requires 0 <= n < ids.len(), n1 == n + 1, tm_inv(t0, t, ops0, ids, n), ops0.contains_key(ids[n]), !t.contains_key(ops0[ids[n]].owner),
    ensures tm_inv(t0, t, ops0, ids, n1),
{
    lemma_step(t0, ops0, ids, n, n1);
    let owner = ops0[ids[n]].owner; let op = ops0[ids[n]].op;
    assert forall|o: LuaOperatorOwner, p: LuaOperatorMetaMethod| #![trigger tv_has(t0, o, p)] tv_has(t0, o, p) && tv_has(t, o, p) implies
        tv(t0, o, p).filter(op_kept(ops0, ids, n1, o, p)) == tv(t0, o, p).filter(op_kept(ops0, ids, n, o, p)) by {
        assert(o != owner);
    }
    assert forall|o: LuaOperatorOwner, p: LuaOperatorMetaMethod| #![trigger tv_has(t0, o, p)] tv_has(t0, o, p) && !tv_has(t, o, p) implies
        tv(t0, o, p).filter(op_kept(ops0, ids, n1, o, p)).len() <= tv(t0, o, p).filter(op_kept(ops0, ids, n, o, p)).len() by {
        if !(o == owner && p == op) {
            assert(tv(t0, o, p).filter(op_kept(ops0, ids, n1, o, p)) == tv(t0, o, p).filter(op_kept(ops0, ids, n, o, p)));
        }
    }
    lemma_tm_same(t0, t, ops0, ids, n, n1);
}
/// tm_inv only looks at the views: a map with the same keys and the same vectors (as sequences) satisfies it too
pub proof fn lemma_tm_view_eq(t0: OpMap, t: OpMap, t2: OpMap, ops0: Map<LuaOperatorId, LuaOperator>, ids: Seq<LuaOperatorId>, n: int)
    requires tm_inv(t0, t, ops0, ids, n),
        forall|o: LuaOperatorOwner| #[trigger] t2.contains_key(o) == t.contains_key(o),
        forall|o: LuaOperatorOwner| #[trigger] t2.contains_key(o) ==> t2[o]@.dom() == t[o]@.dom(),
        forall|o: LuaOperatorOwner, p: LuaOperatorMetaMethod| #![trigger tv_has(t2, o, p)] tv_has(t2, o, p) ==> tv(t2, o, p) == tv(t, o, p),
    ensures tm_inv(t0, t2, ops0, ids, n),
{
    reveal(tm_inv);
    assert forall|o: LuaOperatorOwner, p: LuaOperatorMetaMethod| tv_has(t2, o, p) == tv_has(t, o, p) by {
        assert(t2.contains_key(o) == t.contains_key(o));
        if t2.contains_key(o) { assert(t2[o]@.dom().contains(p) == t[o]@.dom().contains(p)); }
    }
    assert forall|o: LuaOperatorOwner| #[trigger] t0.contains_key(o) || !t2.contains_key(o) by {
        assert(t2.contains_key(o) == t.contains_key(o));
    }
    assert forall|o: LuaOperatorOwner, p: LuaOperatorMetaMethod| #![trigger tv_has(t0, o, p)] tv_has(t2, o, p) implies
        tv_has(t0, o, p) && tv(t2, o, p) == tv(t0, o, p).filter(op_kept(ops0, ids, n, o, p)) by {
        assert(tv_has(t, o, p));
    }
    assert forall|o: LuaOperatorOwner, p: LuaOperatorMetaMethod| #![trigger tv_has(t0, o, p)] tv_has(t0, o, p) && !tv_has(t2, o, p) implies
        tv(t0, o, p).filter(op_kept(ops0, ids, n, o, p)).len() == 0 by {
        assert(!tv_has(t, o, p));
    }
    if no_empty(t0) {
        assert forall|o: LuaOperatorOwner| #[trigger] t0.contains_key(o) && t2.contains_key(o) implies t2[o]@.len() > 0 by {
            assert(t.contains_key(o));
            assert(t2[o]@.dom() == t[o]@.dom());
        }
        assert forall|o: LuaOperatorOwner, p: LuaOperatorMetaMethod| #[trigger] tv_has(t0, o, p) && tv_has(t2, o, p) implies tv(t2, o, p).len() > 0 by {
            assert(tv_has(t, o, p));
        }
    }
}
/// exit "the owner's map has no entry for the operator's meta method": the map is handed back with the same view
pub proof fn lemma_skip_op(t0: OpMap, t: OpMap, ops0: Map<LuaOperatorId, LuaOperator>, ids: Seq<LuaOperatorId>, n: int, n1: int)
    requires 0 <= n < ids.len(), n1 == n + 1, tm_inv(t0, t, ops0, ids, n), ops0.contains_key(ids[n]),
        t.contains_key(ops0[ids[n]].owner), !t[ops0[ids[n]].owner]@.contains_key(ops0[ids[n]].op),
    ensures forall|x: HashMap<LuaOperatorMetaMethod, Vec<LuaOperatorId>>| x@ == t[ops0[ids[n]].owner]@ ==> tm_inv(t0, #[trigger] t.insert(ops0[ids[n]].owner, x), ops0, ids, n1),
{
    let owner = ops0[ids[n]].owner;
    assert forall|x: HashMap<LuaOperatorMetaMethod, Vec<LuaOperatorId>>| x@ == t[owner]@ implies tm_inv(t0, #[trigger] t.insert(owner, x), ops0, ids, n1) by {
        assert(t.insert(owner, x).dom() =~= t.dom());
        lemma_skip_op_one(t0, t, t.insert(owner, x), ops0, ids, n, n1);
    }
}
pub proof fn lemma_skip_op_one(t0: OpMap, t: OpMap, t2: OpMap, ops0: Map<LuaOperatorId, LuaOperator>, ids: Seq<LuaOperatorId>, n: int, n1: int)
    requires 0 <= n < ids.len(), n1 == n + 1, tm_inv(t0, t, ops0, ids, n), ops0.contains_key(ids[n]),
        t.contains_key(ops0[ids[n]].owner), !t[ops0[ids[n]].owner]@.contains_key(ops0[ids[n]].op),
        t2.dom() == t.dom(), t2[ops0[ids[n]].owner]@ == t[ops0[ids[n]].owner]@,
        forall|o: LuaOperatorOwner| o != ops0[ids[n]].owner && t.contains_key(o) ==> #[trigger] t2[o] == t[o],
    ensures tm_inv(t0, t2, ops0, ids, n1),
{
    lemma_step(t0, ops0, ids, n, n1);
    let owner = ops0[ids[n]].owner; let op = ops0[ids[n]].op;
    assert forall|o: LuaOperatorOwner| #[trigger] t2.contains_key(o) == t.contains_key(o) by { assert(t2.dom().contains(o) == t.dom().contains(o)); }
    assert forall|o: LuaOperatorOwner| #[trigger] t2.contains_key(o) implies t2[o]@.dom() == t[o]@.dom() by {
        if o != owner { assert(t.contains_key(o)); assert(t2[o] == t[o]); }
    }
    assert forall|o: LuaOperatorOwner, p: LuaOperatorMetaMethod| #![trigger tv_has(t2, o, p)] tv_has(t2, o, p) implies tv(t2, o, p) == tv(t, o, p) by {
        if o != owner { assert(t.contains_key(o)); assert(t2[o] == t[o]); }
    }
    lemma_tm_view_eq(t0, t, t2, ops0, ids, n);
    assert forall|o: LuaOperatorOwner, p: LuaOperatorMetaMethod| tv_has(t2, o, p) == tv_has(t, o, p) by {
        assert(t2.contains_key(o) == t.contains_key(o));
        if t2.contains_key(o) { assert(t2[o]@.dom() == t[o]@.dom()); assert(t2[o]@.dom().contains(p) == t[o]@.dom().contains(p)); }
    }
    assert forall|o: LuaOperatorOwner, p: LuaOperatorMetaMethod| #![trigger tv_has(t0, o, p)] tv_has(t0, o, p) && tv_has(t2, o, p) implies
        tv(t0, o, p).filter(op_kept(ops0, ids, n1, o, p)) == tv(t0, o, p).filter(op_kept(ops0, ids, n, o, p)) by {
        assert(tv_has(t, o, p));
        assert(!(o == owner && p == op));
    }
    assert forall|o: LuaOperatorOwner, p: LuaOperatorMetaMethod| #![trigger tv_has(t0, o, p)] tv_has(t0, o, p) && !tv_has(t2, o, p) implies
        tv(t0, o, p).filter(op_kept(ops0, ids, n1, o, p)).len() <= tv(t0, o, p).filter(op_kept(ops0, ids, n, o, p)).len() by {
        if !(o == owner && p == op) {
            assert(tv(t0, o, p).filter(op_kept(ops0, ids, n1, o, p)) == tv(t0, o, p).filter(op_kept(ops0, ids, n, o, p)));
        }
    }
    lemma_tm_same(t0, t2, ops0, ids, n, n1);
}
/// the view of an owner's map after `retain(!= id)`, dropping the vector if it became empty
pub open spec fn inner_after(m: Map<LuaOperatorMetaMethod, Vec<LuaOperatorId>>, m2: Map<LuaOperatorMetaMethod, Vec<LuaOperatorId>>, op: LuaOperatorMetaMethod, v1: Seq<LuaOperatorId>) -> bool {
    &&& forall|p: LuaOperatorMetaMethod| p != op ==> #[trigger] m2.contains_key(p) == m.contains_key(p) && (m.contains_key(p) ==> m2[p] == m[p])
    &&& m2.contains_key(op) <==> v1.len() > 0
    &&& m2.contains_key(op) ==> m2[op]@ == v1
}
/// exit at the end of the body: vector filtered; dropped if empty; owner dropped if its map became empty
pub proof fn lemma_done(t0: OpMap, t: OpMap, t2: OpMap, ops0: Map<LuaOperatorId, LuaOperator>, ids: Seq<LuaOperatorId>, n: int, n1: int)
    requires 0 <= n < ids.len(), n1 == n + 1, tm_inv(t0, t, ops0, ids, n), ops0.contains_key(ids[n]),
        tv_has(t, ops0[ids[n]].owner, ops0[ids[n]].op),
        forall|o: LuaOperatorOwner| o != ops0[ids[n]].owner ==> #[trigger] t2.contains_key(o) == t.contains_key(o) && (t.contains_key(o) ==> t2[o] == t[o]),
        t2.contains_key(ops0[ids[n]].owner) ==> t2[ops0[ids[n]].owner]@.len() > 0
            && inner_after(t[ops0[ids[n]].owner]@, t2[ops0[ids[n]].owner]@, ops0[ids[n]].op, tv(t, ops0[ids[n]].owner, ops0[ids[n]].op).filter(is_not(ids[n]))),
        !t2.contains_key(ops0[ids[n]].owner) ==> tv(t, ops0[ids[n]].owner, ops0[ids[n]].op).filter(is_not(ids[n])).len() == 0
            && forall|p: LuaOperatorMetaMethod| p != ops0[ids[n]].op ==> !#[trigger] t[ops0[ids[n]].owner]@.contains_key(p),
    ensures tm_inv(t0, t2, ops0, ids, n1),
{
    reveal(tm_inv);
    lemma_step(t0, ops0, ids, n, n1);
    let owner = ops0[ids[n]].owner; let op = ops0[ids[n]].op;
    assert(tv_has(t0, owner, op));
    let v1 = tv(t, owner, op).filter(is_not(ids[n]));
    assert(tv(t, owner, op) == tv(t0, owner, op).filter(op_kept(ops0, ids, n, owner, op)));
    assert(v1 == tv(t0, owner, op).filter(op_kept(ops0, ids, n1, owner, op)));
    assert forall|o: LuaOperatorOwner, p: LuaOperatorMetaMethod| #![trigger tv_has(t0, o, p)] tv_has(t2, o, p) implies tv_has(t0, o, p) && tv(t2, o, p) == tv(t0, o, p).filter(op_kept(ops0, ids, n1, o, p)) by {
        if o == owner {
            if p == op { assert(tv(t2, o, p) == v1); }
            else { assert(t2[owner]@.contains_key(p)); assert(tv_has(t, o, p)); assert(tv(t2, o, p) == tv(t, o, p)); assert(tv_has(t0, o, p)); }
        } else { assert(t2.contains_key(o)); assert(tv_has(t, o, p)); assert(tv(t2, o, p) == tv(t, o, p)); assert(tv_has(t0, o, p)); }
    }
    assert forall|o: LuaOperatorOwner, p: LuaOperatorMetaMethod| #![trigger tv_has(t0, o, p)] tv_has(t0, o, p) && !tv_has(t2, o, p) implies tv(t0, o, p).filter(op_kept(ops0, ids, n1, o, p)).len() == 0 by {
        if o == owner && p == op {
            if t2.contains_key(owner) { assert(!t2[owner]@.contains_key(op)); assert(v1.len() == 0); } else { assert(v1.len() == 0); }
        } else if o == owner {
            if t2.contains_key(owner) { assert(t2[owner]@.contains_key(p) == t[owner]@.contains_key(p)); assert(!tv_has(t, o, p)); }
            else { assert(!t[owner]@.contains_key(p)); assert(!tv_has(t, o, p)); }
        } else { assert(t2.contains_key(o) == t.contains_key(o)); assert(!tv_has(t, o, p)); }
    }
    if no_empty(t0) {
        assert forall|o: LuaOperatorOwner, p: LuaOperatorMetaMethod| #[trigger] tv_has(t0, o, p) && tv_has(t2, o, p) implies tv(t2, o, p).len() > 0 by {
            if o == owner && p == op { } else { assert(tv_has(t, o, p)); }
        }
    }
}

// ---- the property-level statement for the operator index -----------------------------------------------
pub type OpsMap = Map<LuaOperatorId, LuaOperator>;
pub type InfMap = Map<FileId, Vec<LuaOperatorId>>;
pub open spec fn not_file(f: FileId) -> spec_fn(LuaOperatorId) -> bool { |x: LuaOperatorId| x.file_id != f }

/// index invariant of LuaOperatorIndex, as maintained by its only writer `add_operator` (which inserts
/// `operators[id]`, pushes id to `type_operators_map[owner][op]` and to `in_filed_operator_map[id.file_id]` together)
/// provided no two operators share an id (= file + start offset); `remove` is shown to preserve it.
pub open spec fn op_wf(ops: OpsMap, t: OpMap, inf: InfMap) -> bool {
    // every operator is listed under its own file
    &&& forall|x: LuaOperatorId| #[trigger] ops.contains_key(x) ==> inf.contains_key(x.file_id) && inf[x.file_id]@.contains(x)
    // a file lists only its own operator ids
    &&& forall|g: FileId, i: int| inf.contains_key(g) && 0 <= i < inf[g]@.len() ==> (#[trigger] inf[g]@[i]).file_id == g
    // an id found in the vector at (owner, op) is an operator registered for that owner and meta method
    &&& forall|o: LuaOperatorOwner, p: LuaOperatorMetaMethod, i: int| tv_has(t, o, p) && 0 <= i < tv(t, o, p).len() ==>
            ops.contains_key(#[trigger] tv(t, o, p)[i]) && ops[tv(t, o, p)[i]].owner == o && ops[tv(t, o, p)[i]].op == p
    // no empty vector, no empty inner map
    &&& no_empty(t)
}
/// operators of a `setmetatable` table live in the table's file (only writer: analyze_setmetatable / analyze_metable_field)
pub open spec fn table_owners_cofiled(t: OpMap) -> bool {
    forall|o: LuaOperatorOwner, p: LuaOperatorMetaMethod, i: int| tv_has(t, o, p) && 0 <= i < tv(t, o, p).len() ==>
        (o matches LuaOperatorOwner::Table(x) ==> (#[trigger] tv(t, o, p)[i]).file_id == x.file_id)
}
/// C10 for the operator index: nothing of file f remains, everything else is unchanged
pub open spec fn op_removed(ops0: OpsMap, t0: OpMap, inf0: InfMap, ops: OpsMap, t: OpMap, inf: InfMap, f: FileId) -> bool {
    &&& inf == inf0.remove(f)
    // operators: exactly those of other files, unchanged
    &&& forall|x: LuaOperatorId| #[trigger] ops.contains_key(x) <==> ops0.contains_key(x) && x.file_id != f
    &&& forall|x: LuaOperatorId| #[trigger] ops.contains_key(x) ==> ops[x] == ops0[x]
    // per (owner, op): exactly the ids of other files, in their old order; the vector exists iff one is left
    &&& forall|o: LuaOperatorOwner| #[trigger] t.contains_key(o) ==> t0.contains_key(o)
    &&& forall|o: LuaOperatorOwner, p: LuaOperatorMetaMethod| #[trigger] tv_has(t, o, p) <==> tv_has(t0, o, p) && tv(t0, o, p).filter(not_file(f)).len() > 0
    &&& forall|o: LuaOperatorOwner, p: LuaOperatorMetaMethod| #[trigger] tv_has(t, o, p) ==> tv(t, o, p) == tv(t0, o, p).filter(not_file(f))
    // hence no id of f anywhere
    &&& forall|o: LuaOperatorOwner, p: LuaOperatorMetaMethod, i: int| tv_has(t, o, p) && 0 <= i < tv(t, o, p).len() ==> (#[trigger] tv(t, o, p)[i]).file_id != f
    // and no table of f as an owner
    &&& table_owners_cofiled(t0) ==> table_owners_cofiled(t)
            && forall|o: LuaOperatorOwner| #[trigger] t.contains_key(o) ==> (o matches LuaOperatorOwner::Table(x) ==> x.file_id != f)
}

pub proof fn lemma_filter_mem<T>(s: Seq<T>, p: spec_fn(T) -> bool)
    ensures
        forall|i: int| 0 <= i < s.filter(p).len() ==> p(#[trigger] s.filter(p)[i]) && s.contains(s.filter(p)[i]),
        forall|i: int| 0 <= i < s.len() && p(s[i]) ==> s.filter(p).contains(#[trigger] s[i]),
    decreases s.len()
{
    reveal(Seq::filter);
    if s.len() > 0 {
        let r = s.drop_last();
        lemma_filter_mem(r, p);
        assert forall|i: int| 0 <= i < s.filter(p).len() implies p(#[trigger] s.filter(p)[i]) && s.contains(s.filter(p)[i]) by {
            if i < r.filter(p).len() {
                assert(s.filter(p)[i] == r.filter(p)[i]);
                let j = choose|j: int| 0 <= j < r.len() && r[j] == r.filter(p)[i];
                assert(s[j] == r[j]);
            } else {
                assert(s.filter(p)[i] == s.last());
                assert(s[s.len() - 1] == s.last());
            }
        }
        assert forall|i: int| 0 <= i < s.len() && p(s[i]) implies s.filter(p).contains(#[trigger] s[i]) by {
            if i < r.len() {
                assert(r[i] == s[i]);
                let j = choose|j: int| 0 <= j < r.filter(p).len() && r.filter(p)[j] == r[i];
                assert(s.filter(p)[j] == s[i]);
            } else {
                assert(s.filter(p)[s.filter(p).len() - 1] == s[i]);
            }
        }
    }
}
pub proof fn lemma_map_nonempty_has_key<K, V>(m: Map<K, V>)
    requires m.len() > 0,
    ensures exists|k: K| m.contains_key(k),
{
    if forall|k: K| !m.contains_key(k) {
        assert(m.dom() =~= Set::empty());
    }
}

/// from the loop's exit state to the property-level statement, under the index invariant
pub proof fn lemma_op_final(ops0: OpsMap, t0: OpMap, inf0: InfMap, ops: OpsMap, t: OpMap, inf: InfMap, f: FileId, ids: Seq<LuaOperatorId>)
    requires
        ids == (if inf0.contains_key(f) { inf0[f]@ } else { Seq::empty() }),
        inf == inf0.remove(f), ops_inv(ops0, ops, ids, ids.len() as int), tm_inv(t0, t, ops0, ids, ids.len() as int),
        op_wf(ops0, t0, inf0),
    ensures
        op_removed(ops0, t0, inf0, ops, t, inf, f), op_wf(ops, t, inf),
{
    reveal(tm_inv);
    let n = ids.len() as int;
    // a listed id is an id of f and vice versa (for live operators)
    assert forall|x: LuaOperatorId| in_prefix(ids, n, x) implies x.file_id == f by {
        let j = choose|j: int| 0 <= j < n && j < ids.len() && #[trigger] ids[j] == x;
        assert(inf0[f]@[j].file_id == f);
    }
    assert forall|x: LuaOperatorId| ops0.contains_key(x) && x.file_id == f implies in_prefix(ids, n, x) by {
        assert(inf0[f]@.contains(x));
        let j = choose|j: int| 0 <= j < inf0[f]@.len() && inf0[f]@[j] == x;
        assert(ids[j] == x);
    }
    // on the old vector at (o, p) the loop's filter is "not of file f"
    assert forall|o: LuaOperatorOwner, p: LuaOperatorMetaMethod| #![trigger tv_has(t0, o, p)] tv_has(t0, o, p)
        implies tv(t0, o, p).filter(op_kept(ops0, ids, n, o, p)) == tv(t0, o, p).filter(not_file(f)) by {
        let s = tv(t0, o, p);
        assert forall|i: int| 0 <= i < s.len() implies op_kept(ops0, ids, n, o, p)(#[trigger] s[i]) == not_file(f)(s[i]) by {
            assert(ops0.contains_key(s[i]));
        }
        lemma_filter_ext(s, op_kept(ops0, ids, n, o, p), not_file(f));
    }
    assert forall|o: LuaOperatorOwner, p: LuaOperatorMetaMethod| #[trigger] tv_has(t, o, p) implies
        tv_has(t0, o, p) && tv(t, o, p) == tv(t0, o, p).filter(not_file(f)) && tv(t, o, p).len() > 0 by {
        assert(tv_has(t0, o, p));
    }
    assert forall|o: LuaOperatorOwner, p: LuaOperatorMetaMethod| tv_has(t0, o, p) && tv(t0, o, p).filter(not_file(f)).len() > 0 implies #[trigger] tv_has(t, o, p) by {}
    assert forall|o: LuaOperatorOwner, p: LuaOperatorMetaMethod, i: int| tv_has(t, o, p) && 0 <= i < tv(t, o, p).len() implies
        (#[trigger] tv(t, o, p)[i]).file_id != f && tv(t0, o, p).contains(tv(t, o, p)[i]) by {
        lemma_filter_mem(tv(t0, o, p), not_file(f));
    }
    // op_wf of the new state
    assert forall|x: LuaOperatorId| #[trigger] ops.contains_key(x) implies inf.contains_key(x.file_id) && inf[x.file_id]@.contains(x) by {
        assert(ops0.contains_key(x));
    }
    assert forall|o: LuaOperatorOwner, p: LuaOperatorMetaMethod, i: int| tv_has(t, o, p) && 0 <= i < tv(t, o, p).len() implies
        ops.contains_key(#[trigger] tv(t, o, p)[i]) && ops[tv(t, o, p)[i]].owner == o && ops[tv(t, o, p)[i]].op == p by {
        let x = tv(t, o, p)[i];
        assert(tv_has(t0, o, p));
        assert(x.file_id != f && tv(t0, o, p).contains(x));
        let j = choose|j: int| 0 <= j < tv(t0, o, p).len() && tv(t0, o, p)[j] == x;
        assert(ops0.contains_key(tv(t0, o, p)[j]));
        assert(!in_prefix(ids, n, x));
        assert(ops.contains_key(x));
    }
    assert(no_empty(t)) by {
        assert forall|o: LuaOperatorOwner| #[trigger] t.contains_key(o) implies t[o]@.len() > 0 && forall|p: LuaOperatorMetaMethod| #[trigger] t[o]@.contains_key(p) ==> t[o]@[p]@.len() > 0 by {
            assert(t0.contains_key(o));
            assert forall|p: LuaOperatorMetaMethod| #[trigger] t[o]@.contains_key(p) implies t[o]@[p]@.len() > 0 by { assert(tv_has(t, o, p)); }
        }
    }
    if table_owners_cofiled(t0) {
        assert forall|o: LuaOperatorOwner, p: LuaOperatorMetaMethod, i: int| tv_has(t, o, p) && 0 <= i < tv(t, o, p).len() implies
            (o matches LuaOperatorOwner::Table(x) ==> (#[trigger] tv(t, o, p)[i]).file_id == x.file_id) by {
            let x = tv(t, o, p)[i];
            let j = choose|j: int| 0 <= j < tv(t0, o, p).len() && tv(t0, o, p)[j] == x;
        }
        assert forall|o: LuaOperatorOwner| #[trigger] t.contains_key(o) implies (o matches LuaOperatorOwner::Table(x) ==> x.file_id != f) by {
            lemma_map_nonempty_has_key(t[o]@);
            let p = choose|p: LuaOperatorMetaMethod| t[o]@.contains_key(p);
            assert(tv_has(t, o, p));
            assert(tv(t, o, p)[0].file_id != f);
        }
    }
}
