// ---- type index: `supers` swept over ALL keys (the repair of the C10 leak: a super clause filed under a declaration of another
// file, `---@using NS` + `---@class DA: S` where DA resolves to NS.DA declared elsewhere) ---------------------------------------
// New vocabulary only: `ty_inv` (type_spec.rs) stays the invariant of the per-id loop and is not changed.

/// declarations and generic params after n ids of the file's list (the conjuncts of `ty_inv` that do not speak about `supers`)
pub open spec fn decl_inv(full0: FullMap, full: FullMap, gp0: GpMap, gp: GpMap, ids: Seq<LuaTypeDeclId>, n: int, f: FileId) -> bool {
    &&& forall|id: LuaTypeDeclId| #[trigger] full.contains_key(id) <==> full0.contains_key(id) && !(in_pref(ids, n, id) && decl_gone(full0[id], f))
    &&& forall|id: LuaTypeDeclId| #[trigger] full.contains_key(id) ==> (if in_pref(ids, n, id) { decl_rel(full0[id], full[id], f) } else { full[id] == full0[id] })
    &&& forall|id: LuaTypeDeclId| #[trigger] gp.contains_key(id) <==> gp0.contains_key(id) && !(in_pref(ids, n, id) && full0.contains_key(id) && decl_gone(full0[id], f))
    &&& forall|id: LuaTypeDeclId| #[trigger] gp.contains_key(id) ==> gp[id] == gp0[id]
}
/// `supers` after the per-id loop over n ids of the file's list (the conjuncts of `ty_inv` that speak about `supers`)
pub open spec fn sup_loop(sup0: SupMap, sup: SupMap, ids: Seq<LuaTypeDeclId>, n: int, f: FileId) -> bool {
    &&& forall|id: LuaTypeDeclId| #[trigger] sup.contains_key(id) <==> sup0.contains_key(id) && !(in_pref(ids, n, id) && sup0[id]@.filter(sup_not_file(f)).len() == 0)
    &&& forall|id: LuaTypeDeclId| #[trigger] sup.contains_key(id) ==> (if in_pref(ids, n, id) { sup[id]@ == sup0[id]@.filter(sup_not_file(f)) } else { sup[id] == sup0[id] })
}
pub proof fn lemma_ty_inv_parts(full0: FullMap, full: FullMap, sup0: SupMap, sup: SupMap, gp0: GpMap, gp: GpMap, ids: Seq<LuaTypeDeclId>, n: int, f: FileId)
    ensures ty_inv(full0, full, sup0, sup, gp0, gp, ids, n, f) <==> decl_inv(full0, full, gp0, gp, ids, n, f) && sup_loop(sup0, sup, ids, n, f),
{}

/// EVERY super list keeps exactly the supers contributed by files other than f, in order; a list left without any is dropped
pub open spec fn sup_swept(o: SupMap, n: SupMap, f: FileId) -> bool {
    &&& forall|id: LuaTypeDeclId| #[trigger] n.contains_key(id) <==> o.contains_key(id) && o[id]@.filter(sup_not_file(f)).len() > 0
    &&& forall|id: LuaTypeDeclId| #[trigger] n.contains_key(id) ==> n[id]@ == o[id]@.filter(sup_not_file(f))
}
/// no super filed by f under ANY key, and no empty list
pub open spec fn sup_clean(n: SupMap, f: FileId) -> bool {
    &&& forall|id: LuaTypeDeclId, i: int| n.contains_key(id) && 0 <= i < n[id]@.len() ==> (#[trigger] n[id]@[i]).file_id != f
    &&& forall|id: LuaTypeDeclId| #[trigger] n.contains_key(id) ==> n[id]@.len() > 0
}
/// what holds for `supers` whether or not the sweep over all keys is there: the lists of the ids listed under the file are filtered
/// exactly (dropped iff nothing is left); no list is added; a list is either untouched or the old one filtered; only a list without
/// any super of another file is ever dropped
pub open spec fn sup_after(sup0: SupMap, sup: SupMap, ids: Seq<LuaTypeDeclId>, n: int, f: FileId) -> bool {
    &&& forall|id: LuaTypeDeclId| in_pref(ids, n, id) ==> (#[trigger] sup.contains_key(id) <==> sup0.contains_key(id) && sup0[id]@.filter(sup_not_file(f)).len() > 0)
    &&& forall|id: LuaTypeDeclId| in_pref(ids, n, id) && #[trigger] sup.contains_key(id) ==> sup[id]@ == sup0[id]@.filter(sup_not_file(f))
    &&& forall|id: LuaTypeDeclId| #[trigger] sup.contains_key(id) ==> sup0.contains_key(id) && (sup[id] == sup0[id] || sup[id]@ == sup0[id]@.filter(sup_not_file(f)))
    &&& forall|id: LuaTypeDeclId| sup0.contains_key(id) && !(#[trigger] sup.contains_key(id)) ==> sup0[id]@.filter(sup_not_file(f)).len() == 0
}
/// `supers` at the end of `remove`: sup0 at entry, sup_l after the per-id loop, sup_f at exit (= sup_l, or sup_l swept over all keys)
pub proof fn lemma_sup_final(sup0: SupMap, sup_l: SupMap, sup_f: SupMap, ids: Seq<LuaTypeDeclId>, n: int, f: FileId)
    requires sup_loop(sup0, sup_l, ids, n, f), sup_f == sup_l || sup_swept(sup_l, sup_f, f),
    ensures
        sup_after(sup0, sup_f, ids, n, f),
        sup_swept(sup_l, sup_f, f) ==> sup_swept(sup0, sup_f, f) && sup_clean(sup_f, f),
{
    let p = sup_not_file(f);
    assert forall|id: LuaTypeDeclId| sup0.contains_key(id) implies #[trigger] sup0[id]@.filter(p).filter(p) == sup0[id]@.filter(p) by {
        lemma_filter_idem(sup0[id]@, p);
    }
    // the relation of sup_l to sup0, id by id
    assert forall|id: LuaTypeDeclId| #[trigger] sup_l.contains_key(id) implies sup0.contains_key(id) && sup_l[id]@.filter(p) == sup0[id]@.filter(p) by {
        if in_pref(ids, n, id) { assert(sup_l[id]@ == sup0[id]@.filter(p)); } else { assert(sup_l[id] == sup0[id]); }
    }
    if sup_swept(sup_l, sup_f, f) {
        assert forall|id: LuaTypeDeclId| #[trigger] sup_f.contains_key(id) <==> sup0.contains_key(id) && sup0[id]@.filter(p).len() > 0 by {
            if sup0.contains_key(id) && sup0[id]@.filter(p).len() > 0 { assert(sup_l.contains_key(id)); }
            if sup_f.contains_key(id) { assert(sup_l.contains_key(id)); }
        }
        assert forall|id: LuaTypeDeclId| #[trigger] sup_f.contains_key(id) implies sup_f[id]@ == sup0[id]@.filter(p) by {
            assert(sup_l.contains_key(id));
        }
        assert forall|id: LuaTypeDeclId, i: int| sup_f.contains_key(id) && 0 <= i < sup_f[id]@.len() implies (#[trigger] sup_f[id]@[i]).file_id != f by {
            assert(sup_l.contains_key(id));
            lemma_filter_mem(sup_l[id]@, p);
            assert(p(sup_l[id]@.filter(p)[i]));
        }
    }
    if sup_f == sup_l {
        assert forall|id: LuaTypeDeclId| sup0.contains_key(id) && !(#[trigger] sup_f.contains_key(id)) implies sup0[id]@.filter(p).len() == 0 by {}
    }
}
/// the property-level statement carried from the state `mid` (= the exit state with `supers` as the per-id loop left it) to the
/// exit state `n`, whose `supers` is that one or that one swept over all keys
pub proof fn lemma_type_final_sw(o: &LuaTypeIndex, mid: &LuaTypeIndex, n: &LuaTypeIndex, f: FileId)
    requires type_removed(o, mid, f),
        n.file_namespace@ == mid.file_namespace@, n.file_using_namespace@ == mid.file_using_namespace@, n.file_types@ == mid.file_types@,
        n.in_filed_type_owner@ == mid.in_filed_type_owner@, n.full_name_type_map@ == mid.full_name_type_map@, n.generic_params@ == mid.generic_params@,
        n.types@ == mid.types@, n.local_name_type_map@ == mid.local_name_type_map@,
        n.supers@ == mid.supers@ || sup_swept(mid.supers@, n.supers@, f),
    ensures type_removed(o, n, f),
{
    let p = sup_not_file(f); let m = mid.supers@; let s = n.supers@;
    if s != m {
        // every list of `mid` is already free of f and non-empty: the sweep changes nothing up to the view
        assert forall|id: LuaTypeDeclId| #[trigger] m.contains_key(id) implies m[id]@.filter(p) == m[id]@ && m[id]@.len() > 0 by {
            assert forall|i: int| 0 <= i < m[id]@.len() implies p(#[trigger] m[id]@[i]) by {}
            lemma_filter_all(m[id]@, p);
        }
        assert forall|id: LuaTypeDeclId| #[trigger] s.contains_key(id) <==> o.supers@.contains_key(id) && o.supers@[id]@.filter(p).len() > 0 by {
            if s.contains_key(id) { assert(m.contains_key(id)); }
            if o.supers@.contains_key(id) && o.supers@[id]@.filter(p).len() > 0 { assert(m.contains_key(id)); }
        }
        assert forall|id: LuaTypeDeclId| #[trigger] s.contains_key(id) implies s[id]@ == o.supers@[id]@.filter(p) by { assert(m.contains_key(id)); }
        assert forall|id: LuaTypeDeclId, i: int| s.contains_key(id) && 0 <= i < s[id]@.len() implies (#[trigger] s[id]@[i]).file_id != f by {
            assert(m.contains_key(id)); assert(s[id]@ == m[id]@);
        }
    }
}
