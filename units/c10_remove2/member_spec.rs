// ---- member index: vocabulary and lemmas (bodies verified) --------------------------------------------
pub type ItemMap = Map<LuaMemberKey, LuaMemberIndexItem>;
pub type OwnMap = Map<LuaMemberOwner, LuaOwnerMembers>;
pub open spec fn in_pref<T>(s: Seq<T>, n: int, x: T) -> bool { exists|j: int| 0 <= j < n && j < s.len() && #[trigger] s[j] == x }
pub proof fn lemma_in_pref_step<T>(s: Seq<T>, n1: int)
    requires 1 <= n1 <= s.len(),
    ensures forall|x: T| #[trigger] in_pref(s, n1, x) == (in_pref(s, n1 - 1, x) || x == s[n1 - 1]),
{
    let n = n1 - 1;
    assert forall|x: T| #[trigger] in_pref(s, n1, x) == (in_pref(s, n, x) || x == s[n]) by {
        if in_pref(s, n1, x) {
            let j = choose|j: int| 0 <= j < n1 && j < s.len() && #[trigger] s[j] == x;
            assert(0 <= j < n1 && j < s.len() && s[j] == x);
            if j < n { assert(in_pref(s, n, x)); } else { assert(j == n); }
        }
        if in_pref(s, n, x) {
            let j = choose|j: int| 0 <= j < n && j < s.len() && #[trigger] s[j] == x;
            assert(0 <= j < n1 && j < s.len() && s[j] == x);
        }
        if x == s[n] { assert(0 <= n < n1 && n < s.len() && s[n] == x); }
    }
}
pub open spec fn mid_not_file(f: FileId) -> spec_fn(LuaMemberId) -> bool { |x: LuaMemberId| x.file_id != f }
/// what the sweep does to one item: a single id is left alone, a list loses the ids of file f (order kept)
pub open spec fn item_rel(o: LuaMemberIndexItem, n: LuaMemberIndexItem, f: FileId) -> bool {
    match o {
        LuaMemberIndexItem::One(id) => n == o,
        LuaMemberIndexItem::Many(ids) => n matches LuaMemberIndexItem::Many(ids2) && ids2@ == ids@.filter(mid_not_file(f)),
    }
}
/// the swept item no longer holds a member of another file: its key is dropped
pub open spec fn item_dead(n: LuaMemberIndexItem, f: FileId) -> bool {
    match n { LuaMemberIndexItem::One(id) => id.file_id == f, LuaMemberIndexItem::Many(ids) => ids@.len() == 0 }
}
/// the same, said about the item before the sweep
pub open spec fn item_gone(o: LuaMemberIndexItem, f: FileId) -> bool {
    match o { LuaMemberIndexItem::One(id) => id.file_id == f, LuaMemberIndexItem::Many(ids) => ids@.filter(mid_not_file(f)).len() == 0 }
}
pub open spec fn items_inv(m0: ItemMap, fin: ItemMap, keys: Seq<LuaMemberKey>, pos: int, nrk: Seq<LuaMemberKey>, f: FileId) -> bool {
    &&& forall|j: int| 0 <= j < pos ==> item_rel(m0[keys[j]], #[trigger] fin[keys[j]], f)
    &&& forall|j: int| 0 <= j < pos && item_dead(#[trigger] fin[keys[j]], f) ==> nrk.contains(keys[j])
    &&& forall|i: int| 0 <= i < nrk.len() ==> item_dead(#[trigger] fin[nrk[i]], f)
}
pub proof fn lemma_items_step(m0: ItemMap, fin: ItemMap, keys: Seq<LuaMemberKey>, pos: int, nrk: Seq<LuaMemberKey>, nrk2: Seq<LuaMemberKey>, f: FileId)
    requires items_inv(m0, fin, keys, pos, nrk, f), 0 <= pos < keys.len(),
        item_rel(m0[keys[pos]], fin[keys[pos]], f),
        nrk2 == (if item_dead(fin[keys[pos]], f) { nrk.push(keys[pos]) } else { nrk }),
    ensures items_inv(m0, fin, keys, pos + 1, nrk2, f),
{
    assert forall|j: int| 0 <= j < pos + 1 && item_dead(#[trigger] fin[keys[j]], f) implies nrk2.contains(keys[j]) by {
        if j < pos {
            assert(nrk.contains(keys[j]));
            let i = choose|i: int| 0 <= i < nrk.len() && nrk[i] == keys[j];
            assert(nrk2[i] == keys[j]);
        } else {
            assert(nrk2[nrk.len() as int] == keys[pos]);
        }
    }
    assert forall|i: int| 0 <= i < nrk2.len() implies item_dead(#[trigger] fin[nrk2[i]], f) by {
        if i < nrk.len() { assert(nrk2[i] == nrk[i]); } else { assert(nrk2[i] == keys[pos]); }
    }
}
/// the owner's item map after the sweep and the clean-up of dead keys
pub open spec fn items_after(m0: ItemMap, n: ItemMap, f: FileId) -> bool {
    &&& forall|k: LuaMemberKey| #[trigger] n.contains_key(k) <==> m0.contains_key(k) && !item_gone(m0[k], f)
    &&& forall|k: LuaMemberKey| #[trigger] n.contains_key(k) ==> item_rel(m0[k], n[k], f)
}
pub proof fn lemma_items_final(m0: ItemMap, fin: ItemMap, keys: Seq<LuaMemberKey>, pos: int, nrk: Seq<LuaMemberKey>, n: ItemMap, f: FileId)
    requires items_inv(m0, fin, keys, pos, nrk, f), pos >= keys.len(), keys.to_set() == m0.dom(), fin.dom() == m0.dom(),
        forall|k: LuaMemberKey| #[trigger] n.contains_key(k) <==> fin.contains_key(k) && !in_pref(nrk, nrk.len() as int, k),
        forall|k: LuaMemberKey| #[trigger] n.contains_key(k) ==> n[k] == fin[k],
    ensures items_after(m0, n, f),
{
    assert forall|k: LuaMemberKey| m0.contains_key(k) implies item_rel(m0[k], fin[k], f) && (item_dead(fin[k], f) ==> nrk.contains(k)) by {
        assert(keys.to_set().contains(k));
        let j = choose|j: int| 0 <= j < keys.len() && keys[j] == k;
        assert(item_rel(m0[keys[j]], fin[keys[j]], f));
    }
    assert forall|k: LuaMemberKey| #[trigger] n.contains_key(k) <==> m0.contains_key(k) && !item_gone(m0[k], f) by {
        if m0.contains_key(k) {
            assert(fin.dom().contains(k));
            if item_dead(fin[k], f) {
                let i = choose|i: int| 0 <= i < nrk.len() && nrk[i] == k;
                assert(in_pref(nrk, nrk.len() as int, k));
            } else {
                if in_pref(nrk, nrk.len() as int, k) {
                    let j = choose|j: int| 0 <= j < nrk.len() && j < nrk.len() && #[trigger] nrk[j] == k;
                    assert(item_dead(fin[nrk[j]], f));
                }
            }
        } else {
            assert(!fin.dom().contains(k));
        }
    }
}

pub open spec fn owner_after(o: LuaOwnerMembers, n: LuaOwnerMembers, f: FileId) -> bool {
    items_after(o.members@, n.members@, f) && n.resolve_state == o.resolve_state
}
/// owner_members `t` after the first i collected owners were swept (pre-state t0); `nro` = the swept owners left without items
#[verifier::opaque]
pub open spec fn om_inv(t0: OwnMap, t: OwnMap, owners: Seq<LuaMemberOwner>, i: int, nro: Seq<LuaMemberOwner>, f: FileId) -> bool {
    &&& forall|o: LuaMemberOwner| #[trigger] t0.contains_key(o) == t.contains_key(o)
    &&& forall|o: LuaMemberOwner| #[trigger] t0.contains_key(o) ==> (if in_pref(owners, i, o) { owner_after(t0[o], t[o], f) } else { t[o] == t0[o] })
    &&& forall|o: LuaMemberOwner| #[trigger] t0.contains_key(o) && in_pref(owners, i, o) && t[o].members@.is_empty() ==> nro.contains(o)
    &&& forall|j: int| 0 <= j < nro.len() ==> t0.contains_key(#[trigger] nro[j]) && t[nro[j]].members@.is_empty() && in_pref(owners, i, nro[j])
}
pub proof fn lemma_om_init(t0: OwnMap, owners: Seq<LuaMemberOwner>, f: FileId)
    ensures om_inv(t0, t0, owners, 0, Seq::empty(), f)
{ reveal(om_inv); }
/// the collected owner has no entry in owner_members: nothing to sweep
pub proof fn lemma_om_skip(t0: OwnMap, t: OwnMap, owners: Seq<LuaMemberOwner>, n1: int, nro: Seq<LuaMemberOwner>, f: FileId)
    requires om_inv(t0, t, owners, n1 - 1, nro, f), 1 <= n1 <= owners.len(), !t.contains_key(owners[n1 - 1]),
    ensures om_inv(t0, t, owners, n1, nro, f),
{
    reveal(om_inv);
    lemma_in_pref_step(owners, n1);
}
/// the collected owner's items were swept (t2 = t with that owner's entry replaced)
pub proof fn lemma_om_step(t0: OwnMap, t: OwnMap, t2: OwnMap, owners: Seq<LuaMemberOwner>, n1: int, nro: Seq<LuaMemberOwner>, nro2: Seq<LuaMemberOwner>, f: FileId)
    requires om_inv(t0, t, owners, n1 - 1, nro, f), 1 <= n1 <= owners.len(), owners.no_duplicates(),
        t.contains_key(owners[n1 - 1]), t2.contains_key(owners[n1 - 1]),
        forall|o: LuaMemberOwner| o != owners[n1 - 1] ==> #[trigger] t2.contains_key(o) == t.contains_key(o) && (t.contains_key(o) ==> t2[o] == t[o]),
        owner_after(t[owners[n1 - 1]], t2[owners[n1 - 1]], f),
        nro2 == (if t2[owners[n1 - 1]].members@.is_empty() { nro.push(owners[n1 - 1]) } else { nro }),
    ensures om_inv(t0, t2, owners, n1, nro2, f),
{
    reveal(om_inv);
    lemma_in_pref_step(owners, n1);
    let ow = owners[n1 - 1];
    if in_pref(owners, n1 - 1, ow) {
        let j = choose|j: int| 0 <= j < n1 - 1 && j < owners.len() && #[trigger] owners[j] == ow;
        assert(owners[j] == owners[n1 - 1]);
    }
    assert(t0.contains_key(ow) == t.contains_key(ow));
    assert(!in_pref(owners, n1 - 1, ow));
    assert(t[ow] == t0[ow]);
    assert forall|o: LuaMemberOwner| #[trigger] t0.contains_key(o) && in_pref(owners, n1, o) && t2[o].members@.is_empty() implies nro2.contains(o) by {
        if o == ow { assert(nro2[nro.len() as int] == ow); }
        else {
            assert(t2.contains_key(o) == t.contains_key(o));
            assert(nro.contains(o));
            let i = choose|i: int| 0 <= i < nro.len() && nro[i] == o;
            assert(nro2[i] == o);
        }
    }
    assert forall|j: int| 0 <= j < nro2.len() implies t0.contains_key(#[trigger] nro2[j]) && t2[nro2[j]].members@.is_empty() && in_pref(owners, n1, nro2[j]) by {
        if j < nro.len() { assert(nro2[j] == nro[j]); assert(t2.contains_key(nro[j]) == t.contains_key(nro[j])); } else { assert(nro2[j] == ow); }
    }
    assert forall|o: LuaMemberOwner| #[trigger] t0.contains_key(o) implies (if in_pref(owners, n1, o) { owner_after(t0[o], t2[o], f) } else { t2[o] == t0[o] }) by {
        if o != ow { assert(t2.contains_key(o) == t.contains_key(o)); }
    }
    assert forall|o: LuaMemberOwner| #[trigger] t0.contains_key(o) == t2.contains_key(o) by {
        if o != ow { assert(t2.contains_key(o) == t.contains_key(o)); }
    }
}

pub type MemMap = Map<LuaMemberId, LuaMember>;
pub type McoMap = Map<LuaMemberId, LuaMemberOwner>;
/// first loop: the member ids among the first n listed entries are gone from `members` and `member_current_owner`,
/// nothing else changed; `own` collects the owners among them
pub open spec fn l0_inv(mem0: MemMap, mem: MemMap, mco0: McoMap, mco: McoMap, own: Set<LuaMemberOwner>, v: Seq<MemberOrOwner>, n: int) -> bool {
    &&& forall|id: LuaMemberId| #[trigger] mem.contains_key(id) <==> mem0.contains_key(id) && !in_pref(v, n, MemberOrOwner::Member(id))
    &&& forall|id: LuaMemberId| #[trigger] mem.contains_key(id) ==> mem[id] == mem0[id]
    &&& forall|id: LuaMemberId| #[trigger] mco.contains_key(id) <==> mco0.contains_key(id) && !in_pref(v, n, MemberOrOwner::Member(id))
    &&& forall|id: LuaMemberId| #[trigger] mco.contains_key(id) ==> mco[id] == mco0[id]
    &&& forall|o: LuaMemberOwner| #[trigger] own.contains(o) <==> in_pref(v, n, MemberOrOwner::Owner(o))
}
/// a map keyed by member id after `remove`: the listed member ids are gone, nothing else changed
pub open spec fn mem_after<V>(m0: Map<LuaMemberId, V>, m: Map<LuaMemberId, V>, listed: Set<MemberOrOwner>) -> bool {
    &&& forall|id: LuaMemberId| #[trigger] m.contains_key(id) <==> m0.contains_key(id) && !listed.contains(MemberOrOwner::Member(id))
    &&& forall|id: LuaMemberId| #[trigger] m.contains_key(id) ==> m[id] == m0[id]
}
pub proof fn lemma_in_pref_full<T>(s: Seq<T>)
    ensures forall|x: T| #[trigger] in_pref(s, s.len() as int, x) == s.to_set().contains(x),
{
    assert forall|x: T| #[trigger] in_pref(s, s.len() as int, x) == s.to_set().contains(x) by {
        if s.contains(x) { let j = choose|j: int| 0 <= j < s.len() && s[j] == x; assert(0 <= j < s.len() && j < s.len() && s[j] == x); }
        if in_pref(s, s.len() as int, x) { let j = choose|j: int| 0 <= j < s.len() && j < s.len() && #[trigger] s[j] == x; assert(s[j] == x); }
    }
}
/// every item of the owner belongs to file f only
pub open spec fn owner_emptied(o: LuaOwnerMembers, f: FileId) -> bool {
    forall|k: LuaMemberKey| #[trigger] o.members@.contains_key(k) ==> item_gone(o.members@[k], f)
}
/// owner_members after `remove`: the listed owners were swept (and dropped if nothing was left), the others are untouched
pub open spec fn om_after(t0: OwnMap, n: OwnMap, listed: spec_fn(LuaMemberOwner) -> bool, f: FileId) -> bool {
    &&& forall|o: LuaMemberOwner| #[trigger] n.contains_key(o) <==> t0.contains_key(o) && !(listed(o) && owner_emptied(t0[o], f))
    &&& forall|o: LuaMemberOwner| #[trigger] n.contains_key(o) ==> (if listed(o) { owner_after(t0[o], n[o], f) } else { n[o] == t0[o] })
}
pub proof fn lemma_om_final(t0: OwnMap, t: OwnMap, owners: Seq<LuaMemberOwner>, nro: Seq<LuaMemberOwner>, n: OwnMap, listed: spec_fn(LuaMemberOwner) -> bool, f: FileId)
    requires om_inv(t0, t, owners, owners.len() as int, nro, f),
        forall|o: LuaMemberOwner| listed(o) <==> #[trigger] owners.to_set().contains(o),
        forall|o: LuaMemberOwner| #[trigger] n.contains_key(o) <==> t.contains_key(o) && !in_pref(nro, nro.len() as int, o),
        forall|o: LuaMemberOwner| #[trigger] n.contains_key(o) ==> n[o] == t[o],
    ensures om_after(t0, n, listed, f),
{
    reveal(om_inv);
    assert forall|o: LuaMemberOwner| listed(o) == in_pref(owners, owners.len() as int, o) by {
        assert(listed(o) == owners.to_set().contains(o));
        if owners.contains(o) { let j = choose|j: int| 0 <= j < owners.len() && owners[j] == o; assert(0 <= j < owners.len() && j < owners.len() && owners[j] == o); }
        if in_pref(owners, owners.len() as int, o) { let j = choose|j: int| 0 <= j < owners.len() && j < owners.len() && #[trigger] owners[j] == o; assert(owners[j] == o); }
    }
    assert forall|o: LuaMemberOwner| t0.contains_key(o) && listed(o) implies (t[o].members@.is_empty() <==> owner_emptied(t0[o], f)) by {
        assert(owner_after(t0[o], t[o], f));
        if t[o].members@.is_empty() {
            assert forall|k: LuaMemberKey| #[trigger] t0[o].members@.contains_key(k) implies item_gone(t0[o].members@[k], f) by {
                assert(!t[o].members@.dom().contains(k));
                assert(!t[o].members@.contains_key(k));
            }
        }
        if owner_emptied(t0[o], f) {
            assert forall|k: LuaMemberKey| !t[o].members@.dom().contains(k) by {
                if t[o].members@.contains_key(k) { assert(t0[o].members@.contains_key(k)); }
            }
            assert(t[o].members@.dom() =~= Set::empty());
        }
    }
    assert forall|o: LuaMemberOwner| #[trigger] n.contains_key(o) <==> t0.contains_key(o) && !(listed(o) && owner_emptied(t0[o], f)) by {
        assert(t0.contains_key(o) == t.contains_key(o));
        if t0.contains_key(o) {
            if in_pref(nro, nro.len() as int, o) {
                let j = choose|j: int| 0 <= j < nro.len() && j < nro.len() && #[trigger] nro[j] == o;
                assert(t[nro[j]].members@.is_empty());
                // an owner gets onto the list only when it was swept
                assert(listed(o));
            }
            if listed(o) && owner_emptied(t0[o], f) {
                assert(nro.contains(o));
                let j = choose|j: int| 0 <= j < nro.len() && nro[j] == o;
                assert(in_pref(nro, nro.len() as int, o));
            }
        }
    }
}

// ---- the property-level statement for the member index ------------------------------------------------
pub type InfMoMap = Map<FileId, HashSet<MemberOrOwner>>;
pub open spec fn item_has(item: LuaMemberIndexItem, id: LuaMemberId) -> bool {
    match item { LuaMemberIndexItem::One(x) => x == id, LuaMemberIndexItem::Many(v) => v@.contains(id) }
}
/// index invariant of LuaMemberIndex as maintained by its writers: `add_member` lists Member(id) under the member's own
/// file; `set_member_owner(owner, member_id.file_id, member_id)` (every call site passes the member's own file) lists Owner(owner)
/// under that file before `add_member_to_owner` files the id under the owner; an owner entry is created only to receive an
/// item and a `Many` list starts with two ids. `remove` is shown to preserve it.
pub open spec fn member_wf(mem: MemMap, mco: McoMap, own: OwnMap, inf: InfMoMap) -> bool {
    &&& forall|id: LuaMemberId| #[trigger] mem.contains_key(id) ==> inf.contains_key(id.file_id) && inf[id.file_id]@.contains(MemberOrOwner::Member(id))
    &&& forall|id: LuaMemberId| #[trigger] mco.contains_key(id) ==> inf.contains_key(id.file_id) && inf[id.file_id]@.contains(MemberOrOwner::Member(id))
    &&& forall|g: FileId, id: LuaMemberId| inf.contains_key(g) && #[trigger] inf[g]@.contains(MemberOrOwner::Member(id)) ==> id.file_id == g
    &&& forall|o: LuaMemberOwner, k: LuaMemberKey, id: LuaMemberId| own.contains_key(o) && own[o].members@.contains_key(k) && #[trigger] item_has(own[o].members@[k], id)
            ==> inf.contains_key(id.file_id) && inf[id.file_id]@.contains(MemberOrOwner::Owner(o))
    &&& forall|o: LuaMemberOwner| #[trigger] own.contains_key(o) ==> !own[o].members@.is_empty()
    &&& forall|o: LuaMemberOwner, k: LuaMemberKey| own.contains_key(o) && #[trigger] own[o].members@.contains_key(k) ==>
            (own[o].members@[k] matches LuaMemberIndexItem::Many(v) ==> v@.len() > 0)
}
/// C10 for the member index: nothing of file f remains, everything else is unchanged
pub open spec fn member_removed(mem0: MemMap, mco0: McoMap, own0: OwnMap, inf0: InfMoMap, mem: MemMap, mco: McoMap, own: OwnMap, inf: InfMoMap, f: FileId) -> bool {
    &&& inf == inf0.remove(f)
    // members / member_current_owner: exactly the entries of other files, unchanged
    &&& forall|id: LuaMemberId| #[trigger] mem.contains_key(id) <==> mem0.contains_key(id) && id.file_id != f
    &&& forall|id: LuaMemberId| #[trigger] mem.contains_key(id) ==> mem[id] == mem0[id]
    &&& forall|id: LuaMemberId| #[trigger] mco.contains_key(id) <==> mco0.contains_key(id) && id.file_id != f
    &&& forall|id: LuaMemberId| #[trigger] mco.contains_key(id) ==> mco[id] == mco0[id]
    // per owner: every item keeps exactly its ids of other files (order kept), items and owners left with nothing are dropped
    &&& forall|o: LuaMemberOwner| #[trigger] own.contains_key(o) <==> own0.contains_key(o) && !owner_emptied(own0[o], f)
    &&& forall|o: LuaMemberOwner| #[trigger] own.contains_key(o) ==> owner_after(own0[o], own[o], f)
    // hence no member id of f in any item
    &&& forall|o: LuaMemberOwner, k: LuaMemberKey, id: LuaMemberId| own.contains_key(o) && own[o].members@.contains_key(k) && #[trigger] item_has(own[o].members@[k], id)
            ==> id.file_id != f
}
/// ids of the swept item are ids of the old item, and none is of file f
pub proof fn lemma_item_rel_has(o: LuaMemberIndexItem, n: LuaMemberIndexItem, f: FileId, id: LuaMemberId)
    requires item_rel(o, n, f), !item_gone(o, f), item_has(n, id),
    ensures item_has(o, id), id.file_id != f,
{
    match o {
        LuaMemberIndexItem::One(x) => {}
        LuaMemberIndexItem::Many(v) => {
            lemma_filter_mem(v@, mid_not_file(f));
            let v2 = n->Many_0;
            let i = choose|i: int| 0 <= i < v2@.len() && v2@[i] == id;
            assert(v@.filter(mid_not_file(f))[i] == id);
        }
    }
}
/// an owner none of whose items mentions file f is left as it is by the sweep
pub proof fn lemma_owner_untouched(o: LuaOwnerMembers, f: FileId)
    requires
        forall|k: LuaMemberKey, id: LuaMemberId| o.members@.contains_key(k) && #[trigger] item_has(o.members@[k], id) ==> id.file_id != f,
        forall|k: LuaMemberKey| #[trigger] o.members@.contains_key(k) ==> (o.members@[k] matches LuaMemberIndexItem::Many(v) ==> v@.len() > 0),
    ensures owner_after(o, o, f), forall|k: LuaMemberKey| #[trigger] o.members@.contains_key(k) ==> !item_gone(o.members@[k], f),
{
    assert forall|k: LuaMemberKey| #[trigger] o.members@.contains_key(k) implies !item_gone(o.members@[k], f) && item_rel(o.members@[k], o.members@[k], f) by {
        match o.members@[k] {
            LuaMemberIndexItem::One(x) => { assert(item_has(o.members@[k], x)); }
            LuaMemberIndexItem::Many(v) => {
                assert forall|i: int| 0 <= i < v@.len() implies mid_not_file(f)(#[trigger] v@[i]) by {
                    assert(v@.contains(v@[i]));
                    assert(item_has(o.members@[k], v@[i]));
                }
                lemma_filter_all(v@, mid_not_file(f));
            }
        }
    }
}
pub proof fn lemma_map_not_empty_has_key<K, V>(m: Map<K, V>)
    requires !m.is_empty(),
    ensures exists|k: K| m.contains_key(k),
{
    if forall|k: K| !m.contains_key(k) { assert(m.dom() =~= Set::empty()); }
}
pub proof fn lemma_member_final(mem0: MemMap, mco0: McoMap, own0: OwnMap, inf0: InfMoMap, mem: MemMap, mco: McoMap, own: OwnMap, inf: InfMoMap,
                                f: FileId, listed: Set<MemberOrOwner>, is_listed: spec_fn(LuaMemberOwner) -> bool)
    requires
        listed == (if inf0.contains_key(f) { inf0[f]@ } else { Set::empty() }),
        forall|o: LuaMemberOwner| #[trigger] is_listed(o) == listed.contains(MemberOrOwner::Owner(o)),
        inf == inf0.remove(f), mem_after(mem0, mem, listed), mem_after(mco0, mco, listed), om_after(own0, own, is_listed, f),
        member_wf(mem0, mco0, own0, inf0),
    ensures
        member_removed(mem0, mco0, own0, inf0, mem, mco, own, inf, f), member_wf(mem, mco, own, inf),
{
    // listed member ids are exactly the ids of file f (among the live ones)
    assert forall|id: LuaMemberId| listed.contains(MemberOrOwner::Member(id)) implies id.file_id == f by {
        assert(inf0[f]@.contains(MemberOrOwner::Member(id)));
    }
    // owners that are not listed hold no id of f; listed or not, every surviving owner satisfies owner_after
    assert forall|o: LuaMemberOwner| own0.contains_key(o) && !is_listed(o) implies owner_after(own0[o], own0[o], f) && !owner_emptied(own0[o], f) by {
        assert forall|k: LuaMemberKey, id: LuaMemberId| own0[o].members@.contains_key(k) && #[trigger] item_has(own0[o].members@[k], id) implies id.file_id != f by {
            if id.file_id == f { assert(inf0[id.file_id]@.contains(MemberOrOwner::Owner(o))); }
        }
        lemma_owner_untouched(own0[o], f);
        lemma_map_not_empty_has_key(own0[o].members@);
        let k = choose|k: LuaMemberKey| own0[o].members@.contains_key(k);
        assert(!item_gone(own0[o].members@[k], f));
    }
    assert forall|o: LuaMemberOwner| #[trigger] own.contains_key(o) implies owner_after(own0[o], own[o], f) by {
        if !is_listed(o) { assert(own[o] == own0[o]); }
    }
    assert forall|o: LuaMemberOwner| #[trigger] own.contains_key(o) <==> own0.contains_key(o) && !owner_emptied(own0[o], f) by {}
    assert forall|o: LuaMemberOwner, k: LuaMemberKey, id: LuaMemberId| own.contains_key(o) && own[o].members@.contains_key(k) && #[trigger] item_has(own[o].members@[k], id)
        implies id.file_id != f && own0.contains_key(o) && own0[o].members@.contains_key(k) && item_has(own0[o].members@[k], id) by {
        assert(owner_after(own0[o], own[o], f));
        lemma_item_rel_has(own0[o].members@[k], own[o].members@[k], f, id);
    }
    // member_wf of the new state
    assert forall|id: LuaMemberId| #[trigger] mem.contains_key(id) implies inf.contains_key(id.file_id) && inf[id.file_id]@.contains(MemberOrOwner::Member(id)) by {
        assert(mem0.contains_key(id));
        if id.file_id == f { assert(listed.contains(MemberOrOwner::Member(id))); }
    }
    assert forall|id: LuaMemberId| #[trigger] mco.contains_key(id) implies inf.contains_key(id.file_id) && inf[id.file_id]@.contains(MemberOrOwner::Member(id)) by {
        assert(mco0.contains_key(id));
        if id.file_id == f { assert(listed.contains(MemberOrOwner::Member(id))); }
    }
    assert forall|o: LuaMemberOwner| #[trigger] own.contains_key(o) implies !own[o].members@.is_empty() by {
        assert(!owner_emptied(own0[o], f));
        let k = choose|k: LuaMemberKey| own0[o].members@.contains_key(k) && !item_gone(own0[o].members@[k], f);
        assert(owner_after(own0[o], own[o], f));
        assert(own[o].members@.contains_key(k));
        assert(own[o].members@.dom().contains(k));
    }
    assert forall|o: LuaMemberOwner, k: LuaMemberKey| own.contains_key(o) && #[trigger] own[o].members@.contains_key(k) implies
        (own[o].members@[k] matches LuaMemberIndexItem::Many(v) ==> v@.len() > 0) by {
        assert(owner_after(own0[o], own[o], f));
        assert(own0[o].members@.contains_key(k) && !item_gone(own0[o].members@[k], f));
    }
    assert forall|id: LuaMemberId| #[trigger] mem.contains_key(id) <==> mem0.contains_key(id) && id.file_id != f by {
        if mem0.contains_key(id) && id.file_id == f { assert(inf0[f]@.contains(MemberOrOwner::Member(id))); }
    }
    assert forall|id: LuaMemberId| #[trigger] mco.contains_key(id) <==> mco0.contains_key(id) && id.file_id != f by {
        if mco0.contains_key(id) && id.file_id == f { assert(inf0[f]@.contains(MemberOrOwner::Member(id))); }
    }
}
