// unit c10_remove2 — C10 "Removed files leave no trace" for the indexes whose `remove` goes through
// retain / get_mut cascades / iter_mut sweeps (the indexes keyed directly by file are in unit c10_remove).
// hashbrown -> std::collections. Values that `remove` never inspects are opaque.
#![feature(allocator_api)]
use vstd::prelude::*;
use std::collections::{HashMap, HashSet};
use std::collections::hash_map::IterMut;
use std::alloc::Allocator;
use std::hash::{Hash, BuildHasher};
use std::borrow::Borrow;
verus! {

// ---- extracted from /repo: the id types (derive lists re-attached; `Structural` = derived PartialEq is
// field-wise equality, std doc of derive(PartialEq)) ---------------------------------------------
//@@ FileId
//@@ InFiled

/// text-size 1.1.1: `pub struct TextSize { raw: u32 }`, `pub struct TextRange { start, end }`, both derive PartialEq/Eq/Hash
#[derive(Debug, Clone, Copy, PartialEq, Eq, Hash, Structural)]
pub struct TextSize { pub raw: u32 }
#[derive(Debug, Clone, Copy, PartialEq, Eq, Hash, Structural)]
pub struct TextRange { pub start: TextSize, pub end: TextSize }

#[verifier::external_body] #[derive(PartialEq, Eq, Hash)] pub struct GlobalId { _p: () }
/// LuaTypeDeclId = ArcIntern<LuaTypeIdentifier>: opaque; `get_id` (`self.id.as_ref()`) hands out the interned identifier
#[verifier::external_body] #[derive(PartialEq, Eq, Hash)] pub struct LuaTypeDeclId { _p: () }
//@@ WorkspaceId
//@@ LuaTypeIdentifier
impl LuaTypeDeclId {
    pub uninterp spec fn ident(&self) -> LuaTypeIdentifier;
    #[verifier::external_body] pub fn get_id(&self) -> (r: &LuaTypeIdentifier) ensures *r == self.ident() { unimplemented!() }
}
// reference index: opaque per-file values, opaque keys. Keys are cloned by `remove`: derived Clone returns an equal key.
#[verifier::external_body] pub struct FileReference { _p: () }
#[verifier::external_body] pub struct StringReference { _p: () }
#[verifier::external_body] pub struct FileLabelReferences { _p: () }
#[verifier::external_body] #[derive(Clone, Copy, PartialEq, Eq, Hash)] pub struct LuaSyntaxId { _p: () }
#[verifier::external_body] #[derive(PartialEq, Eq, Hash)] pub struct LuaMemberKey { _p: () }
#[verifier::external_body] #[derive(PartialEq, Eq, Hash)] pub struct SmolStr { _p: () }
impl Clone for LuaMemberKey { #[verifier::external_body] fn clone(&self) -> (r: Self) ensures r == *self { unimplemented!() } }
impl SmolStr {
    pub uninterp spec fn text(&self) -> Seq<char>;
    #[verifier::external_body] pub fn as_str(&self) -> (r: &str) ensures r@ == self.text() { unimplemented!() }
}
impl Clone for SmolStr { #[verifier::external_body] fn clone(&self) -> (r: Self) ensures r == *self { unimplemented!() } }
//@@ LuaDeclId
//@@ LuaOperatorId
//@@ LuaOperatorMetaMethod
//@@ LuaOperatorOwner
// type index: opaque payloads
#[verifier::external_body] pub struct LuaTypeCache { _p: () }
#[verifier::external_body] pub struct GenericParam { _p: () }
#[verifier::external_body] pub struct LuaType { _p: () }
// member index
#[verifier::external_body] pub struct LuaMember { _p: () }
//@@ LuaMemberId
//@@ LuaMemberIndexItem
//@@ LuaMemberOwner
//@@ MemberOrOwner
//@@ OwnerMemberStatus
//@@ LuaOperator
impl LuaOperator {
    //@@ LuaOperator::get_owner
    //@@ LuaOperator::get_op
}

pub open spec fn keys_ok() -> bool {
    &&& vstd::std_specs::hash::obeys_key_model::<FileId>()
    &&& vstd::std_specs::hash::obeys_key_model::<InFiled<TextRange>>()
    &&& vstd::std_specs::hash::obeys_key_model::<GlobalId>()
    &&& vstd::std_specs::hash::obeys_key_model::<LuaOperatorId>()
    &&& vstd::std_specs::hash::obeys_key_model::<LuaOperatorOwner>()
    &&& vstd::std_specs::hash::obeys_key_model::<LuaOperatorMetaMethod>()
    &&& vstd::std_specs::hash::obeys_key_model::<LuaMemberKey>()
    &&& vstd::std_specs::hash::obeys_key_model::<SmolStr>()
    &&& vstd::std_specs::hash::obeys_key_model::<LuaMemberId>()
    &&& vstd::std_specs::hash::obeys_key_model::<LuaMemberOwner>()
    &&& vstd::std_specs::hash::obeys_key_model::<MemberOrOwner>()
    &&& vstd::std_specs::hash::obeys_key_model::<LuaTypeDeclId>()
    &&& vstd::std_specs::hash::obeys_key_model::<LuaTypeOwner>()
    &&& vstd::std_specs::hash::obeys_key_model::<WorkspaceId>()
    &&& vstd::std_specs::hash::obeys_key_model::<String>()
}

// ---- std contracts (trusted, restated from the std documentation) ---------------------------------
/// HashSet::into_iter (the `for x in set` loops): yields every element exactly once, order unspecified (as in unit c10_remove)
#[verifier::external_body]
pub fn vx_set_into_vec<T>(s: HashSet<T>) -> (r: Vec<T>)
    ensures r@.to_set() == s@, r@.no_duplicates(),
{ s.into_iter().collect() }

pub open spec fn filter_by<T>(s: Seq<T>, keep: Seq<bool>) -> Seq<T>
    decreases s.len()
{
    if s.len() == 0 || keep.len() != s.len() { Seq::empty() }
    else if keep.last() { filter_by(s.drop_last(), keep.drop_last()).push(s.last()) }
    else { filter_by(s.drop_last(), keep.drop_last()) }
}

/// Vec::retain: "Retains only the elements specified by the predicate ... removes all elements e for which
/// f(&e) returns false. This method operates in place, visiting each element exactly once in the original
/// order, and preserves the order of the retained elements."  (same text as unit c36_exit)
pub assume_specification<T, A: Allocator, F: FnMut(&T) -> bool>[ Vec::<T, A>::retain ](v: &mut Vec<T, A>, f: F)
    requires
        forall|i: int| 0 <= i < old(v)@.len() ==> call_requires(f, (&#[trigger] old(v)@[i],)),
    ensures
        exists|keep: Seq<bool>| keep.len() == old(v)@.len()
            && (forall|i: int| 0 <= i < keep.len() ==> call_ensures(f, (&old(v)@[i],), #[trigger] keep[i]))
            && final(v)@ == filter_by(old(v)@, keep);

/// HashMap::retain: "Retains only the elements specified by the predicate. In other words, remove all pairs
/// (k, v) for which f(&k, &mut v) returns false. The elements are visited in unsorted (and unspecified) order."
/// Every old pair is handed to `f` once (value by `&mut`); the pair stays iff `f` returned true, with the
/// value as `f` left it; nothing is added.
pub assume_specification<K, V, S, A: Allocator, F: FnMut(&K, &mut V) -> bool>[ HashMap::<K, V, S, A>::retain ](m: &mut HashMap<K, V, S, A>, f: F)
    requires
        forall|k: K, v: &mut V| old(m)@.contains_key(k) && *v == old(m)@[k] ==> call_requires(f, (&k, v)),
    ensures
        vstd::std_specs::hash::obeys_key_model::<K>() && vstd::std_specs::hash::builds_valid_hashers::<S>() ==> {
            &&& forall|k: K| #[trigger] final(m)@.contains_key(k) ==> old(m)@.contains_key(k)
            &&& forall|k: K| #[trigger] old(m)@.contains_key(k) ==> exists|v: &mut V, keep: bool| *v == old(m)@[k]
                    && #[trigger] call_ensures(f, (&k, v), keep)
                    && final(m)@.contains_key(k) == keep && (keep ==> final(m)@[k] == *final(v))
        };

/// HashMap<String, V>::remove(&str): "Removes a key from the map ... The key may be any borrowed form of the map's key type, but
/// Hash and Eq on the borrowed form must match those for the key type" - String: Borrow<str>, equal iff same text.
/// vstd gives no meaning to a `&str` lookup in a String-keyed map; this helper (its body is that very call) carries the contract.
#[verifier::external_body]
pub fn vx_remove_str_key<V>(m: &mut HashMap<String, V>, k: &str) -> (r: Option<V>)
    ensures
        forall|s: String| #[trigger] final(m)@.contains_key(s) <==> old(m)@.contains_key(s) && s@ != k@,
        forall|s: String| #[trigger] final(m)@.contains_key(s) ==> final(m)@[s] == old(m)@[s],
{ m.remove(k) }

/// HashMap::get_mut: "Returns a mutable reference to the value corresponding to the key." For a present key the
/// reference points at the stored value (`*v` is the old value) and whatever is written through it is the value
/// stored under that same key when the borrow ends (`final(v)`); every other entry is untouched. An absent key
/// gives None and leaves the map alone. `kk` is the stored key that `k` borrows-equals (K = Q at every call site
/// here, where vstd's `contains_borrowed_key` on the singleton map is plain key equality).
pub assume_specification<'a, K: Eq + Hash + Borrow<Q>, V, S: BuildHasher, A: Allocator, Q: Hash + Eq + ?Sized>[ HashMap::<K, V, S, A>::get_mut ](m: &'a mut HashMap<K, V, S, A>, k: &Q) -> (r: Option<&'a mut V>)
    ensures
        vstd::std_specs::hash::obeys_key_model::<K>() && vstd::std_specs::hash::builds_valid_hashers::<S>() ==> match r {
            Some(v) => vstd::std_specs::hash::contains_borrowed_key(old(m)@, k)
                && vstd::std_specs::hash::maps_borrowed_key_to_value(old(m)@, k, *v)
                && exists|kk: K| #[trigger] old(m)@.contains_key(kk) && old(m)@[kk] == *v
                    && vstd::std_specs::hash::contains_borrowed_key(Map::<K, V>::empty().insert(kk, *v), k)
                    && final(m)@ == old(m)@.insert(kk, *final(v)),
            None => !vstd::std_specs::hash::contains_borrowed_key(old(m)@, k) && final(m)@ == old(m)@,
        };

/// HashMap::iter_mut / IterMut::next: "An iterator visiting all key-value pairs in arbitrary order, with mutable
/// references to the values. The iterator element type is (&'a K, &'a mut V)."  Ghost model of the iterator:
/// `im_keys` the (unspecified) order in which the keys are yielded - every key of the map exactly once -, `im_pos` how many
/// were yielded, `im_old` the map when the iterator was made, `im_fin` the map when the borrow ends (a prophecy,
/// like `final(m)`). `next` hands out the next key with a `&mut` to its value: the reference starts at the old value
/// and whatever it holds when it expires is the value stored under that key when the borrow ends. Keys are not
/// added or removed. Nothing is said about values whose reference was never handed out.
#[verifier::reject_recursive_types(K)]
#[verifier::reject_recursive_types(V)]
#[verifier::external_type_specification]
#[verifier::external_body]
pub struct ExIterMut<'a, K: 'a, V: 'a>(IterMut<'a, K, V>);
pub uninterp spec fn im_keys<'a, K, V>(it: IterMut<'a, K, V>) -> Seq<K>;
pub uninterp spec fn im_pos<'a, K, V>(it: IterMut<'a, K, V>) -> int;
pub uninterp spec fn im_old<'a, K, V>(it: IterMut<'a, K, V>) -> Map<K, V>;
pub uninterp spec fn im_fin<'a, K, V>(it: IterMut<'a, K, V>) -> Map<K, V>;
pub assume_specification<'a, K, V, S, A: Allocator>[ HashMap::<K, V, S, A>::iter_mut ](m: &'a mut HashMap<K, V, S, A>) -> (it: IterMut<'a, K, V>)
    ensures
        vstd::std_specs::hash::obeys_key_model::<K>() && vstd::std_specs::hash::builds_valid_hashers::<S>() ==> {
            &&& im_pos(it) == 0 &&& im_old(it) == old(m)@ &&& im_fin(it) == final(m)@
            &&& im_keys(it).no_duplicates() &&& im_keys(it).to_set() == old(m)@.dom()
            &&& final(m)@.dom() == old(m)@.dom()
        };
pub assume_specification<'a, K, V>[ <IterMut<'a, K, V> as Iterator>::next ](it: &mut IterMut<'a, K, V>) -> (r: Option<(&'a K, &'a mut V)>)
    ensures
        im_keys(*final(it)) == im_keys(*old(it)), im_old(*final(it)) == im_old(*old(it)), im_fin(*final(it)) == im_fin(*old(it)),
        match r {
            Some((k, v)) => im_pos(*old(it)) < im_keys(*old(it)).len() && *k == im_keys(*old(it))[im_pos(*old(it))]
                && *v == im_old(*old(it))[*k] && *final(v) == im_fin(*old(it))[*k] && im_pos(*final(it)) == im_pos(*old(it)) + 1,
            None => im_pos(*old(it)) >= im_keys(*old(it)).len() && im_pos(*final(it)) == im_pos(*old(it)),
        };

//@@include c10_remove2/lemmas.rs

// ---- property vocabulary ----------------------------------------------------------------------------
/// the decl ids of a global that do not belong to file `f`, in their original order
pub open spec fn decls_not_of(s: Seq<LuaDeclId>, f: FileId) -> Seq<LuaDeclId> { s.filter(|d: LuaDeclId| d.file_id != f) }

/// metatable index invariant established by its only writer (`analyze_setmetatable` adds
/// `InFiled::new(file_id, table_range) -> InFiled::new(file_id, metatable_range)` with one and the same file_id)
pub open spec fn metatable_cofiled(m: Map<InFiled<TextRange>, InFiled<TextRange>>) -> bool {
    forall|k: InFiled<TextRange>| #[trigger] m.contains_key(k) ==> m[k].file_id == k.file_id
}

//@@include c10_remove2/operator_spec.rs
//@@include c10_remove2/reference_spec.rs
//@@ LuaOwnerMembers
impl LuaOwnerMembers {
    //@@ LuaOwnerMembers::remove_member
    //@@ LuaOwnerMembers::is_empty
}
//@@include c10_remove2/member_spec.rs
//@@ LuaTypeOwner
//@@ LuaDeclLocation
//@@ LuaTypeDecl
impl LuaTypeDecl {
    //@@ LuaTypeDecl::get_mut_locations
}
//@@include c10_remove2/type_spec.rs

// ---- extracted from /repo --------------------------------------------------------------------------
//@@ LuaMetatableIndex
impl LuaMetatableIndex {
    //@@ LuaMetatableIndex::remove
}
//@@ LuaGlobalIndex
impl LuaGlobalIndex {
    //@@ LuaGlobalIndex::remove
}
//@@ LuaOperatorIndex
pub open spec fn op_listed(s: &LuaOperatorIndex, f: FileId) -> Seq<LuaOperatorId> {
    if s.in_filed_operator_map@.contains_key(f) { s.in_filed_operator_map@[f]@ } else { Seq::empty() }
}
impl LuaOperatorIndex {
    //@@ LuaOperatorIndex::remove
}
//@@ LuaReferenceIndex
impl LuaReferenceIndex {
    //@@ LuaReferenceIndex::remove
}
//@@ LuaMemberIndex
pub open spec fn mo_listed(s: &LuaMemberIndex, f: FileId) -> Set<MemberOrOwner> {
    if s.in_filed@.contains_key(f) { s.in_filed@[f]@ } else { Set::empty() }
}
impl LuaMemberIndex {
    //@@ LuaMemberIndex::remove
}
//@@ LuaTypeIndex
//@@include c10_remove2/type_post.rs
//@@include c10_remove2/type_sweep_spec.rs
impl LuaTypeIndex {
    //@@ LuaTypeIndex::remove_type_decl_name
    //@@ LuaTypeIndex::remove
}

// ---- DbIndex::remove: the delegation to the five indexes of this unit -----------------------------------
// the other indexes: keyed directly by file -> unit c10_remove; module / json-schema: no contract here (not_covered)
#[verifier::external_body] pub struct LuaDeclIndex { _p: () }
#[verifier::external_body] pub struct LuaModuleIndex { _p: () }
#[verifier::external_body] pub struct LuaPropertyIndex { _p: () }
#[verifier::external_body] pub struct LuaSignatureIndex { _p: () }
#[verifier::external_body] pub struct DiagnosticIndex { _p: () }
#[verifier::external_body] pub struct LuaFlowIndex { _p: () }
#[verifier::external_body] pub struct LuaDependencyIndex { _p: () }
#[verifier::external_body] pub struct JsonSchemaIndex { _p: () }
impl LuaDeclIndex { #[verifier::external_body] pub fn remove(&mut self, file_id: FileId) { unimplemented!() } }
impl LuaModuleIndex { #[verifier::external_body] pub fn remove(&mut self, file_id: FileId) { unimplemented!() } }
impl LuaPropertyIndex { #[verifier::external_body] pub fn remove(&mut self, file_id: FileId) { unimplemented!() } }
impl LuaSignatureIndex { #[verifier::external_body] pub fn remove(&mut self, file_id: FileId) { unimplemented!() } }
impl DiagnosticIndex { #[verifier::external_body] pub fn remove(&mut self, file_id: FileId) { unimplemented!() } }
impl LuaFlowIndex { #[verifier::external_body] pub fn remove(&mut self, file_id: FileId) { unimplemented!() } }
impl LuaDependencyIndex { #[verifier::external_body] pub fn remove(&mut self, file_id: FileId) { unimplemented!() } }
impl JsonSchemaIndex { #[verifier::external_body] pub fn remove(&mut self, file_id: FileId) { unimplemented!() } }

pub open spec fn removed_metatable(o: &LuaMetatableIndex, n: &LuaMetatableIndex, f: FileId) -> bool {
    &&& forall|k: InFiled<TextRange>| #[trigger] n.metatables@.contains_key(k) <==> o.metatables@.contains_key(k) && k.file_id != f
    &&& forall|k: InFiled<TextRange>| #[trigger] n.metatables@.contains_key(k) ==> n.metatables@[k] == o.metatables@[k]
}
pub open spec fn removed_global(o: &LuaGlobalIndex, n: &LuaGlobalIndex, f: FileId) -> bool {
    &&& forall|k: GlobalId| #[trigger] n.global_decl@.contains_key(k) <==> o.global_decl@.contains_key(k) && decls_not_of(o.global_decl@[k]@, f).len() > 0
    &&& forall|k: GlobalId| #[trigger] n.global_decl@.contains_key(k) ==> n.global_decl@[k]@ == decls_not_of(o.global_decl@[k]@, f)
}
pub open spec fn removed_operator(o: &LuaOperatorIndex, n: &LuaOperatorIndex, f: FileId) -> bool {
    op_wf(o.operators@, o.type_operators_map@, o.in_filed_operator_map@) ==>
        op_removed(o.operators@, o.type_operators_map@, o.in_filed_operator_map@, n.operators@, n.type_operators_map@, n.in_filed_operator_map@, f)
        && op_wf(n.operators@, n.type_operators_map@, n.in_filed_operator_map@)
}
pub open spec fn removed_reference(o: &LuaReferenceIndex, n: &LuaReferenceIndex, f: FileId) -> bool {
    &&& swept(o.index_reference@, n.index_reference@, f) &&& swept(o.global_references@, n.global_references@, f)
    &&& dropped(o.file_references@, n.file_references@, f) &&& dropped(o.string_references@, n.string_references@, f)
    &&& dropped(o.type_references@, n.type_references@, f) &&& dropped(o.label_references@, n.label_references@, f)
}
pub open spec fn removed_member(o: &LuaMemberIndex, n: &LuaMemberIndex, f: FileId) -> bool {
    member_wf(o.members@, o.member_current_owner@, o.owner_members@, o.in_filed@) ==>
        member_removed(o.members@, o.member_current_owner@, o.owner_members@, o.in_filed@, n.members@, n.member_current_owner@, n.owner_members@, n.in_filed@, f)
        && member_wf(n.members@, n.member_current_owner@, n.owner_members@, n.in_filed@)
}
/// type index: exact post-state of all eleven maps in terms of the ids / owners listed under the file
pub open spec fn removed_type(o: &LuaTypeIndex, n: &LuaTypeIndex, f: FileId) -> bool {
    &&& dropped(o.file_namespace@, n.file_namespace@, f) &&& dropped(o.file_using_namespace@, n.file_using_namespace@, f)
    &&& dropped(o.file_types@, n.file_types@, f) &&& dropped(o.in_filed_type_owner@, n.in_filed_type_owner@, f)
    &&& decl_inv(o.full_name_type_map@, n.full_name_type_map@, o.generic_params@, n.generic_params@, ty_listed(o, f), ty_listed(o, f).len() as int, f)
    &&& sup_after(o.supers@, n.supers@, ty_listed(o, f), ty_listed(o, f).len() as int, f)
    &&& sup_swept(o.supers@, n.supers@, f) && sup_clean(n.supers@, f)
    &&& forall|w: LuaTypeOwner| #[trigger] n.types@.contains_key(w) <==> o.types@.contains_key(w) && !ty_owners(o, f).contains(w)
    &&& forall|w: LuaTypeOwner| #[trigger] n.types@.contains_key(w) ==> n.types@[w] == o.types@[w]
    &&& names_inv(o.full_name_type_map@, ty_listed(o, f), ty_listed(o, f).len() as int, f, o.global_name_type_map@, n.global_name_type_map@,
                  o.internal_name_type_map@, n.internal_name_type_map@, o.local_name_type_map@, n.local_name_type_map@)
    &&& type_wf(o) ==> type_removed(o, n, f)
}
//@@ DbIndex
impl DbIndex {
    //@@ DbIndex::remove
}

} // verus!
fn main() {}
