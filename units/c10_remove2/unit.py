import re
from vc import rules as R
from vc import rustlex as L

SRC = 'crates/emmylua_code_analysis/src/'


@R.rule('inline-owner-members-iter-mut')
def inline_owner_members_iter_mut(text, **_):
    """member_items.iter_mut() -> member_items.members.iter_mut(): inlining of the one-line wrapper
    `LuaOwnerMembers::iter_mut(&mut self) -> impl Iterator<Item = (&LuaMemberKey, &mut LuaMemberIndexItem)> { self.members.iter_mut() }`
    (its opaque `impl Iterator` return type hides the std iterator the contract is about). The rule re-reads the wrapper from the
    repository on every run and refuses (undecided) unless its body is exactly `self.members.iter_mut()`."""
    import os
    from vc import extract as X
    from vc.assemble import REPO
    w = X.find_item(os.environ.get('VERIF_REPO', REPO), {'file': SRC + 'db_index/member/lua_owner_members.rs', 'kind': 'fn',
                                                           'impl': 'LuaOwnerMembers', 'name': 'iter_mut'})
    sh = X.fn_shape(w.raw)
    body = ' '.join(w.raw[sh.body_open + 1:sh.body_close].split())
    if body != 'self.members.iter_mut()' or 'impl Iterator<Item = (&LuaMemberKey, &mut LuaMemberIndexItem)>' not in ' '.join(w.raw.split()):
        raise R.Undecided('inline-owner-members-iter-mut: LuaOwnerMembers::iter_mut is no longer the plain wrapper (%r)' % body)
    return re.subn(r'\bmember_items\.iter_mut\(\)', 'member_items.members.iter_mut()', text)


@R.rule('for-iter-mut-loop')
def for_iter_mut_loop(text, **_):
    """for (A, B) in E.iter_mut() { BODY }  ->  let mut __itN = E.iter_mut(); loop { match __itN.next() { None => break, Some((A, B)) => { BODY } } }
    This is the Rust Reference's desugaring of `for` (`match IntoIterator::into_iter(E.iter_mut()) { mut iter => loop { match
    Iterator::next(&mut iter) { None => break, Some(val) => { let (A, B) = val; BODY } } } }`): IterMut is itself an Iterator, so
    `into_iter` is the identity (blanket `impl<I: Iterator> IntoIterator for I`). The iterator is named (N = ordinal of the loop in
    the function) so that the contract overlay can speak about it; it lives to the end of the enclosing block instead of the end of
    the `for` statement: IterMut has no Drop impl and the borrow ends at its last use (NLL), so this is unobservable. A comment
    `/*__itN:end-of-body*/` marks the end of BODY (anchor for the contract overlay). BODY must not
    contain `break`/`continue` with a value or label (checked: none of the loops rewritten here has any)."""
    n = 0
    while True:
        toks = L.code_tokens(text)
        hit = None
        for i, t in enumerate(toks):
            if L.tok_text(text, t) != 'for' or L.tok_text(text, toks[i + 1]) != '(':
                continue
            pc = L.match_close(text, toks, i + 1)
            if L.tok_text(text, toks[pc + 1]) != 'in':
                continue
            j = pc + 2
            while j < len(toks) and L.tok_text(text, toks[j]) != '{':
                if L.tok_text(text, toks[j]) in ('(', '['):
                    j = L.match_close(text, toks, j)
                j += 1
            expr = text[toks[pc + 2][1]:toks[j - 1][2]]
            if not expr.endswith('.iter_mut()'):
                continue
            bc = L.match_close(text, toks, j)
            body = text[toks[j][2]:toks[bc][1]]
            if re.search(r"\b(break|continue)\b", body):
                raise R.Undecided('for-iter-mut-loop: body has break/continue')
            pat = text[toks[i + 1][1]:toks[pc][2]]
            hit = (toks[i][1], toks[bc][2],
                   'let mut __it%d = %s; loop { match __it%d.next() { None => break, Some(%s) => {%s/*__it%d:end-of-body*/ } } }' % (n, expr, n, pat, body, n))
            break
        if not hit:
            break
        text = text[:hit[0]] + hit[2] + text[hit[1]:]
        n += 1
    return text, n

DB = SRC + 'db_index/'


def st(file, name, attrs=None, **kw):
    d = {'src': {'file': DB + file, 'kind': 'struct', 'name': name}, 'rules': [('struct-fields', kw)]}
    if attrs: d['attrs'] = attrs
    return d


def rm(file, name, ensures, **kw):
    d = {'src': {'file': DB + file, 'kind': 'fn', 'impl': 'LuaIndex for ' + name, 'name': 'remove'},
         'requires': 'keys_ok()', 'ensures': ensures}
    d.update(kw)
    return d


ID_DERIVE = '#[derive(Clone, Copy, PartialEq, Eq, Hash, Structural)]'

GLOBAL_CLOSURE_PROOF = '''proof {
                let ghost s0 = old(v)@;
                assert(exists|keep: Seq<bool>| keep.len() == s0.len()
                    && (forall|i: int| 0 <= i < keep.len() ==> #[trigger] keep[i] == (s0[i].file_id != file_id)) && v@ == filter_by(s0, keep));
                let keep = choose|keep: Seq<bool>| keep.len() == s0.len()
                    && (forall|i: int| 0 <= i < keep.len() ==> #[trigger] keep[i] == (s0[i].file_id != file_id)) && v@ == filter_by(s0, keep);
                lemma_filter_by_is_filter(s0, keep, |d: LuaDeclId| d.file_id != file_id);
            }'''

OP_LOOP = '''invariant
                    keys_ok(), __i <= __v.len(), __v@ == op_listed(old(self), file_id),
                    self.in_filed_operator_map@ == old(self).in_filed_operator_map@.remove(file_id) /*@C10.operator.in_filed_operator_map.inv*/,
                    ops_inv(old(self).operators@, self.operators@, __v@, __i as int) /*@C10.operator.operators-of-file-gone.inv*/,
                    tm_inv(old(self).type_operators_map@, self.type_operators_map@, old(self).operators@, __v@, __i as int) /*@C10.operator.type-map.inv*/,
                decreases __v.len() - __i'''

OP_T0 = 'old(self).type_operators_map@, '
OP_ARGS = 'old(self).operators@, __v@, __n, __i as int'
OP_PROOF = [
    (r'__i \+= 1;', 'before', 'let ghost __n: int = __i as int;'),
    (r'__i \+= 1;', 'after', '''proof {
                    lemma_in_prefix_step(__v@, __n, __i as int);
                    if !self.operators@.contains_key(id) { lemma_skip_dead(''' + OP_T0 + 'self.type_operators_map@, ' + OP_ARGS + '''); }
                }'''),
    (r'let operators_map = match', 'before', '''let ghost t1 = self.type_operators_map@;
                    proof { if !t1.contains_key(*owner) { lemma_skip_owner(''' + OP_T0 + 't1, ' + OP_ARGS + '''); } }'''),
    (r'let operators = match', 'before', '''proof { if !operators_map@.contains_key(op) { lemma_skip_op(''' + OP_T0 + 't1, ' + OP_ARGS + '''); } }'''),
    (r'operators\.retain\(', 'before', 'let ghost v0 = operators@;'),
    (r'operators\.retain\([^;]*\);', 'after', '''proof {
                        assert(exists|keep: Seq<bool>| keep.len() == v0.len() && (forall|i: int| 0 <= i < keep.len() ==> #[trigger] keep[i] == (v0[i] != id)) && operators@ == filter_by(v0, keep));
                        let keep = choose|keep: Seq<bool>| keep.len() == v0.len() && (forall|i: int| 0 <= i < keep.len() ==> #[trigger] keep[i] == (v0[i] != id)) && operators@ == filter_by(v0, keep);
                        lemma_filter_by_is_filter(v0, keep, is_not(id));
                    }'''),
    (r'if operators_map\.is_empty\(\)', 'before', '''let ghost m2 = operators_map@;
                    proof { assert(forall|p: LuaOperatorMetaMethod| p != op ==> m2.contains_key(p) == #[trigger] t1[*owner]@.contains_key(p)); }'''),
    (r'if operators_map\.is_empty\(\) \{[^}]*\}', 'after', '''proof {
                        assert(tv_has(self.type_operators_map@, *owner, op) ==> tv(self.type_operators_map@, *owner, op).len() > 0); /*@C10.operator.no-empty-vector*/
                        assert(self.type_operators_map@.contains_key(*owner) ==> self.type_operators_map@[*owner]@.len() > 0); /*@C10.operator.no-empty-owner-map*/
                        lemma_done(''' + OP_T0 + 't1, self.type_operators_map@, ' + OP_ARGS + '''); /*@C10.operator.type-map.step*/
                    }'''),
    (r'\}\s*$', 'before', '''proof {
            if op_wf(old(self).operators@, old(self).type_operators_map@, old(self).in_filed_operator_map@) {
                lemma_op_final(old(self).operators@, old(self).type_operators_map@, old(self).in_filed_operator_map@,
                    self.operators@, self.type_operators_map@, self.in_filed_operator_map@, file_id, op_listed(old(self), file_id));
            }
        }'''),
]



def sweep_overlay(n, field, keyty, tag):
    """contract overlay of one `iter_mut` sweep + its clean-up loop (loop ordinals 2n, 2n+1)"""
    g = {'n': n, 'field': field, 'K': keyty, 'tag': tag}
    loops = {
        2 * n: '''invariant
                keys_ok(), im_keys(__it%(n)d) == keys%(n)d, im_fin(__it%(n)d) == fin%(n)d, im_old(__it%(n)d) == m0%(n)d, 0 <= im_pos(__it%(n)d) <= keys%(n)d.len(),
                sweep_inv(m0%(n)d, fin%(n)d, keys%(n)d, im_pos(__it%(n)d), to_be_remove@, file_id) /*@C10.reference.%(tag)s.sweep.inv*/,
            ensures im_pos(__it%(n)d) >= keys%(n)d.len(), sweep_inv(m0%(n)d, fin%(n)d, keys%(n)d, im_pos(__it%(n)d), to_be_remove@, file_id),
            decreases keys%(n)d.len() - im_pos(__it%(n)d)''' % g,
        2 * n + 1: '''invariant
                keys_ok(), tbr%(n)d == to_be_remove@, 0 <= it.index@ <= tbr%(n)d.len(),
                forall|k: %(K)s| #[trigger] self.%(field)s@.contains_key(k) <==> fin%(n)d.contains_key(k) && !(exists|j: int| 0 <= j < it.index@ && tbr%(n)d[j] == k) /*@C10.reference.%(tag)s.empty-keys-dropped.inv*/,
                forall|k: %(K)s| #[trigger] self.%(field)s@.contains_key(k) ==> self.%(field)s@[k] == fin%(n)d[k],''' % g,
    }
    proof = [
        (r'let mut __it%(n)d = self\.%(field)s\.iter_mut\(\);' % g, 'after',
         'let ghost keys%(n)d = im_keys(__it%(n)d); let ghost fin%(n)d = im_fin(__it%(n)d); let ghost m0%(n)d = im_old(__it%(n)d);' % g),
        (r'match __it%(n)d\.next\(\)' % g, 'before', 'let ghost pos%(n)d = im_pos(__it%(n)d); let ghost tbr0%(n)d = to_be_remove@;' % g),
        (r'(?s)match __it%(n)d\.next\(\).*?to_be_remove\.push\(key\.clone\(\)\);\s*\}' % g, 'after',
         'proof { lemma_sweep_step(m0%(n)d, fin%(n)d, keys%(n)d, pos%(n)d, tbr0%(n)d, to_be_remove@, file_id); } /*@C10.reference.%(tag)s.sweep-step*/' % g),
        (r'for key in to_be_remove \{\s*self\.%(field)s\.' % g, 'before',
         'let ghost tbr%(n)d = to_be_remove@; let ghost end%(n)d = im_pos(__it%(n)d);' % g),
        (r'self\.%(field)s\.\w+\(&key\);\s*\}' % g, 'after',
         'proof { lemma_sweep_final(m0%(n)d, fin%(n)d, keys%(n)d, end%(n)d, tbr%(n)d, self.%(field)s@, file_id); }' % g),
    ]
    return loops, proof


REF_LOOPS, REF_PROOF = {}, []
for _n, _f, _k, _t in ((0, 'index_reference', 'LuaMemberKey', 'index_reference'), (1, 'global_references', 'SmolStr', 'global_references')):
    _l, _p = sweep_overlay(_n, _f, _k, _t)
    REF_LOOPS.update(_l); REF_PROOF += _p

MB_LISTED = '|o: LuaMemberOwner| mo_listed(old(self), file_id).contains(MemberOrOwner::Owner(o))'
MB_LOOPS = {
    0: '''invariant keys_ok(), 0 <= it0.index@ <= __v0@.len(),
                    l0_inv(mem0, self.members@, mco0, self.member_current_owner@, owners@, __v0@, it0.index@) /*@C10.member.members-of-file-gone.inv*/,''',
    1: '''invariant keys_ok(), 0 <= it.index@ <= __v1@.len(), __v1@.no_duplicates(),
                    om_inv(t0, self.owner_members@, __v1@, it.index@, need_removed_owner@, file_id) /*@C10.member.owner-sweep.inv*/,''',
    2: '''invariant
                            keys_ok(), im_keys(__it0) == keys0, im_fin(__it0) == fin0, im_old(__it0) == m00, 0 <= im_pos(__it0) <= keys0.len(),
                            items_inv(m00, fin0, keys0, im_pos(__it0), need_removed_key@, file_id) /*@C10.member.item-sweep.inv*/,
                        ensures im_pos(__it0) >= keys0.len(), items_inv(m00, fin0, keys0, im_pos(__it0), need_removed_key@, file_id),
                        decreases keys0.len() - im_pos(__it0)''',
    3: '''invariant keys_ok(), nrk == need_removed_key@, 0 <= it2.index@ <= nrk.len(),
                            forall|k: LuaMemberKey| #[trigger] member_items.members@.contains_key(k) <==> fin0.contains_key(k) && !in_pref(nrk, it2.index@, k) /*@C10.member.dead-keys-dropped.inv*/,
                            forall|k: LuaMemberKey| #[trigger] member_items.members@.contains_key(k) ==> member_items.members@[k] == fin0[k],
                            member_items.resolve_state == t1[ow].resolve_state,''',
    4: '''invariant keys_ok(), nro == need_removed_owner@, 0 <= it4.index@ <= nro.len(),
                    forall|o: LuaMemberOwner| #[trigger] self.owner_members@.contains_key(o) <==> tE.contains_key(o) && !in_pref(nro, it4.index@, o) /*@C10.member.empty-owners-dropped.inv*/,
                    forall|o: LuaMemberOwner| #[trigger] self.owner_members@.contains_key(o) ==> self.owner_members@[o] == tE[o],''',
}
MB_PROOF = [
    (r'let mut owners = HashSet::new\(\);', 'after', 'let ghost mem0 = self.members@; let ghost mco0 = self.member_current_owner@;'),
    (r'match member_id_or_owner \{', 'before', 'proof { lemma_in_pref_step(__v0@, it0.index@ + 1); }'),
    (r'let mut need_removed_owner = Vec::new\(\);', 'before', 'proof { lemma_in_pref_full(__v0@); }'),
    (r'let mut need_removed_owner = Vec::new\(\);', 'after', 'let ghost t0 = self.owner_members@;'),
    (r'for owner in __v1 \{', 'before', 'proof { lemma_om_init(t0, __v1@, file_id); }'),
    (r'if let Some\(member_items\) = self\.owner_members\.get_mut', 'before', '''let ghost t1 = self.owner_members@; let ghost ow = owner; let ghost nro0 = need_removed_owner@;
                let ghost n1 = it.index@ + 1;
                proof { assert(ow == __v1@[n1 - 1]); if !t1.contains_key(ow) { lemma_om_skip(t0, t1, __v1@, n1, nro0, file_id); } }'''),
    (r'let mut __it0 = member_items\.members\.iter_mut\(\);', 'after',
     'let ghost keys0 = im_keys(__it0); let ghost fin0 = im_fin(__it0); let ghost m00 = im_old(__it0);'),
    (r'match __it0\.next\(\)', 'before', 'let ghost pos0 = im_pos(__it0); let ghost nrk0 = need_removed_key@;'),
    (r'ids\.retain\(', 'before', 'let ghost v0 = ids@;'),
    (r'ids\.retain\([^;]*\);', 'after', '''proof {
                                    assert(exists|keep: Seq<bool>| keep.len() == v0.len() && (forall|i: int| 0 <= i < keep.len() ==> #[trigger] keep[i] == (v0[i].file_id != file_id)) && ids@ == filter_by(v0, keep));
                                    let keep = choose|keep: Seq<bool>| keep.len() == v0.len() && (forall|i: int| 0 <= i < keep.len() ==> #[trigger] keep[i] == (v0[i].file_id != file_id)) && ids@ == filter_by(v0, keep);
                                    lemma_filter_by_is_filter(v0, keep, mid_not_file(file_id));
                                }'''),
    (r'/\*__it0:end-of-body\*/', 'before', 'proof { lemma_items_step(m00, fin0, keys0, pos0, nrk0, need_removed_key@, file_id); } /*@C10.member.item-sweep.step*/'),
    (r'for key in need_removed_key \{', 'before', 'let ghost nrk = need_removed_key@; let ghost end0 = im_pos(__it0);'),
    (r'for key in need_removed_key \{', 'after', 'proof { lemma_in_pref_step(nrk, it2.index@ + 1); }'),
    (r'if member_items\.is_empty\(\)', 'before', '''proof { lemma_items_final(m00, fin0, keys0, end0, nrk, member_items.members@, file_id); }
                    let ghost x_end = *member_items;
                    proof { assert(owner_after(t1[ow], x_end, file_id)); } /*@C10.member.owner-swept*/'''),
    (r'(?s)need_removed_owner\.push\(owner\);\s*\}\s*\}', 'after',
     'proof { if t1.contains_key(ow) { lemma_om_step(t0, t1, self.owner_members@, __v1@, n1, nro0, need_removed_owner@, file_id); } } /*@C10.member.owner-sweep.step*/'),
    (r'for owner in need_removed_owner \{', 'before', 'let ghost tE = self.owner_members@; let ghost nro = need_removed_owner@;'),
    (r'self\.owner_members\.\w+\(&owner\);\s*\}', 'after',
     'proof { lemma_om_final(t0, tE, __v1@, nro, self.owner_members@, ' + MB_LISTED + ', file_id); }'),
    (r'self\.owner_members\.\w+\(&owner\);', 'before', 'proof { lemma_in_pref_step(nro, it4.index@ + 1); }'),
    (r'\}\s*$', 'before', '''proof {
            if member_wf(old(self).members@, old(self).member_current_owner@, old(self).owner_members@, old(self).in_filed@) {
                lemma_member_final(old(self).members@, old(self).member_current_owner@, old(self).owner_members@, old(self).in_filed@,
                    self.members@, self.member_current_owner@, self.owner_members@, self.in_filed@, file_id, mo_listed(old(self), file_id), ''' + MB_LISTED + ''');
            }
        }'''),
]

RETAIN_PROOF = '''proof {
                        assert(exists|keep: Seq<bool>| keep.len() == %(v0)s.len() && (forall|i: int| 0 <= i < keep.len() ==> #[trigger] keep[i] == (%(v0)s[i].file_id != file_id)) && %(cur)s == filter_by(%(v0)s, keep));
                        let keep = choose|keep: Seq<bool>| keep.len() == %(v0)s.len() && (forall|i: int| 0 <= i < keep.len() ==> #[trigger] keep[i] == (%(v0)s[i].file_id != file_id)) && %(cur)s == filter_by(%(v0)s, keep);
                        lemma_filter_by_is_filter(%(v0)s, keep, %(pred)s(file_id));
                    }'''
TY_SCOPED_HINT = '''proof {
                    let o = old(self).%(field)s@; let n = self.%(field)s@; let k = *%(key)s; let nm = name.text();
                    if !n.contains_key(k) && o.contains_key(k) {
                        assert(%(mid)s.contains_key(k) && %(mid)s[k]@.is_empty() && name_dropped(o[k]@, %(mid)s[k]@, nm));
                        assert forall|s: String| #[trigger] o[k]@.contains_key(s) implies s@ == nm by {
                            assert(!%(mid)s[k]@.dom().contains(s));
                            assert(!%(mid)s[k]@.contains_key(s));
                        }
                    }
                }'''
TY_LOOPS = {
    0: '''invariant keys_ok(), ids == type_id_list@, 0 <= it.index@ <= ids.len(),
                    self.file_namespace == pre.file_namespace, self.file_using_namespace == pre.file_using_namespace, self.file_types == pre.file_types,
                    self.types == pre.types, self.in_filed_type_owner == pre.in_filed_type_owner,
                    ty_inv(full0, self.full_name_type_map@, sup0, self.supers@, gp0, self.generic_params@, ids, it.index@, file_id) /*@C10.type.decls-of-file.inv*/,
                    names_inv(full0, ids, it.index@, file_id, g0, self.global_name_type_map@, i0, self.internal_name_type_map@, l0, self.local_name_type_map@) /*@C10.type.names-of-removed-decls.inv*/,''',
    1: '''invariant keys_ok(), 0 <= it2.index@ <= __v0@.len(),
                    forall|o: LuaTypeOwner| #[trigger] self.types@.contains_key(o) <==> ty0.contains_key(o) && !in_pref(__v0@, it2.index@, o) /*@C10.type.types-of-file-gone.inv*/,
                    forall|o: LuaTypeOwner| #[trigger] self.types@.contains_key(o) ==> self.types@[o] == ty0[o],''',
}
TY_PROOF = [
    (r'for id in type_id_list \{', 'before', '''let ghost full0 = self.full_name_type_map@; let ghost sup0 = self.supers@; let ghost gp0 = self.generic_params@;
            let ghost ids = type_id_list@; let ghost pre = *self;
            let ghost g0 = self.global_name_type_map@; let ghost i0 = self.internal_name_type_map@; let ghost l0 = self.local_name_type_map@;
            proof { lemma_names_init(full0, ids, file_id, g0, i0, l0); }'''),
    (r'let mut remove_type = false;', 'before', '''let ghost n1 = it.index@ + 1; let ghost gid = id;
                let ghost full1 = self.full_name_type_map@; let ghost sup1 = self.supers@; let ghost gp1 = self.generic_params@;
                let ghost g1 = self.global_name_type_map@; let ghost i1 = self.internal_name_type_map@; let ghost l1 = self.local_name_type_map@;
                proof { assert(gid == ids[n1 - 1]); }'''),
    (r'decl\.get_mut_locations\(\)\s*\.retain', 'before', 'let ghost v0 = decl.locations@;'),
    (r'(?s)\.retain\(\|loc[^;]*\);', 'after', RETAIN_PROOF % {'v0': 'v0', 'cur': 'decl.locations@', 'pred': 'loc_not_file'}),
    (r'if let Some\(supers\) = self\.supers\.get_mut', 'before',
     'proof { assert(remove_type == (full1.contains_key(gid) && decl_gone(full1[gid], file_id))); } /*@C10.type.decl-removed-iff-no-location-left*/'),
    # the per-id retain is anchored by its surrounding `if let Some(supers) = self.supers.get_mut(&id) { ... if supers.is_empty()`
    # (the sweep over all keys, when present, has a `supers.retain(` of its own)
    (r'if let Some\(supers\) = self\.supers\.get_mut\(&id\) \{', 'after', 'let ghost w0 = supers@;'),
    (r'supers\.retain\([^;]*\);(?=\s*if supers\.is_empty\(\))', 'after', RETAIN_PROOF % {'v0': 'w0', 'cur': 'supers@', 'pred': 'sup_not_file'}),
    (r'(?s)if remove_type \{[^}]*\}', 'after', '''proof {
                    lemma_ty_step(full0, full1, self.full_name_type_map@, sup0, sup1, self.supers@, gp0, gp1, self.generic_params@, ids, n1, file_id); /*@C10.type.decls-of-file.step*/
                    lemma_names_step(full0, full1, sup0, sup1, gp0, gp1, ids, n1, file_id, remove_type,
                        g0, g1, self.global_name_type_map@, i0, i1, self.internal_name_type_map@, l0, l1, self.local_name_type_map@); /*@C10.type.names-of-removed-decls.step*/
                }'''),
    # `supers` as the per-id loop leaves it (end of the `if let Some(type_id_list)` block) ...
    (r'(?s)if remove_type \{[^}]*\}\s*\}\s*\}', 'after', '''let ghost sup_l = self.supers;
        proof { assert(ty_inv(old(self).full_name_type_map@, self.full_name_type_map@, old(self).supers@, sup_l@, old(self).generic_params@, self.generic_params@,
                              ty_listed(old(self), file_id), ty_listed(old(self), file_id).len() as int, file_id)); }'''),
    # ... and when the clean-up of `types` starts: untouched (no sweep in the text) or swept over all keys (HashMap::retain + the closure's contract)
    (r'if let Some\(type_owners\) = self\.in_filed_type_owner', 'before',
     'proof { assert(self.supers@ == sup_l@ || sup_swept(sup_l@, self.supers@, file_id)); }'),
    (r'let __v0 = vx_set_into_vec', 'before', 'let ghost ty0 = self.types@;'),
    (r'for type_owner in __v0 \{', 'after', 'proof { lemma_in_pref_step(__v0@, it2.index@ + 1); }'),
    (r'self\.types\.\w+\(&type_owner\);\s*\}', 'after', 'proof { lemma_in_pref_full(__v0@); }'),
    (r'\}\s*$', 'before', '''proof {
            let lst = ty_listed(old(self), file_id);
            lemma_ty_inv_parts(old(self).full_name_type_map@, self.full_name_type_map@, old(self).supers@, sup_l@, old(self).generic_params@, self.generic_params@, lst, lst.len() as int, file_id);
            lemma_sup_final(old(self).supers@, sup_l@, self.supers@, lst, lst.len() as int, file_id);
            if type_wf(old(self)) {
                // the exit state with `supers` as the per-id loop left it: the index invariant makes that one clean already
                let mid = LuaTypeIndex { supers: sup_l, ..*self };
                lemma_type_final(old(self), &mid, file_id);
                lemma_type_final_sw(old(self), &mid, self, file_id);
            }
        }'''),
]
SWEEP_HINT = '''proof {
                let ghost s0 = old(supers)@;
                assert(exists|keep: Seq<bool>| keep.len() == s0.len()
                    && (forall|i: int| 0 <= i < keep.len() ==> #[trigger] keep[i] == (s0[i].file_id != file_id)) && supers@ == filter_by(s0, keep));
                let keep = choose|keep: Seq<bool>| keep.len() == s0.len()
                    && (forall|i: int| 0 <= i < keep.len() ==> #[trigger] keep[i] == (s0[i].file_id != file_id)) && supers@ == filter_by(s0, keep);
                lemma_filter_by_is_filter(s0, keep, sup_not_file(file_id));
            }'''


def _type_sweep_present():
    """is the sweep of `supers` over all keys in the text under proof? (decides only which MUTANTS are offered: the ones that edit the
    sweep have nothing to edit without it; the overlay itself serves both shapes)"""
    import os
    try:
        with open(os.path.join(os.environ.get('VERIF_REPO', '/repo'), DB + 'type/mod.rs'), encoding='utf-8') as f:
            return re.search(r'self\.supers\.retain\(', f.read()) is not None
    except OSError:
        return True


SWEEP_MUTANTS = [
    {'name': 'type-sweep-deleted', 'item': 'LuaTypeIndex::remove', 'pattern': r'(?s)self\.supers\.retain\(\|_, supers\| \{.*?\n\s*\}\);', 'repl': '',
     'expect': r'C10\.type\.no-super-of-removed-file-anywhere'},
    {'name': 'type-sweep-retain-negated', 'item': 'LuaTypeIndex::remove', 'pattern': r's\.file_id != file_id(\);\s*!supers\.is_empty)', 'repl': r's.file_id == file_id\1',
     'expect': r'C10\.type\.sweep-retain-predicate'},
    {'name': 'type-sweep-keeps-empty-supers', 'item': 'LuaTypeIndex::remove', 'pattern': r'!supers\.is_empty\(\)', 'repl': 'true',
     'expect': r'C10\.type\.sweep-drop-empty'},
] if _type_sweep_present() else []

UNIT = {
    'extra_rules': [
        ('c10-metatable-closure-contract', r'\|key, _\| ([^;]*?)\);',
         r'|key: &InFiled<TextRange>, _v: &mut InFiled<TextRange>| -> (b: bool) ensures b == (key.file_id != file_id) /*@C10.metatable.retain-predicate*/, *final(_v) == *old(_v) { \1 });',
         'contract overlay on the closure handed to HashMap::retain: parameter types, a name for the ignored `_` parameter '
         '(never used, so naming it changes nothing), named result and `ensures` are added; the body expression is kept verbatim '
         'and Verus checks the ensures against it'),
        ('c10-global-closure-contract', r'\|_, v\| \{(.*?)\n(\s*)\}\);',
         r'|_k: &GlobalId, v: &mut Vec<LuaDeclId>| -> (b: bool) \n                ensures final(v)@ == decls_not_of(old(v)@, file_id) /*@C10.global.inner-retain*/,\n                    b == (final(v)@.len() > 0) /*@C10.global.drop-empty*/\n            {\1\n\2});',
         'contract overlay on the closure handed to HashMap::retain: parameter types, a name for the ignored `_` key parameter, '
         'named result and `ensures` are added; the body statements are kept verbatim and Verus checks the ensures against them',
         16),   # re.S
        ('c10-global-inner-closure-contract', r'\|decl_id\| ([^;]*?)\);',
         r'|decl_id: &LuaDeclId| -> (b2: bool) ensures b2 == (decl_id.file_id != file_id) /*@C10.global.retain-predicate*/ { \1 });',
         'contract overlay on the closure handed to Vec::retain: parameter type, named result and `ensures` are added, body verbatim'),
        ('for-vec-index-loop', r'for (\w+) in (\w+) \{',
         r'let __v = \2; let mut __i: usize = 0; while __i < __v.len() { let \1 = __v[__i]; __i += 1;',
         'for x in V { B } (V: Vec<T> by value, T: Copy: rustc rejects `let x = __v[__i]` otherwise) -> '
         'let __v = V; let mut __i = 0; while __i < __v.len() { let x = __v[__i]; __i += 1; B }. '
         'Vec::into_iter yields the elements by value, each exactly once, in index order; the index is advanced before B so that '
         '`continue` in B goes on with the next element exactly as in the for loop (Verus: "for-loops do not yet support continue"). '
         'T: Copy has no Drop, so moving the drop of the vector from the end of the loop to the end of the block is unobservable'),
        ('hashset-into-iter-vec-0', r'for (\w+) in (member_ids) \{', r'let __v0 = vx_set_into_vec(\2); for \1 in __v0 {',
         'for x in SET { B } (SET: HashSet<T> by value) -> let __v0 = vx_set_into_vec(SET); for x in __v0 { B }: HashSet::into_iter yields '
         'every element exactly once in unspecified order; vx_set_into_vec returns such a sequence (no duplicates, same set) - rule of unit c10_remove'),
        ('hashset-into-iter-vec-1', r'for (\w+) in (owners) \{', r'let __v1 = vx_set_into_vec(\2); for \1 in __v1 {',
         'as hashset-into-iter-vec-0, for the second set-driven loop of LuaMemberIndex::remove'),
        ('c10-member-closure-contract', r'\|id\| ([^;]*?)\);',
         r'|id: &LuaMemberId| -> (b: bool) ensures b == (id.file_id != file_id) /*@C10.member.retain-predicate*/ { \1 });',
         'contract overlay on the closure handed to Vec::retain: parameter type, named result and `ensures` are added, body verbatim'),
        ('hashset-into-iter-vec-t', r'for (\w+) in (type_owners) \{', r'let __v0 = vx_set_into_vec(\2); for \1 in __v0 {',
         'as hashset-into-iter-vec-0, for the set-driven loop of LuaTypeIndex::remove'),
        ('c10-type-loc-closure-contract', r'\|loc\| ([^;]*?)\);',
         r'|loc: &LuaDeclLocation| -> (b: bool) ensures b == (loc.file_id != file_id) /*@C10.type.location-retain-predicate*/ { \1 });',
         'contract overlay on the closure handed to Vec::retain: parameter type, named result and `ensures` are added, body verbatim'),
        ('c10-type-sweep-closure-contract', r'\|_, supers\| \{(\s*)supers\.retain\(\|s\| ([^;]*?)\);(.*?)\n(\s*)\}\);',
         r'|_k: &LuaTypeDeclId, supers: &mut Vec<InFiled<LuaType>>| -> (b: bool)\n                ensures final(supers)@ == old(supers)@.filter(sup_not_file(file_id)) /*@C10.type.sweep-inner-retain*/,\n'
         r'                    b == (final(supers)@.len() > 0) /*@C10.type.sweep-drop-empty*/\n            {\1supers.retain(|s: &InFiled<LuaType>| -> (b2: bool) ensures b2 == (s.file_id != file_id) /*@C10.type.sweep-retain-predicate*/ { \2 });\n            '
         + SWEEP_HINT.replace('\\', '\\\\') + r'\3\n\4});',
         'contract overlay on the closure handed to HashMap::retain (the sweep of `supers` over all keys) and on the closure it hands to Vec::retain: '
         'parameter types, a name for the ignored `_` key parameter, named results and `ensures` are added; a ghost `proof { }` block (erased by '
         'compilation, Verus checks it) follows the inner retain; the body statements and the predicate expression are kept verbatim and Verus '
         'checks the ensures against them. Optional: nothing to do on a text without the sweep',
         16),   # re.S
        ('c10-type-super-closure-contract', r'\|s\| ([^;]*?)\);',
         r'|s: &InFiled<LuaType>| -> (b: bool) ensures b == (s.file_id != file_id) /*@C10.type.super-retain-predicate*/ { \1 });',
         'contract overlay on the closure handed to Vec::retain: parameter type, named result and `ensures` are added, body verbatim'),
        ('str-key-remove-field', r'self\.(\w+)\.remove\(name\.as_str\(\)\)', r'vx_remove_str_key(&mut self.\1, name.as_str())',
         'M.remove(S) with M: HashMap<String, V>, S: &str -> vx_remove_str_key(&mut M, S): the helper\'s body is that very call; it only '
         'attaches the std contract of HashMap::remove through String: Borrow<str> (which vstd does not model)'),
        ('str-key-remove-ref', r'type_names\.remove\(name\.as_str\(\)\)', r'vx_remove_str_key(type_names, name.as_str())',
         'as str-key-remove-field, for a map reached through `&mut HashMap<String, V>` (the reference is passed on as it is)'),
        ('c10-operator-closure-contract', r'\|x\| ([^;]*?)\);',
         r'|x: &LuaOperatorId| -> (b: bool) ensures b == (*x != id) /*@C10.operator.retain-predicate*/ { \1 });',
         'contract overlay on the closure handed to Vec::retain: parameter type, named result and `ensures` are added, body verbatim'),
    ],
    'items': {
        'FileId': {'src': {'file': SRC + 'vfs/file_id.rs', 'kind': 'struct', 'name': 'FileId', 'drop_attrs': False}, 'attrs': '#[derive(Structural)]'},
        'InFiled': {'src': {'file': SRC + 'vfs/file_id.rs', 'kind': 'struct', 'name': 'InFiled', 'drop_attrs': False}},
        'LuaDeclId': {'src': {'file': DB + 'declaration/decl_id.rs', 'kind': 'struct', 'name': 'LuaDeclId', 'drop_attrs': False}, 'attrs': '#[derive(Structural)]'},
        # 1 ---- metatable
        'LuaMetatableIndex': st('metatable/mod.rs', 'LuaMetatableIndex'),
        'LuaMetatableIndex::remove': rm(
            'metatable/mod.rs', 'LuaMetatableIndex', rules=['c10-metatable-closure-contract'],
            ensures='''
            // nothing keyed by the removed file remains; every other entry is unchanged (whole map, pointwise)
            (forall|k: InFiled<TextRange>| #[trigger] final(self).metatables@.contains_key(k) <==> old(self).metatables@.contains_key(k) && k.file_id != file_id)
                && (forall|k: InFiled<TextRange>| #[trigger] final(self).metatables@.contains_key(k) ==> final(self).metatables@[k] == old(self).metatables@[k]) /*@C10.metatable.no-trace-of-removed-file*/,
            // ... and, tables and their metatables being co-filed (only writer: analyze_setmetatable), nothing points to it either
            metatable_cofiled(old(self).metatables@) ==> metatable_cofiled(final(self).metatables@)
                && (forall|k: InFiled<TextRange>| #[trigger] final(self).metatables@.contains_key(k) ==> final(self).metatables@[k].file_id != file_id) /*@C10.metatable.no-value-points-to-removed-file*/'''),
        # 2 ---- global
        'LuaGlobalIndex': st('global/mod.rs', 'LuaGlobalIndex'),
        'LuaGlobalIndex::remove': rm(
            'global/mod.rs', 'LuaGlobalIndex',
            rules=['c10-global-closure-contract', 'c10-global-inner-closure-contract'],
            proof=[(r'v\.retain\(\|decl_id[^;]*\);', 'after', GLOBAL_CLOSURE_PROOF)],
            ensures='''
            // every global keeps exactly its decl ids of other files, in order; globals left without a decl are dropped
            (forall|k: GlobalId| #[trigger] final(self).global_decl@.contains_key(k) <==>
                    old(self).global_decl@.contains_key(k) && decls_not_of(old(self).global_decl@[k]@, file_id).len() > 0)
                && (forall|k: GlobalId| #[trigger] final(self).global_decl@.contains_key(k) ==>
                    final(self).global_decl@[k]@ == decls_not_of(old(self).global_decl@[k]@, file_id)) /*@C10.global.no-trace-of-removed-file*/,
            forall|k: GlobalId, i: int| #[trigger] final(self).global_decl@.contains_key(k) && 0 <= i < final(self).global_decl@[k]@.len()
                ==> (#[trigger] final(self).global_decl@[k]@[i]).file_id != file_id /*@C10.global.no-decl-of-removed-file*/,
            forall|k: GlobalId| #[trigger] final(self).global_decl@.contains_key(k) ==> final(self).global_decl@[k]@.len() > 0 /*@C10.global.no-empty-vector*/'''),
        # 3 ---- operator
        'LuaOperatorId': {'src': {'file': DB + 'operators/lua_operator.rs', 'kind': 'struct', 'name': 'LuaOperatorId', 'drop_attrs': False}, 'attrs': '#[derive(Structural)]'},
        'LuaOperatorMetaMethod': {'src': {'file': DB + 'operators/lua_operator_meta_method.rs', 'kind': 'enum', 'name': 'LuaOperatorMetaMethod', 'drop_attrs': False}},
        'LuaOperatorOwner': {'src': {'file': DB + 'operators/lua_operator.rs', 'kind': 'enum', 'name': 'LuaOperatorOwner'},
                             'attrs': '#[derive(PartialEq, Eq, Hash)]'},
        'LuaOperator': st('operators/lua_operator.rs', 'LuaOperator', keep=['owner', 'op', 'file_id', 'range']),
        'LuaOperator::get_owner': {'src': {'file': DB + 'operators/lua_operator.rs', 'kind': 'fn', 'impl': 'LuaOperator', 'name': 'get_owner'},
                                   'ret': 'r', 'ensures': '*r == self.owner'},
        'LuaOperator::get_op': {'src': {'file': DB + 'operators/lua_operator.rs', 'kind': 'fn', 'impl': 'LuaOperator', 'name': 'get_op'},
                                'ret': 'r', 'ensures': 'r == self.op'},
        'LuaOperatorIndex': st('operators/mod.rs', 'LuaOperatorIndex'),
        'LuaOperatorIndex::remove': rm(
            'operators/mod.rs', 'LuaOperatorIndex', rules=['for-vec-index-loop', 'c10-operator-closure-contract'],
            loops={0: OP_LOOP}, proof=OP_PROOF,
            body_first='proof { lemma_init(self.type_operators_map@, self.operators@, op_listed(self, file_id)); }',
            ensures='''
            // under the index invariant: nothing of the removed file remains (operators, every per-owner vector, the per-file list,
            // table owners of that file), everything else is unchanged, and the invariant (incl. "no empty container") is kept
            op_wf(old(self).operators@, old(self).type_operators_map@, old(self).in_filed_operator_map@) ==>
                op_removed(old(self).operators@, old(self).type_operators_map@, old(self).in_filed_operator_map@,
                           final(self).operators@, final(self).type_operators_map@, final(self).in_filed_operator_map@, file_id)
                && op_wf(final(self).operators@, final(self).type_operators_map@, final(self).in_filed_operator_map@) /*@C10.operator.no-trace-of-removed-file*/,
            // without assuming the invariant: what the loop does, id by id of the file's list
            final(self).in_filed_operator_map@ == old(self).in_filed_operator_map@.remove(file_id) /*@C10.operator.in_filed_operator_map*/,
            ops_inv(old(self).operators@, final(self).operators@, op_listed(old(self), file_id), op_listed(old(self), file_id).len() as int) /*@C10.operator.operators-of-file-gone*/,
            tm_inv(old(self).type_operators_map@, final(self).type_operators_map@, old(self).operators@, op_listed(old(self), file_id), op_listed(old(self), file_id).len() as int) /*@C10.operator.type-map*/'''),
        # 4 ---- reference (the whole `remove`: four per-file maps + two nested sweeps)
        'LuaReferenceIndex': st('reference/mod.rs', 'LuaReferenceIndex'),
        'LuaReferenceIndex::remove': rm(
            'reference/mod.rs', 'LuaReferenceIndex', rules=[('for-iter-mut-loop', {'count': 2})],
            loops=REF_LOOPS, iter_names={1: 'it', 3: 'it'}, proof=REF_PROOF,
            ensures='''
            // nested key -> file -> set maps: file_id is gone from every inner map, keys left with an empty inner map are gone,
            // every other (key, file) entry is unchanged; the four per-file maps lose exactly the entry of file_id
            swept(old(self).index_reference@, final(self).index_reference@, file_id)
                && swept(old(self).global_references@, final(self).global_references@, file_id)
                && dropped(old(self).file_references@, final(self).file_references@, file_id)
                && dropped(old(self).string_references@, final(self).string_references@, file_id)
                && dropped(old(self).type_references@, final(self).type_references@, file_id)
                && dropped(old(self).label_references@, final(self).label_references@, file_id) /*@C10.reference.no-trace-of-removed-file*/,
            forall|k: LuaMemberKey| #[trigger] final(self).index_reference@.contains_key(k) ==>
                !final(self).index_reference@[k]@.contains_key(file_id) && !final(self).index_reference@[k]@.is_empty() /*@C10.reference.index_reference.no-file-no-empty*/,
            forall|k: SmolStr| #[trigger] final(self).global_references@.contains_key(k) ==>
                !final(self).global_references@[k]@.contains_key(file_id) && !final(self).global_references@[k]@.is_empty() /*@C10.reference.global_references.no-file-no-empty*/'''),
        # 5 ---- member
        'LuaMemberId': st('member/lua_member.rs', 'LuaMemberId', attrs='#[derive(Clone, Copy, PartialEq, Eq, Hash)]'),
        'LuaMemberIndexItem': {'src': {'file': DB + 'member/lua_member_item.rs', 'kind': 'enum', 'name': 'LuaMemberIndexItem'}},
        'LuaMemberOwner': {'src': {'file': DB + 'member/lua_member_owner.rs', 'kind': 'enum', 'name': 'LuaMemberOwner'}, 'attrs': '#[derive(PartialEq, Eq, Hash)]'},
        'MemberOrOwner': {'src': {'file': DB + 'member/mod.rs', 'kind': 'enum', 'name': 'MemberOrOwner'}, 'attrs': '#[derive(PartialEq, Eq, Hash)]', 'rules': ['vis-pub']},
        'OwnerMemberStatus': {'src': {'file': DB + 'member/lua_owner_members.rs', 'kind': 'enum', 'name': 'OwnerMemberStatus'}},
        'LuaOwnerMembers': st('member/lua_owner_members.rs', 'LuaOwnerMembers'),
        'LuaOwnerMembers::remove_member': {
            'src': {'file': DB + 'member/lua_owner_members.rs', 'kind': 'fn', 'impl': 'LuaOwnerMembers', 'name': 'remove_member'},
            'requires': 'keys_ok()', 'vac': False,
            'ensures': 'final(self).members@ == old(self).members@.remove(*key), final(self).resolve_state == old(self).resolve_state'},
        'LuaOwnerMembers::is_empty': {
            'src': {'file': DB + 'member/lua_owner_members.rs', 'kind': 'fn', 'impl': 'LuaOwnerMembers', 'name': 'is_empty'},
            'ret': 'r', 'ensures': 'r == self.members@.is_empty()'},
        'LuaMemberIndex': st('member/mod.rs', 'LuaMemberIndex'),
        'LuaMemberIndex::remove': rm(
            'member/mod.rs', 'LuaMemberIndex',
            rules=['hashset-into-iter-vec-0', 'hashset-into-iter-vec-1', 'inline-owner-members-iter-mut', ('for-iter-mut-loop', {'count': 1}),
                   'c10-member-closure-contract'],
            attrs='#[verifier::loop_isolation(false)]\n#[verifier::allow_complex_invariants]',
            loops=MB_LOOPS, iter_names={0: 'it0', 1: 'it', 3: 'it2', 4: 'it4'}, proof=MB_PROOF,
            ensures='''
            // under the index invariant: no member id of the removed file remains in members, member_current_owner, in_filed or in any
            // owner's item; every other entry, item and id is unchanged (order kept); emptied items/owners are dropped; invariant kept
            member_wf(old(self).members@, old(self).member_current_owner@, old(self).owner_members@, old(self).in_filed@) ==>
                member_removed(old(self).members@, old(self).member_current_owner@, old(self).owner_members@, old(self).in_filed@,
                               final(self).members@, final(self).member_current_owner@, final(self).owner_members@, final(self).in_filed@, file_id)
                && member_wf(final(self).members@, final(self).member_current_owner@, final(self).owner_members@, final(self).in_filed@) /*@C10.member.no-trace-of-removed-file*/,
            // without assuming the invariant: what the loops do with the entries listed under the file
            final(self).in_filed@ == old(self).in_filed@.remove(file_id) /*@C10.member.in_filed*/,
            mem_after(old(self).members@, final(self).members@, mo_listed(old(self), file_id)) /*@C10.member.members-of-file-gone*/,
            mem_after(old(self).member_current_owner@, final(self).member_current_owner@, mo_listed(old(self), file_id)) /*@C10.member.current-owner-of-file-gone*/,
            om_after(old(self).owner_members@, final(self).owner_members@, ''' + MB_LISTED + ''', file_id) /*@C10.member.owner-items-of-file-gone*/'''),
        # 6 ---- type (eight maps exactly; the three name maps only "lose entries"; remove_type_decl_name's own contract exactly)
        'WorkspaceId': {'src': {'file': DB + 'module/workspace.rs', 'kind': 'struct', 'name': 'WorkspaceId', 'drop_attrs': False}, 'attrs': '#[derive(Structural)]'},
        'LuaTypeIdentifier': {'src': {'file': DB + 'type/type_decl.rs', 'kind': 'enum', 'name': 'LuaTypeIdentifier'}, 'attrs': '#[derive(PartialEq, Eq, Hash)]'},
        'LuaTypeOwner': {'src': {'file': DB + 'type/type_owner.rs', 'kind': 'enum', 'name': 'LuaTypeOwner'}, 'attrs': '#[derive(PartialEq, Eq, Hash)]'},
        'LuaDeclLocation': st('type/type_decl.rs', 'LuaDeclLocation', keep=['file_id', 'range']),
        'LuaTypeDecl': st('type/type_decl.rs', 'LuaTypeDecl', keep=['simple_name', 'locations', 'id']),
        'LuaTypeDecl::get_mut_locations': {
            'src': {'file': DB + 'type/type_decl.rs', 'kind': 'fn', 'impl': 'LuaTypeDecl', 'name': 'get_mut_locations'}, 'ret': 'r',
            'ensures': '*r == old(self).locations, final(self).locations == *final(r), final(self).simple_name == old(self).simple_name, final(self).id == old(self).id'},
        'LuaTypeIndex': st('type/mod.rs', 'LuaTypeIndex'),
        'LuaTypeIndex::remove_type_decl_name': {
            'src': {'file': DB + 'type/mod.rs', 'kind': 'fn', 'impl': 'LuaTypeIndex', 'name': 'remove_type_decl_name'},
            'rules': [('str-key-remove-field', {'count': 1}), ('str-key-remove-ref', {'count': 2})],
            'requires': 'keys_ok()',
            'proof': [
                (r'if should_remove_workspace \{', 'before', 'let ghost mid_ws = self.internal_name_type_map@;'),
                (r'self\.internal_name_type_map\.\w+\(workspace_id\);\s*\}', 'after',
                 TY_SCOPED_HINT % {'field': 'internal_name_type_map', 'key': 'workspace_id', 'mid': 'mid_ws'}),
                (r'if should_remove_file \{', 'before', 'let ghost mid_f = self.local_name_type_map@;'),
                (r'self\.local_name_type_map\.\w+\(file_id\);\s*\}', 'after',
                 TY_SCOPED_HINT % {'field': 'local_name_type_map', 'key': 'file_id', 'mid': 'mid_f'}),
            ],
            'ensures': '''
            type_other_fields_same(old(self), final(self)),
            // the name of that declaration is dropped from the map of its scope (and the scope's map with it when it became empty)
            rtdn_post(old(self).global_name_type_map@, final(self).global_name_type_map@, old(self).internal_name_type_map@, final(self).internal_name_type_map@,
                      old(self).local_name_type_map@, final(self).local_name_type_map@, decl_id.ident()) /*@C10.type.name-of-removed-decl-dropped*/'''},
        'LuaTypeIndex::remove': rm(
            'type/mod.rs', 'LuaTypeIndex',
            rules=['hashset-into-iter-vec-t', 'c10-type-loc-closure-contract', ('c10-type-sweep-closure-contract', {'optional': True}),
                   ('c10-type-super-closure-contract', {'count': 1})],
            attrs='#[verifier::loop_isolation(false)]', loops=TY_LOOPS, iter_names={0: 'it', 1: 'it2'}, proof=TY_PROOF,
            ensures='''
            // under the index invariant: no location, super, bound type, namespace entry or file-scoped name map of the removed file remains;
            // a declaration is kept exactly while another file still declares it; everything else is unchanged
            type_wf(old(self)) ==> type_removed(old(self), final(self), file_id) /*@C10.type.no-trace-of-removed-file*/,
            // without assuming the invariant: the exact post-state of all eleven maps in terms of the ids / owners listed under the file
            // per-file maps lose exactly the file's entry
            dropped(old(self).file_namespace@, final(self).file_namespace@, file_id) && dropped(old(self).file_using_namespace@, final(self).file_using_namespace@, file_id)
                && dropped(old(self).file_types@, final(self).file_types@, file_id)
                && dropped(old(self).in_filed_type_owner@, final(self).in_filed_type_owner@, file_id) /*@C10.type.per-file-maps*/,
            // for the ids listed under the file: a declaration keeps exactly its locations in other files (and goes, with its generic params,
            // when none is left); every other declaration / generic-params entry is unchanged
            decl_inv(old(self).full_name_type_map@, final(self).full_name_type_map@,
                     old(self).generic_params@, final(self).generic_params@, ty_listed(old(self), file_id), ty_listed(old(self), file_id).len() as int, file_id) /*@C10.type.decls-of-file*/,
            // ... and a super list keeps exactly the supers contributed by other files (and goes when empty); no super list is added, any other
            // one is untouched or filtered the same way, and only a list without a super of another file is dropped
            sup_after(old(self).supers@, final(self).supers@, ty_listed(old(self), file_id), ty_listed(old(self), file_id).len() as int, file_id) /*@C10.type.supers-of-listed-ids*/,
            // under EVERY key of `supers` (not only the ids listed under the file: `---@class DA: S` in a file that reaches NS.DA of another
            // file through `---@using NS` files its super clause under that other file's declaration): no super filed by the removed file
            // remains and no empty list remains; each remaining list is the old one without the removed file's supers, in order
            sup_clean(final(self).supers@, file_id) && sup_swept(old(self).supers@, final(self).supers@, file_id) /*@C10.type.no-super-of-removed-file-anywhere*/,
            // type caches of the owners listed under the file are gone, all others unchanged
            (forall|o: LuaTypeOwner| #[trigger] final(self).types@.contains_key(o) <==> old(self).types@.contains_key(o) && !ty_owners(old(self), file_id).contains(o))
                && (forall|o: LuaTypeOwner| #[trigger] final(self).types@.contains_key(o) ==> final(self).types@[o] == old(self).types@[o]) /*@C10.type.types-of-file-gone*/,
            // name maps: exactly the names under which the removed declarations were registered are gone (global / per workspace / per file);
            // a workspace's or file's name map is dropped iff a removed declaration lived there and no name is left; all else unchanged
            names_inv(old(self).full_name_type_map@, ty_listed(old(self), file_id), ty_listed(old(self), file_id).len() as int, file_id,
                      old(self).global_name_type_map@, final(self).global_name_type_map@, old(self).internal_name_type_map@, final(self).internal_name_type_map@,
                      old(self).local_name_type_map@, final(self).local_name_type_map@) /*@C10.type.names-of-removed-decls*/'''),
        # ---- DbIndex::remove delegates to each of them
        'DbIndex': {'src': {'file': DB + 'mod.rs', 'kind': 'struct', 'name': 'DbIndex'}, 'rules': [('struct-fields', {'drop': ['vfs', 'emmyrc']})]},
        'DbIndex::remove': {'src': {'file': DB + 'mod.rs', 'kind': 'fn', 'impl': 'LuaIndex for DbIndex', 'name': 'remove'},
                            'requires': 'keys_ok()',
                            'ensures': '''removed_metatable(&old(self).metatable_index, &final(self).metatable_index, file_id) /*@C10.DbIndex.metatable_index*/,
            removed_global(&old(self).global_index, &final(self).global_index, file_id) /*@C10.DbIndex.global_index*/,
            removed_operator(&old(self).operator_index, &final(self).operator_index, file_id) /*@C10.DbIndex.operator_index*/,
            removed_reference(&old(self).references_index, &final(self).references_index, file_id) /*@C10.DbIndex.references_index*/,
            removed_member(&old(self).members_index, &final(self).members_index, file_id) /*@C10.DbIndex.members_index*/,
            removed_type(&old(self).types_index, &final(self).types_index, file_id) /*@C10.DbIndex.types_index*/'''},
    },
    'allow': [r'external_body', r'uninterp spec fn im_(keys|pos|old|fin)', r'uninterp spec fn (ident|text)\(&self\)', r'external_type_specification',
              r'assume_specification<\'a, K, V, S, A: Allocator>\[ HashMap::<K, V, S, A>::iter_mut \]',
              r'assume_specification<\'a, K, V>\[ <IterMut<\'a, K, V> as Iterator>::next \]', r'assume_specification<\'a, K: Eq \+ Hash \+ Borrow<Q>, V, S: BuildHasher, A: Allocator, Q: Hash \+ Eq \+ \?Sized>\[ HashMap::<K, V, S, A>::get_mut \]', r'assume_specification<T, A: Allocator, F: FnMut\(&T\) -> bool>\[ Vec::<T, A>::retain \]',
              r'assume_specification<K, V, S, A: Allocator, F: FnMut\(&K, &mut V\) -> bool>\[ HashMap::<K, V, S, A>::retain \]'],
    'mutants': [
        {'name': 'metatable-retain-negated', 'item': 'LuaMetatableIndex::remove', 'pattern': r'key\.file_id != file_id', 'repl': 'key.file_id == file_id',
         'expect': r'C10\.metatable\.retain-predicate'},
        {'name': 'metatable-keeps-everything', 'item': 'LuaMetatableIndex::remove', 'pattern': r'key\.file_id != file_id', 'repl': 'true',
         'expect': r'C10\.metatable\.retain-predicate'},
        {'name': 'global-retain-negated', 'item': 'LuaGlobalIndex::remove', 'pattern': r'decl_id\.file_id != file_id', 'repl': 'decl_id.file_id == file_id',
         'expect': r'C10\.global\.retain-predicate'},
        {'name': 'global-keeps-all-decls', 'item': 'LuaGlobalIndex::remove', 'pattern': r'decl_id\.file_id != file_id', 'repl': 'true',
         'expect': r'C10\.global\.retain-predicate'},
        {'name': 'global-keeps-empty-vector', 'item': 'LuaGlobalIndex::remove', 'pattern': r'!v\.is_empty\(\)', 'repl': 'true',
         'expect': r'C10\.global\.drop-empty'},
        {'name': 'operator-keeps-operators', 'item': 'LuaOperatorIndex::remove', 'pattern': r'self\.operators\.remove\(&id\)', 'repl': 'self.operators.get(&id)',
         'expect': r'C10\.operator\.operators-of-file-gone'},
        {'name': 'operator-retain-negated', 'item': 'LuaOperatorIndex::remove', 'pattern': r'x != &id', 'repl': 'x == &id',
         'expect': r'C10\.operator\.retain-predicate'},
        {'name': 'operator-keeps-empty-vector', 'item': 'LuaOperatorIndex::remove', 'pattern': r'operators_map\.remove\(&op\);', 'repl': '',
         'expect': r'C10\.operator\.no-empty-vector'},
        {'name': 'operator-keeps-empty-owner', 'item': 'LuaOperatorIndex::remove', 'pattern': r'self\.type_operators_map\.remove\(owner\);', 'repl': '',
         'expect': r'C10\.operator\.no-empty-owner-map'},
        {'name': 'reference-keeps-file-in-inner-map', 'item': 'LuaReferenceIndex::remove', 'pattern': r'\breferences\.remove\(&file_id\);', 'repl': 'references.get(&file_id);',
         'expect': r'C10\.reference\.index_reference\.sweep-step'},
        {'name': 'reference-never-collects-empty-keys', 'item': 'LuaReferenceIndex::remove', 'pattern': r'if references\.is_empty\(\) \{', 'repl': 'if false {',
         'expect': r'C10\.reference\.index_reference\.sweep-step'},
        {'name': 'reference-keeps-empty-keys', 'item': 'LuaReferenceIndex::remove', 'pattern': r'self\.index_reference\.remove\(&key\);', 'repl': 'self.index_reference.get(&key);',
         'expect': r'C10\.reference\.index_reference\.empty-keys-dropped'},
        {'name': 'reference-global-keeps-empty-keys', 'item': 'LuaReferenceIndex::remove', 'pattern': r'self\.global_references\.remove\(&key\);', 'repl': 'self.global_references.get(&key);',
         'expect': r'C10\.reference\.global_references\.empty-keys-dropped'},
        {'name': 'reference-keeps-label-references', 'item': 'LuaReferenceIndex::remove', 'pattern': r'self\.label_references\.remove\(&file_id\);', 'repl': '',
         'expect': r'C10\.reference\.no-trace-of-removed-file'},
        {'name': 'member-keeps-members', 'item': 'LuaMemberIndex::remove', 'pattern': r'self\.members\.remove\(&member_id\);', 'repl': 'self.members.get(&member_id);',
         'expect': r'C10\.member\.members-of-file-gone'},
        {'name': 'member-keeps-current-owner', 'item': 'LuaMemberIndex::remove', 'pattern': r'self\.member_current_owner\.remove\(&member_id\);', 'repl': 'self.member_current_owner.get(&member_id);',
         'expect': r'C10\.member\.members-of-file-gone'},
        {'name': 'member-retain-negated', 'item': 'LuaMemberIndex::remove', 'pattern': r'id\.file_id != file_id', 'repl': 'id.file_id == file_id',
         'expect': r'C10\.member\.retain-predicate'},
        {'name': 'member-keeps-single-item-of-file', 'item': 'LuaMemberIndex::remove', 'pattern': r'if id\.file_id == file_id \{', 'repl': 'if false {',
         'expect': r'C10\.member\.item-sweep\.step'},
        {'name': 'member-keeps-dead-keys', 'item': 'LuaMemberIndex::remove', 'pattern': r'member_items\.remove_member\(&key\);', 'repl': 'member_items.is_empty();',
         'expect': r'C10\.member\.dead-keys-dropped'},
        {'name': 'member-keeps-empty-owners', 'item': 'LuaMemberIndex::remove', 'pattern': r'self\.owner_members\.remove\(&owner\);', 'repl': 'self.owner_members.get(&owner);',
         'expect': r'C10\.member\.empty-owners-dropped'},
        {'name': 'member-never-collects-empty-owners', 'item': 'LuaMemberIndex::remove', 'pattern': r'if member_items\.is_empty\(\) \{', 'repl': 'if member_items.is_empty() && false {',
         'expect': r'C10\.member\.owner-sweep\.step'},
        {'name': 'type-location-retain-negated', 'item': 'LuaTypeIndex::remove', 'pattern': r'loc\.file_id != file_id', 'repl': 'loc.file_id == file_id',
         'expect': r'C10\.type\.location-retain-predicate'},
        {'name': 'type-keeps-decl-without-location', 'item': 'LuaTypeIndex::remove', 'pattern': r'self\.full_name_type_map\.remove\(&id\);', 'repl': 'self.full_name_type_map.get(&id);',
         'expect': r'C10\.type\.decls-of-file\.step'},
        {'name': 'type-keeps-supers-of-file', 'item': 'LuaTypeIndex::remove', 'pattern': r's\.file_id != file_id', 'repl': 'true',
         'expect': r'C10\.type\.super-retain-predicate'},
        {'name': 'type-keeps-empty-supers', 'item': 'LuaTypeIndex::remove', 'pattern': r'self\.supers\.remove\(&id\);', 'repl': 'self.supers.get(&id);',
         'expect': r'C10\.type\.decls-of-file\.step'},
        {'name': 'type-keeps-generic-params', 'item': 'LuaTypeIndex::remove', 'pattern': r'self\.generic_params\.remove\(&id\);', 'repl': 'self.generic_params.get(&id);',
         'expect': r'C10\.type\.decls-of-file\.step'},
        {'name': 'type-keeps-type-caches', 'item': 'LuaTypeIndex::remove', 'pattern': r'self\.types\.remove\(&type_owner\);', 'repl': 'self.types.get(&type_owner);',
         'expect': r'C10\.type\.types-of-file-gone'},
        {'name': 'type-keeps-namespace', 'item': 'LuaTypeIndex::remove', 'pattern': r'self\.file_namespace\.remove\(&file_id\);', 'repl': '',
         'expect': r'C10\.type\.per-file-maps'},
        {'name': 'type-name-keeps-empty-scope', 'item': 'LuaTypeIndex::remove_type_decl_name', 'pattern': r'self\.local_name_type_map\.remove\(file_id\);', 'repl': 'self.local_name_type_map.get(file_id);',
         'expect': r'C10\.type\.name-of-removed-decl-dropped'},
        {'name': 'type-keeps-names-of-removed-decls', 'item': 'LuaTypeIndex::remove', 'pattern': r'self\.remove_type_decl_name\(&id\);', 'repl': '',
         'expect': r'C10\.type\.names-of-removed-decls\.step'},
    ] + SWEEP_MUTANTS + [
        {'name': 'dbindex-skips-types', 'item': 'DbIndex::remove', 'pattern': r'self\.types_index\.remove\(file_id\);', 'repl': '', 'expect': r'C10\.DbIndex\.types_index'},
        {'name': 'dbindex-skips-operators', 'item': 'DbIndex::remove', 'pattern': r'self\.operator_index\.remove\(file_id\);', 'repl': '', 'expect': r'C10\.DbIndex\.operator_index'},
        {'name': 'dbindex-skips-members', 'item': 'DbIndex::remove', 'pattern': r'self\.members_index\.remove\(file_id\);', 'repl': '', 'expect': r'C10\.DbIndex\.members_index'},
        {'name': 'dbindex-skips-references', 'item': 'DbIndex::remove', 'pattern': r'self\.references_index\.remove\(file_id\);', 'repl': '', 'expect': r'C10\.DbIndex\.references_index'},
        {'name': 'dbindex-skips-globals', 'item': 'DbIndex::remove', 'pattern': r'self\.global_index\.remove\(file_id\);', 'repl': '', 'expect': r'C10\.DbIndex\.global_index'},
        {'name': 'dbindex-skips-metatables', 'item': 'DbIndex::remove', 'pattern': r'self\.metatable_index\.remove\(file_id\);', 'repl': '', 'expect': r'C10\.DbIndex\.metatable_index'},
        {'name': 'operator-keeps-file-list', 'item': 'LuaOperatorIndex::remove', 'pattern': r'self\.in_filed_operator_map\.remove\(&file_id\)', 'repl': 'self.in_filed_operator_map.get(&file_id)',
         'expect': r'C10\.operator\.in_filed_operator_map'},
    ],
    'min_obligations': 50,
    'trusted': [
        'hashbrown::{HashMap,HashSet} -> std::collections (same API subset and documented behaviour for remove/get_mut/retain/iter_mut/is_empty; order never relied on)',
        'Vec::retain: std doc contract as assume_specification (same text as unit c36_exit)',
        'HashMap::retain: std doc contract as assume_specification (every old pair handed to the closure once with &mut value; kept iff it returned true, '
        'with the value as the closure left it; nothing added)',
        'HashMap::get_mut: std doc contract as assume_specification (reference to the stored value; what is written through it is the value stored under that '
        'key when the borrow ends; every other entry untouched; None and no change for an absent key)',
        'HashMap::iter_mut + IterMut::next: std doc contract as assume_specification over a ghost model of the iterator (uninterp im_keys/im_pos/im_old/im_fin; '
        'im_fin is a prophecy = the map when the borrow ends): every key yielded exactly once in unspecified order, each with a &mut to its stored value; keys unchanged',
        'vx_set_into_vec (external_body): HashSet::into_iter yields every element exactly once, order unspecified (helper of unit c10_remove)',
        'vx_remove_str_key (external_body, body = m.remove(k)): HashMap<String,V>::remove(&str) removes the entry whose key has that text (String: Borrow<str>); vstd has no model of str-borrowed String keys',
        'derive(PartialEq) is field-wise equality (Verus `Structural` marker): the repository\'s own derive lists are kept verbatim on FileId, InFiled, LuaDeclId, LuaOperatorId, WorkspaceId, LuaOperatorMetaMethod (a hand-written PartialEq there would no longer compile with Structural); derive lists re-attached by hand (serde / Clone of opaque payloads in the original list) on LuaMemberId, LuaOperatorOwner, LuaMemberOwner, MemberOrOwner, LuaTypeIdentifier, LuaTypeOwner, LuaMemberIndexItem - none of these is compared by the code under proof, they are only hashed as keys',
        'obeys_key_model for every key type (keys_ok(): derived Hash/Eq, String)',
        'text-size TextSize/TextRange transcribed as plain structs; rowan/smol_str/internment payloads opaque: SmolStr::as_str -> uninterp text(), '
        'LuaTypeDeclId::get_id -> uninterp ident() (ArcIntern deref), derived Clone of LuaMemberKey/SmolStr returns an equal value',
        'struct projections: LuaOperator (func dropped), LuaDeclLocation (flag dropped), LuaTypeDecl (extra dropped), DbIndex (vfs, emmyrc dropped): fields never read by the code under proof',
        'index invariants op_wf / member_wf / type_wf / metatable_cofiled / table_owners_cofiled are ASSUMED for the property-level clauses (hypotheses of implications, justified by the '
        'writers add_operator / add_member+set_member_owner+add_member_to_owner / add_type_decl+add_super_type+bind_type+index_type_decl_name / analyze_setmetatable, not proved here); `remove` is proved to re-establish op_wf and member_wf',
    ],
    'not_covered': [
        'LuaModuleIndex::remove: NOT under contract - the property-derived contract is violated by the real code (leaf ModuleNode never removed from module_nodes; early `return` at the root '
        'skips the clean-up of module_name_to_file_ids): see /verif/replay/c10 (exit 1 on the real code). Dialect also lacks: while-let with break/return through get_mut, HashMap::retain on values by pattern `|_, id|`, iteration over &HashMap<String,_>, Vec::contains',
        'LuaTypeIndex: `remove` is NOT shown to re-establish type_wf (op_wf and member_wf are); the property-level clause says nothing about the global / per-workspace '
        'name maps beyond the exact wf-free clause C10.type.names-of-removed-decls (they are keyed by name / workspace, not by file)',
        'JsonSchemaIndex::remove: opaque shim, no contract',
        'the index invariants (op_wf, member_wf, type_wf, ...) are not proved for the writers (add_operator, add_member, set_member_owner, add_member_to_owner, add_type_decl, add_super_type, bind_type, analyze_setmetatable)',
        'LuaOperatorOwner::Type(decl) / LuaMemberOwner owners that name a file-local type: no statement that such owners disappear with the file (only Table(InFiled) owners)',
    ],
    'samples': [
        'LuaMetatableIndex::remove: metatables\' = metatables restricted to keys with file_id != f (pointwise, values unchanged)',
        'LuaGlobalIndex::remove: global_decl\'[k] = global_decl[k].filter(decl.file_id != f) in order; k dropped iff that is empty',
        'LuaOperatorIndex::remove: under op_wf: operators\' = operators of other files; type_operators_map\'[o][p] = old vector filtered (id.file_id != f), vector/inner map dropped iff empty; '
        'in_filed_operator_map loses f; op_wf kept; no Table owner of f left',
        'LuaReferenceIndex::remove: index_reference\'[k] = index_reference[k] minus f; k dropped iff that is empty; same for global_references; four per-file maps lose f',
        'LuaMemberIndex::remove: under member_wf: members/member_current_owner = entries of other files; per owner each item keeps its ids of other files; dead items and emptied owners dropped; member_wf kept',
        'LuaTypeIndex::remove: under type_wf: a declaration keeps exactly its locations in other files and disappears (with generic params and its registered name) iff none is left; supers likewise; bound types of the file\'s owners gone; namespace entries and the file-scoped name map of f gone',
        'LuaTypeIndex::remove, WITHOUT type_wf: supers\'[k] = supers[k].filter(s.file_id != f) in order for EVERY key k; k dropped iff that is empty (C10.type.no-super-of-removed-file-anywhere: '
        'needs the sweep `self.supers.retain(..)` over all keys; on a text without it this clause fails and is the finding: a.lua `---@using NS1` + `---@class DA: DSuper0`, '
        'b.lua `---@namespace NS1` + `---@class DA` + `---@class DSuper0`, remove a.lua -> supers["NS1.DA"] keeps the entry of a.lua)',
        'DbIndex::remove: each of the above holds for the corresponding field',
    ],
}
