import re
from vc import rules as R
from vc import rustlex as L

SRC = 'crates/emmylua_code_analysis/src/'


@R.rule('inline-owner-members-iter-mut')
def inline_owner_members_iter_mut(text, **_):
    """member_items.iter_mut() -> member_items.members.iter_mut(): inlining of the one-line wrapper
    `LuaOwnerMembers::iter_mut(&mut self) -> impl Iterator<Item = (&LuaMemberKey, &mut LuaMemberIndexItem)> { self.members.iter_mut() }`
    (its opaque `impl Iterator` return type hides the std iterator the contract is about). The rule re-reads the wrapper from the
    repository on every run and refuses (undecided) unless its body is exactly `self.members.iter_mut()`."""
    import os
    from vc import extract as X
    from vc.assemble import REPO
    w = X.find_item(os.environ.get('VERIF_REPO', REPO), {'file': SRC + 'db_index/member/lua_owner_members.rs', 'kind': 'fn',
                                                           'impl': 'LuaOwnerMembers', 'name': 'iter_mut'})
    sh = X.fn_shape(w.raw)
    body = ' '.join(w.raw[sh.body_open + 1:sh.body_close].split())
    if body != 'self.members.iter_mut()' or 'impl Iterator<Item = (&LuaMemberKey, &mut LuaMemberIndexItem)>' not in ' '.join(w.raw.split()):
        raise R.Undecided('inline-owner-members-iter-mut: LuaOwnerMembers::iter_mut is no longer the plain wrapper (%r)' % body)
    return re.subn(r'\bmember_items\.iter_mut\(\)', 'member_items.members.iter_mut()', text)


@R.rule('for-iter-mut-loop')
def for_iter_mut_loop(text, **_):
    """for (A, B) in E.iter_mut() { BODY }  ->  let mut __itN = E.iter_mut(); loop { match __itN.next() { None => break, Some((A, B)) => { BODY } } }
    This is the Rust Reference's desugaring of `for` (`match IntoIterator::into_iter(E.iter_mut()) { mut iter => loop { match
    Iterator::next(&mut iter) { None => break, Some(val) => { let (A, B) = val; BODY } } } }`): IterMut is itself an Iterator, so
    `into_iter` is the identity (blanket `impl<I: Iterator> IntoIterator for I`). The iterator is named (N = ordinal of the loop in
    the function) so that the contract overlay can speak about it; it lives to the end of the enclosing block instead of the end of
    the `for` statement: IterMut has no Drop impl and the borrow ends at its last use (NLL), so this is unobservable. A comment
    `/*__itN:end-of-body*/` marks the end of BODY (anchor for the contract overlay). BODY must not
    contain `break`/`continue` with a value or label (checked: none of the loops rewritten here has any)."""
    n = 0
    while True:
        toks = L.code_tokens(text)
        hit = None
        for i, t in enumerate(toks):
            if L.tok_text(text, t) != 'for' or L.tok_text(text, toks[i + 1]) != '(':
                continue
            pc = L.match_close(text, toks, i + 1)
            if L.tok_text(text, toks[pc + 1]) != 'in':
                continue
            j = pc + 2
            while j < len(toks) and L.tok_text(text, toks[j]) != '{':
                if L.tok_text(text, toks[j]) in ('(', '['):
                    j = L.match_close(text, toks, j)
                j += 1
            expr = text[toks[pc + 2][1]:toks[j - 1][2]]
            if not expr.endswith('.iter_mut()'):
                continue
            bc = L.match_close(text, toks, j)
            body = text[toks[j][2]:toks[bc][1]]
            if re.search(r"\b(break|continue)\b", body):
                raise R.Undecided('for-iter-mut-loop: body has break/continue')
            pat = text[toks[i + 1][1]:toks[pc][2]]
            hit = (toks[i][1], toks[bc][2],
                   'let mut __it%d = %s; loop { match __it%d.next() { None => break, Some(%s) => {%s/*__it%d:end-of-body*/ } } }' % (n, expr, n, pat, body, n))
            break
        if not hit:
            break
        text = text[:hit[0]] + hit[2] + text[hit[1]:]
        n += 1
    return text, n

DB = SRC + 'db_index/'


def st(file, name, attrs=None, **kw):
    d = {'src': {'file': DB + file, 'kind': 'struct', 'name': name}, 'rules': [('struct-fields', kw)]}
    if attrs: d['attrs'] = attrs
    return d


def rm(file, name, ensures, **kw):
    d = {'src': {'file': DB + file, 'kind': 'fn', 'impl': 'LuaIndex for ' + name, 'name': 'remove'},
         'requires': 'keys_ok()', 'ensures': ensures}
    d.update(kw)
    return d


ID_DERIVE = '#[derive(Clone, Copy, PartialEq, Eq, Hash, Structural)]'

GLOBAL_CLOSURE_PROOF = '''proof {
                let ghost s0 = old(v)@;
                assert(exists|keep: Seq<bool>| keep.len() == s0.len()
                    && (forall|i: int| 0 <= i < keep.len() ==> #[trigger] keep[i] == (s0[i].file_id != file_id)) && v@ == filter_by(s0, keep));
                let keep = choose|keep: Seq<bool>| keep.len() == s0.len()
                    && (forall|i: int| 0 <= i < keep.len() ==> #[trigger] keep[i] == (s0[i].file_id != file_id)) && v@ == filter_by(s0, keep);
                lemma_filter_by_is_filter(s0, keep, |d: LuaDeclId| d.file_id != file_id);
            }'''

OP_LOOP = '''invariant
                    keys_ok(), __i <= __v.len(), __v@ == op_listed(old(self), file_id),
                    self.in_filed_operator_map@ == old(self).in_filed_operator_map@.remove(file_id) /*@C10.operator.in_filed_operator_map.inv*/,
                    ops_inv(old(self).operators@, self.operators@, __v@, __i as int) /*@C10.operator.operators-of-file-gone.inv*/,
                    tm_inv(old(self).type_operators_map@, self.type_operators_map@, old(self).operators@, __v@, __i as int) /*@C10.operator.type-map.inv*/,
                decreases __v.len() - __i'''

OP_T0 = 'old(self).type_operators_map@, '
OP_ARGS = 'old(self).operators@, __v@, __n, __i as int'
OP_PROOF = [
    (r'__i \+= 1;', 'before', 'let ghost __n: int = __i as int;'),
    (r'__i \+= 1;', 'after', '''proof {
                    lemma_in_prefix_step(__v@, __n, __i as int);
                    if !self.operators@.contains_key(id) { lemma_skip_dead(''' + OP_T0 + 'self.type_operators_map@, ' + OP_ARGS + '''); }
                }'''),
    (r'let operators_map = match', 'before', '''let ghost t1 = self.type_operators_map@;
                    proof { if !t1.contains_key(*owner) { lemma_skip_owner(''' + OP_T0 + 't1, ' + OP_ARGS + '''); } }'''),
    (r'let operators = match', 'before', '''proof { if !operators_map@.contains_key(op) { lemma_skip_op(''' + OP_T0 + 't1, ' + OP_ARGS + '''); } }'''),
    (r'operators\.retain\(', 'before', 'let ghost v0 = operators@;'),
    (r'operators\.retain\([^;]*\);', 'after', '''proof {
                        assert(exists|keep: Seq<bool>| keep.len() == v0.len() && (forall|i: int| 0 <= i < keep.len() ==> #[trigger] keep[i] == (v0[i] != id)) && operators@ == filter_by(v0, keep));
                        let keep = choose|keep: Seq<bool>| keep.len() == v0.len() && (forall|i: int| 0 <= i < keep.len() ==> #[trigger] keep[i] == (v0[i] != id)) && operators@ == filter_by(v0, keep);
                        lemma_filter_by_is_filter(v0, keep, is_not(id));
                    }'''),
    (r'if operators_map\.is_empty\(\)', 'before', '''let ghost m2 = operators_map@;
                    proof { assert(forall|p: LuaOperatorMetaMethod| p != op ==> m2.contains_key(p) == #[trigger] t1[*owner]@.contains_key(p)); }'''),
    (r'if operators_map\.is_empty\(\) \{[^}]*\}', 'after', '''proof {
                        assert(tv_has(self.type_operators_map@, *owner, op) ==> tv(self.type_operators_map@, *owner, op).len() > 0); /*@C10.operator.no-empty-vector*/
                        assert(self.type_operators_map@.contains_key(*owner) ==> self.type_operators_map@[*owner]@.len() > 0); /*@C10.operator.no-empty-owner-map*/
                        lemma_done(''' + OP_T0 + 't1, self.type_operators_map@, ' + OP_ARGS + '''); /*@C10.operator.type-map.step*/
                    }'''),
    (r'\}\s*$', 'before', '''proof {
            if op_wf(old(self).operators@, old(self).type_operators_map@, old(self).in_filed_operator_map@) {
                lemma_op_final(old(self).operators@, old(self).type_operators_map@, old(self).in_filed_operator_map@,
                    self.operators@, self.type_operators_map@, self.in_filed_operator_map@, file_id, op_listed(old(self), file_id));
            }
        }'''),
]



def sweep_overlay(n, field, keyty, tag):
    """contract overlay of one `iter_mut` sweep + its clean-up loop (loop ordinals 2n, 2n+1)"""
    g = {'n': n, 'field': field, 'K': keyty, 'tag': tag}
    loops = {
        2 * n: '''invariant
                keys_ok(), im_keys(__it%(n)d) == keys%(n)d, im_fin(__it%(n)d) == fin%(n)d, im_old(__it%(n)d) == m0%(n)d, 0 <= im_pos(__it%(n)d) <= keys%(n)d.len(),
                sweep_inv(m0%(n)d, fin%(n)d, keys%(n)d, im_pos(__it%(n)d), to_be_remove@, file_id) /*@C10.reference.%(tag)s.sweep.inv*/,
            ensures im_pos(__it%(n)d) >= keys%(n)d.len(), sweep_inv(m0%(n)d, fin%(n)d, keys%(n)d, im_pos(__it%(n)d), to_be_remove@, file_id),
            decreases keys%(n)d.len() - im_pos(__it%(n)d)''' % g,
        2 * n + 1: '''invariant
                keys_ok(), tbr%(n)d == to_be_remove@, 0 <= it.index@ <= tbr%(n)d.len(),
                forall|k: %(K)s| #[trigger] self.%(field)s@.contains_key(k) <==> fin%(n)d.contains_key(k) && !(exists|j: int| 0 <= j < it.index@ && tbr%(n)d[j] == k) /*@C10.reference.%(tag)s.empty-keys-dropped.inv*/,
                forall|k: %(K)s| #[trigger] self.%(field)s@.contains_key(k) ==> self.%(field)s@[k] == fin%(n)d[k],''' % g,
    }
    proof = [
        (r'let mut __it%(n)d = self\.%(field)s\.iter_mut\(\);' % g, 'after',
         'let ghost keys%(n)d = im_keys(__it%(n)d); let ghost fin%(n)d = im_fin(__it%(n)d); let ghost m0%(n)d = im_old(__it%(n)d);' % g),
        (r'match __it%(n)d\.next\(\)' % g, 'before', 'let ghost pos%(n)d = im_pos(__it%(n)d); let ghost tbr0%(n)d = to_be_remove@;' % g),
        (r'(?s)match __it%(n)d\.next\(\).*?to_be_remove\.push\(key\.clone\(\)\);\s*\}' % g, 'after',
         'proof { lemma_sweep_step(m0%(n)d, fin%(n)d, keys%(n)d, pos%(n)d, tbr0%(n)d, to_be_remove@, file_id); } /*@C10.reference.%(tag)s.sweep-step*/' % g),
        (r'for key in to_be_remove \{\s*self\.%(field)s\.' % g, 'before',
         'let ghost tbr%(n)d = to_be_remove@; let ghost end%(n)d = im_pos(__it%(n)d);' % g),
        (r'self\.%(field)s\.\w+\(&key\);\s*\}' % g, 'after',
         'proof { lemma_sweep_final(m0%(n)d, fin%(n)d, keys%(n)d, end%(n)d, tbr%(n)d, self.%(field)s@, file_id); }' % g),
    ]
    return loops, proof


REF_LOOPS, REF_PROOF = {}, []
for _n, _f, _k, _t in ((0, 'index_reference', 'LuaMemberKey', 'index_reference'), (1, 'global_references', 'SmolStr', 'global_references')):
    _l, _p = sweep_overlay(_n, _f, _k, _t)
    REF_LOOPS.update(_l); REF_PROOF += _p

MB_LISTED = '|o: LuaMemberOwner| mo_listed(old(self), file_id).contains(MemberOrOwner::Owner(o))'
MB_LOOPS = {
    0: '''invariant keys_ok(), 0 <= it0.index@ <= __v0@.len(),
                    l0_inv(mem0, self.members@, mco0, self.member_current_owner@, owners@, __v0@, it0.index@) /*@C10.member.members-of-file-gone.inv*/,''',
    1: '''invariant keys_ok(), 0 <= it.index@ <= __v1@.len(), __v1@.no_duplicates(),
                    om_inv(t0, self.owner_members@, __v1@, it.index@, need_removed_owner@, file_id) /*@C10.member.owner-sweep.inv*/,''',
    2: '''invariant
                            keys_ok(), im_keys(__it0) == keys0, im_fin(__it0) == fin0, im_old(__it0) == m00, 0 <= im_pos(__it0) <= keys0.len(),
                            items_inv(m00, fin0, keys0, im_pos(__it0), need_removed_key@, file_id) /*@C10.member.item-sweep.inv*/,
                        ensures im_pos(__it0) >= keys0.len(), items_inv(m00, fin0, keys0, im_pos(__it0), need_removed_key@, file_id),
                        decreases keys0.len() - im_pos(__it0)''',
    3: '''invariant keys_ok(), nrk == need_removed_key@, 0 <= it2.index@ <= nrk.len(),
                            forall|k: LuaMemberKey| #[trigger] member_items.members@.contains_key(k) <==> fin0.contains_key(k) && !in_pref(nrk, it2.index@, k) /*@C10.member.dead-keys-dropped.inv*/,
                            forall|k: LuaMemberKey| #[trigger] member_items.members@.contains_key(k) ==> member_items.members@[k] == fin0[k],
                            member_items.resolve_state == t1[ow].resolve_state,''',
    4: '''invariant keys_ok(), nro == need_removed_owner@, 0 <= it4.index@ <= nro.len(),
                    forall|o: LuaMemberOwner| #[trigger] self.owner_members@.contains_key(o) <==> tE.contains_key(o) && !in_pref(nro, it4.index@, o) /*@C10.member.empty-owners-dropped.inv*/,
                    forall|o: LuaMemberOwner| #[trigger] self.owner_members@.contains_key(o) ==> self.owner_members@[o] == tE[o],''',
}
MB_PROOF = [
    (r'let mut owners = HashSet::new\(\);', 'after', 'let ghost mem0 = self.members@; let ghost mco0 = self.member_current_owner@;'),
    (r'match member_id_or_owner \{', 'before', 'proof { lemma_in_pref_step(__v0@, it0.index@ + 1); }'),
    (r'let mut need_removed_owner = Vec::new\(\);', 'before', 'proof { lemma_in_pref_full(__v0@); }'),
    (r'let mut need_removed_owner = Vec::new\(\);', 'after', 'let ghost t0 = self.owner_members@;'),
    (r'for owner in __v1 \{', 'before', 'proof { lemma_om_init(t0, __v1@, file_id); }'),
    (r'if let Some\(member_items\) = self\.owner_members\.get_mut', 'before', '''let ghost t1 = self.owner_members@; let ghost ow = owner; let ghost nro0 = need_removed_owner@;
                let ghost n1 = it.index@ + 1;
                proof { assert(ow == __v1@[n1 - 1]); if !t1.contains_key(ow) { lemma_om_skip(t0, t1, __v1@, n1, nro0, file_id); } }'''),
    (r'let mut __it0 = member_items\.members\.iter_mut\(\);', 'after',
     'let ghost keys0 = im_keys(__it0); let ghost fin0 = im_fin(__it0); let ghost m00 = im_old(__it0);'),
    (r'match __it0\.next\(\)', 'before', 'let ghost pos0 = im_pos(__it0); let ghost nrk0 = need_removed_key@;'),
    (r'ids\.retain\(', 'before', 'let ghost v0 = ids@;'),
    (r'ids\.retain\([^;]*\);', 'after', '''proof {
                                    assert(exists|keep: Seq<bool>| keep.len() == v0.len() && (forall|i: int| 0 <= i < keep.len() ==> #[trigger] keep[i] == (v0[i].file_id != file_id)) && ids@ == filter_by(v0, keep));
                                    let keep = choose|keep: Seq<bool>| keep.len() == v0.len() && (forall|i: int| 0 <= i < keep.len() ==> #[trigger] keep[i] == (v0[i].file_id != file_id)) && ids@ == filter_by(v0, keep);
                                    lemma_filter_by_is_filter(v0, keep, mid_not_file(file_id));
                                }'''),
    (r'/\*__it0:end-of-body\*/', 'before', 'proof { lemma_items_step(m00, fin0, keys0, pos0, nrk0, need_removed_key@, file_id); } /*@C10.member.item-sweep.step*/'),
    (r'for key in need_removed_key \{', 'before', 'let ghost nrk = need_removed_key@; let ghost end0 = im_pos(__it0);'),
    (r'for key in need_removed_key \{', 'after', 'proof { lemma_in_pref_step(nrk, it2.index@ + 1); }'),
    (r'if member_items\.is_empty\(\)', 'before', '''proof { lemma_items_final(m00, fin0, keys0, end0, nrk, member_items.members@, file_id); }
                    let ghost x_end = *member_items;
                    proof { assert(owner_after(t1[ow], x_end, file_id)); } /*@C10.member.owner-swept*/'''),
    (r'(?s)need_removed_owner\.push\(owner\);\s*\}\s*\}', 'after',
     'proof { if t1.contains_key(ow) { lemma_om_step(t0, t1, self.owner_members@, __v1@, n1, nro0, need_removed_owner@, file_id); } } /*@C10.member.owner-sweep.step*/'),
    (r'for owner in need_removed_owner \{', 'before', 'let ghost tE = self.owner_members@; let ghost nro = need_removed_owner@;'),
    (r'self\.owner_members\.\w+\(&owner\);\s*\}', 'after',
     'proof { lemma_om_final(t0, tE, __v1@, nro, self.owner_members@, ' + MB_LISTED + ', file_id); }'),
    (r'self\.owner_members\.\w+\(&owner\);', 'before', 'proof { lemma_in_pref_step(nro, it4.index@ + 1); }'),
    (r'\}\s*$', 'before', '''proof {
            if member_wf(old(self).members@, old(self).member_current_owner@, old(self).owner_members@, old(self).in_filed@) {
                lemma_member_final(old(self).members@, old(self).member_current_owner@, old(self).owner_members@, old(self).in_filed@,
                    self.members@, self.member_current_owner@, self.owner_members@, self.in_filed@, file_id, mo_listed(old(self), file_id), ''' + MB_LISTED + ''');
            }
        }'''),
]

UNIT = {
    'extra_rules': [
        ('c10-metatable-closure-contract', r'\|key, _\| ([^;]*?)\);',
         r'|key: &InFiled<TextRange>, _v: &mut InFiled<TextRange>| -> (b: bool) ensures b == (key.file_id != file_id) /*@C10.metatable.retain-predicate*/, *final(_v) == *old(_v) { \1 });',
         'contract overlay on the closure handed to HashMap::retain: parameter types, a name for the ignored `_` parameter '
         '(never used, so naming it changes nothing), named result and `ensures` are added; the body expression is kept verbatim '
         'and Verus checks the ensures against it'),
        ('c10-global-closure-contract', r'\|_, v\| \{(.*?)\n(\s*)\}\);',
         r'|_k: &GlobalId, v: &mut Vec<LuaDeclId>| -> (b: bool) \n                ensures final(v)@ == decls_not_of(old(v)@, file_id) /*@C10.global.inner-retain*/,\n                    b == (final(v)@.len() > 0) /*@C10.global.drop-empty*/\n            {\1\n\2});',
         'contract overlay on the closure handed to HashMap::retain: parameter types, a name for the ignored `_` key parameter, '
         'named result and `ensures` are added; the body statements are kept verbatim and Verus checks the ensures against them',
         16),   # re.S
        ('c10-global-inner-closure-contract', r'\|decl_id\| ([^;]*?)\);',
         r'|decl_id: &LuaDeclId| -> (b2: bool) ensures b2 == (decl_id.file_id != file_id) /*@C10.global.retain-predicate*/ { \1 });',
         'contract overlay on the closure handed to Vec::retain: parameter type, named result and `ensures` are added, body verbatim'),
        ('for-vec-index-loop', r'for (\w+) in (\w+) \{',
         r'let __v = \2; let mut __i: usize = 0; while __i < __v.len() { let \1 = __v[__i]; __i += 1;',
         'for x in V { B } (V: Vec<T> by value, T: Copy: rustc rejects `let x = __v[__i]` otherwise) -> '
         'let __v = V; let mut __i = 0; while __i < __v.len() { let x = __v[__i]; __i += 1; B }. '
         'Vec::into_iter yields the elements by value, each exactly once, in index order; the index is advanced before B so that '
         '`continue` in B goes on with the next element exactly as in the for loop (Verus: "for-loops do not yet support continue"). '
         'T: Copy has no Drop, so moving the drop of the vector from the end of the loop to the end of the block is unobservable'),
        ('hashset-into-iter-vec-0', r'for (\w+) in (member_ids) \{', r'let __v0 = vx_set_into_vec(\2); for \1 in __v0 {',
         'for x in SET { B } (SET: HashSet<T> by value) -> let __v0 = vx_set_into_vec(SET); for x in __v0 { B }: HashSet::into_iter yields '
         'every element exactly once in unspecified order; vx_set_into_vec returns such a sequence (no duplicates, same set) - rule of unit c10_remove'),
        ('hashset-into-iter-vec-1', r'for (\w+) in (owners) \{', r'let __v1 = vx_set_into_vec(\2); for \1 in __v1 {',
         'as hashset-into-iter-vec-0, for the second set-driven loop of LuaMemberIndex::remove'),
        ('c10-member-closure-contract', r'\|id\| ([^;]*?)\);',
         r'|id: &LuaMemberId| -> (b: bool) ensures b == (id.file_id != file_id) /*@C10.member.retain-predicate*/ { \1 });',
         'contract overlay on the closure handed to Vec::retain: parameter type, named result and `ensures` are added, body verbatim'),
        ('c10-operator-closure-contract', r'\|x\| ([^;]*?)\);',
         r'|x: &LuaOperatorId| -> (b: bool) ensures b == (*x != id) /*@C10.operator.retain-predicate*/ { \1 });',
         'contract overlay on the closure handed to Vec::retain: parameter type, named result and `ensures` are added, body verbatim'),
    ],
    'items': {
        'FileId': {'src': {'file': SRC + 'vfs/file_id.rs', 'kind': 'struct', 'name': 'FileId'}, 'attrs': ID_DERIVE},
        'InFiled': {'src': {'file': SRC + 'vfs/file_id.rs', 'kind': 'struct', 'name': 'InFiled'}, 'attrs': '#[derive(PartialEq, Eq, Hash)]'},
        'LuaDeclId': {'src': {'file': DB + 'declaration/decl_id.rs', 'kind': 'struct', 'name': 'LuaDeclId'}, 'attrs': ID_DERIVE},
        # 1 ---- metatable
        'LuaMetatableIndex': st('metatable/mod.rs', 'LuaMetatableIndex'),
        'LuaMetatableIndex::remove': rm(
            'metatable/mod.rs', 'LuaMetatableIndex', rules=['c10-metatable-closure-contract'],
            ensures='''
            // nothing keyed by the removed file remains; every other entry is unchanged (whole map, pointwise)
            (forall|k: InFiled<TextRange>| #[trigger] final(self).metatables@.contains_key(k) <==> old(self).metatables@.contains_key(k) && k.file_id != file_id)
                && (forall|k: InFiled<TextRange>| #[trigger] final(self).metatables@.contains_key(k) ==> final(self).metatables@[k] == old(self).metatables@[k]) /*@C10.metatable.no-trace-of-removed-file*/,
            // ... and, tables and their metatables being co-filed (only writer: analyze_setmetatable), nothing points to it either
            metatable_cofiled(old(self).metatables@) ==> metatable_cofiled(final(self).metatables@)
                && (forall|k: InFiled<TextRange>| #[trigger] final(self).metatables@.contains_key(k) ==> final(self).metatables@[k].file_id != file_id) /*@C10.metatable.no-value-points-to-removed-file*/'''),
        # 2 ---- global
        'LuaGlobalIndex': st('global/mod.rs', 'LuaGlobalIndex'),
        'LuaGlobalIndex::remove': rm(
            'global/mod.rs', 'LuaGlobalIndex',
            rules=['c10-global-closure-contract', 'c10-global-inner-closure-contract'],
            proof=[(r'v\.retain\(\|decl_id[^;]*\);', 'after', GLOBAL_CLOSURE_PROOF)],
            ensures='''
            // every global keeps exactly its decl ids of other files, in order; globals left without a decl are dropped
            (forall|k: GlobalId| #[trigger] final(self).global_decl@.contains_key(k) <==>
                    old(self).global_decl@.contains_key(k) && decls_not_of(old(self).global_decl@[k]@, file_id).len() > 0)
                && (forall|k: GlobalId| #[trigger] final(self).global_decl@.contains_key(k) ==>
                    final(self).global_decl@[k]@ == decls_not_of(old(self).global_decl@[k]@, file_id)) /*@C10.global.no-trace-of-removed-file*/,
            forall|k: GlobalId, i: int| #[trigger] final(self).global_decl@.contains_key(k) && 0 <= i < final(self).global_decl@[k]@.len()
                ==> (#[trigger] final(self).global_decl@[k]@[i]).file_id != file_id /*@C10.global.no-decl-of-removed-file*/,
            forall|k: GlobalId| #[trigger] final(self).global_decl@.contains_key(k) ==> final(self).global_decl@[k]@.len() > 0 /*@C10.global.no-empty-vector*/'''),
        # 3 ---- operator
        'LuaOperatorId': {'src': {'file': DB + 'operators/lua_operator.rs', 'kind': 'struct', 'name': 'LuaOperatorId'}, 'attrs': ID_DERIVE},
        'LuaOperatorMetaMethod': {'src': {'file': DB + 'operators/lua_operator_meta_method.rs', 'kind': 'enum', 'name': 'LuaOperatorMetaMethod'},
                                  'attrs': '#[derive(Clone, Copy, PartialEq, Eq, Hash)]'},
        'LuaOperatorOwner': {'src': {'file': DB + 'operators/lua_operator.rs', 'kind': 'enum', 'name': 'LuaOperatorOwner'},
                             'attrs': '#[derive(PartialEq, Eq, Hash)]'},
        'LuaOperator': st('operators/lua_operator.rs', 'LuaOperator', keep=['owner', 'op', 'file_id', 'range']),
        'LuaOperator::get_owner': {'src': {'file': DB + 'operators/lua_operator.rs', 'kind': 'fn', 'impl': 'LuaOperator', 'name': 'get_owner'},
                                   'ret': 'r', 'ensures': '*r == self.owner'},
        'LuaOperator::get_op': {'src': {'file': DB + 'operators/lua_operator.rs', 'kind': 'fn', 'impl': 'LuaOperator', 'name': 'get_op'},
                                'ret': 'r', 'ensures': 'r == self.op'},
        'LuaOperatorIndex': st('operators/mod.rs', 'LuaOperatorIndex'),
        'LuaOperatorIndex::remove': rm(
            'operators/mod.rs', 'LuaOperatorIndex', rules=['for-vec-index-loop', 'c10-operator-closure-contract'],
            loops={0: OP_LOOP}, proof=OP_PROOF,
            body_first='proof { lemma_init(self.type_operators_map@, self.operators@, op_listed(self, file_id)); }',
            ensures='''
            // under the index invariant: nothing of the removed file remains (operators, every per-owner vector, the per-file list,
            // table owners of that file), everything else is unchanged, and the invariant (incl. "no empty container") is kept
            op_wf(old(self).operators@, old(self).type_operators_map@, old(self).in_filed_operator_map@) ==>
                op_removed(old(self).operators@, old(self).type_operators_map@, old(self).in_filed_operator_map@,
                           final(self).operators@, final(self).type_operators_map@, final(self).in_filed_operator_map@, file_id)
                && op_wf(final(self).operators@, final(self).type_operators_map@, final(self).in_filed_operator_map@) /*@C10.operator.no-trace-of-removed-file*/,
            // without assuming the invariant: what the loop does, id by id of the file's list
            final(self).in_filed_operator_map@ == old(self).in_filed_operator_map@.remove(file_id) /*@C10.operator.in_filed_operator_map*/,
            ops_inv(old(self).operators@, final(self).operators@, op_listed(old(self), file_id), op_listed(old(self), file_id).len() as int) /*@C10.operator.operators-of-file-gone*/,
            tm_inv(old(self).type_operators_map@, final(self).type_operators_map@, old(self).operators@, op_listed(old(self), file_id), op_listed(old(self), file_id).len() as int) /*@C10.operator.type-map*/'''),
        # 4 ---- reference (the whole `remove`: four per-file maps + two nested sweeps)
        'LuaReferenceIndex': st('reference/mod.rs', 'LuaReferenceIndex'),
        'LuaReferenceIndex::remove': rm(
            'reference/mod.rs', 'LuaReferenceIndex', rules=[('for-iter-mut-loop', {'count': 2})],
            loops=REF_LOOPS, iter_names={1: 'it', 3: 'it'}, proof=REF_PROOF,
            ensures='''
            // nested key -> file -> set maps: file_id is gone from every inner map, keys left with an empty inner map are gone,
            // every other (key, file) entry is unchanged; the four per-file maps lose exactly the entry of file_id
            swept(old(self).index_reference@, final(self).index_reference@, file_id)
                && swept(old(self).global_references@, final(self).global_references@, file_id)
                && dropped(old(self).file_references@, final(self).file_references@, file_id)
                && dropped(old(self).string_references@, final(self).string_references@, file_id)
                && dropped(old(self).type_references@, final(self).type_references@, file_id)
                && dropped(old(self).label_references@, final(self).label_references@, file_id) /*@C10.reference.no-trace-of-removed-file*/,
            forall|k: LuaMemberKey| #[trigger] final(self).index_reference@.contains_key(k) ==>
                !final(self).index_reference@[k]@.contains_key(file_id) && !final(self).index_reference@[k]@.is_empty() /*@C10.reference.index_reference.no-file-no-empty*/,
            forall|k: SmolStr| #[trigger] final(self).global_references@.contains_key(k) ==>
                !final(self).global_references@[k]@.contains_key(file_id) && !final(self).global_references@[k]@.is_empty() /*@C10.reference.global_references.no-file-no-empty*/'''),
        # 5 ---- member
        'LuaMemberId': st('member/lua_member.rs', 'LuaMemberId', attrs='#[derive(Clone, Copy, PartialEq, Eq, Hash)]'),
        'LuaMemberIndexItem': {'src': {'file': DB + 'member/lua_member_item.rs', 'kind': 'enum', 'name': 'LuaMemberIndexItem'}},
        'LuaMemberOwner': {'src': {'file': DB + 'member/lua_member_owner.rs', 'kind': 'enum', 'name': 'LuaMemberOwner'}, 'attrs': '#[derive(PartialEq, Eq, Hash)]'},
        'MemberOrOwner': {'src': {'file': DB + 'member/mod.rs', 'kind': 'enum', 'name': 'MemberOrOwner'}, 'attrs': '#[derive(PartialEq, Eq, Hash)]', 'rules': ['vis-pub']},
        'OwnerMemberStatus': {'src': {'file': DB + 'member/lua_owner_members.rs', 'kind': 'enum', 'name': 'OwnerMemberStatus'}},
        'LuaOwnerMembers': st('member/lua_owner_members.rs', 'LuaOwnerMembers'),
        'LuaOwnerMembers::remove_member': {
            'src': {'file': DB + 'member/lua_owner_members.rs', 'kind': 'fn', 'impl': 'LuaOwnerMembers', 'name': 'remove_member'},
            'requires': 'keys_ok()', 'vac': False,
            'ensures': 'final(self).members@ == old(self).members@.remove(*key), final(self).resolve_state == old(self).resolve_state'},
        'LuaOwnerMembers::is_empty': {
            'src': {'file': DB + 'member/lua_owner_members.rs', 'kind': 'fn', 'impl': 'LuaOwnerMembers', 'name': 'is_empty'},
            'ret': 'r', 'ensures': 'r == self.members@.is_empty()'},
        'LuaMemberIndex': st('member/mod.rs', 'LuaMemberIndex'),
        'LuaMemberIndex::remove': rm(
            'member/mod.rs', 'LuaMemberIndex',
            rules=['hashset-into-iter-vec-0', 'hashset-into-iter-vec-1', 'inline-owner-members-iter-mut', ('for-iter-mut-loop', {'count': 1}),
                   'c10-member-closure-contract'],
            attrs='#[verifier::loop_isolation(false)]\n#[verifier::allow_complex_invariants]',
            loops=MB_LOOPS, iter_names={0: 'it0', 1: 'it', 3: 'it2', 4: 'it4'}, proof=MB_PROOF,
            ensures='''
            // under the index invariant: no member id of the removed file remains in members, member_current_owner, in_filed or in any
            // owner's item; every other entry, item and id is unchanged (order kept); emptied items/owners are dropped; invariant kept
            member_wf(old(self).members@, old(self).member_current_owner@, old(self).owner_members@, old(self).in_filed@) ==>
                member_removed(old(self).members@, old(self).member_current_owner@, old(self).owner_members@, old(self).in_filed@,
                               final(self).members@, final(self).member_current_owner@, final(self).owner_members@, final(self).in_filed@, file_id)
                && member_wf(final(self).members@, final(self).member_current_owner@, final(self).owner_members@, final(self).in_filed@) /*@C10.member.no-trace-of-removed-file*/,
            // without assuming the invariant: what the loops do with the entries listed under the file
            final(self).in_filed@ == old(self).in_filed@.remove(file_id) /*@C10.member.in_filed*/,
            mem_after(old(self).members@, final(self).members@, mo_listed(old(self), file_id)) /*@C10.member.members-of-file-gone*/,
            mem_after(old(self).member_current_owner@, final(self).member_current_owner@, mo_listed(old(self), file_id)) /*@C10.member.current-owner-of-file-gone*/,
            om_after(old(self).owner_members@, final(self).owner_members@, ''' + MB_LISTED + ''', file_id) /*@C10.member.owner-items-of-file-gone*/'''),
        # ---- DbIndex::remove delegates to each of them
        'DbIndex': {'src': {'file': DB + 'mod.rs', 'kind': 'struct', 'name': 'DbIndex'}, 'rules': [('struct-fields', {'drop': ['vfs', 'emmyrc']})]},
        'DbIndex::remove': {'src': {'file': DB + 'mod.rs', 'kind': 'fn', 'impl': 'LuaIndex for DbIndex', 'name': 'remove'},
                            'requires': 'keys_ok()',
                            'ensures': '''removed_metatable(&old(self).metatable_index, &final(self).metatable_index, file_id) /*@C10.DbIndex.metatable_index*/,
            removed_global(&old(self).global_index, &final(self).global_index, file_id) /*@C10.DbIndex.global_index*/,
            removed_operator(&old(self).operator_index, &final(self).operator_index, file_id) /*@C10.DbIndex.operator_index*/,
            removed_reference(&old(self).references_index, &final(self).references_index, file_id) /*@C10.DbIndex.references_index*/,
            removed_member(&old(self).members_index, &final(self).members_index, file_id) /*@C10.DbIndex.members_index*/'''},
    },
    'allow': [r'external_body', r'uninterp spec fn im_(keys|pos|old|fin)', r'external_type_specification',
              r'assume_specification<\'a, K, V, S, A: Allocator>\[ HashMap::<K, V, S, A>::iter_mut \]',
              r'assume_specification<\'a, K, V>\[ <IterMut<\'a, K, V> as Iterator>::next \]', r'assume_specification<\'a, K: Eq \+ Hash \+ Borrow<Q>, V, S: BuildHasher, A: Allocator, Q: Hash \+ Eq \+ \?Sized>\[ HashMap::<K, V, S, A>::get_mut \]', r'assume_specification<T, A: Allocator, F: FnMut\(&T\) -> bool>\[ Vec::<T, A>::retain \]',
              r'assume_specification<K, V, S, A: Allocator, F: FnMut\(&K, &mut V\) -> bool>\[ HashMap::<K, V, S, A>::retain \]'],
    'mutants': [
        {'name': 'metatable-retain-negated', 'item': 'LuaMetatableIndex::remove', 'pattern': r'key\.file_id != file_id', 'repl': 'key.file_id == file_id',
         'expect': r'C10\.metatable\.retain-predicate'},
        {'name': 'metatable-keeps-everything', 'item': 'LuaMetatableIndex::remove', 'pattern': r'key\.file_id != file_id', 'repl': 'true',
         'expect': r'C10\.metatable\.retain-predicate'},
        {'name': 'global-retain-negated', 'item': 'LuaGlobalIndex::remove', 'pattern': r'decl_id\.file_id != file_id', 'repl': 'decl_id.file_id == file_id',
         'expect': r'C10\.global\.retain-predicate'},
        {'name': 'global-keeps-all-decls', 'item': 'LuaGlobalIndex::remove', 'pattern': r'decl_id\.file_id != file_id', 'repl': 'true',
         'expect': r'C10\.global\.retain-predicate'},
        {'name': 'global-keeps-empty-vector', 'item': 'LuaGlobalIndex::remove', 'pattern': r'!v\.is_empty\(\)', 'repl': 'true',
         'expect': r'C10\.global\.drop-empty'},
        {'name': 'operator-keeps-operators', 'item': 'LuaOperatorIndex::remove', 'pattern': r'self\.operators\.remove\(&id\)', 'repl': 'self.operators.get(&id)',
         'expect': r'C10\.operator\.operators-of-file-gone'},
        {'name': 'operator-retain-negated', 'item': 'LuaOperatorIndex::remove', 'pattern': r'x != &id', 'repl': 'x == &id',
         'expect': r'C10\.operator\.retain-predicate'},
        {'name': 'operator-keeps-empty-vector', 'item': 'LuaOperatorIndex::remove', 'pattern': r'operators_map\.remove\(&op\);', 'repl': '',
         'expect': r'C10\.operator\.no-empty-vector'},
        {'name': 'operator-keeps-empty-owner', 'item': 'LuaOperatorIndex::remove', 'pattern': r'self\.type_operators_map\.remove\(owner\);', 'repl': '',
         'expect': r'C10\.operator\.no-empty-owner-map'},
        {'name': 'reference-keeps-file-in-inner-map', 'item': 'LuaReferenceIndex::remove', 'pattern': r'\breferences\.remove\(&file_id\);', 'repl': 'references.get(&file_id);',
         'expect': r'C10\.reference\.index_reference\.sweep-step'},
        {'name': 'reference-never-collects-empty-keys', 'item': 'LuaReferenceIndex::remove', 'pattern': r'if references\.is_empty\(\) \{', 'repl': 'if false {',
         'expect': r'C10\.reference\.index_reference\.sweep-step'},
        {'name': 'reference-keeps-empty-keys', 'item': 'LuaReferenceIndex::remove', 'pattern': r'self\.index_reference\.remove\(&key\);', 'repl': 'self.index_reference.get(&key);',
         'expect': r'C10\.reference\.index_reference\.empty-keys-dropped'},
        {'name': 'reference-global-keeps-empty-keys', 'item': 'LuaReferenceIndex::remove', 'pattern': r'self\.global_references\.remove\(&key\);', 'repl': 'self.global_references.get(&key);',
         'expect': r'C10\.reference\.global_references\.empty-keys-dropped'},
        {'name': 'reference-keeps-label-references', 'item': 'LuaReferenceIndex::remove', 'pattern': r'self\.label_references\.remove\(&file_id\);', 'repl': '',
         'expect': r'C10\.reference\.no-trace-of-removed-file'},
        {'name': 'member-keeps-members', 'item': 'LuaMemberIndex::remove', 'pattern': r'self\.members\.remove\(&member_id\);', 'repl': 'self.members.get(&member_id);',
         'expect': r'C10\.member\.members-of-file-gone'},
        {'name': 'member-keeps-current-owner', 'item': 'LuaMemberIndex::remove', 'pattern': r'self\.member_current_owner\.remove\(&member_id\);', 'repl': 'self.member_current_owner.get(&member_id);',
         'expect': r'C10\.member\.members-of-file-gone'},
        {'name': 'member-retain-negated', 'item': 'LuaMemberIndex::remove', 'pattern': r'id\.file_id != file_id', 'repl': 'id.file_id == file_id',
         'expect': r'C10\.member\.retain-predicate'},
        {'name': 'member-keeps-single-item-of-file', 'item': 'LuaMemberIndex::remove', 'pattern': r'if id\.file_id == file_id \{', 'repl': 'if false {',
         'expect': r'C10\.member\.item-sweep\.step'},
        {'name': 'member-keeps-dead-keys', 'item': 'LuaMemberIndex::remove', 'pattern': r'member_items\.remove_member\(&key\);', 'repl': 'member_items.is_empty();',
         'expect': r'C10\.member\.dead-keys-dropped'},
        {'name': 'member-keeps-empty-owners', 'item': 'LuaMemberIndex::remove', 'pattern': r'self\.owner_members\.remove\(&owner\);', 'repl': 'self.owner_members.get(&owner);',
         'expect': r'C10\.member\.empty-owners-dropped'},
        {'name': 'member-never-collects-empty-owners', 'item': 'LuaMemberIndex::remove', 'pattern': r'if member_items\.is_empty\(\) \{', 'repl': 'if member_items.is_empty() && false {',
         'expect': r'C10\.member\.owner-sweep\.step'},
        {'name': 'dbindex-skips-operators', 'item': 'DbIndex::remove', 'pattern': r'self\.operator_index\.remove\(file_id\);', 'repl': '', 'expect': r'C10\.DbIndex\.operator_index'},
        {'name': 'dbindex-skips-members', 'item': 'DbIndex::remove', 'pattern': r'self\.members_index\.remove\(file_id\);', 'repl': '', 'expect': r'C10\.DbIndex\.members_index'},
        {'name': 'dbindex-skips-references', 'item': 'DbIndex::remove', 'pattern': r'self\.references_index\.remove\(file_id\);', 'repl': '', 'expect': r'C10\.DbIndex\.references_index'},
        {'name': 'dbindex-skips-globals', 'item': 'DbIndex::remove', 'pattern': r'self\.global_index\.remove\(file_id\);', 'repl': '', 'expect': r'C10\.DbIndex\.global_index'},
        {'name': 'dbindex-skips-metatables', 'item': 'DbIndex::remove', 'pattern': r'self\.metatable_index\.remove\(file_id\);', 'repl': '', 'expect': r'C10\.DbIndex\.metatable_index'},
        {'name': 'operator-keeps-file-list', 'item': 'LuaOperatorIndex::remove', 'pattern': r'self\.in_filed_operator_map\.remove\(&file_id\)', 'repl': 'self.in_filed_operator_map.get(&file_id)',
         'expect': r'C10\.operator\.in_filed_operator_map'},
    ],
    'min_obligations': 2,
    'trusted': ['hashbrown -> std::collections'],
}
