SRC = 'crates/emmylua_code_analysis/src/'
DB = SRC + 'db_index/'


def st(file, name, attrs=None, **kw):
    d = {'src': {'file': DB + file, 'kind': 'struct', 'name': name}, 'rules': [('struct-fields', kw)]}
    if attrs: d['attrs'] = attrs
    return d


def rm(file, name, ensures, **kw):
    d = {'src': {'file': DB + file, 'kind': 'fn', 'impl': 'LuaIndex for ' + name, 'name': 'remove'},
         'requires': 'keys_ok()', 'ensures': ensures}
    d.update(kw)
    return d


ID_DERIVE = '#[derive(Clone, Copy, PartialEq, Eq, Hash, Structural)]'

GLOBAL_CLOSURE_PROOF = '''proof {
                let ghost s0 = old(v)@;
                assert(exists|keep: Seq<bool>| keep.len() == s0.len()
                    && (forall|i: int| 0 <= i < keep.len() ==> #[trigger] keep[i] == (s0[i].file_id != file_id)) && v@ == filter_by(s0, keep));
                let keep = choose|keep: Seq<bool>| keep.len() == s0.len()
                    && (forall|i: int| 0 <= i < keep.len() ==> #[trigger] keep[i] == (s0[i].file_id != file_id)) && v@ == filter_by(s0, keep);
                lemma_filter_by_is_filter(s0, keep, |d: LuaDeclId| d.file_id != file_id);
            }'''

OP_LOOP = '''invariant
                    keys_ok(), __i <= __v.len(), __v@ == op_listed(old(self), file_id),
                    self.in_filed_operator_map@ == old(self).in_filed_operator_map@.remove(file_id) /*@C10.operator.in_filed_operator_map.inv*/,
                    ops_inv(old(self).operators@, self.operators@, __v@, __i as int) /*@C10.operator.operators-of-file-gone.inv*/,
                    tm_inv(old(self).type_operators_map@, self.type_operators_map@, old(self).operators@, __v@, __i as int) /*@C10.operator.type-map.inv*/,
                decreases __v.len() - __i'''

OP_T0 = 'old(self).type_operators_map@, '
OP_ARGS = 'old(self).operators@, __v@, __n, __i as int'
OP_PROOF = [
    (r'__i \+= 1;', 'before', 'let ghost __n: int = __i as int;'),
    (r'__i \+= 1;', 'after', '''proof {
                    lemma_in_prefix_step(__v@, __n, __i as int);
                    if !self.operators@.contains_key(id) { lemma_skip_dead(''' + OP_T0 + 'self.type_operators_map@, ' + OP_ARGS + '''); }
                }'''),
    (r'let operators_map = match', 'before', '''let ghost t1 = self.type_operators_map@;
                    proof { if !t1.contains_key(*owner) { lemma_skip_owner(''' + OP_T0 + 't1, ' + OP_ARGS + '''); } }'''),
    (r'let operators = match', 'before', '''proof { if !operators_map@.contains_key(op) { lemma_skip_op(''' + OP_T0 + 't1, ' + OP_ARGS + '''); } }'''),
    (r'operators\.retain\(', 'before', 'let ghost v0 = operators@;'),
    (r'operators\.retain\([^;]*\);', 'after', '''proof {
                        assert(exists|keep: Seq<bool>| keep.len() == v0.len() && (forall|i: int| 0 <= i < keep.len() ==> #[trigger] keep[i] == (v0[i] != id)) && operators@ == filter_by(v0, keep));
                        let keep = choose|keep: Seq<bool>| keep.len() == v0.len() && (forall|i: int| 0 <= i < keep.len() ==> #[trigger] keep[i] == (v0[i] != id)) && operators@ == filter_by(v0, keep);
                        lemma_filter_by_is_filter(v0, keep, is_not(id));
                    }'''),
    (r'if operators_map\.is_empty\(\)', 'before', '''let ghost m2 = operators_map@;
                    proof { assert(forall|p: LuaOperatorMetaMethod| p != op ==> m2.contains_key(p) == #[trigger] t1[*owner]@.contains_key(p)); }'''),
    (r'if operators_map\.is_empty\(\) \{[^}]*\}', 'after', '''proof {
                        assert(tv_has(self.type_operators_map@, *owner, op) ==> tv(self.type_operators_map@, *owner, op).len() > 0); /*@C10.operator.no-empty-vector*/
                        assert(self.type_operators_map@.contains_key(*owner) ==> self.type_operators_map@[*owner]@.len() > 0); /*@C10.operator.no-empty-owner-map*/
                        lemma_done(''' + OP_T0 + 't1, self.type_operators_map@, ' + OP_ARGS + '''); /*@C10.operator.type-map.step*/
                    }'''),
    (r'\}\s*$', 'before', '''proof {
            if op_wf(old(self).operators@, old(self).type_operators_map@, old(self).in_filed_operator_map@) {
                lemma_op_final(old(self).operators@, old(self).type_operators_map@, old(self).in_filed_operator_map@,
                    self.operators@, self.type_operators_map@, self.in_filed_operator_map@, file_id, op_listed(old(self), file_id));
            }
        }'''),
]

UNIT = {
    'extra_rules': [
        ('c10-metatable-closure-contract', r'\|key, _\| ([^;]*?)\);',
         r'|key: &InFiled<TextRange>, _v: &mut InFiled<TextRange>| -> (b: bool) ensures b == (key.file_id != file_id) /*@C10.metatable.retain-predicate*/, *final(_v) == *old(_v) { \1 });',
         'contract overlay on the closure handed to HashMap::retain: parameter types, a name for the ignored `_` parameter '
         '(never used, so naming it changes nothing), named result and `ensures` are added; the body expression is kept verbatim '
         'and Verus checks the ensures against it'),
        ('c10-global-closure-contract', r'\|_, v\| \{(.*?)\n(\s*)\}\);',
         r'|_k: &GlobalId, v: &mut Vec<LuaDeclId>| -> (b: bool) \n                ensures final(v)@ == decls_not_of(old(v)@, file_id) /*@C10.global.inner-retain*/,\n                    b == (final(v)@.len() > 0) /*@C10.global.drop-empty*/\n            {\1\n\2});',
         'contract overlay on the closure handed to HashMap::retain: parameter types, a name for the ignored `_` key parameter, '
         'named result and `ensures` are added; the body statements are kept verbatim and Verus checks the ensures against them',
         16),   # re.S
        ('c10-global-inner-closure-contract', r'\|decl_id\| ([^;]*?)\);',
         r'|decl_id: &LuaDeclId| -> (b2: bool) ensures b2 == (decl_id.file_id != file_id) /*@C10.global.retain-predicate*/ { \1 });',
         'contract overlay on the closure handed to Vec::retain: parameter type, named result and `ensures` are added, body verbatim'),
        ('for-vec-index-loop', r'for (\w+) in (\w+) \{',
         r'let __v = \2; let mut __i: usize = 0; while __i < __v.len() { let \1 = __v[__i]; __i += 1;',
         'for x in V { B } (V: Vec<T> by value, T: Copy: rustc rejects `let x = __v[__i]` otherwise) -> '
         'let __v = V; let mut __i = 0; while __i < __v.len() { let x = __v[__i]; __i += 1; B }. '
         'Vec::into_iter yields the elements by value, each exactly once, in index order; the index is advanced before B so that '
         '`continue` in B goes on with the next element exactly as in the for loop (Verus: "for-loops do not yet support continue"). '
         'T: Copy has no Drop, so moving the drop of the vector from the end of the loop to the end of the block is unobservable'),
        ('c10-operator-closure-contract', r'\|x\| ([^;]*?)\);',
         r'|x: &LuaOperatorId| -> (b: bool) ensures b == (*x != id) /*@C10.operator.retain-predicate*/ { \1 });',
         'contract overlay on the closure handed to Vec::retain: parameter type, named result and `ensures` are added, body verbatim'),
    ],
    'items': {
        'FileId': {'src': {'file': SRC + 'vfs/file_id.rs', 'kind': 'struct', 'name': 'FileId'}, 'attrs': ID_DERIVE},
        'InFiled': {'src': {'file': SRC + 'vfs/file_id.rs', 'kind': 'struct', 'name': 'InFiled'}, 'attrs': '#[derive(PartialEq, Eq, Hash)]'},
        'LuaDeclId': {'src': {'file': DB + 'declaration/decl_id.rs', 'kind': 'struct', 'name': 'LuaDeclId'}, 'attrs': ID_DERIVE},
        # 1 ---- metatable
        'LuaMetatableIndex': st('metatable/mod.rs', 'LuaMetatableIndex'),
        'LuaMetatableIndex::remove': rm(
            'metatable/mod.rs', 'LuaMetatableIndex', rules=['c10-metatable-closure-contract'],
            ensures='''
            // nothing keyed by the removed file remains; every other entry is unchanged (whole map, pointwise)
            (forall|k: InFiled<TextRange>| #[trigger] final(self).metatables@.contains_key(k) <==> old(self).metatables@.contains_key(k) && k.file_id != file_id)
                && (forall|k: InFiled<TextRange>| #[trigger] final(self).metatables@.contains_key(k) ==> final(self).metatables@[k] == old(self).metatables@[k]) /*@C10.metatable.no-trace-of-removed-file*/,
            // ... and, tables and their metatables being co-filed (only writer: analyze_setmetatable), nothing points to it either
            metatable_cofiled(old(self).metatables@) ==> metatable_cofiled(final(self).metatables@)
                && (forall|k: InFiled<TextRange>| #[trigger] final(self).metatables@.contains_key(k) ==> final(self).metatables@[k].file_id != file_id) /*@C10.metatable.no-value-points-to-removed-file*/'''),
        # 2 ---- global
        'LuaGlobalIndex': st('global/mod.rs', 'LuaGlobalIndex'),
        'LuaGlobalIndex::remove': rm(
            'global/mod.rs', 'LuaGlobalIndex',
            rules=['c10-global-closure-contract', 'c10-global-inner-closure-contract'],
            proof=[(r'v\.retain\(\|decl_id[^;]*\);', 'after', GLOBAL_CLOSURE_PROOF)],
            ensures='''
            // every global keeps exactly its decl ids of other files, in order; globals left without a decl are dropped
            (forall|k: GlobalId| #[trigger] final(self).global_decl@.contains_key(k) <==>
                    old(self).global_decl@.contains_key(k) && decls_not_of(old(self).global_decl@[k]@, file_id).len() > 0)
                && (forall|k: GlobalId| #[trigger] final(self).global_decl@.contains_key(k) ==>
                    final(self).global_decl@[k]@ == decls_not_of(old(self).global_decl@[k]@, file_id)) /*@C10.global.no-trace-of-removed-file*/,
            forall|k: GlobalId, i: int| #[trigger] final(self).global_decl@.contains_key(k) && 0 <= i < final(self).global_decl@[k]@.len()
                ==> (#[trigger] final(self).global_decl@[k]@[i]).file_id != file_id /*@C10.global.no-decl-of-removed-file*/,
            forall|k: GlobalId| #[trigger] final(self).global_decl@.contains_key(k) ==> final(self).global_decl@[k]@.len() > 0 /*@C10.global.no-empty-vector*/'''),
        # 3 ---- operator
        'LuaOperatorId': {'src': {'file': DB + 'operators/lua_operator.rs', 'kind': 'struct', 'name': 'LuaOperatorId'}, 'attrs': ID_DERIVE},
        'LuaOperatorMetaMethod': {'src': {'file': DB + 'operators/lua_operator_meta_method.rs', 'kind': 'enum', 'name': 'LuaOperatorMetaMethod'},
                                  'attrs': '#[derive(Clone, Copy, PartialEq, Eq, Hash)]'},
        'LuaOperatorOwner': {'src': {'file': DB + 'operators/lua_operator.rs', 'kind': 'enum', 'name': 'LuaOperatorOwner'},
                             'attrs': '#[derive(PartialEq, Eq, Hash)]'},
        'LuaOperator': st('operators/lua_operator.rs', 'LuaOperator', keep=['owner', 'op', 'file_id', 'range']),
        'LuaOperator::get_owner': {'src': {'file': DB + 'operators/lua_operator.rs', 'kind': 'fn', 'impl': 'LuaOperator', 'name': 'get_owner'},
                                   'ret': 'r', 'ensures': '*r == self.owner'},
        'LuaOperator::get_op': {'src': {'file': DB + 'operators/lua_operator.rs', 'kind': 'fn', 'impl': 'LuaOperator', 'name': 'get_op'},
                                'ret': 'r', 'ensures': 'r == self.op'},
        'LuaOperatorIndex': st('operators/mod.rs', 'LuaOperatorIndex'),
        'LuaOperatorIndex::remove': rm(
            'operators/mod.rs', 'LuaOperatorIndex', rules=['for-vec-index-loop', 'c10-operator-closure-contract'],
            loops={0: OP_LOOP}, proof=OP_PROOF,
            body_first='proof { lemma_init(self.type_operators_map@, self.operators@, op_listed(self, file_id)); }',
            ensures='''
            // under the index invariant: nothing of the removed file remains (operators, every per-owner vector, the per-file list,
            // table owners of that file), everything else is unchanged, and the invariant (incl. "no empty container") is kept
            op_wf(old(self).operators@, old(self).type_operators_map@, old(self).in_filed_operator_map@) ==>
                op_removed(old(self).operators@, old(self).type_operators_map@, old(self).in_filed_operator_map@,
                           final(self).operators@, final(self).type_operators_map@, final(self).in_filed_operator_map@, file_id)
                && op_wf(final(self).operators@, final(self).type_operators_map@, final(self).in_filed_operator_map@) /*@C10.operator.no-trace-of-removed-file*/,
            // without assuming the invariant: what the loop does, id by id of the file's list
            final(self).in_filed_operator_map@ == old(self).in_filed_operator_map@.remove(file_id) /*@C10.operator.in_filed_operator_map*/,
            ops_inv(old(self).operators@, final(self).operators@, op_listed(old(self), file_id), op_listed(old(self), file_id).len() as int) /*@C10.operator.operators-of-file-gone*/,
            tm_inv(old(self).type_operators_map@, final(self).type_operators_map@, old(self).operators@, op_listed(old(self), file_id), op_listed(old(self), file_id).len() as int) /*@C10.operator.type-map*/'''),
    },
    'allow': [r'external_body', r'assume_specification<\'a, K: Eq \+ Hash \+ Borrow<Q>, V, S: BuildHasher, A: Allocator, Q: Hash \+ Eq \+ \?Sized>\[ HashMap::<K, V, S, A>::get_mut \]', r'assume_specification<T, A: Allocator, F: FnMut\(&T\) -> bool>\[ Vec::<T, A>::retain \]',
              r'assume_specification<K, V, S, A: Allocator, F: FnMut\(&K, &mut V\) -> bool>\[ HashMap::<K, V, S, A>::retain \]'],
    'mutants': [
        {'name': 'metatable-retain-negated', 'item': 'LuaMetatableIndex::remove', 'pattern': r'key\.file_id != file_id', 'repl': 'key.file_id == file_id',
         'expect': r'C10\.metatable\.retain-predicate'},
        {'name': 'metatable-keeps-everything', 'item': 'LuaMetatableIndex::remove', 'pattern': r'key\.file_id != file_id', 'repl': 'true',
         'expect': r'C10\.metatable\.retain-predicate'},
        {'name': 'global-retain-negated', 'item': 'LuaGlobalIndex::remove', 'pattern': r'decl_id\.file_id != file_id', 'repl': 'decl_id.file_id == file_id',
         'expect': r'C10\.global\.retain-predicate'},
        {'name': 'global-keeps-all-decls', 'item': 'LuaGlobalIndex::remove', 'pattern': r'decl_id\.file_id != file_id', 'repl': 'true',
         'expect': r'C10\.global\.retain-predicate'},
        {'name': 'global-keeps-empty-vector', 'item': 'LuaGlobalIndex::remove', 'pattern': r'!v\.is_empty\(\)', 'repl': 'true',
         'expect': r'C10\.global\.drop-empty'},
        {'name': 'operator-keeps-operators', 'item': 'LuaOperatorIndex::remove', 'pattern': r'self\.operators\.remove\(&id\)', 'repl': 'self.operators.get(&id)',
         'expect': r'C10\.operator\.operators-of-file-gone'},
        {'name': 'operator-retain-negated', 'item': 'LuaOperatorIndex::remove', 'pattern': r'x != &id', 'repl': 'x == &id',
         'expect': r'C10\.operator\.retain-predicate'},
        {'name': 'operator-keeps-empty-vector', 'item': 'LuaOperatorIndex::remove', 'pattern': r'operators_map\.remove\(&op\);', 'repl': '',
         'expect': r'C10\.operator\.no-empty-vector'},
        {'name': 'operator-keeps-empty-owner', 'item': 'LuaOperatorIndex::remove', 'pattern': r'self\.type_operators_map\.remove\(owner\);', 'repl': '',
         'expect': r'C10\.operator\.no-empty-owner-map'},
        {'name': 'operator-keeps-file-list', 'item': 'LuaOperatorIndex::remove', 'pattern': r'self\.in_filed_operator_map\.remove\(&file_id\)', 'repl': 'self.in_filed_operator_map.get(&file_id)',
         'expect': r'C10\.operator\.in_filed_operator_map'},
    ],
    'min_obligations': 2,
    'trusted': ['hashbrown -> std::collections'],
}
