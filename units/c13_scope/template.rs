// unit c13_scope: the lexical-scope lookup of the declaration tree (property C13).
// Hand-written: shims, specification, lemmas. Every `//@@ key` line is replaced by the repository's text.
#![allow(unused_imports, unused_variables, unused_mut, dead_code, unused_parens, unused_braces, unused_assignments)]
use vstd::prelude::*;
use std::collections::HashMap;

verus!{

//@@include common/textsize.rs

//@@ FileId
//@@ LuaDeclId
//@@ LuaScopeKind
//@@ LuaScopeId
//@@ ScopeOrDeclId
//@@ LuaScope

impl LuaScope {
    //@@ LuaScope::get_parent
    //@@ LuaScope::get_children
    //@@ LuaScope::get_range
    //@@ LuaScope::get_kind
    //@@ LuaScope::get_position
    //@@ LuaScope::get_id
    //@@ LuaScope::new
    //@@ LuaScope::add_decl
    //@@ LuaScope::add_child
    //@@ LuaScope::set_parent
}

impl vstd::std_specs::convert::FromSpecImpl<LuaDeclId> for ScopeOrDeclId {
    open spec fn obeys_from_spec() -> bool { true }
    open spec fn from_spec(v: LuaDeclId) -> ScopeOrDeclId { ScopeOrDeclId::Decl(v) }
}
impl From<LuaDeclId> for ScopeOrDeclId {
    //@@ ScopeOrDeclId::from_decl_id
}
// transcribed from scope.rs (`impl From<&LuaDeclId> for ScopeOrDeclId`); unit.py compares the repository text with this on every run
impl<'a> vstd::std_specs::convert::FromSpecImpl<&'a LuaDeclId> for ScopeOrDeclId {
    open spec fn obeys_from_spec() -> bool { true }
    open spec fn from_spec(v: &'a LuaDeclId) -> ScopeOrDeclId { ScopeOrDeclId::Decl(*v) }
}
impl<'a> From<&'a LuaDeclId> for ScopeOrDeclId {
    fn from(decl_id: &'a LuaDeclId) -> (r: Self) { Self::Decl(*decl_id) }
}

// ---- LuaDecl: opaque. Its accessors are uninterpreted functions of the declaration (weakest contract of a pure getter) -------------
#[verifier::external_body]
pub struct LuaDecl { _p: u8 }
pub uninterp spec fn dname(d: &LuaDecl) -> Seq<char>;
pub uninterp spec fn did(d: &LuaDecl) -> LuaDeclId;
pub uninterp spec fn dself(d: &LuaDecl) -> bool;
impl LuaDecl {
    #[verifier::external_body]
    pub fn get_name(&self) -> (r: &str) ensures r@ == dname(self) { unimplemented!() }
    #[verifier::external_body]
    pub fn get_id(&self) -> (r: LuaDeclId) ensures r == did(self) { unimplemented!() }
    #[verifier::external_body]
    pub fn is_implicit_self(&self) -> (r: bool) ensures r == dself(self) { unimplemented!() }
}

pub open spec fn keys_ok() -> bool { vstd::std_specs::hash::obeys_key_model::<LuaDeclId>() }

// ---- shape of the code under proof, detected by unit.py from the repository text on every run (see unit.py: _detect) ----------------------
//%%C13_CONFIG%%
//@@include c13_scope/scope_spec.rs
//@@include c13_scope/scope_lemmas.rs

//@@ LuaDeclarationTree

impl LuaDeclarationTree {
    //@@ LuaDeclarationTree::get_decl
    //@@ LuaDeclarationTree::get_scope
    //@@ LuaDeclarationTree::create_scope
    //@@ LuaDeclarationTree::add_decl
    //@@ LuaDeclarationTree::visit_child_scope
    //@@ LuaDeclarationTree::search_scope_children
    //@@ LuaDeclarationTree::visit_visible_decls
    //%%C13_LOOP_BODY%%
    //@@ LuaDeclarationTree::find_scope
    //@@ LuaDeclarationTree::find_local_decl::visitor
    //@@ LuaDeclarationTree::get_env_decls::visitor
}

// ---- the two visitors: closure conversion of `|decl_id| { .. }` in find_local_decl / get_env_decls (rule c13-closure-visitor). One field
// per captured variable; `visit` forwards to the closure body, which is extracted from the repository as a statement slice.
pub struct FindVisitor<'a, 'n> { pub this: &'a LuaDeclarationTree, pub name: &'n str, pub result: Option<&'a LuaDecl> }
pub open spec fn find_hit(t: &LuaDeclarationTree, name: Seq<char>, x: ScopeOrDeclId) -> bool {
    x matches ScopeOrDeclId::Decl(d) && t.decls@.contains_key(d) && dname(&t.decls@[d]) == name
}
impl<'a, 'n> DeclVisitor for FindVisitor<'a, 'n> {
    type S = (&'a LuaDeclarationTree, Seq<char>, Option<&'a LuaDecl>);
    open spec fn inv(self) -> bool { keys_ok() }
    open spec fn state(self) -> Self::S { (self.this, self.name@, self.result) }
    open spec fn step(s: Self::S, x: ScopeOrDeclId) -> Self::S {
        if find_hit(s.0, s.1, x) { (s.0, s.1, Some(&s.0.decls@[x->Decl_0])) } else { s }
    }
    open spec fn stops(s: Self::S, x: ScopeOrDeclId) -> bool { find_hit(s.0, s.1, x) }
    fn visit(&mut self, x: ScopeOrDeclId) -> (r: bool) {
        let this = self.this; let name = self.name;
        this.find_local_decl__visitor(name, &mut self.result, x)
    }
}
pub struct EnvVisitor<'a> { pub this: &'a LuaDeclarationTree, pub result: Vec<LuaDeclId> }
pub open spec fn env_hit(t: &LuaDeclarationTree, x: ScopeOrDeclId) -> bool {
    x matches ScopeOrDeclId::Decl(d) && t.decls@.contains_key(d) && !dself(&t.decls@[d])
}
impl<'a> DeclVisitor for EnvVisitor<'a> {
    type S = (&'a LuaDeclarationTree, Seq<LuaDeclId>);
    open spec fn inv(self) -> bool { keys_ok() }
    open spec fn state(self) -> Self::S { (self.this, self.result@) }
    open spec fn step(s: Self::S, x: ScopeOrDeclId) -> Self::S {
        if env_hit(s.0, x) { (s.0, s.1.push(did(&s.0.decls@[x->Decl_0]))) } else { s }
    }
    open spec fn stops(s: Self::S, x: ScopeOrDeclId) -> bool { false }
    fn visit(&mut self, x: ScopeOrDeclId) -> (r: bool) {
        let this = self.this;
        this.get_env_decls__visitor(&mut self.result, x)
    }
}

/// what the traversal leaves in the find visitor: the first element of the sequence that is a declaration of the tree with that name
pub proof fn lemma_find_run<'a, 'n>(t: &'a LuaDeclarationTree, name: Seq<char>, res: Option<&'a LuaDecl>, s: Seq<ScopeOrDeclId>)
    ensures ({ let r = run::<FindVisitor<'a, 'n>>((t, name, res), s);
        &&& (r.1 <==> exists|j: int| 0 <= j < s.len() && find_hit(t, name, s[j]))
        &&& (!r.1 ==> r.0.2 == res)
        &&& (r.1 ==> exists|j: int| 0 <= j < s.len() && find_hit(t, name, s[j]) && r.0.2 == Some(&t.decls@[s[j]->Decl_0])
                && forall|j2: int| 0 <= j2 < j ==> !find_hit(t, name, s[j2])) })
    decreases s.len()
{
    let r = run::<FindVisitor<'a, 'n>>((t, name, res), s);
    if s.len() > 0 {
        if find_hit(t, name, s[0]) {
            assert(0 <= 0 < s.len() && find_hit(t, name, s[0]) && r.0.2 == Some(&t.decls@[s[0]->Decl_0]) && forall|j2: int| 0 <= j2 < 0 ==> !find_hit(t, name, s[j2]));
        } else {
            let s1 = s.drop_first();
            lemma_find_run(t, name, res, s1);
            let r1 = run::<FindVisitor<'a, 'n>>((t, name, res), s1);
            assert(r == r1);
            if r1.1 {
                let j = choose|j: int| 0 <= j < s1.len() && find_hit(t, name, s1[j]) && r1.0.2 == Some(&t.decls@[s1[j]->Decl_0])
                    && forall|j2: int| 0 <= j2 < j ==> !find_hit(t, name, s1[j2]);
                assert(s[j + 1] == s1[j]);
                assert forall|j2: int| 0 <= j2 < j + 1 implies !find_hit(t, name, s[j2]) by { if j2 > 0 { assert(s[j2] == s1[j2 - 1]); } }
                assert(0 <= j + 1 < s.len() && find_hit(t, name, s[j + 1]) && r.0.2 == Some(&t.decls@[s[j + 1]->Decl_0]));
            }
            if exists|j: int| 0 <= j < s.len() && find_hit(t, name, s[j]) {
                let j = choose|j: int| 0 <= j < s.len() && find_hit(t, name, s[j]);
                assert(s1[j - 1] == s[j]);
            }
        }
    }
}
/// the ids the completion visitor collects from a sequence
pub open spec fn env_list(t: &LuaDeclarationTree, s: Seq<ScopeOrDeclId>) -> Seq<LuaDeclId>
    decreases s.len()
{
    if s.len() == 0 { Seq::empty() }
    else { (if env_hit(t, s[0]) { seq![did(&t.decls@[s[0]->Decl_0])] } else { Seq::empty() }) + env_list(t, s.drop_first()) }
}
pub proof fn lemma_env_run<'a>(t: &'a LuaDeclarationTree, res: Seq<LuaDeclId>, s: Seq<ScopeOrDeclId>)
    ensures run::<EnvVisitor<'a>>((t, res), s) == ((t, res + env_list(t, s)), false)
    decreases s.len()
{
    if s.len() == 0 {
        assert(res + env_list(t, s) =~= res);
    } else {
        let res1 = if env_hit(t, s[0]) { res.push(did(&t.decls@[s[0]->Decl_0])) } else { res };
        lemma_env_run(t, res1, s.drop_first());
        assert(res1 + env_list(t, s.drop_first()) =~= res + env_list(t, s));
    }
}
pub proof fn lemma_env_list_char(t: &LuaDeclarationTree, s: Seq<ScopeOrDeclId>, id: LuaDeclId)
    ensures env_list(t, s).contains(id) <==> exists|j: int| 0 <= j < s.len() && env_hit(t, s[j]) && did(&t.decls@[s[j]->Decl_0]) == id
    decreases s.len()
{
    if s.len() > 0 {
        let s1 = s.drop_first();
        let h = if env_hit(t, s[0]) { seq![did(&t.decls@[s[0]->Decl_0])] } else { Seq::<LuaDeclId>::empty() };
        lemma_env_list_char(t, s1, id);
        lemma_concat_contains(h, env_list(t, s1), id);
        if env_hit(t, s[0]) { assert(h[0] == did(&t.decls@[s[0]->Decl_0])); }
        if env_list(t, s1).contains(id) {
            let j = choose|j: int| 0 <= j < s1.len() && env_hit(t, s1[j]) && did(&t.decls@[s1[j]->Decl_0]) == id;
            assert(s[j + 1] == s1[j]);
        }
        if exists|j: int| 0 <= j < s.len() && env_hit(t, s[j]) && did(&t.decls@[s[j]->Decl_0]) == id {
            let j = choose|j: int| 0 <= j < s.len() && env_hit(t, s[j]) && did(&t.decls@[s[j]->Decl_0]) == id;
            if j > 0 { assert(s1[j - 1] == s[j]); }
        }
    }
}
/// the declaration table agrees with the scope tree (DeclAnalyzer::add_decl: `decls.insert(decl.get_id(), decl)` then `add_decl_to_scope(id)`)
pub open spec fn decls_wf(t: &LuaDeclarationTree) -> bool {
    forall|s: int, k: int, d: LuaDeclId| 0 <= s < t.scopes@.len() && #[trigger] is_decl_child(t.scopes@, s, k, d)
        ==> t.decls@.contains_key(d) && did(&t.decls@[d]) == d
}

/// no `local` / assignment statement declares the name twice (`local a, a = 1, 2`)
pub open spec fn no_dup_named(t: &LuaDeclarationTree, name: Seq<char>) -> bool {
    forall|s: int, k1: int, k2: int, d1: LuaDeclId, d2: LuaDeclId| 0 <= s < t.scopes@.len() && kd(t.scopes@, s) == LuaScopeKind::LocalOrAssignStat
        && #[trigger] is_decl_child(t.scopes@, s, k1, d1) && #[trigger] is_decl_child(t.scopes@, s, k2, d2) && d1 != d2
        && t.decls@.contains_key(d1) && t.decls@.contains_key(d2) && dname(&t.decls@[d1]) == name ==> dname(&t.decls@[d2]) != name
}

impl LuaDeclarationTree {
    //@@ LuaDeclarationTree::find_local_decl
    //@@ LuaDeclarationTree::get_env_decls
}

//%%C13_WITNESSES%%

fn main() {}
}

// plain-Rust glue outside the verified dialect: the derives of the extracted `LuaDeclId` need Hash / Debug on the text-size shim
// (the real crate derives Hash and implements Debug for TextSize); never executed, never reasoned about (hash order is not used)
impl std::hash::Hash for TextSize { fn hash<H: std::hash::Hasher>(&self, state: &mut H) { self.raw.hash(state) } }
impl std::fmt::Debug for TextSize { fn fmt(&self, f: &mut std::fmt::Formatter<'_>) -> std::fmt::Result { self.raw.fmt(f) } }
