// unit c13_scope: the lexical-scope lookup of the declaration tree (property C13).
// Hand-written: shims, specification, lemmas. Every `//@@ key` line is replaced by the repository's text.
#![allow(unused_imports, unused_variables, unused_mut, dead_code, unused_parens, unused_braces, unused_assignments)]
use vstd::prelude::*;
use std::collections::HashMap;

verus!{

//@@include common/textsize.rs

//@@ FileId
//@@ LuaDeclId
//@@ LuaScopeKind
//@@ LuaScopeId
//@@ ScopeOrDeclId
//@@ LuaScope

impl LuaScope {
    //@@ LuaScope::get_parent
    //@@ LuaScope::get_children
    //@@ LuaScope::get_range
    //@@ LuaScope::get_kind
    //@@ LuaScope::get_position
    //@@ LuaScope::get_id
}

impl vstd::std_specs::convert::FromSpecImpl<LuaDeclId> for ScopeOrDeclId {
    open spec fn obeys_from_spec() -> bool { true }
    open spec fn from_spec(v: LuaDeclId) -> ScopeOrDeclId { ScopeOrDeclId::Decl(v) }
}
impl From<LuaDeclId> for ScopeOrDeclId {
    //@@ ScopeOrDeclId::from_decl_id
}
// transcribed from scope.rs (`impl From<&LuaDeclId> for ScopeOrDeclId`); unit.py compares the repository text with this on every run
impl<'a> vstd::std_specs::convert::FromSpecImpl<&'a LuaDeclId> for ScopeOrDeclId {
    open spec fn obeys_from_spec() -> bool { true }
    open spec fn from_spec(v: &'a LuaDeclId) -> ScopeOrDeclId { ScopeOrDeclId::Decl(*v) }
}
impl<'a> From<&'a LuaDeclId> for ScopeOrDeclId {
    fn from(decl_id: &'a LuaDeclId) -> (r: Self) { Self::Decl(*decl_id) }
}

// ---- LuaDecl: opaque. Its accessors are uninterpreted functions of the declaration (weakest contract of a pure getter) -------------
#[verifier::external_body]
pub struct LuaDecl { _p: u8 }
pub uninterp spec fn decl_name(d: &LuaDecl) -> Seq<char>;
pub uninterp spec fn decl_id(d: &LuaDecl) -> LuaDeclId;
pub uninterp spec fn decl_is_self(d: &LuaDecl) -> bool;
impl LuaDecl {
    #[verifier::external_body]
    pub fn get_name(&self) -> (r: &str) ensures r@ == decl_name(self) { unimplemented!() }
    #[verifier::external_body]
    pub fn get_id(&self) -> (r: LuaDeclId) ensures r == decl_id(self) { unimplemented!() }
    #[verifier::external_body]
    pub fn is_implicit_self(&self) -> (r: bool) ensures r == decl_is_self(self) { unimplemented!() }
}

pub open spec fn keys_ok() -> bool { vstd::std_specs::hash::obeys_key_model::<LuaDeclId>() }

//@@ LuaDeclarationTree

impl LuaDeclarationTree {
    //@@ LuaDeclarationTree::get_decl
    //@@ LuaDeclarationTree::get_scope
}

fn main() {}
}

// plain-Rust glue outside the verified dialect: the derives of the extracted `LuaDeclId` need Hash / Debug on the text-size shim
// (the real crate derives Hash and implements Debug for TextSize); never executed, never reasoned about (hash order is not used)
impl std::hash::Hash for TextSize { fn hash<H: std::hash::Hasher>(&self, state: &mut H) { self.raw.hash(state) } }
impl std::fmt::Debug for TextSize { fn fmt(&self, f: &mut std::fmt::Formatter<'_>) -> std::fmt::Result { self.raw.fmt(f) } }
