// ===== unit c13_scope: lemmas (model of the traversal  <=>  declarative `visible`) ======================================================
// Every lemma has a body; `tree_wf` is opaque and is opened only by the `wf_*` access lemmas below.

pub proof fn wf_basic(ss: Seq<LuaScope>)
    requires tree_wf(ss)
    ensures links_wf(ss), ss.len() > 0, par(ss, 0) == -1
{ reveal(tree_wf); }

/// facts about a scope child
pub proof fn wf_child(ss: Seq<LuaScope>, i: int, k: int)
    requires tree_wf(ss), 0 <= i < ss.len(), 0 <= k < kids(ss, i).len(), kids(ss, i)[k] is Scope
    ensures ({ let c = sidx(kids(ss, i)[k]);
        i < c < ss.len() && par(ss, c) == i && st(ss, i) <= st(ss, c) && en(ss, c) <= en(ss, i) && st(ss, c) <= en(ss, c) && st(ss, i) <= en(ss, i) })
{ reveal(tree_wf); }

/// every scope but the root is a listed child of its parent
pub proof fn wf_parent(ss: Seq<LuaScope>, i: int) -> (k: int)
    requires tree_wf(ss), 0 < i < ss.len()
    ensures 0 <= par(ss, i) < i, is_scope_child(ss, par(ss, i), k, i), st(ss, par(ss, i)) <= st(ss, i), en(ss, i) <= en(ss, par(ss, i)),
        st(ss, i) <= en(ss, i)
{
    reveal(tree_wf);
    let k = choose|k: int| is_scope_child(ss, par(ss, i), k, i);
    let c = kids(ss, par(ss, i))[k];
    k
}

pub proof fn wf_disjoint_at(ss: Seq<LuaScope>, i: int, k1: int, k2: int)
    requires tree_wf(ss), 0 <= i < ss.len(), 0 <= k1 < kids(ss, i).len(), 0 <= k2 < kids(ss, i).len(), k1 != k2,
        kids(ss, i)[k1] is Scope, kids(ss, i)[k2] is Scope
    ensures en(ss, sidx(kids(ss, i)[k1])) <= st(ss, sidx(kids(ss, i)[k2])) || en(ss, sidx(kids(ss, i)[k2])) <= st(ss, sidx(kids(ss, i)[k1]))
{ reveal(tree_wf); }

pub proof fn wf_order_at(ss: Seq<LuaScope>, i: int, a: int, b: int)
    requires tree_wf(ss), 0 <= i < ss.len(), kd(ss, i) != LuaScopeKind::LocalOrAssignStat, 0 <= a < b < kids(ss, i).len()
    ensures cend(ss, kids(ss, i)[a]) <= cpos(ss, kids(ss, i)[b]), cpos(ss, kids(ss, i)[a]) <= cend(ss, kids(ss, i)[a]),
        cpos(ss, kids(ss, i)[b]) <= cend(ss, kids(ss, i)[b])
{
    reveal(tree_wf);
    if kids(ss, i)[a] is Scope { wf_child(ss, i, a); }
    if kids(ss, i)[b] is Scope { wf_child(ss, i, b); }
}

pub proof fn wf_repeat_at(ss: Seq<LuaScope>, i: int)
    requires tree_wf(ss), 0 <= i < ss.len(), kd(ss, i) == LuaScopeKind::Repeat
    ensures ({ let b = first_scope(ss, i);
        &&& body_kind() || b >= 0
        &&& forall|k: int| 0 <= k < kids(ss, i).len() ==> #[trigger] kids(ss, i)[k] is Scope
        &&& b >= 0 ==> {
            &&& i < b < ss.len() && kids(ss, i).len() > 0 && kids(ss, i)[0] is Scope && sidx(kids(ss, i)[0]) == b && par(ss, b) == i
            &&& block_kind(kd(ss, b))
            &&& forall|k: int| 0 <= k < kids(ss, b).len() ==> #[trigger] kids(ss, b)[k] is Scope } })
{ reveal(tree_wf); assert(is_repeat(ss, i)); }
/// body_kind(): the body block of a for / repeat scope is identified by what it is - the child scope of kind LoopBody; the place where
/// the code looks for it (last child of a for scope, first child of a repeat scope) is where the builder puts it
pub proof fn lemma_body_identity(ss: Seq<LuaScope>, s: int, p: int)
    requires tree_wf(ss), 0 <= s < ss.len(), body_kind()
    ensures
        kd(ss, s) == LuaScopeKind::ForRange ==> (in_body(ss, s, p) <==> exists|k: int| 0 <= k < kids(ss, s).len()
            && (#[trigger] kids(ss, s)[k] matches ScopeOrDeclId::Scope(sid) && is_lbk(kd(ss, sid.id as int)) && rng(ss, sid.id as int, p))),
        kd(ss, s) == LuaScopeKind::Repeat ==> forall|k: int| 0 <= k < kids(ss, s).len()
            && (#[trigger] kids(ss, s)[k] matches ScopeOrDeclId::Scope(sid) && is_lbk(kd(ss, sid.id as int))) ==> first_scope(ss, s) == sidx(kids(ss, s)[k]),
{
    reveal(tree_wf);
    let ks = kids(ss, s);
    if kd(ss, s) == LuaScopeKind::ForRange {
        if in_body(ss, s, p) { assert(ks.last() == ks[ks.len() - 1]); }
        if exists|k: int| 0 <= k < ks.len() && (#[trigger] ks[k] matches ScopeOrDeclId::Scope(sid) && is_lbk(kd(ss, sid.id as int)) && rng(ss, sid.id as int, p)) {
            let k = choose|k: int| 0 <= k < ks.len() && (#[trigger] ks[k] matches ScopeOrDeclId::Scope(sid) && is_lbk(kd(ss, sid.id as int)) && rng(ss, sid.id as int, p));
            assert(is_lb(ss, sidx(ks[k])));
        }
    }
    if kd(ss, s) == LuaScopeKind::Repeat {
        assert forall|k: int| 0 <= k < ks.len() && (#[trigger] ks[k] matches ScopeOrDeclId::Scope(sid) && is_lbk(kd(ss, sid.id as int)))
            implies first_scope(ss, s) == sidx(ks[k]) by {
            assert(is_lb(ss, sidx(ks[k])));
        }
    }
}

pub proof fn wf_stmt_at(ss: Seq<LuaScope>, i: int)
    requires tree_wf(ss), 0 <= i < ss.len(), stmt_kind(kd(ss, i))
    ensures st(ss, i) < en(ss, i), i > 0, 0 <= par(ss, i) < i, block_kind(kd(ss, par(ss, i))),
        forall|k: int| 0 <= k < kids(ss, i).len() ==> (#[trigger] kids(ss, i)[k] is Decl ==> st(ss, i) <= cpos(ss, kids(ss, i)[k]) < en(ss, i))
{ reveal(tree_wf); assert(is_stmt(ss, i)); }

pub proof fn wf_func_at(ss: Seq<LuaScope>, i: int)
    requires tree_wf(ss), 0 <= i < ss.len(), func_kind(kd(ss, i))
    ensures
        forall|k: int| 0 <= k < kids(ss, i).len() ==> (#[trigger] kids(ss, i)[k] is Scope ==> st(ss, i) < st(ss, sidx(kids(ss, i)[k]))),
        forall|a: int, b: int| 0 <= a < kids(ss, i).len() && 0 <= b < kids(ss, i).len()
                && #[trigger] kids(ss, i)[a] is Decl && #[trigger] kids(ss, i)[b] is Decl ==> a == b,
        forall|a: int, b: int| 0 <= a < kids(ss, i).len() && 0 <= b < kids(ss, i).len()
                && #[trigger] kids(ss, i)[a] is Decl && #[trigger] kids(ss, i)[b] is Scope ==> a < b
{ reveal(tree_wf); assert(is_func(ss, i)); }

pub proof fn wf_local_at(ss: Seq<LuaScope>, i: int, a: int, b: int)
    requires tree_wf(ss), 0 <= i < ss.len(), kd(ss, i) == LuaScopeKind::LocalOrAssignStat, 0 <= a < b < kids(ss, i).len(),
        kids(ss, i)[a] is Decl, kids(ss, i)[b] is Decl
    ensures cpos(ss, kids(ss, i)[a]) < cpos(ss, kids(ss, i)[b])
{ reveal(tree_wf); }

pub proof fn wf_declpos_at(ss: Seq<LuaScope>, i: int, b: int, k: int)
    requires tree_wf(ss), 0 <= i < ss.len(), 0 <= b < kids(ss, i).len(), kids(ss, i)[b] is Scope,
        0 <= k < kids(ss, sidx(kids(ss, i)[b])).len(), kids(ss, sidx(kids(ss, i)[b]))[k] is Decl
    ensures beta(ss, i, b) <= cpos(ss, kids(ss, sidx(kids(ss, i)[b]))[k])
{ reveal(tree_wf); }

// ---- the chain of scopes around a position ------------------------------------------------------------------------------------------
/// a is i or an ancestor of i
pub open spec fn is_anc(ss: Seq<LuaScope>, a: int, i: int) -> bool
    decreases i
{
    if i < 0 || i >= ss.len() { false } else if a == i { true } else if par_ok(ss, i) { is_anc(ss, a, par(ss, i)) } else { false }
}
pub proof fn lemma_anc_le(ss: Seq<LuaScope>, a: int, i: int)
    requires is_anc(ss, a, i)
    ensures a <= i, 0 <= i < ss.len()
    decreases i
{
    if a != i { lemma_anc_le(ss, a, par(ss, i)); }
}
/// the parent of a scope around p is around p
pub proof fn lemma_inside_parent(ss: Seq<LuaScope>, i: int, p: int)
    requires tree_wf(ss), 0 < i < ss.len(), rng(ss, i, p)
    ensures inside(ss, par(ss, i), p), 0 <= par(ss, i) < i
{
    let k = wf_parent(ss, i);
}
/// two scopes around the same position are nested: the one with the smaller id is an ancestor of the other
pub proof fn lemma_chain(ss: Seq<LuaScope>, a: int, b: int, p: int)
    requires tree_wf(ss), 0 <= a <= b < ss.len(), inside(ss, a, p), inside(ss, b, p)
    ensures is_anc(ss, a, b)
    decreases a + b
{
    if a != b {
        let kb = wf_parent(ss, b);
        let q = par(ss, b);
        lemma_inside_parent(ss, b, p);
        if a <= q {
            lemma_chain(ss, a, q, p);
        } else {
            let ka = wf_parent(ss, a);
            let r = par(ss, a);
            lemma_inside_parent(ss, a, p);
            if r == q {
                assert(ka != kb);
                wf_disjoint_at(ss, q, ka, kb);
                assert(false);
            } else if r < q {
                lemma_chain(ss, q, a, p);
                assert(is_anc(ss, q, r));
                lemma_anc_le(ss, q, r);
                assert(false);
            } else {
                lemma_chain(ss, r, b, p);
                assert(is_anc(ss, r, q));
                lemma_anc_le(ss, r, q);
                assert(false);
            }
        }
    }
}
/// below a proper ancestor l of a scope a around p there is a child of l around p
pub proof fn lemma_path_child(ss: Seq<LuaScope>, l: int, a: int, p: int) -> (k: int)
    requires tree_wf(ss), is_anc(ss, l, a), 0 <= l < a, rng(ss, a, p)
    ensures 0 <= k < kids(ss, l).len(), kids(ss, l)[k] is Scope, rng(ss, sidx(kids(ss, l)[k]), p)
    decreases a
{
    lemma_anc_le(ss, l, a);
    let ka = wf_parent(ss, a);
    let q = par(ss, a);
    if q == l {
        ka
    } else {
        lemma_anc_le(ss, l, q);
        lemma_inside_parent(ss, a, p);
        lemma_path_child(ss, l, q, p)
    }
}
/// C13.find-scope.innermost: every scope around p is the leaf or one of its ancestors
pub proof fn lemma_leaf_innermost(ss: Seq<LuaScope>, l: int, a: int, p: int)
    requires tree_wf(ss), is_leaf(ss, l, p), 0 <= a < ss.len(), inside(ss, a, p)
    ensures a <= l, is_anc(ss, a, l)
{
    if a <= l {
        lemma_chain(ss, a, l, p);
    } else {
        lemma_chain(ss, l, a, p);
        let k = lemma_path_child(ss, l, a, p);
        assert(false);
    }
}

// ---- what one search_scope_children call emits -----------------------------------------------------------------------------------------
pub proof fn lemma_concat_contains<A>(a: Seq<A>, b: Seq<A>, x: A)
    ensures (a + b).contains(x) <==> (a.contains(x) || b.contains(x))
{
    if a.contains(x) { let i = choose|i: int| 0 <= i < a.len() && a[i] == x; assert((a + b)[i] == x); }
    if b.contains(x) { let i = choose|i: int| 0 <= i < b.len() && b[i] == x; assert((a + b)[a.len() + i] == x); }
    if (a + b).contains(x) {
        let i = choose|i: int| 0 <= i < (a + b).len() && (a + b)[i] == x;
        if i < a.len() { assert(a[i] == x); } else { assert(b[i - a.len()] == x); }
    }
}
pub open spec fn listed_from(ks: Seq<ScopeOrDeclId>, k: int, x: ScopeOrDeclId) -> bool {
    x is Decl && exists|j: int| k <= j < ks.len() && ks[j] == x
}
pub proof fn lemma_decls_from_char(ks: Seq<ScopeOrDeclId>, k: int, x: ScopeOrDeclId)
    requires 0 <= k
    ensures decls_from(ks, k).contains(x) <==> listed_from(ks, k, x)
    decreases ks.len() - k
{
    if k < ks.len() {
        lemma_decls_from_char(ks, k + 1, x);
        if ks[k] is Decl {
            lemma_concat_contains(seq![ks[k]], decls_from(ks, k + 1), x);
            assert(seq![ks[k]].contains(x) <==> x == ks[k]) by {
                if x == ks[k] { assert(seq![ks[k]][0] == x); }
            }
        }
        if listed_from(ks, k, x) {
            let j = choose|j: int| k <= j < ks.len() && ks[j] == x;
            if j > k { assert(listed_from(ks, k + 1, x)); }
        }
        if listed_from(ks, k + 1, x) {
            let j = choose|j: int| k + 1 <= j < ks.len() && ks[j] == x;
            assert(k <= j < ks.len() && ks[j] == x);
        }
    }
}
pub proof fn lemma_decls_rev_char(ks: Seq<ScopeOrDeclId>, k: int, x: ScopeOrDeclId)
    requires 0 <= k <= ks.len()
    ensures decls_rev(ks, k).contains(x) <==> (x is Decl && exists|j: int| 0 <= j < k && ks[j] == x)
    decreases k
{
    if k > 0 {
        lemma_decls_rev_char(ks, k - 1, x);
        if ks[k - 1] is Decl {
            lemma_concat_contains(seq![ks[k - 1]], decls_rev(ks, k - 1), x);
            assert(seq![ks[k - 1]].contains(x) <==> x == ks[k - 1]) by {
                if x == ks[k - 1] { assert(seq![ks[k - 1]][0] == x); }
            }
        }
        if x is Decl && exists|j: int| 0 <= j < k && ks[j] == x {
            let j = choose|j: int| 0 <= j < k && ks[j] == x;
            if j < k - 1 { assert(0 <= j < k - 1 && ks[j] == x); }
        }
        if x is Decl && exists|j: int| 0 <= j < k - 1 && ks[j] == x {
            let j = choose|j: int| 0 <= j < k - 1 && ks[j] == x;
            assert(0 <= j < k && ks[j] == x);
        }
    }
}
/// x is what the reverse walk emits for child c: the declaration itself, or one of the declarations of a statement scope
pub open spec fn child_has(ss: Seq<LuaScope>, c: ScopeOrDeclId, x: ScopeOrDeclId) -> bool {
    match c {
        ScopeOrDeclId::Decl(_) => x == c,
        ScopeOrDeclId::Scope(sid) => (sid.id as int) < ss.len() && stmt_kind(kd(ss, sid.id as int)) && listed_from(kids(ss, sid.id as int), 0, x),
    }
}
pub proof fn lemma_child_char(ss: Seq<LuaScope>, c: ScopeOrDeclId, x: ScopeOrDeclId)
    ensures m_child(ss, c).contains(x) <==> child_has(ss, c, x)
{
    match c {
        ScopeOrDeclId::Decl(_) => { if x == c { assert(seq![c][0] == x); } }
        ScopeOrDeclId::Scope(sid) => {
            if (sid.id as int) < ss.len() && stmt_kind(kd(ss, sid.id as int)) {
                let ks = kids(ss, sid.id as int);
                lemma_decls_from_char(ks, 0, x);
                lemma_decls_rev_char(ks, ks.len() as int, x);
                if listed_from(ks, 0, x) { let j = choose|j: int| 0 <= j < ks.len() && ks[j] == x; assert(0 <= j < ks.len() && ks[j] == x); }
                if x is Decl && exists|j: int| 0 <= j < ks.len() && ks[j] == x {
                    let j = choose|j: int| 0 <= j < ks.len() && ks[j] == x;
                    assert(0 <= j < ks.len() && ks[j] == x);
                }
            }
        }
    }
}
pub open spec fn walk_has(ss: Seq<LuaScope>, ks: Seq<ScopeOrDeclId>, j: int, x: ScopeOrDeclId) -> bool {
    exists|k: int| 0 <= k <= j && child_has(ss, ks[k], x)
}
pub proof fn lemma_walk_char(ss: Seq<LuaScope>, ks: Seq<ScopeOrDeclId>, j: int, x: ScopeOrDeclId)
    requires -1 <= j < ks.len()
    ensures m_walk(ss, ks, j).contains(x) <==> walk_has(ss, ks, j, x)
    decreases j + 1
{
    if j >= 0 {
        lemma_walk_char(ss, ks, j - 1, x);
        lemma_child_char(ss, ks[j], x);
        lemma_concat_contains(m_child(ss, ks[j]), m_walk(ss, ks, j - 1), x);
        if walk_has(ss, ks, j, x) {
            let k = choose|k: int| 0 <= k <= j && child_has(ss, ks[k], x);
            if k < j { assert(walk_has(ss, ks, j - 1, x)); }
        }
        if walk_has(ss, ks, j - 1, x) {
            let k = choose|k: int| 0 <= k <= j - 1 && child_has(ss, ks[k], x);
            assert(0 <= k <= j && child_has(ss, ks[k], x));
        }
    }
}
pub proof fn lemma_cut_props(ss: Seq<LuaScope>, ks: Seq<ScopeOrDeclId>, p: int, k: int)
    requires 0 <= k <= ks.len()
    ensures ({ let c = m_cut(ss, ks, p, k);
        -1 <= c < k + (if k == 0 { 1int } else { 0int }) && (c >= 0 ==> before(ss, ks[c], p)) && forall|j: int| c < j < k ==> !before(ss, ks[j], p) })
    decreases k
{
    if k > 0 && !before(ss, ks[k - 1], p) { lemma_cut_props(ss, ks, p, k - 1); }
}
/// what search_scope_children(i, p) emits, in an ordered scope: the children that start before p, each with what it exposes
pub open spec fn search_has(ss: Seq<LuaScope>, i: int, p: int, x: ScopeOrDeclId) -> bool {
    exists|k: int| 0 <= k < kids(ss, i).len() && before(ss, kids(ss, i)[k], p) && child_has(ss, kids(ss, i)[k], x)
}
pub proof fn lemma_search_char(ss: Seq<LuaScope>, i: int, p: int, x: ScopeOrDeclId)
    requires tree_wf(ss), 0 <= i < ss.len(), kd(ss, i) != LuaScopeKind::LocalOrAssignStat
    ensures m_search(ss, i, p).contains(x) <==> search_has(ss, i, p, x)
{
    let ks = kids(ss, i);
    let c = m_cut(ss, ks, p, ks.len() as int);
    lemma_cut_props(ss, ks, p, ks.len() as int);
    lemma_walk_char(ss, ks, c, x);
    wf_basic(ss);
    if walk_has(ss, ks, c, x) {
        let k = choose|k: int| 0 <= k <= c && child_has(ss, ks[k], x);
        if k < c {
            wf_order_at(ss, i, k, c);
            if ks[k] is Scope { wf_child(ss, i, k); }
        }
        assert(before(ss, ks[k], p));
        assert(search_has(ss, i, p, x));
    }
    if search_has(ss, i, p, x) {
        let k = choose|k: int| 0 <= k < ks.len() && before(ss, ks[k], p) && child_has(ss, ks[k], x);
        assert(k <= c);
        assert(walk_has(ss, ks, c, x));
    }
}

// ---- one level of the chain: the search position p against the real position pos -------------------------------------------------------
/// how a child scope c of a searched scope lies relative to (p, pos): entirely before p; entirely after pos; or it is the child the
/// lookup came from (it contains pos, p is pos or the start of a statement in it; if it is itself a statement, the cutoff / keyword rules)
pub open spec fn child_state(ss: Seq<LuaScope>, c: int, p: int, pos: int) -> bool {
    en(ss, c) <= p || pos < st(ss, c)
        || (st(ss, c) <= p && pos < en(ss, c)
            && (kd(ss, c) == LuaScopeKind::LocalOrAssignStat ==> p == st(ss, c))
            && (func_kind(kd(ss, c)) ==> (st(ss, c) < pos ==> st(ss, c) < p)))
}
pub open spec fn ctx0(ss: Seq<LuaScope>, i: int, p: int, pos: int) -> bool {
    &&& 0 <= i < ss.len() && p <= pos
    &&& forall|k: int| 0 <= k < kids(ss, i).len() ==> (#[trigger] kids(ss, i)[k] is Decl ==> cpos(ss, kids(ss, i)[k]) < p || pos <= cpos(ss, kids(ss, i)[k]))
    &&& forall|k: int| 0 <= k < kids(ss, i).len() ==> (#[trigger] kids(ss, i)[k] is Scope ==> child_state(ss, sidx(kids(ss, i)[k]), p, pos))
}
pub open spec fn stmt_after(ss: Seq<LuaScope>, s: int, pos: int) -> bool {
    if kd(ss, s) == LuaScopeKind::LocalOrAssignStat { en(ss, s) <= pos } else { st(ss, s) < pos }
}
/// x is visible at pos through level i: a declaration of i before pos, or a name of a statement of block i that has taken effect at pos
pub open spec fn level_vis(ss: Seq<LuaScope>, i: int, x: ScopeOrDeclId, pos: int) -> bool {
    x is Decl && exists|k: int| 0 <= k < kids(ss, i).len() && (
        (#[trigger] kids(ss, i)[k] == x && cpos(ss, x) < pos)
        || (kids(ss, i)[k] is Scope && sidx(kids(ss, i)[k]) < ss.len() && stmt_kind(kd(ss, sidx(kids(ss, i)[k])))
            && listed_from(kids(ss, sidx(kids(ss, i)[k])), 0, x) && stmt_after(ss, sidx(kids(ss, i)[k]), pos)))
}
#[verifier::spinoff_prover]
pub proof fn lemma_level_char(ss: Seq<LuaScope>, i: int, p: int, pos: int, x: ScopeOrDeclId)
    requires tree_wf(ss), ctx0(ss, i, p, pos), kd(ss, i) != LuaScopeKind::LocalOrAssignStat
    ensures m_search(ss, i, p).contains(x) <==> level_vis(ss, i, x, pos)
{
    lemma_search_char(ss, i, p, x);
    let ks = kids(ss, i);
    if search_has(ss, i, p, x) {
        let k = choose|k: int| 0 <= k < ks.len() && before(ss, ks[k], p) && child_has(ss, ks[k], x);
        if ks[k] is Scope {
            let c = sidx(ks[k]);
            assert(child_state(ss, c, p, pos));
            assert(stmt_after(ss, c, pos));
        }
        assert(level_vis(ss, i, x, pos));
    }
    if level_vis(ss, i, x, pos) {
        let k = choose|k: int| 0 <= k < ks.len() && (
            (#[trigger] ks[k] == x && cpos(ss, x) < pos)
            || (ks[k] is Scope && sidx(ks[k]) < ss.len() && stmt_kind(kd(ss, sidx(ks[k])))
                && listed_from(kids(ss, sidx(ks[k])), 0, x) && stmt_after(ss, sidx(ks[k]), pos)));
        if ks[k] is Scope {
            let c = sidx(ks[k]);
            wf_child(ss, i, k);
            wf_stmt_at(ss, c);
            assert(child_state(ss, c, p, pos));
            assert(before(ss, ks[k], p));
        } else {
            assert(before(ss, ks[k], p));
        }
        assert(child_has(ss, ks[k], x));
        assert(search_has(ss, i, p, x));
    }
}
pub proof fn lemma_ctx_from_child(ss: Seq<LuaScope>, u: int, b: int, p: int, pos: int)
    requires tree_wf(ss), 0 < u < ss.len(), 0 <= par(ss, u) < u, is_scope_child(ss, par(ss, u), b, u),
        kd(ss, par(ss, u)) != LuaScopeKind::LocalOrAssignStat, child_state(ss, u, p, pos), st(ss, u) <= p <= pos < en(ss, u)
    ensures ctx0(ss, par(ss, u), p, pos)
{
    let i = par(ss, u);
    let ks = kids(ss, i);
    assert forall|k: int| 0 <= k < ks.len() implies (#[trigger] ks[k] is Decl ==> cpos(ss, ks[k]) < p || pos <= cpos(ss, ks[k])) by {
        if k < b { wf_order_at(ss, i, k, b); } else if k > b { wf_order_at(ss, i, b, k); }
    }
    assert forall|k: int| 0 <= k < ks.len() implies (#[trigger] ks[k] is Scope ==> child_state(ss, sidx(ks[k]), p, pos)) by {
        if k < b { wf_order_at(ss, i, k, b); } else if k > b { wf_order_at(ss, i, b, k); }
    }
}
pub proof fn lemma_ctx_leaf(ss: Seq<LuaScope>, l: int, pos: int)
    requires tree_wf(ss), is_leaf(ss, l, pos)
    ensures ctx0(ss, l, pos, pos)
{
    let ks = kids(ss, l);
    assert forall|k: int| 0 <= k < ks.len() implies (#[trigger] ks[k] is Scope ==> child_state(ss, sidx(ks[k]), pos, pos)) by {
        if ks[k] is Scope { assert(kids(ss, l)[k] matches ScopeOrDeclId::Scope(sid) ==> !rng(ss, sid.id as int, pos)); }
    }
}
/// a block that holds scopes only and does not contain pos (it ends at or before p, or starts after pos)
pub proof fn lemma_ctx_aside(ss: Seq<LuaScope>, c: int, p: int, pos: int)
    requires tree_wf(ss), 0 <= c < ss.len(), p <= pos, en(ss, c) <= p || pos < st(ss, c),
        forall|k: int| 0 <= k < kids(ss, c).len() ==> #[trigger] kids(ss, c)[k] is Scope
    ensures ctx0(ss, c, p, pos)
{
    let ks = kids(ss, c);
    assert forall|k: int| 0 <= k < ks.len() implies (#[trigger] ks[k] is Scope ==> child_state(ss, sidx(ks[k]), p, pos)) by {
        wf_child(ss, c, k);
    }
}

// ---- from one level to `visible` and back ------------------------------------------------------------------------------------------------
pub open spec fn sound_seq(ss: Seq<LuaScope>, t: Seq<ScopeOrDeclId>, pos: int) -> bool {
    forall|x: ScopeOrDeclId| #[trigger] t.contains(x) ==> (x is Decl && visible(ss, x->Decl_0, pos, false))
}
/// the chain scope whose search emits the declarations held by scope s
pub open spec fn lvl(ss: Seq<LuaScope>, s: int, pos: int) -> int {
    if stmt_kind(kd(ss, s)) { if inside(ss, par(ss, s), pos) { par(ss, s) } else { par(ss, par(ss, s)) } } else { s }
}
pub open spec fn complete_from(ss: Seq<LuaScope>, t: Seq<ScopeOrDeclId>, pos: int, top: int) -> bool {
    forall|s: int, k: int, d: LuaDeclId| 0 <= s < ss.len() && #[trigger] is_decl_child(ss, s, k, d) && region(ss, s, d, pos, false) && lvl(ss, s, pos) <= top
        ==> t.contains(ScopeOrDeclId::Decl(d))
}
/// what the code's reading of `visible` demands of the position for the declarations of a ForRange scope
pub open spec fn for_region_ok(ss: Seq<LuaScope>, i: int, pos: int) -> bool {
    if hdr_trav() { in_body(ss, i, pos) } else { in_some_child(ss, i, pos) }
}
/// the last child scope is a child scope
pub proof fn lemma_in_body_child(ss: Seq<LuaScope>, i: int, pos: int)
    requires tree_wf(ss), 0 <= i < ss.len(), in_body(ss, i, pos)
    ensures in_some_child(ss, i, pos), inside(ss, i, pos)
{
    let kb = kids(ss, i).len() - 1;
    assert(kids(ss, i).last() == kids(ss, i)[kb]);
    assert(kids(ss, i)[kb] matches ScopeOrDeclId::Scope(sid) && rng(ss, sid.id as int, pos));
    wf_child(ss, i, kb);
    lemma_inside_parent(ss, sidx(kids(ss, i)[kb]), pos);
}
pub proof fn lemma_for_region_inside(ss: Seq<LuaScope>, i: int, pos: int)
    requires tree_wf(ss), 0 <= i < ss.len(), for_region_ok(ss, i, pos) || in_some_child(ss, i, pos) || in_body(ss, i, pos)
    ensures inside(ss, i, pos), in_some_child(ss, i, pos)
{
    if in_body(ss, i, pos) { lemma_in_body_child(ss, i, pos); }
    let kc = choose|kc: int| 0 <= kc < kids(ss, i).len() && (#[trigger] kids(ss, i)[kc] matches ScopeOrDeclId::Scope(sid) && rng(ss, sid.id as int, pos));
    wf_child(ss, i, kc);
    lemma_inside_parent(ss, sidx(kids(ss, i)[kc]), pos);
}
/// the search position p and the real position pos lie in the same child u of scope i: both or neither are in the body of i
pub proof fn lemma_in_body_shift(ss: Seq<LuaScope>, i: int, b: int, p: int, pos: int)
    requires tree_wf(ss), 0 <= i < ss.len(), 0 <= b < kids(ss, i).len(), kids(ss, i)[b] is Scope,
        rng(ss, sidx(kids(ss, i)[b]), p), rng(ss, sidx(kids(ss, i)[b]), pos)
    ensures in_body(ss, i, p) == in_body(ss, i, pos)
{
    let kb = kids(ss, i).len() - 1;
    assert(kids(ss, i).last() == kids(ss, i)[kb]);
    if kids(ss, i)[kb] is Scope {
        wf_child(ss, i, kb);
        if kb != b { wf_disjoint_at(ss, i, kb, b); }
    }
}
pub proof fn lemma_level_sound(ss: Seq<LuaScope>, i: int, pos: int, x: ScopeOrDeclId)
    requires tree_wf(ss), 0 <= i < ss.len(), inside(ss, i, pos), level_vis(ss, i, x, pos), kd(ss, i) != LuaScopeKind::LocalOrAssignStat,
        kd(ss, i) == LuaScopeKind::ForRange ==> for_region_ok(ss, i, pos)
    ensures x is Decl, visible(ss, x->Decl_0, pos, false)
{
    let ks = kids(ss, i);
    let d = x->Decl_0;
    let k = choose|k: int| 0 <= k < ks.len() && (
        (#[trigger] ks[k] == x && cpos(ss, x) < pos)
        || (ks[k] is Scope && sidx(ks[k]) < ss.len() && stmt_kind(kd(ss, sidx(ks[k])))
            && listed_from(kids(ss, sidx(ks[k])), 0, x) && stmt_after(ss, sidx(ks[k]), pos)));
    if ks[k] is Scope {
        let c = sidx(ks[k]);
        wf_child(ss, i, k);
        let j = choose|j: int| 0 <= j < kids(ss, c).len() && kids(ss, c)[j] == x;
        assert(is_decl_child(ss, c, j, d));
        assert(ext_inside(ss, i, pos));
        assert(region(ss, c, d, pos, false));
    } else {
        assert(is_decl_child(ss, i, k, d));
        if kd(ss, i) == LuaScopeKind::Repeat { wf_repeat_at(ss, i); assert(kids(ss, i)[k] is Scope); }
        if func_kind(kd(ss, i)) {
            wf_stmt_at(ss, i);
            lemma_inside_parent(ss, i, pos);
            assert(ext_inside(ss, par(ss, i), pos));
        }
        assert(region(ss, i, d, pos, false));
    }
}
/// the names of the statements of a repeat body, seen from the rest of the repeat statement
pub proof fn lemma_body_level_sound(ss: Seq<LuaScope>, rp: int, pos: int, x: ScopeOrDeclId)
    requires tree_wf(ss), 0 <= rp < ss.len(), kd(ss, rp) == LuaScopeKind::Repeat, inside(ss, rp, pos), first_scope(ss, rp) >= 0,
        level_vis(ss, first_scope(ss, rp), x, pos)
    ensures x is Decl, visible(ss, x->Decl_0, pos, false)
{
    wf_repeat_at(ss, rp);
    let i = first_scope(ss, rp);
    let ks = kids(ss, i);
    let d = x->Decl_0;
    let k = choose|k: int| 0 <= k < ks.len() && (
        (#[trigger] ks[k] == x && cpos(ss, x) < pos)
        || (ks[k] is Scope && sidx(ks[k]) < ss.len() && stmt_kind(kd(ss, sidx(ks[k])))
            && listed_from(kids(ss, sidx(ks[k])), 0, x) && stmt_after(ss, sidx(ks[k]), pos)));
    assert(ks[k] is Scope);
    let c = sidx(ks[k]);
    wf_child(ss, i, k);
    let j = choose|j: int| 0 <= j < kids(ss, c).len() && kids(ss, c)[j] == x;
    assert(is_decl_child(ss, c, j, d));
    assert(ext_inside(ss, i, pos));
    assert(region(ss, c, d, pos, false));
}
/// a visible declaration whose level is i shows at level i
pub proof fn lemma_level_complete(ss: Seq<LuaScope>, i: int, pos: int, s: int, k: int, d: LuaDeclId)
    requires tree_wf(ss), 0 <= s < ss.len(), is_decl_child(ss, s, k, d), region(ss, s, d, pos, false),
        (s == i && !stmt_kind(kd(ss, s))) || (stmt_kind(kd(ss, s)) && par(ss, s) == i)
    ensures level_vis(ss, i, ScopeOrDeclId::Decl(d), pos)
{
    let x = ScopeOrDeclId::Decl(d);
    if s == i && !stmt_kind(kd(ss, s)) {
        assert(kids(ss, i)[k] == x && cpos(ss, x) < pos);
    } else {
        wf_stmt_at(ss, s);
        let k2 = wf_parent(ss, s);
        assert(kids(ss, i)[k2] is Scope && sidx(kids(ss, i)[k2]) == s);
        assert(listed_from(kids(ss, s), 0, x));
        assert(stmt_after(ss, s, pos));
    }
}
/// the level of a visible declaration is a scope around pos that is searched; if it is not i (a scope around pos) it is above i
pub proof fn lemma_lvl_chain(ss: Seq<LuaScope>, s: int, k: int, d: LuaDeclId, pos: int, i: int)
    requires tree_wf(ss), 0 <= s < ss.len(), is_decl_child(ss, s, k, d), region(ss, s, d, pos, false), 0 <= i < ss.len(), inside(ss, i, pos),
        lvl(ss, s, pos) <= i
    ensures ({ let l = lvl(ss, s, pos);
        0 <= l < ss.len() && inside(ss, l, pos) && kd(ss, l) != LuaScopeKind::LocalOrAssignStat && (l < i ==> 0 <= par(ss, i) < i && l <= par(ss, i)) })
{
    let l = lvl(ss, s, pos);
    if stmt_kind(kd(ss, s)) {
        wf_stmt_at(ss, s);
    } else if kd(ss, s) == LuaScopeKind::ForRange {
        lemma_for_region_inside(ss, s, pos);
    }
    assert(0 <= l < ss.len() && inside(ss, l, pos));
    if l < i {
        lemma_chain(ss, l, i, pos);
        lemma_anc_le(ss, l, par(ss, i));
    }
}

// ---- walking up the chain ---------------------------------------------------------------------------------------------------------------
/// the lookup leaves scope u (around pos) towards its parent with search position p
pub open spec fn chain_step(ss: Seq<LuaScope>, u: int, p: int, pos: int) -> bool {
    &&& 0 < u < ss.len() && st(ss, u) <= p <= pos < en(ss, u)
    &&& child_state(ss, u, p, pos)
    &&& (0 <= par(ss, u) < u && kd(ss, par(ss, u)) == LuaScopeKind::Repeat && first_scope(ss, par(ss, u)) == u) ==> ctx0(ss, u, p, pos)
}
pub proof fn lemma_sound_concat(ss: Seq<LuaScope>, a: Seq<ScopeOrDeclId>, b: Seq<ScopeOrDeclId>, pos: int)
    requires sound_seq(ss, a, pos), sound_seq(ss, b, pos)
    ensures sound_seq(ss, a + b, pos)
{
    assert forall|x: ScopeOrDeclId| #[trigger] (a + b).contains(x) implies (x is Decl && visible(ss, x->Decl_0, pos, false)) by {
        lemma_concat_contains(a, b, x);
    }
}
pub proof fn lemma_sound_empty(ss: Seq<LuaScope>, pos: int)
    ensures sound_seq(ss, Seq::<ScopeOrDeclId>::empty(), pos)
{}
/// soundness of one search in a scope around pos
pub proof fn lemma_search_sound(ss: Seq<LuaScope>, i: int, p: int, pos: int)
    requires tree_wf(ss), ctx0(ss, i, p, pos), inside(ss, i, pos), kd(ss, i) != LuaScopeKind::LocalOrAssignStat,
        kd(ss, i) == LuaScopeKind::ForRange ==> for_region_ok(ss, i, pos)
    ensures sound_seq(ss, m_search(ss, i, p), pos)
{
    assert forall|x: ScopeOrDeclId| #[trigger] m_search(ss, i, p).contains(x) implies (x is Decl && visible(ss, x->Decl_0, pos, false)) by {
        lemma_level_char(ss, i, p, pos, x);
        lemma_level_sound(ss, i, pos, x);
    }
}
/// soundness of the search of a repeat body from the rest of the repeat statement
pub proof fn lemma_body_search_sound(ss: Seq<LuaScope>, rp: int, p: int, pos: int)
    requires tree_wf(ss), 0 <= rp < ss.len(), kd(ss, rp) == LuaScopeKind::Repeat, inside(ss, rp, pos), first_scope(ss, rp) >= 0,
        ctx0(ss, first_scope(ss, rp), p, pos)
    ensures sound_seq(ss, m_search(ss, first_scope(ss, rp), p), pos)
{
    wf_repeat_at(ss, rp);
    let b = first_scope(ss, rp);
    assert forall|x: ScopeOrDeclId| #[trigger] m_search(ss, b, p).contains(x) implies (x is Decl && visible(ss, x->Decl_0, pos, false)) by {
        lemma_level_char(ss, b, p, pos, x);
        lemma_body_level_sound(ss, rp, pos, x);
    }
}
/// everything emitted above scope u is visible, and everything visible whose level is above u is emitted
#[verifier::spinoff_prover]
pub proof fn lemma_up(ss: Seq<LuaScope>, u: int, p: int, pos: int)
    requires tree_wf(ss), chain_step(ss, u, p, pos)
    ensures sound_seq(ss, m_up(ss, u, p), pos), complete_from(ss, m_up(ss, u, p), pos, par(ss, u))
    decreases u
{
    let b = wf_parent(ss, u);
    let i = par(ss, u);
    lemma_inside_parent(ss, u, pos);
    lemma_visit_unfold(ss, u, p, false);
    lemma_visit_unfold(ss, i, p, false);
    let t = m_up(ss, u, p);
    assert(t == m_visit(ss, i, p, false));
    if kd(ss, i) == LuaScopeKind::LocalOrAssignStat {
        wf_stmt_at(ss, i);
        let ki = wf_parent(ss, i);
        lemma_up(ss, i, st(ss, i), pos);
        assert(t == m_up(ss, i, st(ss, i)));
        assert forall|s: int, k: int, d: LuaDeclId| 0 <= s < ss.len() && #[trigger] is_decl_child(ss, s, k, d) && region(ss, s, d, pos, false) && lvl(ss, s, pos) <= i
            implies t.contains(ScopeOrDeclId::Decl(d)) by {
            lemma_lvl_chain(ss, s, k, d, pos, i);
        }
    } else {
        lemma_ctx_from_child(ss, u, b, p, pos);
        let bs = lsearch(ss, i, p);
        let cs = m_up(ss, i, p);
        if kd(ss, i) == LuaScopeKind::ForRange {
            assert(kids(ss, i)[b] matches ScopeOrDeclId::Scope(sid) && rng(ss, sid.id as int, pos));
            lemma_in_body_shift(ss, i, b, p, pos);
        }
        if hdr_trav() && kd(ss, i) == LuaScopeKind::ForRange && !in_body(ss, i, p) { lemma_sound_empty(ss, pos); } else { lemma_search_sound(ss, i, p, pos); }
        // the enclosing scopes
        if i > 0 {
            let ki = wf_parent(ss, i);
            if func_kind(kd(ss, i)) { wf_func_at(ss, i); assert(kids(ss, i)[b] is Scope); }
            assert(chain_step(ss, i, p, pos));
            lemma_up(ss, i, p, pos);
        } else {
            wf_basic(ss);
            assert(cs =~= Seq::<ScopeOrDeclId>::empty());
        }
        // the body of a repeat statement, searched from the statement
        let a_s = if kd(ss, i) == LuaScopeKind::Repeat && first_scope(ss, i) >= 0 { m_search(ss, first_scope(ss, i), p) } else { Seq::<ScopeOrDeclId>::empty() };
        if kd(ss, i) == LuaScopeKind::Repeat {
            wf_repeat_at(ss, i);
            let body = first_scope(ss, i);
            if body >= 0 {
                if b != 0 {
                    wf_order_at(ss, i, 0, b);
                    lemma_ctx_aside(ss, body, p, pos);
                }
                lemma_body_search_sound(ss, i, p, pos);
            } else {
                lemma_sound_empty(ss, pos);
            }
            assert(t == a_s + bs + cs);
        } else {
            assert(t == bs + cs);
            assert(a_s + bs =~= bs);
        }
        lemma_sound_concat(ss, a_s, bs, pos);
        lemma_sound_concat(ss, a_s + bs, cs, pos);
        assert(t == a_s + bs + cs);
        assert forall|s: int, k: int, d: LuaDeclId| 0 <= s < ss.len() && #[trigger] is_decl_child(ss, s, k, d) && region(ss, s, d, pos, false) && lvl(ss, s, pos) <= i
            implies t.contains(ScopeOrDeclId::Decl(d)) by {
            let x = ScopeOrDeclId::Decl(d);
            lemma_lvl_chain(ss, s, k, d, pos, i);
            lemma_concat_contains(a_s + bs, cs, x);
            lemma_concat_contains(a_s, bs, x);
            if lvl(ss, s, pos) == i {
                if stmt_kind(kd(ss, s)) && !inside(ss, par(ss, s), pos) {
                    // a statement of the repeat body, pos in the rest of the repeat statement
                    wf_stmt_at(ss, s);
                    let body = par(ss, s);
                    assert(first_scope(ss, i) == body);
                    lemma_level_complete(ss, body, pos, s, k, d);
                    lemma_level_char(ss, body, p, pos, x);
                } else {
                    if stmt_kind(kd(ss, s)) { wf_stmt_at(ss, s); }
                    lemma_level_complete(ss, i, pos, s, k, d);
                    lemma_level_char(ss, i, p, pos, x);
                }
            }
        }
    }
}

/// the whole lookup from the scope find_scope returns: exactly the declarations the real code's notion of visibility admits
#[verifier::spinoff_prover]
pub proof fn lemma_entry(ss: Seq<LuaScope>, l: int, pos: int)
    requires tree_wf(ss), is_leaf(ss, l, pos)
    ensures sound_seq(ss, m_visit(ss, l, pos, true), pos), complete_from(ss, m_visit(ss, l, pos, true), pos, l)
{
    let t = m_visit(ss, l, pos, true);
    lemma_visit_unfold(ss, l, pos, true);
    lemma_ctx_leaf(ss, l, pos);
    wf_basic(ss);
    if l > 0 { let kl = wf_parent(ss, l); }
    if kd(ss, l) == LuaScopeKind::LocalOrAssignStat {
        wf_stmt_at(ss, l);
        assert(chain_step(ss, l, st(ss, l), pos));
        lemma_up(ss, l, st(ss, l), pos);
        assert forall|s: int, k: int, d: LuaDeclId| 0 <= s < ss.len() && #[trigger] is_decl_child(ss, s, k, d) && region(ss, s, d, pos, false) && lvl(ss, s, pos) <= l
            implies t.contains(ScopeOrDeclId::Decl(d)) by {
            lemma_lvl_chain(ss, s, k, d, pos, l);
        }
    } else if kd(ss, l) == LuaScopeKind::ForRange {
        if l > 0 {
            assert(chain_step(ss, l, pos, pos));
            lemma_up(ss, l, pos, pos);
        } else {
            assert(t =~= Seq::<ScopeOrDeclId>::empty());
        }
        assert forall|s: int, k: int, d: LuaDeclId| 0 <= s < ss.len() && #[trigger] is_decl_child(ss, s, k, d) && region(ss, s, d, pos, false) && lvl(ss, s, pos) <= l
            implies t.contains(ScopeOrDeclId::Decl(d)) by {
            lemma_lvl_chain(ss, s, k, d, pos, l);
            if lvl(ss, s, pos) == l {
                if stmt_kind(kd(ss, s)) { wf_stmt_at(ss, s); }
                else {
                    lemma_for_region_inside(ss, s, pos);
                    let kc = choose|kc: int| 0 <= kc < kids(ss, s).len() && (#[trigger] kids(ss, s)[kc] matches ScopeOrDeclId::Scope(sid) && rng(ss, sid.id as int, pos));
                    assert(false);
                }
            }
        }
    } else if kd(ss, l) == LuaScopeKind::Repeat && first_scope(ss, l) < 0 {
        // a repeat statement with an empty body: nothing of its own, on to the enclosing scopes
        wf_repeat_at(ss, l);
        if l > 0 {
            assert(chain_step(ss, l, pos, pos));
            lemma_up(ss, l, pos, pos);
        } else {
            assert(t =~= Seq::<ScopeOrDeclId>::empty());
        }
        assert forall|s: int, k: int, d: LuaDeclId| 0 <= s < ss.len() && #[trigger] is_decl_child(ss, s, k, d) && region(ss, s, d, pos, false) && lvl(ss, s, pos) <= l
            implies t.contains(ScopeOrDeclId::Decl(d)) by {
            lemma_lvl_chain(ss, s, k, d, pos, l);
            if lvl(ss, s, pos) == l {
                if stmt_kind(kd(ss, s)) { wf_stmt_at(ss, s); }
                assert(false);
            }
        }
    } else if kd(ss, l) == LuaScopeKind::Repeat {
        wf_repeat_at(ss, l);
        let body = first_scope(ss, l);
        lemma_visit_unfold(ss, body, pos, true);
        lemma_visit_unfold(ss, l, pos, false);
        assert(kids(ss, l)[0] matches ScopeOrDeclId::Scope(sid) ==> !rng(ss, sid.id as int, pos));
        lemma_ctx_aside(ss, body, pos, pos);
        let a_s = m_search(ss, body, pos);
        let bs = m_search(ss, l, pos);
        let cs = m_up(ss, l, pos);
        assert(t == a_s + (a_s + bs + cs));
        lemma_body_search_sound(ss, l, pos, pos);
        lemma_search_sound(ss, l, pos, pos);
        if l > 0 {
            assert(chain_step(ss, l, pos, pos));
            lemma_up(ss, l, pos, pos);
        } else {
            assert(cs =~= Seq::<ScopeOrDeclId>::empty());
        }
        lemma_sound_concat(ss, a_s, bs, pos);
        lemma_sound_concat(ss, a_s + bs, cs, pos);
        lemma_sound_concat(ss, a_s, a_s + bs + cs, pos);
        assert forall|s: int, k: int, d: LuaDeclId| 0 <= s < ss.len() && #[trigger] is_decl_child(ss, s, k, d) && region(ss, s, d, pos, false) && lvl(ss, s, pos) <= l
            implies t.contains(ScopeOrDeclId::Decl(d)) by {
            let x = ScopeOrDeclId::Decl(d);
            lemma_lvl_chain(ss, s, k, d, pos, l);
            lemma_concat_contains(a_s, a_s + bs + cs, x);
            lemma_concat_contains(a_s + bs, cs, x);
            if lvl(ss, s, pos) == l {
                assert(stmt_kind(kd(ss, s)));
                wf_stmt_at(ss, s);
                assert(par(ss, s) == body);
                lemma_level_complete(ss, body, pos, s, k, d);
                lemma_level_char(ss, body, pos, pos, x);
            }
        }
    } else {
        let bs = m_search(ss, l, pos);
        let cs = m_up(ss, l, pos);
        assert(t == bs + cs);
        lemma_search_sound(ss, l, pos, pos);
        if l > 0 {
            assert(chain_step(ss, l, pos, pos));
            lemma_up(ss, l, pos, pos);
        } else {
            assert(cs =~= Seq::<ScopeOrDeclId>::empty());
        }
        lemma_sound_concat(ss, bs, cs, pos);
        assert forall|s: int, k: int, d: LuaDeclId| 0 <= s < ss.len() && #[trigger] is_decl_child(ss, s, k, d) && region(ss, s, d, pos, false) && lvl(ss, s, pos) <= l
            implies t.contains(ScopeOrDeclId::Decl(d)) by {
            let x = ScopeOrDeclId::Decl(d);
            lemma_lvl_chain(ss, s, k, d, pos, l);
            lemma_concat_contains(bs, cs, x);
            if lvl(ss, s, pos) == l {
                if stmt_kind(kd(ss, s)) { wf_stmt_at(ss, s); }
                lemma_level_complete(ss, l, pos, s, k, d);
                lemma_level_char(ss, l, pos, pos, x);
            }
        }
    }
}
/// THE LINK: the traversal started at the scope find_scope returns emits exactly the declarations `visible` (code reading) admits
#[verifier::spinoff_prover]
pub proof fn lemma_trace_is_visible(ss: Seq<LuaScope>, l: int, pos: int)
    requires tree_wf(ss), is_leaf(ss, l, pos)
    ensures forall|d: LuaDeclId| #[trigger] m_visit(ss, l, pos, true).contains(ScopeOrDeclId::Decl(d)) <==> visible(ss, d, pos, false),
        forall|x: ScopeOrDeclId| #[trigger] m_visit(ss, l, pos, true).contains(x) ==> x is Decl,
{
    lemma_entry(ss, l, pos);
    let t = m_visit(ss, l, pos, true);
    assert forall|d: LuaDeclId| visible(ss, d, pos, false) implies #[trigger] t.contains(ScopeOrDeclId::Decl(d)) by {
        let (s, k) = choose|s: int, k: int| 0 <= s < ss.len() && is_decl_child(ss, s, k, d) && region(ss, s, d, pos, false);
        // the level of a visible declaration is a scope around pos, hence the leaf or above it
        if stmt_kind(kd(ss, s)) { wf_stmt_at(ss, s); }
        else if kd(ss, s) == LuaScopeKind::ForRange {
            lemma_for_region_inside(ss, s, pos);
        }
        let lv = lvl(ss, s, pos);
        assert(0 <= lv < ss.len() && inside(ss, lv, pos));
        lemma_leaf_innermost(ss, l, lv, pos);
    }
}
/// Lua's reading implies the code's; outside loop / function headers the two coincide; with the repaired traversal and builder encoding
/// (hdr_trav() && enc_for()) there is no such header position left: the two readings are the same everywhere
pub proof fn lemma_lua_vs_code(ss: Seq<LuaScope>, d: LuaDeclId, pos: int)
    requires tree_wf(ss)
    ensures visible(ss, d, pos, true) ==> visible(ss, d, pos, false),
        !in_header(ss, pos) ==> (visible(ss, d, pos, false) ==> visible(ss, d, pos, true)),
        (hdr_trav() && enc_for()) ==> !in_header(ss, pos),
{
    if visible(ss, d, pos, true) {
        let (s, k) = choose|s: int, k: int| 0 <= s < ss.len() && is_decl_child(ss, s, k, d) && region(ss, s, d, pos, true);
        if kd(ss, s) == LuaScopeKind::Normal || kd(ss, s) == LuaScopeKind::ForRange {
            if in_body(ss, s, pos) { lemma_in_body_child(ss, s, pos); }
        }
        assert(region(ss, s, d, pos, false));
    }
    if !in_header(ss, pos) && visible(ss, d, pos, false) {
        let (s, k) = choose|s: int, k: int| 0 <= s < ss.len() && is_decl_child(ss, s, k, d) && region(ss, s, d, pos, false);
        if kd(ss, s) == LuaScopeKind::Normal || kd(ss, s) == LuaScopeKind::ForRange {
            if kd(ss, s) == LuaScopeKind::ForRange { lemma_for_region_inside(ss, s, pos); }
            assert(kids(ss, s)[k] is Decl);
        }
        assert(region(ss, s, d, pos, true));
    }
}

// ===== order of the trace: closest (latest declared) first ================================================================================
pub open spec fn xpos(x: ScopeOrDeclId) -> int { match x { ScopeOrDeclId::Decl(d) => pos_of(d), ScopeOrDeclId::Scope(_) => -1 } }
/// x and y are two names of one `local` / assignment statement
pub open spec fn same_stmt(ss: Seq<LuaScope>, x: ScopeOrDeclId, y: ScopeOrDeclId) -> bool {
    x is Decl && y is Decl && exists|s: int| 0 <= s < ss.len() && kd(ss, s) == LuaScopeKind::LocalOrAssignStat
        && #[trigger] kids(ss, s).contains(x) && kids(ss, s).contains(y)
}
/// v occurs in t before index a
pub open spec fn seen_before(t: Seq<ScopeOrDeclId>, a: int, v: ScopeOrDeclId) -> bool { exists|c: int| 0 <= c < a && t[c] == v }
pub open spec fn ord_pair(ss: Seq<LuaScope>, t: Seq<ScopeOrDeclId>, a: int, b: int) -> bool {
    (0 <= a < t.len() && 0 <= b < t.len() && xpos(t[b]) > xpos(t[a])) ==> (seen_before(t, a, t[b]) || (!dup_fixed() && same_stmt(ss, t[a], t[b])))
}
/// an element with a larger position than an earlier one is a repetition of something emitted before that one, or (!dup_fixed(): today's
/// code walks the names of one statement forward) the two are names of one statement
pub open spec fn ordered(ss: Seq<LuaScope>, t: Seq<ScopeOrDeclId>) -> bool {
    forall|a: int, b: int| #[trigger] ord_pair(ss, t, a, b)
}
pub open spec fn cross_pair(x: Seq<ScopeOrDeclId>, y: Seq<ScopeOrDeclId>, a: int, b: int) -> bool {
    (0 <= a < x.len() && 0 <= b < y.len() && xpos(y[b]) > xpos(x[a])) ==> x.contains(y[b])
}
pub open spec fn cross(x: Seq<ScopeOrDeclId>, y: Seq<ScopeOrDeclId>) -> bool {
    forall|a: int, b: int| #[trigger] cross_pair(x, y, a, b)
}
pub proof fn lemma_ordered_concat(ss: Seq<LuaScope>, x: Seq<ScopeOrDeclId>, y: Seq<ScopeOrDeclId>)
    requires ordered(ss, x), ordered(ss, y), cross(x, y)
    ensures ordered(ss, x + y)
{
    let t = x + y;
    assert forall|a: int, b: int| #[trigger] ord_pair(ss, t, a, b) by {
        if 0 <= a < t.len() && 0 <= b < t.len() && xpos(t[b]) > xpos(t[a]) {
            if a < x.len() && b < x.len() {
                assert(ord_pair(ss, x, a, b));
                if seen_before(x, a, x[b]) {
                    let c = choose|c: int| 0 <= c < a && x[c] == x[b];
                    assert(t[c] == t[b]);
                }
            } else if a >= x.len() && b >= x.len() {
                let a1 = a - x.len(); let b1 = b - x.len();
                assert(ord_pair(ss, y, a1, b1));
                if seen_before(y, a1, y[b1]) {
                    let c = choose|c: int| 0 <= c < a1 && y[c] == y[b1];
                    assert(t[c + x.len()] == t[b]);
                }
            } else if a < x.len() {
                let b1 = b - x.len();
                assert(cross_pair(x, y, a, b1));
                let m = choose|m: int| 0 <= m < x.len() && x[m] == y[b1];
                assert(ord_pair(ss, x, a, m));
                if seen_before(x, a, x[m]) {
                    let c = choose|c: int| 0 <= c < a && x[c] == x[m];
                    assert(t[c] == t[b]);
                }
            } else {
                assert(t[b] == t[b] && 0 <= b < a);
            }
        }
    }
}
pub proof fn lemma_ordered_empty(ss: Seq<LuaScope>)
    ensures ordered(ss, Seq::<ScopeOrDeclId>::empty())
{}
/// what a child emits lies in the child's extent
pub proof fn lemma_child_has_bounds(ss: Seq<LuaScope>, i: int, k: int, x: ScopeOrDeclId)
    requires tree_wf(ss), 0 <= i < ss.len(), 0 <= k < kids(ss, i).len(), child_has(ss, kids(ss, i)[k], x)
    ensures x is Decl, cpos(ss, kids(ss, i)[k]) <= xpos(x) < cend(ss, kids(ss, i)[k])
{
    let c = kids(ss, i)[k];
    if c is Scope {
        wf_child(ss, i, k);
        wf_stmt_at(ss, sidx(c));
        let j = choose|j: int| 0 <= j < kids(ss, sidx(c)).len() && kids(ss, sidx(c))[j] == x;
        assert(kids(ss, sidx(c))[j] is Decl);
    }
}
/// the declarations a statement scope exposes: names of one statement (LocalOrAssignStat), or at most one name (function statement)
/// the names of one statement, last first, are in descending order of position
pub proof fn lemma_decls_rev_ordered(ss: Seq<LuaScope>, s: int, k: int)
    requires tree_wf(ss), 0 <= s < ss.len(), kd(ss, s) == LuaScopeKind::LocalOrAssignStat, 0 <= k <= kids(ss, s).len()
    ensures ordered(ss, decls_rev(kids(ss, s), k))
    decreases k
{
    let ks = kids(ss, s);
    if k > 0 {
        lemma_decls_rev_ordered(ss, s, k - 1);
        if ks[k - 1] is Decl {
            let x = seq![ks[k - 1]];
            let y = decls_rev(ks, k - 1);
            assert forall|a: int, b: int| #[trigger] ord_pair(ss, x, a, b) by {}
            assert forall|a: int, b: int| #[trigger] cross_pair(x, y, a, b) by {
                if 0 <= a < x.len() && 0 <= b < y.len() && xpos(y[b]) > xpos(x[a]) {
                    assert(y.contains(y[b]));
                    lemma_decls_rev_char(ks, k - 1, y[b]);
                    let j = choose|j: int| 0 <= j < k - 1 && ks[j] == y[b];
                    wf_local_at(ss, s, j, k - 1);
                    assert(false);
                }
            }
            lemma_ordered_concat(ss, x, y);
        }
    } else {
        lemma_ordered_empty(ss);
    }
}
/// the declarations a statement scope exposes: names of one statement (LocalOrAssignStat), or at most one name (function statement)
pub proof fn lemma_child_ordered(ss: Seq<LuaScope>, c: ScopeOrDeclId)
    requires tree_wf(ss)
    ensures ordered(ss, m_child(ss, c))
{
    let t = m_child(ss, c);
    if c is Scope && sidx(c) < ss.len() && dup_fixed() && kd(ss, sidx(c)) == LuaScopeKind::LocalOrAssignStat {
        lemma_decls_rev_ordered(ss, sidx(c), kids(ss, sidx(c)).len() as int);
    } else {
        assert forall|a: int, b: int| #[trigger] ord_pair(ss, t, a, b) by {
          if 0 <= a < t.len() && 0 <= b < t.len() && xpos(t[b]) > xpos(t[a]) {
            assert(t.contains(t[a]) && t.contains(t[b]));
            lemma_child_char(ss, c, t[a]);
            lemma_child_char(ss, c, t[b]);
            if c is Scope {
                let s = sidx(c);
                if func_kind(kd(ss, s)) {
                    wf_func_at(ss, s);
                    let ja = choose|j: int| 0 <= j < kids(ss, s).len() && kids(ss, s)[j] == t[a];
                    let jb = choose|j: int| 0 <= j < kids(ss, s).len() && kids(ss, s)[j] == t[b];
                    assert(kids(ss, s)[ja] is Decl && kids(ss, s)[jb] is Decl);
                    assert(false);
                } else {
                    assert(kids(ss, s).contains(t[a]) && kids(ss, s).contains(t[b]));
                    assert(same_stmt(ss, t[a], t[b]));
                }
            } else {
                assert(t.len() == 1);
            }
          }
        }
    }
}
/// the reverse walk over children 0..=j of an ordered scope
pub proof fn lemma_walk_ordered(ss: Seq<LuaScope>, i: int, j: int)
    requires tree_wf(ss), 0 <= i < ss.len(), kd(ss, i) != LuaScopeKind::LocalOrAssignStat, -1 <= j < kids(ss, i).len()
    ensures ordered(ss, m_walk(ss, kids(ss, i), j))
    decreases j + 1
{
    let ks = kids(ss, i);
    if j >= 0 {
        lemma_walk_ordered(ss, i, j - 1);
        lemma_child_ordered(ss, ks[j]);
        let x = m_child(ss, ks[j]);
        let y = m_walk(ss, ks, j - 1);
        assert forall|a: int, b: int| #[trigger] cross_pair(x, y, a, b) by {
          if 0 <= a < x.len() && 0 <= b < y.len() && xpos(y[b]) > xpos(x[a]) {
            assert(x.contains(x[a]) && y.contains(y[b]));
            lemma_child_char(ss, ks[j], x[a]);
            lemma_child_has_bounds(ss, i, j, x[a]);
            lemma_walk_char(ss, ks, j - 1, y[b]);
            let k = choose|k: int| 0 <= k <= j - 1 && child_has(ss, ks[k], y[b]);
            lemma_child_has_bounds(ss, i, k, y[b]);
            wf_order_at(ss, i, k, j);
            assert(false);
          }
        }
        lemma_ordered_concat(ss, x, y);
    }
}
pub proof fn lemma_search_ordered(ss: Seq<LuaScope>, i: int, p: int)
    requires tree_wf(ss), 0 <= i < ss.len(), kd(ss, i) != LuaScopeKind::LocalOrAssignStat
    ensures ordered(ss, m_search(ss, i, p))
{
    lemma_cut_props(ss, kids(ss, i), p, kids(ss, i).len() as int);
    lemma_walk_ordered(ss, i, m_cut(ss, kids(ss, i), p, kids(ss, i).len() as int));
}

// ---- order across the levels of the chain ------------------------------------------------------------------------------------------------
pub proof fn lemma_beta(ss: Seq<LuaScope>, i: int, b: int)
    requires tree_wf(ss), 0 <= i < ss.len(), 0 <= b < kids(ss, i).len()
    ensures st(ss, i) <= beta(ss, i, b),
        kids(ss, i)[b] is Scope ==> beta(ss, i, b) <= st(ss, sidx(kids(ss, i)[b])),
        kd(ss, i) != LuaScopeKind::LocalOrAssignStat ==> forall|a: int| 0 <= a < b ==> cend(ss, #[trigger] kids(ss, i)[a]) <= beta(ss, i, b),
{
    if kids(ss, i)[b] is Scope { wf_child(ss, i, b); }
    if kd(ss, i) != LuaScopeKind::LocalOrAssignStat && b > 0 {
        wf_order_at(ss, i, b - 1, b);
        assert forall|a: int| 0 <= a < b implies cend(ss, #[trigger] kids(ss, i)[a]) <= beta(ss, i, b) by {
            if a < b - 1 { wf_order_at(ss, i, a, b - 1); }
        }
    }
}
/// what the part X of the trace emitted at or below scope u (child b of its parent) must satisfy for the rest of the trace to follow in order
pub open spec fn lower_ok(ss: Seq<LuaScope>, u: int, b: int, p: int, x: Seq<ScopeOrDeclId>) -> bool {
    // everything emitted so far lies in u's slot or after it
    &&& forall|e: ScopeOrDeclId| #[trigger] x.contains(e) ==> e is Decl && beta(ss, par(ss, u), b) <= xpos(e)
    // the name of a function statement u: emitted already, or in front of everything emitted so far
    &&& func_kind(kd(ss, u)) ==> forall|k: int| 0 <= k < kids(ss, u).len() && #[trigger] kids(ss, u)[k] is Decl
            ==> x.contains(kids(ss, u)[k]) || forall|e: ScopeOrDeclId| #[trigger] x.contains(e) ==> xpos(e) > xpos(kids(ss, u)[k])
    // a repeat body: searched already with this position
    &&& (kd(ss, par(ss, u)) == LuaScopeKind::Repeat && first_scope(ss, par(ss, u)) == u)
            ==> forall|e: ScopeOrDeclId| #[trigger] m_search(ss, u, p).contains(e) ==> x.contains(e)
}
/// what the non-entry visit of scope i emits in front of its own children: the body of a repeat statement
pub open spec fn up_body(ss: Seq<LuaScope>, i: int, p: int) -> Seq<ScopeOrDeclId> {
    if kd(ss, i) == LuaScopeKind::Repeat && first_scope(ss, i) >= 0 { m_search(ss, first_scope(ss, i), p) } else { Seq::<ScopeOrDeclId>::empty() }
}
pub open spec fn up_pre(ss: Seq<LuaScope>, u: int, b: int, p: int, pos: int, x: Seq<ScopeOrDeclId>) -> bool {
    &&& tree_wf(ss) && chain_step(ss, u, p, pos) && 0 <= par(ss, u) < u && is_scope_child(ss, par(ss, u), b, u)
    &&& kd(ss, par(ss, u)) != LuaScopeKind::LocalOrAssignStat && ordered(ss, x) && lower_ok(ss, u, b, p, x)
}
/// X + (search of the repeat body) is in order
#[verifier::spinoff_prover]
pub proof fn lemma_ord_body(ss: Seq<LuaScope>, u: int, b: int, p: int, pos: int, x: Seq<ScopeOrDeclId>)
    requires up_pre(ss, u, b, p, pos, x)
    ensures ordered(ss, x + up_body(ss, par(ss, u), p))
{
    let i = par(ss, u);
    let body = first_scope(ss, i);
    let a_s = up_body(ss, i, p);
    lemma_beta(ss, i, b);
    if kd(ss, i) == LuaScopeKind::Repeat && body >= 0 {
        wf_repeat_at(ss, i);
        lemma_search_ordered(ss, body, p);
        assert forall|a: int, b1: int| #[trigger] cross_pair(x, a_s, a, b1) by {
            if 0 <= a < x.len() && 0 <= b1 < a_s.len() && xpos(a_s[b1]) > xpos(x[a]) {
                assert(a_s.contains(a_s[b1]) && x.contains(x[a]));
                if b != 0 {
                    lemma_search_char(ss, body, p, a_s[b1]);
                    let k = choose|k: int| 0 <= k < kids(ss, body).len() && before(ss, kids(ss, body)[k], p) && child_has(ss, kids(ss, body)[k], a_s[b1]);
                    lemma_child_has_bounds(ss, body, k, a_s[b1]);
                    wf_child(ss, body, k);
                    assert(cend(ss, kids(ss, i)[0]) <= beta(ss, i, b));
                    assert(false);
                }
            }
        }
    } else {
        lemma_ordered_empty(ss);
        assert forall|a: int, b1: int| #[trigger] cross_pair(x, a_s, a, b1) by {}
    }
    lemma_ordered_concat(ss, x, a_s);
}
/// ... + (search of scope i) is in order
#[verifier::spinoff_prover]
pub proof fn lemma_ord_level(ss: Seq<LuaScope>, u: int, b: int, p: int, pos: int, x: Seq<ScopeOrDeclId>)
    requires up_pre(ss, u, b, p, pos, x)
    ensures ordered(ss, x + up_body(ss, par(ss, u), p) + lsearch(ss, par(ss, u), p))
{
    let i = par(ss, u);
    let a_s = up_body(ss, i, p);
    let bs = lsearch(ss, i, p);
    let x1 = x + a_s;
    lemma_beta(ss, i, b);
    lemma_inside_parent(ss, u, pos);
    lemma_ord_body(ss, u, b, p, pos, x);
    lemma_search_ordered(ss, i, p);
    lemma_ordered_empty(ss);
    if kd(ss, i) == LuaScopeKind::Repeat {
        lemma_repeat_search_empty(ss, i, p);
        assert forall|a: int, b1: int| #[trigger] cross_pair(x1, bs, a, b1) by {}
    } else {
        assert(x1 =~= x);
        assert forall|a: int, b1: int| #[trigger] cross_pair(x1, bs, a, b1) by {
            if 0 <= a < x1.len() && 0 <= b1 < bs.len() && xpos(bs[b1]) > xpos(x1[a]) {
                let y = bs[b1];
                assert(bs.contains(y) && x.contains(x1[a]));
                lemma_search_char(ss, i, p, y);
                let k = choose|k: int| 0 <= k < kids(ss, i).len() && before(ss, kids(ss, i)[k], p) && child_has(ss, kids(ss, i)[k], y);
                lemma_child_has_bounds(ss, i, k, y);
                if k < b {
                    assert(cend(ss, kids(ss, i)[k]) <= beta(ss, i, b));
                    assert(false);
                } else if k > b {
                    wf_order_at(ss, i, b, k);
                    assert(false);
                } else {
                    assert(child_state(ss, u, p, pos));
                    assert(func_kind(kd(ss, u)));
                    let j = choose|j: int| 0 <= j < kids(ss, u).len() && kids(ss, u)[j] == y;
                    assert(kids(ss, u)[j] is Decl);
                    assert(x.contains(y));
                }
            }
        }
    }
    lemma_ordered_concat(ss, x1, bs);
}
/// what was emitted up to and including level i satisfies lower_ok for the step from i to its parent
#[verifier::spinoff_prover]
pub proof fn lemma_lower_next(ss: Seq<LuaScope>, u: int, b: int, p: int, pos: int, x: Seq<ScopeOrDeclId>, ki: int)
    requires up_pre(ss, u, b, p, pos, x), par(ss, u) > 0, 0 <= par(ss, par(ss, u)) < par(ss, u), is_scope_child(ss, par(ss, par(ss, u)), ki, par(ss, u))
    ensures lower_ok(ss, par(ss, u), ki, p, x + up_body(ss, par(ss, u), p) + lsearch(ss, par(ss, u), p))
{
    let i = par(ss, u);
    let body = first_scope(ss, i);
    let a_s = up_body(ss, i, p);
    let bs = lsearch(ss, i, p);
    let x1 = x + a_s;
    let x2 = x1 + bs;
    lemma_beta(ss, i, b);
    lemma_beta(ss, par(ss, i), ki);
    if kd(ss, i) == LuaScopeKind::Repeat { wf_repeat_at(ss, i); }
    if kd(ss, par(ss, i)) == LuaScopeKind::Repeat { wf_repeat_at(ss, par(ss, i)); }
    assert forall|e: ScopeOrDeclId| #[trigger] x2.contains(e) implies e is Decl && beta(ss, par(ss, i), ki) <= xpos(e) by {
        lemma_concat_contains(x1, bs, e);
        lemma_concat_contains(x, a_s, e);
        if bs.contains(e) {
            lemma_search_char(ss, i, p, e);
            let k = choose|k: int| 0 <= k < kids(ss, i).len() && before(ss, kids(ss, i)[k], p) && child_has(ss, kids(ss, i)[k], e);
            lemma_child_has_bounds(ss, i, k, e);
            if kids(ss, i)[k] is Decl { wf_declpos_at(ss, par(ss, i), ki, k); } else { wf_child(ss, i, k); }
        } else if a_s.contains(e) {
            lemma_search_char(ss, body, p, e);
            let k = choose|k: int| 0 <= k < kids(ss, body).len() && before(ss, kids(ss, body)[k], p) && child_has(ss, kids(ss, body)[k], e);
            lemma_child_has_bounds(ss, body, k, e);
            wf_child(ss, body, k);
            wf_child(ss, i, 0);
        }
    }
    if func_kind(kd(ss, i)) {
        wf_func_at(ss, i);
        assert(kids(ss, i)[b] is Scope);
        assert(bs == m_search(ss, i, p));
        assert forall|k: int| 0 <= k < kids(ss, i).len() && #[trigger] kids(ss, i)[k] is Decl implies x2.contains(kids(ss, i)[k]) by {
            let y = kids(ss, i)[k];
            wf_order_at(ss, i, k, b);
            assert(before(ss, y, p) && child_has(ss, y, y));
            lemma_search_char(ss, i, p, y);
            lemma_concat_contains(x1, bs, y);
        }
    }
    if kd(ss, par(ss, i)) == LuaScopeKind::Repeat && first_scope(ss, par(ss, i)) == i {
        assert(bs == m_search(ss, i, p));
        assert forall|e: ScopeOrDeclId| #[trigger] m_search(ss, i, p).contains(e) implies x2.contains(e) by {
            lemma_concat_contains(x1, bs, e);
        }
    }
}
#[verifier::spinoff_prover]
pub proof fn lemma_up_ord(ss: Seq<LuaScope>, u: int, b: int, p: int, pos: int, x: Seq<ScopeOrDeclId>)
    requires tree_wf(ss), chain_step(ss, u, p, pos), is_scope_child(ss, par(ss, u), b, u), ordered(ss, x), lower_ok(ss, u, b, p, x)
    ensures ordered(ss, x + m_up(ss, u, p))
    decreases u
{
    let b0 = wf_parent(ss, u);
    let i = par(ss, u);
    lemma_inside_parent(ss, u, pos);
    lemma_visit_unfold(ss, u, p, false);
    lemma_visit_unfold(ss, i, p, false);
    lemma_beta(ss, i, b);
    wf_basic(ss);
    if kd(ss, i) == LuaScopeKind::LocalOrAssignStat {
        wf_stmt_at(ss, i);
        let ki = wf_parent(ss, i);
        lemma_beta(ss, par(ss, i), ki);
        assert(lower_ok(ss, i, ki, st(ss, i), x));
        lemma_up_ord(ss, i, ki, st(ss, i), pos, x);
    } else {
        let x2 = x + up_body(ss, i, p) + lsearch(ss, i, p);
        let cs = m_up(ss, i, p);
        lemma_ord_level(ss, u, b, p, pos, x);
        assert(x + m_up(ss, u, p) =~= x2 + cs);
        if i > 0 {
            let ki = wf_parent(ss, i);
            if func_kind(kd(ss, i)) { wf_func_at(ss, i); assert(kids(ss, i)[b] is Scope); }
            lemma_ctx_from_child(ss, u, b, p, pos);
            assert(chain_step(ss, i, p, pos));
            lemma_lower_next(ss, u, b, p, pos, x, ki);
            lemma_up_ord(ss, i, ki, p, pos, x2);
        } else {
            assert(cs =~= Seq::<ScopeOrDeclId>::empty());
            assert(x2 + cs =~= x2);
        }
    }
}
/// a repeat scope's own search emits nothing (it holds the body block and the closures of the condition only)
pub proof fn lemma_repeat_search_empty(ss: Seq<LuaScope>, i: int, p: int)
    requires tree_wf(ss), 0 <= i < ss.len(), kd(ss, i) == LuaScopeKind::Repeat
    ensures m_search(ss, i, p).len() == 0
{
    let t = m_search(ss, i, p);
    if t.len() > 0 {
        assert(t.contains(t[0]));
        lemma_search_char(ss, i, p, t[0]);
        let k = choose|k: int| 0 <= k < kids(ss, i).len() && before(ss, kids(ss, i)[k], p) && child_has(ss, kids(ss, i)[k], t[0]);
        wf_repeat_at(ss, i);
        assert(kids(ss, i)[k] is Scope);
        wf_child(ss, i, k);
        wf_stmt_at(ss, sidx(kids(ss, i)[k]));
        assert(false);
    }
}
/// C13 (i) + (vi), order half: the whole trace is in closest-first order (up to repetitions and names of one statement)
#[verifier::spinoff_prover]
pub proof fn lemma_entry_ord(ss: Seq<LuaScope>, l: int, pos: int)
    requires tree_wf(ss), is_leaf(ss, l, pos)
    ensures ordered(ss, m_visit(ss, l, pos, true))
{
    let t = m_visit(ss, l, pos, true);
    let e = Seq::<ScopeOrDeclId>::empty();
    lemma_visit_unfold(ss, l, pos, true);
    lemma_ctx_leaf(ss, l, pos);
    lemma_ordered_empty(ss);
    wf_basic(ss);
    if kd(ss, l) == LuaScopeKind::LocalOrAssignStat {
        wf_stmt_at(ss, l);
        let kl = wf_parent(ss, l);
        assert(chain_step(ss, l, st(ss, l), pos));
        assert(lower_ok(ss, l, kl, st(ss, l), e));
        lemma_up_ord(ss, l, kl, st(ss, l), pos, e);
        assert(e + m_up(ss, l, st(ss, l)) =~= t);
    } else if kd(ss, l) == LuaScopeKind::ForRange {
        if l > 0 {
            let kl = wf_parent(ss, l);
            assert(chain_step(ss, l, pos, pos));
            if kd(ss, par(ss, l)) == LuaScopeKind::Repeat { wf_repeat_at(ss, par(ss, l)); }
            assert(lower_ok(ss, l, kl, pos, e));
            lemma_up_ord(ss, l, kl, pos, pos, e);
            assert(e + m_up(ss, l, pos) =~= t);
        } else {
            assert(t =~= e);
        }
    } else if kd(ss, l) == LuaScopeKind::Repeat && first_scope(ss, l) < 0 {
        wf_repeat_at(ss, l);
        if l > 0 {
            let kl = wf_parent(ss, l);
            assert(chain_step(ss, l, pos, pos));
            if kd(ss, par(ss, l)) == LuaScopeKind::Repeat { wf_repeat_at(ss, par(ss, l)); }
            assert(lower_ok(ss, l, kl, pos, e));
            lemma_up_ord(ss, l, kl, pos, pos, e);
            assert(e + m_up(ss, l, pos) =~= t);
        } else {
            assert(t =~= e);
        }
    } else if kd(ss, l) == LuaScopeKind::Repeat {
        wf_repeat_at(ss, l);
        let body = first_scope(ss, l);
        lemma_visit_unfold(ss, body, pos, true);
        lemma_visit_unfold(ss, l, pos, false);
        let a_s = m_search(ss, body, pos);
        let bs = m_search(ss, l, pos);
        let cs = m_up(ss, l, pos);
        lemma_repeat_search_empty(ss, l, pos);
        lemma_search_ordered(ss, body, pos);
        assert forall|a: int, b1: int| #[trigger] cross_pair(a_s, a_s, a, b1) by {
            if 0 <= b1 < a_s.len() { assert(a_s.contains(a_s[b1])); }
        }
        lemma_ordered_concat(ss, a_s, a_s);
        let x = a_s + a_s;
        assert(t =~= x + cs) by { assert(bs =~= e); assert(a_s + bs =~= a_s); }
        if l > 0 {
            let kl = wf_parent(ss, l);
            lemma_beta(ss, par(ss, l), kl);
            assert(chain_step(ss, l, pos, pos));
            assert forall|el: ScopeOrDeclId| #[trigger] x.contains(el) implies el is Decl && beta(ss, par(ss, l), kl) <= xpos(el) by {
                lemma_concat_contains(a_s, a_s, el);
                lemma_search_char(ss, body, pos, el);
                let k = choose|k: int| 0 <= k < kids(ss, body).len() && before(ss, kids(ss, body)[k], pos) && child_has(ss, kids(ss, body)[k], el);
                lemma_child_has_bounds(ss, body, k, el);
                wf_child(ss, body, k);
                wf_child(ss, l, 0);
            }
            if kd(ss, par(ss, l)) == LuaScopeKind::Repeat { wf_repeat_at(ss, par(ss, l)); }
            assert(lower_ok(ss, l, kl, pos, x));
            lemma_up_ord(ss, l, kl, pos, pos, x);
        } else {
            assert(cs =~= e);
            assert(x + cs =~= x);
        }
    } else {
        let x = m_search(ss, l, pos);
        let cs = m_up(ss, l, pos);
        lemma_search_ordered(ss, l, pos);
        assert(t == x + cs);
        if l > 0 {
            let kl = wf_parent(ss, l);
            lemma_beta(ss, par(ss, l), kl);
            assert(chain_step(ss, l, pos, pos));
            assert forall|el: ScopeOrDeclId| #[trigger] x.contains(el) implies el is Decl && beta(ss, par(ss, l), kl) <= xpos(el) by {
                lemma_search_char(ss, l, pos, el);
                let k = choose|k: int| 0 <= k < kids(ss, l).len() && before(ss, kids(ss, l)[k], pos) && child_has(ss, kids(ss, l)[k], el);
                lemma_child_has_bounds(ss, l, k, el);
                if kids(ss, l)[k] is Decl { wf_declpos_at(ss, par(ss, l), kl, k); } else { wf_child(ss, l, k); }
            }
            if func_kind(kd(ss, l)) {
                wf_func_at(ss, l);
                assert forall|k: int| 0 <= k < kids(ss, l).len() && #[trigger] kids(ss, l)[k] is Decl
                    implies x.contains(kids(ss, l)[k]) || forall|el: ScopeOrDeclId| #[trigger] x.contains(el) ==> xpos(el) > xpos(kids(ss, l)[k]) by {
                    let f = kids(ss, l)[k];
                    lemma_search_char(ss, l, pos, f);
                    if before(ss, f, pos) {
                        assert(child_has(ss, f, f));
                        assert(x.contains(f));
                    } else {
                        assert forall|el: ScopeOrDeclId| #[trigger] x.contains(el) implies xpos(el) > xpos(f) by {
                            lemma_search_char(ss, l, pos, el);
                            let k2 = choose|k2: int| 0 <= k2 < kids(ss, l).len() && before(ss, kids(ss, l)[k2], pos) && child_has(ss, kids(ss, l)[k2], el);
                            if kids(ss, l)[k2] is Scope {
                                wf_child(ss, l, k2);
                                wf_stmt_at(ss, sidx(kids(ss, l)[k2]));
                            }
                            assert(false);
                        }
                    }
                }
            }
            assert(lower_ok(ss, l, kl, pos, x));
            lemma_up_ord(ss, l, kl, pos, pos, x);
        } else {
            assert(cs =~= e);
            assert(x + cs =~= x);
        }
    }
}
/// an element that did not occur before index j has no larger position than t[j], unless the two are names of one statement
pub proof fn lemma_first_is_latest(ss: Seq<LuaScope>, t: Seq<ScopeOrDeclId>, j: int, b: int)
    requires ordered(ss, t), 0 <= j < t.len(), 0 <= b < t.len(), forall|c: int| 0 <= c < j ==> t[c] != t[b]
    ensures xpos(t[b]) <= xpos(t[j]) || (!dup_fixed() && same_stmt(ss, t[j], t[b]))
{
    assert(ord_pair(ss, t, j, b));
}
