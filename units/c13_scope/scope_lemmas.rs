// ===== unit c13_scope: lemmas (model of the traversal  <=>  declarative `visible`) ======================================================
// Every lemma has a body; `tree_wf` is opaque and is opened only by the `wf_*` access lemmas below.

pub proof fn wf_basic(ss: Seq<LuaScope>)
    requires tree_wf(ss)
    ensures links_wf(ss), ss.len() > 0, par(ss, 0) == -1
{ reveal(tree_wf); }

/// facts about a scope child
pub proof fn wf_child(ss: Seq<LuaScope>, i: int, k: int)
    requires tree_wf(ss), 0 <= i < ss.len(), 0 <= k < kids(ss, i).len(), kids(ss, i)[k] is Scope
    ensures ({ let c = sidx(kids(ss, i)[k]);
        i < c < ss.len() && par(ss, c) == i && st(ss, i) <= st(ss, c) && en(ss, c) <= en(ss, i) && st(ss, c) <= en(ss, c) && st(ss, i) <= en(ss, i) })
{ reveal(tree_wf); }

/// every scope but the root is a listed child of its parent
pub proof fn wf_parent(ss: Seq<LuaScope>, i: int) -> (k: int)
    requires tree_wf(ss), 0 < i < ss.len()
    ensures 0 <= par(ss, i) < i, is_scope_child(ss, par(ss, i), k, i), st(ss, par(ss, i)) <= st(ss, i), en(ss, i) <= en(ss, par(ss, i)),
        st(ss, i) <= en(ss, i)
{
    reveal(tree_wf);
    let k = choose|k: int| is_scope_child(ss, par(ss, i), k, i);
    let c = kids(ss, par(ss, i))[k];
    k
}

pub proof fn wf_disjoint_at(ss: Seq<LuaScope>, i: int, k1: int, k2: int)
    requires tree_wf(ss), 0 <= i < ss.len(), 0 <= k1 < kids(ss, i).len(), 0 <= k2 < kids(ss, i).len(), k1 != k2,
        kids(ss, i)[k1] is Scope, kids(ss, i)[k2] is Scope
    ensures en(ss, sidx(kids(ss, i)[k1])) <= st(ss, sidx(kids(ss, i)[k2])) || en(ss, sidx(kids(ss, i)[k2])) <= st(ss, sidx(kids(ss, i)[k1]))
{ reveal(tree_wf); }

pub proof fn wf_order_at(ss: Seq<LuaScope>, i: int, a: int, b: int)
    requires tree_wf(ss), 0 <= i < ss.len(), kd(ss, i) != LuaScopeKind::LocalOrAssignStat, 0 <= a < b < kids(ss, i).len()
    ensures cend(ss, kids(ss, i)[a]) <= cpos(ss, kids(ss, i)[b]), cpos(ss, kids(ss, i)[a]) <= cend(ss, kids(ss, i)[a]),
        cpos(ss, kids(ss, i)[b]) <= cend(ss, kids(ss, i)[b])
{
    reveal(tree_wf);
    if kids(ss, i)[a] is Scope { wf_child(ss, i, a); }
    if kids(ss, i)[b] is Scope { wf_child(ss, i, b); }
}

pub proof fn wf_repeat_at(ss: Seq<LuaScope>, i: int)
    requires tree_wf(ss), 0 <= i < ss.len(), kd(ss, i) == LuaScopeKind::Repeat
    ensures ({ let b = first_scope(ss, i);
        &&& i < b < ss.len() && kids(ss, i).len() > 0 && kids(ss, i)[0] is Scope && sidx(kids(ss, i)[0]) == b && par(ss, b) == i
        &&& kd(ss, b) == LuaScopeKind::Normal
        &&& forall|k: int| 0 <= k < kids(ss, i).len() ==> #[trigger] kids(ss, i)[k] is Scope
        &&& forall|k: int| 0 <= k < kids(ss, b).len() ==> #[trigger] kids(ss, b)[k] is Scope })
{ reveal(tree_wf); }

pub proof fn wf_stmt_at(ss: Seq<LuaScope>, i: int)
    requires tree_wf(ss), 0 <= i < ss.len(), stmt_kind(kd(ss, i))
    ensures st(ss, i) < en(ss, i), i > 0, 0 <= par(ss, i) < i, kd(ss, par(ss, i)) == LuaScopeKind::Normal,
        forall|k: int| 0 <= k < kids(ss, i).len() ==> (#[trigger] kids(ss, i)[k] is Decl ==> st(ss, i) <= cpos(ss, kids(ss, i)[k]) < en(ss, i))
{ reveal(tree_wf); }

pub proof fn wf_func_at(ss: Seq<LuaScope>, i: int)
    requires tree_wf(ss), 0 <= i < ss.len(), func_kind(kd(ss, i))
    ensures
        forall|k: int| 0 <= k < kids(ss, i).len() ==> (#[trigger] kids(ss, i)[k] is Scope ==> st(ss, i) < st(ss, sidx(kids(ss, i)[k]))),
        forall|a: int, b: int| 0 <= a < kids(ss, i).len() && 0 <= b < kids(ss, i).len()
                && #[trigger] kids(ss, i)[a] is Decl && #[trigger] kids(ss, i)[b] is Decl ==> a == b
{ reveal(tree_wf); }

pub proof fn wf_declpos_at(ss: Seq<LuaScope>, i: int, b: int, k: int)
    requires tree_wf(ss), 0 <= i < ss.len(), 0 <= b < kids(ss, i).len(), kids(ss, i)[b] is Scope,
        0 <= k < kids(ss, sidx(kids(ss, i)[b])).len(), kids(ss, sidx(kids(ss, i)[b]))[k] is Decl
    ensures beta(ss, i, b) <= cpos(ss, kids(ss, sidx(kids(ss, i)[b]))[k])
{ reveal(tree_wf); }

// ---- the chain of scopes around a position ------------------------------------------------------------------------------------------
/// a is i or an ancestor of i
pub open spec fn is_anc(ss: Seq<LuaScope>, a: int, i: int) -> bool
    decreases i
{
    if i < 0 || i >= ss.len() { false } else if a == i { true } else if par_ok(ss, i) { is_anc(ss, a, par(ss, i)) } else { false }
}
pub proof fn lemma_anc_le(ss: Seq<LuaScope>, a: int, i: int)
    requires is_anc(ss, a, i)
    ensures a <= i, 0 <= i < ss.len()
    decreases i
{
    if a != i { lemma_anc_le(ss, a, par(ss, i)); }
}
/// the parent of a scope around p is around p
pub proof fn lemma_inside_parent(ss: Seq<LuaScope>, i: int, p: int)
    requires tree_wf(ss), 0 < i < ss.len(), rng(ss, i, p)
    ensures inside(ss, par(ss, i), p), 0 <= par(ss, i) < i
{
    let k = wf_parent(ss, i);
}
/// two scopes around the same position are nested: the one with the smaller id is an ancestor of the other
pub proof fn lemma_chain(ss: Seq<LuaScope>, a: int, b: int, p: int)
    requires tree_wf(ss), 0 <= a <= b < ss.len(), inside(ss, a, p), inside(ss, b, p)
    ensures is_anc(ss, a, b)
    decreases a + b
{
    if a != b {
        let kb = wf_parent(ss, b);
        let q = par(ss, b);
        lemma_inside_parent(ss, b, p);
        if a <= q {
            lemma_chain(ss, a, q, p);
        } else {
            let ka = wf_parent(ss, a);
            let r = par(ss, a);
            lemma_inside_parent(ss, a, p);
            if r == q {
                assert(ka != kb);
                wf_disjoint_at(ss, q, ka, kb);
                assert(false);
            } else if r < q {
                lemma_chain(ss, q, a, p);
                assert(is_anc(ss, q, r));
                lemma_anc_le(ss, q, r);
                assert(false);
            } else {
                lemma_chain(ss, r, b, p);
                assert(is_anc(ss, r, q));
                lemma_anc_le(ss, r, q);
                assert(false);
            }
        }
    }
}
/// below a proper ancestor l of a scope a around p there is a child of l around p
pub proof fn lemma_path_child(ss: Seq<LuaScope>, l: int, a: int, p: int) -> (k: int)
    requires tree_wf(ss), is_anc(ss, l, a), 0 <= l < a, rng(ss, a, p)
    ensures 0 <= k < kids(ss, l).len(), kids(ss, l)[k] is Scope, rng(ss, sidx(kids(ss, l)[k]), p)
    decreases a
{
    lemma_anc_le(ss, l, a);
    let ka = wf_parent(ss, a);
    let q = par(ss, a);
    if q == l {
        ka
    } else {
        lemma_anc_le(ss, l, q);
        lemma_inside_parent(ss, a, p);
        lemma_path_child(ss, l, q, p)
    }
}
/// C13.find-scope.innermost: every scope around p is the leaf or one of its ancestors
pub proof fn lemma_leaf_innermost(ss: Seq<LuaScope>, l: int, a: int, p: int)
    requires tree_wf(ss), is_leaf(ss, l, p), 0 <= a < ss.len(), inside(ss, a, p)
    ensures a <= l, is_anc(ss, a, l)
{
    if a <= l {
        lemma_chain(ss, a, l, p);
    } else {
        lemma_chain(ss, l, a, p);
        let k = lemma_path_child(ss, l, a, p);
        assert(false);
    }
}
