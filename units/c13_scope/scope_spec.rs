// ===== unit c13_scope: specification ====================================================================================================
// `ss` is the scope vector of a LuaDeclarationTree (`self.scopes@`); scopes are addressed by their index (= LuaScopeId.id, links_wf).

pub open spec fn kids(ss: Seq<LuaScope>, i: int) -> Seq<ScopeOrDeclId> { ss[i].children@ }
pub open spec fn st(ss: Seq<LuaScope>, i: int) -> int { ss[i].range.start.raw as int }
pub open spec fn en(ss: Seq<LuaScope>, i: int) -> int { ss[i].range.end.raw as int }
pub open spec fn kd(ss: Seq<LuaScope>, i: int) -> LuaScopeKind { ss[i].kind }
/// index of the parent scope, -1 if there is none
pub open spec fn par(ss: Seq<LuaScope>, i: int) -> int { match ss[i].parent { Some(p) => p.id as int, None => -1 } }

pub open spec fn is_scope_child(ss: Seq<LuaScope>, i: int, k: int, c: int) -> bool {
    0 <= k < kids(ss, i).len() && (kids(ss, i)[k] matches ScopeOrDeclId::Scope(sid) && sid.id as int == c)
}
pub open spec fn is_decl_child(ss: Seq<LuaScope>, i: int, k: int, d: LuaDeclId) -> bool {
    0 <= k < kids(ss, i).len() && kids(ss, i)[k] == ScopeOrDeclId::Decl(d)
}
pub open spec fn is_decl(x: ScopeOrDeclId) -> bool { x is Decl }
pub open spec fn stmt_kind(k: LuaScopeKind) -> bool {
    k == LuaScopeKind::LocalOrAssignStat || k == LuaScopeKind::FuncStat || k == LuaScopeKind::MethodStat
}
pub open spec fn func_kind(k: LuaScopeKind) -> bool { k == LuaScopeKind::FuncStat || k == LuaScopeKind::MethodStat }
/// a block: kind Normal, or (body_kind(): the builder marks them) the body block of a for / repeat statement, kind LoopBody (is_lbk)
pub open spec fn block_kind(k: LuaScopeKind) -> bool { k == LuaScopeKind::Normal || is_lbk(k) }
// (named so that the quantifiers of tree_wf have triggers that their own bodies do not produce)
pub open spec fn is_stmt(ss: Seq<LuaScope>, i: int) -> bool { stmt_kind(kd(ss, i)) }
pub open spec fn is_func(ss: Seq<LuaScope>, i: int) -> bool { func_kind(kd(ss, i)) }
pub open spec fn is_repeat(ss: Seq<LuaScope>, i: int) -> bool { kd(ss, i) == LuaScopeKind::Repeat }

/// create_scope: a scope's id is its index in the vector
pub open spec fn ids_are_indices(ss: Seq<LuaScope>) -> bool { forall|i: int| 0 <= i < ss.len() ==> (#[trigger] ss[i]).id.id as int == i }

// ---- links_wf: what the API of the tree itself guarantees (create_scope: id = index; add_child_scope: parent <-> child) --------------
// and what the termination / no-panic argument needs. A parent is created before its children (it is on the builder's stack).
pub open spec fn links_wf(ss: Seq<LuaScope>) -> bool {
    &&& ss.len() <= u32::MAX
    &&& forall|i: int| 0 <= i < ss.len() ==> (#[trigger] ss[i]).id.id as int == i
    &&& forall|i: int| 0 <= i < ss.len() ==> -1 <= #[trigger] par(ss, i) < i
    &&& forall|i: int, k: int| 0 <= i < ss.len() && 0 <= k < kids(ss, i).len() ==>
            (#[trigger] kids(ss, i)[k] matches ScopeOrDeclId::Scope(sid) ==> i < sid.id < ss.len() && par(ss, sid.id as int) == i)
}

// ===== functional model of the traversal (mirrors the real code statement by statement; proof artifact, not the property) ==============

/// `rposition` predicate of search_scope_children
pub open spec fn before(ss: Seq<LuaScope>, c: ScopeOrDeclId, p: int) -> bool {
    match c {
        ScopeOrDeclId::Decl(d) => (d.position.raw as int) < p,
        ScopeOrDeclId::Scope(sid) => (sid.id as int) < ss.len() && st(ss, sid.id as int) < p,
    }
}
/// rposition over ks[0..k): the greatest index j < k with before(ks[j]), -1 if none
pub open spec fn m_cut(ss: Seq<LuaScope>, ks: Seq<ScopeOrDeclId>, p: int, k: int) -> int
    decreases k
{
    if k <= 0 { -1 } else if before(ss, ks[k - 1], p) { k - 1 } else { m_cut(ss, ks, p, k - 1) }
}
/// the Decl entries of ks[k..], in order (the `for child in scope.get_children()` loops of visit_child_scope)
pub open spec fn decls_from(ks: Seq<ScopeOrDeclId>, k: int) -> Seq<ScopeOrDeclId>
    decreases ks.len() - k
{
    if k < 0 || k >= ks.len() { Seq::empty() }
    else if ks[k] is Decl { seq![ks[k]] + decls_from(ks, k + 1) }
    else { decls_from(ks, k + 1) }
}
/// the Decl entries of ks[0..k), last first (`for child in scope.get_children().iter().rev()` of the repaired visit_child_scope)
pub open spec fn decls_rev(ks: Seq<ScopeOrDeclId>, k: int) -> Seq<ScopeOrDeclId>
    decreases k
{
    if k <= 0 || k > ks.len() { Seq::empty() }
    else if ks[k - 1] is Decl { seq![ks[k - 1]] + decls_rev(ks, k - 1) }
    else { decls_rev(ks, k - 1) }
}
/// visit_child_scope (dup_fixed(): the names of one local / assignment statement are walked last first)
pub open spec fn m_expose(ss: Seq<LuaScope>, i: int) -> Seq<ScopeOrDeclId> {
    if dup_fixed() && kd(ss, i) == LuaScopeKind::LocalOrAssignStat { decls_rev(kids(ss, i), kids(ss, i).len() as int) }
    else if stmt_kind(kd(ss, i)) { decls_from(kids(ss, i), 0) } else { Seq::empty() }
}
/// one step of the reverse walk of search_scope_children
pub open spec fn m_child(ss: Seq<LuaScope>, c: ScopeOrDeclId) -> Seq<ScopeOrDeclId> {
    match c {
        ScopeOrDeclId::Decl(d) => seq![c],
        ScopeOrDeclId::Scope(sid) => if (sid.id as int) < ss.len() { m_expose(ss, sid.id as int) } else { Seq::empty() },
    }
}
/// `for i in (0..=j).rev()`: children j, j-1, .., 0
pub open spec fn m_walk(ss: Seq<LuaScope>, ks: Seq<ScopeOrDeclId>, j: int) -> Seq<ScopeOrDeclId>
    decreases j + 1
{
    if j < 0 || j >= ks.len() { Seq::empty() } else { m_child(ss, ks[j]) + m_walk(ss, ks, j - 1) }
}
/// search_scope_children
pub open spec fn m_search(ss: Seq<LuaScope>, i: int, p: int) -> Seq<ScopeOrDeclId> {
    m_walk(ss, kids(ss, i), m_cut(ss, kids(ss, i), p, kids(ss, i).len() as int))
}
/// p is inside the body block of the for scope s as the code finds it (is_in_loop_body): the last child, a scope (body_kind(): of kind
/// LoopBody - while the header is analysed, or when the body is empty, the last child is not such a block and there is no body)
pub open spec fn in_body(ss: Seq<LuaScope>, s: int, p: int) -> bool {
    kids(ss, s).len() > 0 && (kids(ss, s).last() matches ScopeOrDeclId::Scope(sid) && (sid.id as int) < ss.len()
        && (!body_kind() || is_lbk(kd(ss, sid.id as int))) && rng(ss, sid.id as int, p))
}
/// the search of a scope's own children in the non-entry visit (hdr_trav(): a ForRange scope is searched only from its body)
pub open spec fn lsearch(ss: Seq<LuaScope>, i: int, p: int) -> Seq<ScopeOrDeclId> {
    if hdr_trav() && kd(ss, i) == LuaScopeKind::ForRange && !in_body(ss, i, p) { Seq::empty() } else { m_search(ss, i, p) }
}
pub open spec fn par_ok(ss: Seq<LuaScope>, i: int) -> bool { 0 <= par(ss, i) < i }
/// the body block of a repeat scope as the code finds it: the first child, a scope (body_kind(): of kind LoopBody); -1 if there is none
pub open spec fn first_scope(ss: Seq<LuaScope>, i: int) -> int {
    if kids(ss, i).len() > 0 && (kids(ss, i)[0] matches ScopeOrDeclId::Scope(sid) && i < sid.id < ss.len()
            && (!body_kind() || is_lbk(kd(ss, sid.id as int)))) {
        (kids(ss, i)[0]->Scope_0).id as int
    } else { -1 }
}
/// the tail of visit_visible_decls: `if let Some(parent_id) = scope.get_parent() { .. visit(parent, position, false, f) }`
pub open spec fn m_up(ss: Seq<LuaScope>, i: int, p: int) -> Seq<ScopeOrDeclId>
    decreases 0int, i, 0int
    when 0 <= i < ss.len()
{
    if par_ok(ss, i) { m_visit(ss, par(ss, i), p, false) } else { Seq::empty() }
}
/// visit_visible_decls
pub open spec fn m_visit(ss: Seq<LuaScope>, i: int, p: int, entry: bool) -> Seq<ScopeOrDeclId>
    decreases (if entry { 1int } else { 0int }), (if entry { ss.len() - i } else { i }), 1int
    when 0 <= i < ss.len()
{
    if entry {
        match kd(ss, i) {
            LuaScopeKind::LocalOrAssignStat => m_up(ss, i, st(ss, i)),
            LuaScopeKind::Repeat => if first_scope(ss, i) >= 0 { m_visit(ss, first_scope(ss, i), p, true) } else { m_up(ss, i, p) },
            LuaScopeKind::ForRange => m_up(ss, i, p),
            _ => m_search(ss, i, p) + m_up(ss, i, p),
        }
    } else {
        if kd(ss, i) == LuaScopeKind::LocalOrAssignStat { m_up(ss, i, st(ss, i)) }
        else if kd(ss, i) == LuaScopeKind::Repeat {
            (if first_scope(ss, i) >= 0 { m_search(ss, first_scope(ss, i), p) } else { Seq::empty() })
                + lsearch(ss, i, p) + m_up(ss, i, p)
        }
        else { lsearch(ss, i, p) + m_up(ss, i, p) }
    }
}

// ---- visitors: the state machine a `FnMut(ScopeOrDeclId) -> bool` is ------------------------------------------------------------------
pub trait DeclVisitor: Sized {
    /// abstract state of the visitor (its captured variables)
    type S;
    /// what the visitor needs to run (e.g. hash-map key model); kept by every step
    spec fn inv(self) -> bool;
    spec fn state(self) -> Self::S;
    /// the state after the visitor was called with x
    spec fn step(s: Self::S, x: ScopeOrDeclId) -> Self::S;
    /// the value it returns on x (true = stop the traversal)
    spec fn stops(s: Self::S, x: ScopeOrDeclId) -> bool;
    fn visit(&mut self, x: ScopeOrDeclId) -> (r: bool)
        requires old(self).inv(),
        ensures final(self).inv(), final(self).state() == Self::step(old(self).state(), x), r == Self::stops(old(self).state(), x);
}
/// feed the sequence to the visitor until it says stop: (final state, stopped)
pub open spec fn run<F: DeclVisitor>(v: F::S, s: Seq<ScopeOrDeclId>) -> (F::S, bool)
    decreases s.len()
{
    if s.len() == 0 { (v, false) }
    else if F::stops(v, s[0]) { (F::step(v, s[0]), true) }
    else { run::<F>(F::step(v, s[0]), s.drop_first()) }
}
pub proof fn lemma_run_concat<F: DeclVisitor>(v: F::S, a: Seq<ScopeOrDeclId>, b: Seq<ScopeOrDeclId>)
    ensures run::<F>(v, a + b) == (if run::<F>(v, a).1 { run::<F>(v, a) } else { run::<F>(run::<F>(v, a).0, b) })
    decreases a.len()
{
    if a.len() == 0 {
        assert(a + b =~= b);
    } else {
        assert((a + b)[0] == a[0]);
        assert((a + b).drop_first() =~= a.drop_first() + b);
        if !F::stops(v, a[0]) { lemma_run_concat::<F>(F::step(v, a[0]), a.drop_first(), b); }
    }
}
pub proof fn lemma_run_one<F: DeclVisitor>(v: F::S, x: ScopeOrDeclId)
    ensures run::<F>(v, seq![x]) == (F::step(v, x), F::stops(v, x))
{
    let s = seq![x];
    assert(s[0] == x);
    if !F::stops(v, x) { assert(s.drop_first().len() == 0); assert(run::<F>(F::step(v, x), s.drop_first()) == (F::step(v, x), false)); }
}
pub proof fn lemma_run_empty<F: DeclVisitor>(v: F::S)
    ensures run::<F>(v, Seq::<ScopeOrDeclId>::empty()) == (v, false)
{}

pub proof fn lemma_child_step<F: DeclVisitor>(v: F::S, ks: Seq<ScopeOrDeclId>, k: int)
    requires 0 <= k < ks.len()
    ensures run::<F>(v, decls_from(ks, k)) == (
        if ks[k] is Decl { if F::stops(v, ks[k]) { (F::step(v, ks[k]), true) } else { run::<F>(F::step(v, ks[k]), decls_from(ks, k + 1)) } }
        else { run::<F>(v, decls_from(ks, k + 1)) })
{
    if ks[k] is Decl {
        lemma_run_concat::<F>(v, seq![ks[k]], decls_from(ks, k + 1));
        lemma_run_one::<F>(v, ks[k]);
    }
}
pub proof fn lemma_child_rev_step<F: DeclVisitor>(v: F::S, ks: Seq<ScopeOrDeclId>, k: int)
    requires 0 < k <= ks.len()
    ensures run::<F>(v, decls_rev(ks, k)) == (
        if ks[k - 1] is Decl { if F::stops(v, ks[k - 1]) { (F::step(v, ks[k - 1]), true) } else { run::<F>(F::step(v, ks[k - 1]), decls_rev(ks, k - 1)) } }
        else { run::<F>(v, decls_rev(ks, k - 1)) })
{
    if ks[k - 1] is Decl {
        lemma_run_concat::<F>(v, seq![ks[k - 1]], decls_rev(ks, k - 1));
        lemma_run_one::<F>(v, ks[k - 1]);
    }
}
pub proof fn lemma_walk_step<F: DeclVisitor>(v: F::S, ss: Seq<LuaScope>, ks: Seq<ScopeOrDeclId>, i: int)
    requires 0 <= i < ks.len()
    ensures
        run::<F>(v, m_walk(ss, ks, i)) == (if run::<F>(v, m_child(ss, ks[i])).1 { run::<F>(v, m_child(ss, ks[i])) }
                                      else { run::<F>(run::<F>(v, m_child(ss, ks[i])).0, m_walk(ss, ks, i - 1)) }),
        ks[i] is Decl ==> run::<F>(v, m_child(ss, ks[i])) == (F::step(v, ks[i]), F::stops(v, ks[i])),
        (ks[i] matches ScopeOrDeclId::Scope(sid) && sid.id >= ss.len()) ==> run::<F>(v, m_child(ss, ks[i])) == (v, false),
{
    lemma_run_concat::<F>(v, m_child(ss, ks[i]), m_walk(ss, ks, i - 1));
    if ks[i] is Decl { lemma_run_one::<F>(v, ks[i]); }
}
/// the three segments of visit_visible_decls: [repeat body] + own children + enclosing scopes
pub proof fn lemma_visit_segments<F: DeclVisitor>(v: F::S, a: Seq<ScopeOrDeclId>, b: Seq<ScopeOrDeclId>, c: Seq<ScopeOrDeclId>)
    ensures
        run::<F>(v, a + b) == (if run::<F>(v, a).1 { run::<F>(v, a) } else { run::<F>(run::<F>(v, a).0, b) }),
        run::<F>(v, a + b + c) == (if run::<F>(v, a + b).1 { run::<F>(v, a + b) } else { run::<F>(run::<F>(v, a + b).0, c) }),
        run::<F>(v, b + c) == (if run::<F>(v, b).1 { run::<F>(v, b) } else { run::<F>(run::<F>(v, b).0, c) }),
        Seq::<ScopeOrDeclId>::empty() + b + c == b + c,
        run::<F>(v, Seq::<ScopeOrDeclId>::empty()) == (v, false),
{
    lemma_run_concat::<F>(v, a, b);
    lemma_run_concat::<F>(v, a + b, c);
    lemma_run_concat::<F>(v, b, c);
    assert(Seq::<ScopeOrDeclId>::empty() + b =~= b);
}
/// one unfolding of the model of visit_visible_decls (the definitions, with the terms the solver needs spelled out)
pub proof fn lemma_visit_unfold(ss: Seq<LuaScope>, i: int, p: int, entry: bool)
    requires 0 <= i < ss.len()
    ensures
        m_up(ss, i, p) == (if par_ok(ss, i) { m_visit(ss, par(ss, i), p, false) } else { Seq::<ScopeOrDeclId>::empty() }),
        m_up(ss, i, st(ss, i)) == (if par_ok(ss, i) { m_visit(ss, par(ss, i), st(ss, i), false) } else { Seq::<ScopeOrDeclId>::empty() }),
        kd(ss, i) == LuaScopeKind::LocalOrAssignStat ==> m_visit(ss, i, p, entry) == m_up(ss, i, st(ss, i)),
        entry && kd(ss, i) == LuaScopeKind::Repeat ==> m_visit(ss, i, p, entry)
            == (if first_scope(ss, i) >= 0 { m_visit(ss, first_scope(ss, i), p, true) } else { m_up(ss, i, p) }),
        entry && kd(ss, i) == LuaScopeKind::ForRange ==> m_visit(ss, i, p, entry) == m_up(ss, i, p),
        !entry && kd(ss, i) == LuaScopeKind::Repeat ==> m_visit(ss, i, p, entry)
            == (if first_scope(ss, i) >= 0 { m_search(ss, first_scope(ss, i), p) } else { Seq::<ScopeOrDeclId>::empty() }) + lsearch(ss, i, p) + m_up(ss, i, p),
        (entry && kd(ss, i) != LuaScopeKind::LocalOrAssignStat && kd(ss, i) != LuaScopeKind::Repeat && kd(ss, i) != LuaScopeKind::ForRange)
            ==> m_visit(ss, i, p, entry) == m_search(ss, i, p) + m_up(ss, i, p),
        (!entry && kd(ss, i) != LuaScopeKind::LocalOrAssignStat && kd(ss, i) != LuaScopeKind::Repeat)
            ==> m_visit(ss, i, p, entry) == lsearch(ss, i, p) + m_up(ss, i, p),
        kd(ss, i) != LuaScopeKind::ForRange ==> lsearch(ss, i, p) == m_search(ss, i, p),
{}
/// the rposition loop found nothing
pub proof fn lemma_cut_none(ss: Seq<LuaScope>, ks: Seq<ScopeOrDeclId>, p: int, k: int)
    requires 0 <= k <= ks.len(), forall|j: int| 0 <= j < k ==> !before(ss, ks[j], p)
    ensures m_cut(ss, ks, p, k) == -1
    decreases k
{
    if k > 0 { lemma_cut_none(ss, ks, p, k - 1); }
}
/// the rposition loop found c
pub proof fn lemma_cut_some(ss: Seq<LuaScope>, ks: Seq<ScopeOrDeclId>, p: int, k: int, c: int)
    requires 0 <= c < k <= ks.len(), before(ss, ks[c], p), forall|j: int| c < j < k ==> !before(ss, ks[j], p)
    ensures m_cut(ss, ks, p, k) == c
    decreases k
{
    if k - 1 > c { lemma_cut_some(ss, ks, p, k - 1, c); }
}

pub open spec fn rng(ss: Seq<LuaScope>, i: int, p: int) -> bool { st(ss, i) <= p < en(ss, i) }
/// the position is inside scope i (`TextRange::contains`); the root scope is the scope of every position
pub open spec fn inside(ss: Seq<LuaScope>, i: int, p: int) -> bool { i == 0 || rng(ss, i, p) }
/// what find_scope returns: a scope around p none of whose child scopes is around p
pub open spec fn is_leaf(ss: Seq<LuaScope>, l: int, p: int) -> bool {
    &&& 0 <= l < ss.len()
    &&& inside(ss, l, p)
    &&& forall|k: int| 0 <= k < kids(ss, l).len() ==> (#[trigger] kids(ss, l)[k] matches ScopeOrDeclId::Scope(sid) ==> !rng(ss, sid.id as int, p))
}

// ===== tree_wf: what the builder (compilation/analyzer/decl/{mod,stats,exprs}.rs, OUTSIDE this unit) guarantees about the tree =========
// Derived from walk_node_enter / walk_node_leave / DeclAnalyzer::{create_scope, add_decl}: one scope per Chunk, Block, ClosureExpr, ForStat
// (kind Normal), ForRangeStat (ForRange), RepeatStat (Repeat), LocalStat / AssignStat (LocalOrAssignStat), FuncStat / LocalFuncStat
// (FuncStat / MethodStat); scopes and declarations are appended to the innermost open scope in pre-order (= source order); scope ranges are
// the node ranges of a rowan tree (nested, siblings disjoint); a declaration's position is the start of its name token.
pub open spec fn pos_of(d: LuaDeclId) -> int { d.position.raw as int }
/// index of the scope a `Scope(..)` child names
pub open spec fn sidx(c: ScopeOrDeclId) -> int { (c->Scope_0).id as int }
pub open spec fn cpos(ss: Seq<LuaScope>, c: ScopeOrDeclId) -> int {
    match c { ScopeOrDeclId::Decl(d) => pos_of(d), ScopeOrDeclId::Scope(s) => st(ss, s.id as int) }
}
/// a declaration (name token) occupies at least one character
pub open spec fn cend(ss: Seq<LuaScope>, c: ScopeOrDeclId) -> int {
    match c { ScopeOrDeclId::Decl(d) => pos_of(d) + 1, ScopeOrDeclId::Scope(s) => en(ss, s.id as int) }
}
/// every scope but the root is listed among the children of its parent
pub open spec fn wf_listed(ss: Seq<LuaScope>) -> bool {
    forall|i: int| 0 < i < ss.len() ==> 0 <= #[trigger] par(ss, i) && exists|k: int| is_scope_child(ss, par(ss, i), k, i)
}
/// ranges are ranges; a child scope's range lies inside its parent's; two child scopes of one scope do not overlap (rowan nodes)
pub open spec fn wf_ranges(ss: Seq<LuaScope>) -> bool {
    &&& forall|i: int| 0 <= i < ss.len() ==> #[trigger] st(ss, i) <= en(ss, i)
    &&& forall|i: int, k: int| 0 <= i < ss.len() && 0 <= k < kids(ss, i).len() ==>
            (#[trigger] kids(ss, i)[k] matches ScopeOrDeclId::Scope(sid) ==> st(ss, i) <= st(ss, sid.id as int) && en(ss, sid.id as int) <= en(ss, i))
    &&& forall|i: int, k1: int, k2: int| 0 <= i < ss.len() && 0 <= k1 < kids(ss, i).len() && 0 <= k2 < kids(ss, i).len() && k1 != k2 ==>
            ((#[trigger] kids(ss, i)[k1] is Scope && #[trigger] kids(ss, i)[k2] is Scope)
                ==> en(ss, sidx(kids(ss, i)[k1])) <= st(ss, sidx(kids(ss, i)[k2])) || en(ss, sidx(kids(ss, i)[k2])) <= st(ss, sidx(kids(ss, i)[k1])))
}
/// children are in source order: each one ends before the next one starts. NOT required of a LocalOrAssignStat scope (never searched; in
/// `f(function() end).x, y = 1, 2` the declaration of `y` is added before the closure scope that precedes it in the text)
pub open spec fn wf_order(ss: Seq<LuaScope>) -> bool {
    forall|i: int, a: int, b: int| 0 <= i < ss.len() && kd(ss, i) != LuaScopeKind::LocalOrAssignStat && 0 <= a < b < kids(ss, i).len() ==>
        cend(ss, #[trigger] kids(ss, i)[a]) <= cpos(ss, #[trigger] kids(ss, i)[b])
}
/// a Repeat scope holds no declarations; its body block, if the code finds one (first_scope), is a block and holds no declarations directly.
/// !body_kind() (the builder does not mark body blocks): ASSUMED that there always is one, i.e. that the first child scope is the body -
/// false for an empty body, for which the parser creates no Block node (replay/c13 finding L2)
pub open spec fn wf_repeat(ss: Seq<LuaScope>) -> bool {
    forall|i: int| 0 <= i < ss.len() && #[trigger] is_repeat(ss, i) ==> {
        &&& body_kind() || first_scope(ss, i) >= 0
        &&& first_scope(ss, i) >= 0 ==> block_kind(kd(ss, first_scope(ss, i)))
        &&& forall|k: int| 0 <= k < kids(ss, i).len() ==> #[trigger] kids(ss, i)[k] is Scope
        &&& first_scope(ss, i) >= 0 ==> forall|k: int| 0 <= k < kids(ss, first_scope(ss, i)).len() ==> #[trigger] kids(ss, first_scope(ss, i))[k] is Scope
    }
}
pub open spec fn is_lb(ss: Seq<LuaScope>, i: int) -> bool { is_lbk(kd(ss, i)) }
/// body_kind(): what the builder guarantees about a scope of kind LoopBody (walk_node_enter: a Block whose parent node is a for / repeat
/// statement): it is a child of a ForRange or Repeat scope; the body of a repeat statement precedes the condition (first child), the body of a
/// for statement follows the header (last child)
pub open spec fn wf_body(ss: Seq<LuaScope>) -> bool {
    forall|c: int| 0 <= c < ss.len() && #[trigger] is_lb(ss, c) ==> {
        &&& c > 0 && 0 <= par(ss, c) < c
        &&& kd(ss, par(ss, c)) == LuaScopeKind::Repeat || kd(ss, par(ss, c)) == LuaScopeKind::ForRange
        &&& kd(ss, par(ss, c)) == LuaScopeKind::Repeat ==> first_scope(ss, par(ss, c)) == c
        &&& kd(ss, par(ss, c)) == LuaScopeKind::ForRange ==> kids(ss, par(ss, c)).len() > 0 && kids(ss, par(ss, c)).last() is Scope && sidx(kids(ss, par(ss, c)).last()) == c
    }
}
/// statement scopes (`local`/assignment, function statements): not empty, a direct child of a block (block_kind), their declarations are
/// name tokens inside the statement
pub open spec fn wf_stmt(ss: Seq<LuaScope>) -> bool {
    forall|i: int| 0 <= i < ss.len() && #[trigger] is_stmt(ss, i) ==> {
        &&& st(ss, i) < en(ss, i)
        &&& i > 0 && 0 <= par(ss, i) && block_kind(kd(ss, par(ss, i)))
        &&& forall|k: int| 0 <= k < kids(ss, i).len() ==> (#[trigger] kids(ss, i)[k] matches ScopeOrDeclId::Decl(d) ==> st(ss, i) <= pos_of(d) < en(ss, i))
    }
}
/// a function statement declares at most one name, in front of its closure, and starts (keyword `function` / `local`) before the closure
pub open spec fn wf_func(ss: Seq<LuaScope>) -> bool {
    forall|i: int| 0 <= i < ss.len() && #[trigger] is_func(ss, i) ==> {
        &&& forall|k: int| 0 <= k < kids(ss, i).len() ==> (#[trigger] kids(ss, i)[k] matches ScopeOrDeclId::Scope(sid) ==> st(ss, i) < st(ss, sid.id as int))
        &&& forall|a: int, b: int| 0 <= a < kids(ss, i).len() && 0 <= b < kids(ss, i).len()
                && #[trigger] kids(ss, i)[a] is Decl && #[trigger] kids(ss, i)[b] is Decl ==> a == b
        // the name comes before the closure
        &&& forall|a: int, b: int| 0 <= a < kids(ss, i).len() && 0 <= b < kids(ss, i).len()
                && #[trigger] kids(ss, i)[a] is Decl && #[trigger] kids(ss, i)[b] is Scope ==> a < b
    }
}
/// the names of one `local` / assignment statement are listed in source order
pub open spec fn wf_local(ss: Seq<LuaScope>) -> bool {
    forall|i: int, a: int, b: int| 0 <= i < ss.len() && kd(ss, i) == LuaScopeKind::LocalOrAssignStat && 0 <= a < b < kids(ss, i).len() ==>
        ((#[trigger] kids(ss, i)[a] is Decl && #[trigger] kids(ss, i)[b] is Decl) ==> cpos(ss, kids(ss, i)[a]) < cpos(ss, kids(ss, i)[b]))
}
/// where the text of child b of scope i may begin: after the previous child (ordered scopes), inside the parent
pub open spec fn beta(ss: Seq<LuaScope>, i: int, b: int) -> int {
    if kd(ss, i) == LuaScopeKind::LocalOrAssignStat || b <= 0 { st(ss, i) }
    else if st(ss, i) >= cend(ss, kids(ss, i)[b - 1]) { st(ss, i) } else { cend(ss, kids(ss, i)[b - 1]) }
}
/// the declarations held by a scope lie after the scope's previous sibling and inside its parent. (They need not lie inside the scope's own
/// range: the implicit `self` of `function a:b() end` is positioned at the colon, in front of the closure scope that holds it.)
pub open spec fn wf_declpos(ss: Seq<LuaScope>) -> bool {
    forall|i: int, b: int, k: int| #![trigger kids(ss, sidx(kids(ss, i)[b]))[k]]
        0 <= i < ss.len() && 0 <= b < kids(ss, i).len() && kids(ss, i)[b] is Scope
            && 0 <= k < kids(ss, sidx(kids(ss, i)[b])).len() && kids(ss, sidx(kids(ss, i)[b]))[k] is Decl
        ==> beta(ss, i, b) <= cpos(ss, kids(ss, sidx(kids(ss, i)[b]))[k])
}
#[verifier::opaque]
pub open spec fn tree_wf(ss: Seq<LuaScope>) -> bool {
    &&& ss.len() > 0
    &&& links_wf(ss)
    &&& wf_listed(ss)
    &&& wf_ranges(ss)
    &&& wf_order(ss)
    &&& wf_repeat(ss)
    &&& wf_body(ss)
    &&& wf_stmt(ss)
    &&& wf_func(ss)
    &&& wf_local(ss)
    &&& wf_declpos(ss)
}

// ===== the specification of C13: which declaration is visible where ======================================================================
pub open spec fn in_some_child(ss: Seq<LuaScope>, s: int, p: int) -> bool {
    exists|k: int| 0 <= k < kids(ss, s).len() && (#[trigger] kids(ss, s)[k] matches ScopeOrDeclId::Scope(sid) && rng(ss, sid.id as int, p))
}
/// p is inside block b, or b is the body of a repeat statement and p is inside that statement (v: the `until` condition sees the body's names)
pub open spec fn ext_inside(ss: Seq<LuaScope>, b: int, p: int) -> bool {
    inside(ss, b, p) || (b > 0 && 0 <= par(ss, b) && kd(ss, par(ss, b)) == LuaScopeKind::Repeat && first_scope(ss, par(ss, b)) == b && inside(ss, par(ss, b), p))
}
/// the declaration d held by scope s is in scope at position p.
/// lua = true : Lua's rule (the property). lua = false: what the real code implements; the two differ only for scopes of kind Normal / ForRange
/// that hold declarations (numeric-for variable, generic-for variables, parameters, implicit self) at positions outside the scope's body.
pub open spec fn region(ss: Seq<LuaScope>, s: int, d: LuaDeclId, p: int, lua: bool) -> bool {
    match kd(ss, s) {
        // (iv) loop variables, parameters, implicit self: visible in the body only, not in the header expressions (last arm: blocks)
        // (a Normal scope that holds declarations is a closure or - today's builder, !enc_for() - a numeric for; once the builder gives the
        // numeric for the kind ForRange, enc_for(), only closures are left: parameters are visible in the whole function behind their name,
        // the parameter list holds no expressions)
        LuaScopeKind::ForRange => (if lua || hdr_trav() { in_body(ss, s, p) } else { in_some_child(ss, s, p) }) && pos_of(d) < p,
        LuaScopeKind::Repeat => false,
        // (ii) `local x = x`: the names of a local / assignment statement are visible after the statement (to the end of the enclosing block,
        // (v) and in the `until` condition if that block is a repeat body), not inside the statement itself
        LuaScopeKind::LocalOrAssignStat => s > 0 && 0 <= par(ss, s) && ext_inside(ss, par(ss, s), p) && en(ss, s) <= p,
        // (iii) a function statement's name is visible from the statement on: inside its own body and after it
        LuaScopeKind::FuncStat | LuaScopeKind::MethodStat => s > 0 && 0 <= par(ss, s) && ext_inside(ss, par(ss, s), p) && st(ss, s) < p,
        // blocks (kind Normal / LoopBody): see the comment at the top
        _ => (if lua && !enc_for() { in_body(ss, s, p) } else { inside(ss, s, p) }) && pos_of(d) < p,
    }
}
pub open spec fn visible(ss: Seq<LuaScope>, d: LuaDeclId, p: int, lua: bool) -> bool {
    exists|s: int, k: int| 0 <= s < ss.len() && is_decl_child(ss, s, k, d) && region(ss, s, d, p, lua)
}
/// positions where the code's notion and Lua's differ: inside a declaration-holding Normal / ForRange scope but outside its body
/// (header expressions of a numeric / generic for, closures inside them; parameter lists, where no name can be used)
pub open spec fn in_header(ss: Seq<LuaScope>, p: int) -> bool {
    exists|s: int, k: int| 0 <= s < ss.len() && 0 <= k < kids(ss, s).len() && #[trigger] kids(ss, s)[k] is Decl
        && ((kd(ss, s) == LuaScopeKind::Normal && !enc_for()) || (kd(ss, s) == LuaScopeKind::ForRange && !hdr_trav())) && inside(ss, s, p) && !in_body(ss, s, p)
}
