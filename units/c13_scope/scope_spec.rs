// ===== unit c13_scope: specification ====================================================================================================
// `ss` is the scope vector of a LuaDeclarationTree (`self.scopes@`); scopes are addressed by their index (= LuaScopeId.id, links_wf).

pub open spec fn kids(ss: Seq<LuaScope>, i: int) -> Seq<ScopeOrDeclId> { ss[i].children@ }
pub open spec fn st(ss: Seq<LuaScope>, i: int) -> int { ss[i].range.start.raw as int }
pub open spec fn en(ss: Seq<LuaScope>, i: int) -> int { ss[i].range.end.raw as int }
pub open spec fn kd(ss: Seq<LuaScope>, i: int) -> LuaScopeKind { ss[i].kind }
/// index of the parent scope, -1 if there is none
pub open spec fn par(ss: Seq<LuaScope>, i: int) -> int { match ss[i].parent { Some(p) => p.id as int, None => -1 } }

pub open spec fn is_scope_child(ss: Seq<LuaScope>, i: int, k: int, c: int) -> bool {
    0 <= k < kids(ss, i).len() && (kids(ss, i)[k] matches ScopeOrDeclId::Scope(sid) && sid.id as int == c)
}
pub open spec fn is_decl_child(ss: Seq<LuaScope>, i: int, k: int, d: LuaDeclId) -> bool {
    0 <= k < kids(ss, i).len() && kids(ss, i)[k] == ScopeOrDeclId::Decl(d)
}
pub open spec fn is_decl(x: ScopeOrDeclId) -> bool { x is Decl }
pub open spec fn stmt_kind(k: LuaScopeKind) -> bool {
    k == LuaScopeKind::LocalOrAssignStat || k == LuaScopeKind::FuncStat || k == LuaScopeKind::MethodStat
}
pub open spec fn func_kind(k: LuaScopeKind) -> bool { k == LuaScopeKind::FuncStat || k == LuaScopeKind::MethodStat }

// ---- links_wf: what the API of the tree itself guarantees (create_scope: id = index; add_child_scope: parent <-> child) --------------
// and what the termination / no-panic argument needs. A parent is created before its children (it is on the builder's stack).
pub open spec fn links_wf(ss: Seq<LuaScope>) -> bool {
    &&& ss.len() <= u32::MAX
    &&& forall|i: int| 0 <= i < ss.len() ==> (#[trigger] ss[i]).id.id as int == i
    &&& forall|i: int| 0 <= i < ss.len() ==> -1 <= #[trigger] par(ss, i) < i
    &&& forall|i: int, k: int| 0 <= i < ss.len() && 0 <= k < kids(ss, i).len() ==>
            (#[trigger] kids(ss, i)[k] matches ScopeOrDeclId::Scope(sid) ==> i < sid.id < ss.len() && par(ss, sid.id as int) == i)
}

// ===== functional model of the traversal (mirrors the real code statement by statement; proof artifact, not the property) ==============

/// `rposition` predicate of search_scope_children
pub open spec fn before(ss: Seq<LuaScope>, c: ScopeOrDeclId, p: int) -> bool {
    match c {
        ScopeOrDeclId::Decl(d) => (d.position.raw as int) < p,
        ScopeOrDeclId::Scope(sid) => (sid.id as int) < ss.len() && st(ss, sid.id as int) < p,
    }
}
/// rposition over ks[0..k): the greatest index j < k with before(ks[j]), -1 if none
pub open spec fn m_cut(ss: Seq<LuaScope>, ks: Seq<ScopeOrDeclId>, p: int, k: int) -> int
    decreases k
{
    if k <= 0 { -1 } else if before(ss, ks[k - 1], p) { k - 1 } else { m_cut(ss, ks, p, k - 1) }
}
/// the Decl entries of ks[k..], in order (the `for child in scope.get_children()` loops of visit_child_scope)
pub open spec fn decls_from(ks: Seq<ScopeOrDeclId>, k: int) -> Seq<ScopeOrDeclId>
    decreases ks.len() - k
{
    if k < 0 || k >= ks.len() { Seq::empty() }
    else if ks[k] is Decl { seq![ks[k]] + decls_from(ks, k + 1) }
    else { decls_from(ks, k + 1) }
}
/// visit_child_scope
pub open spec fn m_expose(ss: Seq<LuaScope>, i: int) -> Seq<ScopeOrDeclId> {
    if stmt_kind(kd(ss, i)) { decls_from(kids(ss, i), 0) } else { Seq::empty() }
}
/// one step of the reverse walk of search_scope_children
pub open spec fn m_child(ss: Seq<LuaScope>, c: ScopeOrDeclId) -> Seq<ScopeOrDeclId> {
    match c {
        ScopeOrDeclId::Decl(d) => seq![c],
        ScopeOrDeclId::Scope(sid) => if (sid.id as int) < ss.len() { m_expose(ss, sid.id as int) } else { Seq::empty() },
    }
}
/// `for i in (0..=j).rev()`: children j, j-1, .., 0
pub open spec fn m_walk(ss: Seq<LuaScope>, ks: Seq<ScopeOrDeclId>, j: int) -> Seq<ScopeOrDeclId>
    decreases j + 1
{
    if j < 0 || j >= ks.len() { Seq::empty() } else { m_child(ss, ks[j]) + m_walk(ss, ks, j - 1) }
}
/// search_scope_children
pub open spec fn m_search(ss: Seq<LuaScope>, i: int, p: int) -> Seq<ScopeOrDeclId> {
    m_walk(ss, kids(ss, i), m_cut(ss, kids(ss, i), p, kids(ss, i).len() as int))
}
pub open spec fn par_ok(ss: Seq<LuaScope>, i: int) -> bool { 0 <= par(ss, i) < i }
/// first child of a scope, as a scope index (-1: no children / first child is a declaration / id out of range)
pub open spec fn first_scope(ss: Seq<LuaScope>, i: int) -> int {
    if kids(ss, i).len() > 0 && (kids(ss, i)[0] matches ScopeOrDeclId::Scope(sid) && i < sid.id < ss.len()) {
        (kids(ss, i)[0]->Scope_0).id as int
    } else { -1 }
}
/// the tail of visit_visible_decls: `if let Some(parent_id) = scope.get_parent() { .. visit(parent, position, false, f) }`
pub open spec fn m_up(ss: Seq<LuaScope>, i: int, p: int) -> Seq<ScopeOrDeclId>
    decreases 0int, i, 0int
    when 0 <= i < ss.len()
{
    if par_ok(ss, i) { m_visit(ss, par(ss, i), p, false) } else { Seq::empty() }
}
/// visit_visible_decls
pub open spec fn m_visit(ss: Seq<LuaScope>, i: int, p: int, entry: bool) -> Seq<ScopeOrDeclId>
    decreases (if entry { 1int } else { 0int }), (if entry { ss.len() - i } else { i }), 1int
    when 0 <= i < ss.len()
{
    if entry {
        match kd(ss, i) {
            LuaScopeKind::LocalOrAssignStat => m_up(ss, i, st(ss, i)),
            LuaScopeKind::Repeat => if first_scope(ss, i) >= 0 { m_visit(ss, first_scope(ss, i), p, true) } else { m_up(ss, i, p) },
            LuaScopeKind::ForRange => m_up(ss, i, p),
            _ => m_search(ss, i, p) + m_up(ss, i, p),
        }
    } else {
        if kd(ss, i) == LuaScopeKind::LocalOrAssignStat { m_up(ss, i, st(ss, i)) }
        else if kd(ss, i) == LuaScopeKind::Repeat {
            (if first_scope(ss, i) >= 0 { m_search(ss, first_scope(ss, i), p) } else { Seq::empty() })
                + m_search(ss, i, p) + m_up(ss, i, p)
        }
        else { m_search(ss, i, p) + m_up(ss, i, p) }
    }
}

// ---- visitors: the state machine a `FnMut(ScopeOrDeclId) -> bool` is ------------------------------------------------------------------
pub trait DeclVisitor: Sized {
    /// what the visitor needs to run (e.g. hash-map key model); kept by every step
    spec fn inv(self) -> bool;
    /// the visitor's state after it was called with x
    spec fn step(self, x: ScopeOrDeclId) -> Self;
    /// the value it returns on x (true = stop the traversal)
    spec fn stops(self, x: ScopeOrDeclId) -> bool;
    fn visit(&mut self, x: ScopeOrDeclId) -> (r: bool)
        requires old(self).inv(),
        ensures final(self).inv(), *final(self) == old(self).step(x), r == old(self).stops(x);
}
/// feed the sequence to the visitor until it says stop: (final state, stopped)
pub open spec fn run<F: DeclVisitor>(v: F, s: Seq<ScopeOrDeclId>) -> (F, bool)
    decreases s.len()
{
    if s.len() == 0 { (v, false) }
    else if v.stops(s[0]) { (v.step(s[0]), true) }
    else { run(v.step(s[0]), s.drop_first()) }
}
pub proof fn lemma_run_concat<F: DeclVisitor>(v: F, a: Seq<ScopeOrDeclId>, b: Seq<ScopeOrDeclId>)
    ensures run(v, a + b) == (if run(v, a).1 { run(v, a) } else { run(run(v, a).0, b) })
    decreases a.len()
{
    if a.len() == 0 {
        assert(a + b =~= b);
    } else {
        assert((a + b)[0] == a[0]);
        assert((a + b).drop_first() =~= a.drop_first() + b);
        if !v.stops(a[0]) { lemma_run_concat(v.step(a[0]), a.drop_first(), b); }
    }
}
pub proof fn lemma_run_one<F: DeclVisitor>(v: F, x: ScopeOrDeclId)
    ensures run(v, seq![x]) == (v.step(x), v.stops(x))
{
    let s = seq![x];
    assert(s[0] == x);
    if !v.stops(x) { assert(s.drop_first().len() == 0); assert(run(v.step(x), s.drop_first()) == (v.step(x), false)); }
}
pub proof fn lemma_run_empty<F: DeclVisitor>(v: F)
    ensures run(v, Seq::<ScopeOrDeclId>::empty()) == (v, false)
{}
