// ===== unit c13_scope: verified witnesses on concrete trees ===============================================================================
// (1) tree_wf is satisfiable (the lemmas are not vacuous); (2) the finding C13.lookup.loop-variable-not-visible-in-loop-header is REAL:
// on the tree the builder produces for
//        local n = 10
//        for n = 1, n do f() end
// (offsets: `local n = 10` = [0,12), n at 6; `for n = 1, n do f() end` = [13,36), loop variable n at 17, the `n` of the limit at 24, body
// block [29,33); the body is not empty: for an empty body the parser creates no Block node), the real find_local_decl("n", 24) returns the LOOP VARIABLE (declared at 17), while Lua's scoping selects `local n` (at 6):
// proved from the function's own verified contract (C13.lookup.code-reading.*).
pub fn w_sid(i: u32) -> (r: LuaScopeId) ensures r.id == i, r.file_id.id == 0 { LuaScopeId { file_id: FileId { id: 0 }, id: i } }
pub fn w_did(p: u32) -> (r: LuaDeclId) ensures r.position.raw == p, r.file_id.id == 0 { LuaDeclId { file_id: FileId { id: 0 }, position: TextSize::new(p) } }
pub fn w_scope(parent: Option<LuaScopeId>, children: Vec<ScopeOrDeclId>, s: u32, e: u32, kind: LuaScopeKind, id: u32) -> (r: LuaScope)
    requires s <= e
    ensures r.parent == parent, r.children == children, r.range.start.raw == s, r.range.end.raw == e, r.kind == kind, r.id.id == id
{
    LuaScope { parent, children, range: TextRange::new(TextSize::new(s), TextSize::new(e)), kind, id: w_sid(id) }
}
/// the scope tree of the program above
pub open spec fn w_tree(ss: Seq<LuaScope>) -> bool {
    &&& ss.len() == 5
    &&& forall|i: int| 0 <= i < 5 ==> (#[trigger] ss[i]).id.id as int == i
    &&& ss[0].parent is None && par(ss, 1) == 0 && par(ss, 2) == 1 && par(ss, 3) == 1 && par(ss, 4) == 3
    &&& kd(ss, 0) == LuaScopeKind::Normal && kd(ss, 1) == LuaScopeKind::Normal && kd(ss, 2) == LuaScopeKind::LocalOrAssignStat
    &&& kd(ss, 3) == W_FOR_KIND && kd(ss, 4) == W_BODY_KIND
    &&& st(ss, 0) == 0 && en(ss, 0) == 36 && st(ss, 1) == 0 && en(ss, 1) == 36 && st(ss, 2) == 0 && en(ss, 2) == 12
    &&& st(ss, 3) == 13 && en(ss, 3) == 36 && st(ss, 4) == 29 && en(ss, 4) == 33
    &&& kids(ss, 0).len() == 1 && kids(ss, 0)[0] is Scope && sidx(kids(ss, 0)[0]) == 1
    &&& kids(ss, 1).len() == 2 && kids(ss, 1)[0] is Scope && sidx(kids(ss, 1)[0]) == 2 && kids(ss, 1)[1] is Scope && sidx(kids(ss, 1)[1]) == 3
    &&& kids(ss, 2).len() == 1 && kids(ss, 2)[0] is Decl && cpos(ss, kids(ss, 2)[0]) == 6
    &&& kids(ss, 3).len() == 2 && kids(ss, 3)[0] is Decl && cpos(ss, kids(ss, 3)[0]) == 17 && kids(ss, 3)[1] is Scope && sidx(kids(ss, 3)[1]) == 4
    &&& kids(ss, 4).len() == 0
}
#[verifier::spinoff_prover]
pub proof fn lemma_w_wf_ranges(ss: Seq<LuaScope>)
    requires w_tree(ss)
    ensures wf_ranges(ss)
{}
#[verifier::spinoff_prover]
pub proof fn lemma_w_wf_order(ss: Seq<LuaScope>)
    requires w_tree(ss)
    ensures wf_order(ss)
{}
#[verifier::spinoff_prover]
pub proof fn lemma_w_wf_repeat(ss: Seq<LuaScope>)
    requires w_tree(ss)
    ensures wf_repeat(ss)
{}
#[verifier::spinoff_prover]
pub proof fn lemma_w_wf_stmt(ss: Seq<LuaScope>)
    requires w_tree(ss)
    ensures wf_stmt(ss)
{}
#[verifier::spinoff_prover]
pub proof fn lemma_w_wf_func(ss: Seq<LuaScope>)
    requires w_tree(ss)
    ensures wf_func(ss)
{}
#[verifier::spinoff_prover]
pub proof fn lemma_w_wf_local(ss: Seq<LuaScope>)
    requires w_tree(ss)
    ensures wf_local(ss)
{}
#[verifier::spinoff_prover]
pub proof fn lemma_w_wf_declpos(ss: Seq<LuaScope>)
    requires w_tree(ss)
    ensures wf_declpos(ss)
{}
#[verifier::spinoff_prover]
pub proof fn lemma_w_wf_body(ss: Seq<LuaScope>)
    requires w_tree(ss)
    ensures wf_body(ss)
{}
#[verifier::spinoff_prover]
pub proof fn lemma_w_links(ss: Seq<LuaScope>)
    requires w_tree(ss)
    ensures links_wf(ss), wf_listed(ss)
{
    assert forall|i: int, k: int| 0 <= i < ss.len() && 0 <= k < kids(ss, i).len() implies
        (#[trigger] kids(ss, i)[k] matches ScopeOrDeclId::Scope(sid) ==> i < sid.id < ss.len() && par(ss, sid.id as int) == i) by {
        if i == 0 {} else if i == 1 { if k == 0 {} else {} } else if i == 2 {} else if i == 3 { if k == 0 {} else {} } else {}
    }
    assert(is_scope_child(ss, 0, 0, 1)); assert(is_scope_child(ss, 1, 0, 2)); assert(is_scope_child(ss, 1, 1, 3)); assert(is_scope_child(ss, 3, 1, 4));
}
pub proof fn lemma_w_tree_wf(ss: Seq<LuaScope>)
    requires w_tree(ss)
    ensures tree_wf(ss)
{
    reveal(tree_wf);
    lemma_w_links(ss);
    lemma_w_wf_ranges(ss);
    lemma_w_wf_order(ss);
    lemma_w_wf_repeat(ss);
    lemma_w_wf_stmt(ss);
    lemma_w_wf_func(ss);
    lemma_w_wf_local(ss);
    lemma_w_wf_declpos(ss);
    lemma_w_wf_body(ss);
}

/// verified test: builds the tree above, runs the REAL find_local_decl("n", 24) and concludes from its contract that it returns the loop
/// variable (position 17), although Lua's scoping makes only `local n` (position 6) visible at 24
pub fn witness_numeric_for_header(d6: LuaDecl, d17: LuaDecl)
    requires keys_ok(), dname(&d6) == "n"@, dname(&d17) == "n"@
{
    let f = FileId { id: 0 };
    let id6 = w_did(6);
    let id17 = w_did(17);
    let mut c0 = Vec::new(); c0.push(ScopeOrDeclId::Scope(w_sid(1)));
    let mut c1 = Vec::new(); c1.push(ScopeOrDeclId::Scope(w_sid(2))); c1.push(ScopeOrDeclId::Scope(w_sid(3)));
    let mut c2 = Vec::new(); c2.push(ScopeOrDeclId::Decl(id6));
    let mut c3 = Vec::new(); c3.push(ScopeOrDeclId::Decl(id17)); c3.push(ScopeOrDeclId::Scope(w_sid(4)));
    let c4: Vec<ScopeOrDeclId> = Vec::new();
    let mut scopes: Vec<LuaScope> = Vec::new();
    scopes.push(w_scope(None, c0, 0, 36, LuaScopeKind::Normal, 0));
    scopes.push(w_scope(Some(w_sid(0)), c1, 0, 36, LuaScopeKind::Normal, 1));
    scopes.push(w_scope(Some(w_sid(1)), c2, 0, 12, LuaScopeKind::LocalOrAssignStat, 2));
    scopes.push(w_scope(Some(w_sid(1)), c3, 13, 36, W_FOR_KIND, 3));
    scopes.push(w_scope(Some(w_sid(3)), c4, 29, 33, W_BODY_KIND, 4));
    let mut decls: HashMap<LuaDeclId, LuaDecl> = HashMap::new();
    decls.insert(id6, d6);
    decls.insert(id17, d17);
    let tree = LuaDeclarationTree { file_id: f, decls, scopes };
    let ghost ss = tree.scopes@;
    proof {
        assert(w_tree(ss));
        lemma_w_tree_wf(ss);
        wf_basic(ss);
    }
    let r = tree.find_local_decl("n", TextSize::new(24));
    proof {
        reveal_strlit("n");
        // the loop variable is visible at 24 in the code's reading, not in Lua's; `local n` is visible in both
        assert(is_decl_child(ss, 3, 0, id17));
        assert(is_decl_child(ss, 2, 0, id6));
        if !hdr_trav() && !enc_for() {
            assert(region(ss, 3, id17, 24, false));
            assert(visible(ss, id17, 24, false));
        }
        assert(ext_inside(ss, 1, 24));
        assert(region(ss, 2, id6, 24, true));
        assert(visible(ss, id6, 24, true));
        assert(!visible(ss, id17, 24, true)) by {
            if visible(ss, id17, 24, true) {
                let (s, k) = choose|s: int, k: int| 0 <= s < ss.len() && is_decl_child(ss, s, k, id17) && region(ss, s, id17, 24, true);
                if s == 0 {} else if s == 1 {} else if s == 2 {} else if s == 3 { assert(!in_body(ss, 3, 24)); } else {}
                assert(false);
            }
        }
        assert(no_dup_named(&tree, "n"@)) by {
            assert forall|s: int, k1: int, k2: int, e1: LuaDeclId, e2: LuaDeclId| 0 <= s < ss.len() && kd(ss, s) == LuaScopeKind::LocalOrAssignStat
                && #[trigger] is_decl_child(ss, s, k1, e1) && #[trigger] is_decl_child(ss, s, k2, e2) && e1 != e2 implies false by {}
        }
        if !hdr_trav() && !enc_for() {
            // today's code. Contract of the real function: Some (a declaration named n is reachable), the one with the largest position
            assert(r is Some);
            assert(r == Some(&tree.decls@[id17]));     // FINDING: Lua selects id6
        }
        if hdr_trav() && enc_for() {
            // repaired code (the builder gives the numeric for the kind ForRange): the outer local, as in Lua
            assert(r is Some);
            assert(r == Some(&tree.decls@[id6]));
        }
    }
}

// (3) the finding C13.lookup.duplicate-names-later-wins is REAL: on the tree the builder produces for
//        local a, a = 1, 2
//        print(a)
// (`local a, a = 1, 2` = [0,17), the names at 6 and 9; `print(a)` = [18,26), the use of `a` at 24), the real find_local_decl("a", 24) returns the FIRST name (6);
// Lua binds `a` to the second one (9): both are visible, the later declaration shadows the earlier. Proved from C13.lookup.model.
pub open spec fn w2_tree(ss: Seq<LuaScope>) -> bool {
    &&& ss.len() == 3
    &&& forall|i: int| 0 <= i < 3 ==> (#[trigger] ss[i]).id.id as int == i
    &&& ss[0].parent is None && par(ss, 1) == 0 && par(ss, 2) == 1
    &&& kd(ss, 0) == LuaScopeKind::Normal && kd(ss, 1) == LuaScopeKind::Normal && kd(ss, 2) == LuaScopeKind::LocalOrAssignStat
    &&& st(ss, 0) == 0 && en(ss, 0) == 26 && st(ss, 1) == 0 && en(ss, 1) == 26 && st(ss, 2) == 0 && en(ss, 2) == 17
    &&& kids(ss, 0).len() == 1 && kids(ss, 0)[0] is Scope && sidx(kids(ss, 0)[0]) == 1
    &&& kids(ss, 1).len() == 1 && kids(ss, 1)[0] is Scope && sidx(kids(ss, 1)[0]) == 2
    &&& kids(ss, 2).len() == 2 && kids(ss, 2)[0] is Decl && cpos(ss, kids(ss, 2)[0]) == 6 && kids(ss, 2)[1] is Decl && cpos(ss, kids(ss, 2)[1]) == 9
}
#[verifier::spinoff_prover]
pub proof fn lemma_w2_wf_ranges(ss: Seq<LuaScope>)
    requires w2_tree(ss)
    ensures wf_ranges(ss)
{}
#[verifier::spinoff_prover]
pub proof fn lemma_w2_wf_order(ss: Seq<LuaScope>)
    requires w2_tree(ss)
    ensures wf_order(ss)
{}
#[verifier::spinoff_prover]
pub proof fn lemma_w2_wf_repeat(ss: Seq<LuaScope>)
    requires w2_tree(ss)
    ensures wf_repeat(ss)
{}
#[verifier::spinoff_prover]
pub proof fn lemma_w2_wf_stmt(ss: Seq<LuaScope>)
    requires w2_tree(ss)
    ensures wf_stmt(ss)
{}
#[verifier::spinoff_prover]
pub proof fn lemma_w2_wf_func(ss: Seq<LuaScope>)
    requires w2_tree(ss)
    ensures wf_func(ss)
{}
#[verifier::spinoff_prover]
pub proof fn lemma_w2_wf_local(ss: Seq<LuaScope>)
    requires w2_tree(ss)
    ensures wf_local(ss)
{}
#[verifier::spinoff_prover]
pub proof fn lemma_w2_wf_declpos(ss: Seq<LuaScope>)
    requires w2_tree(ss)
    ensures wf_declpos(ss)
{}
#[verifier::spinoff_prover]
pub proof fn lemma_w2_wf_body(ss: Seq<LuaScope>)
    requires w2_tree(ss)
    ensures wf_body(ss)
{}
#[verifier::spinoff_prover]
pub proof fn lemma_w2_links(ss: Seq<LuaScope>)
    requires w2_tree(ss)
    ensures links_wf(ss), wf_listed(ss)
{
    assert forall|i: int, k: int| 0 <= i < ss.len() && 0 <= k < kids(ss, i).len() implies
        (#[trigger] kids(ss, i)[k] matches ScopeOrDeclId::Scope(sid) ==> i < sid.id < ss.len() && par(ss, sid.id as int) == i) by {
        if i == 0 {} else if i == 1 {} else { if k == 0 {} else {} }
    }
    assert(is_scope_child(ss, 0, 0, 1)); assert(is_scope_child(ss, 1, 0, 2));
}
pub proof fn lemma_w2_tree_wf(ss: Seq<LuaScope>)
    requires w2_tree(ss)
    ensures tree_wf(ss)
{
    reveal(tree_wf);
    lemma_w2_links(ss);
    lemma_w2_wf_ranges(ss);
    lemma_w2_wf_order(ss);
    lemma_w2_wf_repeat(ss);
    lemma_w2_wf_stmt(ss);
    lemma_w2_wf_func(ss);
    lemma_w2_wf_local(ss);
    lemma_w2_wf_declpos(ss);
    lemma_w2_wf_body(ss);
}
pub fn witness_duplicate_names(d6: LuaDecl, d9: LuaDecl)
    requires keys_ok(), dname(&d6) == "a"@, dname(&d9) == "a"@
{
    let f = FileId { id: 0 };
    let id6 = w_did(6);
    let id9 = w_did(9);
    let mut c0 = Vec::new(); c0.push(ScopeOrDeclId::Scope(w_sid(1)));
    let mut c1 = Vec::new(); c1.push(ScopeOrDeclId::Scope(w_sid(2)));
    let mut c2 = Vec::new(); c2.push(ScopeOrDeclId::Decl(id6)); c2.push(ScopeOrDeclId::Decl(id9));
    let mut scopes: Vec<LuaScope> = Vec::new();
    scopes.push(w_scope(None, c0, 0, 26, LuaScopeKind::Normal, 0));
    scopes.push(w_scope(Some(w_sid(0)), c1, 0, 26, LuaScopeKind::Normal, 1));
    scopes.push(w_scope(Some(w_sid(1)), c2, 0, 17, LuaScopeKind::LocalOrAssignStat, 2));
    let mut decls: HashMap<LuaDeclId, LuaDecl> = HashMap::new();
    decls.insert(id6, d6);
    decls.insert(id9, d9);
    let tree = LuaDeclarationTree { file_id: f, decls, scopes };
    let ghost ss = tree.scopes@;
    proof {
        assert(w2_tree(ss));
        lemma_w2_tree_wf(ss);
        wf_basic(ss);
    }
    let r = tree.find_local_decl("a", TextSize::new(24));
    proof {
        reveal_strlit("a");
        let x6 = ScopeOrDeclId::Decl(id6);
        let x9 = ScopeOrDeclId::Decl(id9);
        // both names are visible at 24 (Lua's reading): the later one, id9, is the one Lua selects
        assert(is_decl_child(ss, 2, 0, id6) && is_decl_child(ss, 2, 1, id9));
        assert(ext_inside(ss, 1, 24));
        assert(region(ss, 2, id6, 24, true) && region(ss, 2, id9, 24, true));
        assert(visible(ss, id6, 24, true) && visible(ss, id9, 24, true));
        if !dup_fixed() {
            // the trace of the real traversal from the innermost scope around 24 (the block, scope 1)
            let l = choose|l: int| is_leaf(ss, l, 24) && r == run::<FindVisitor>((&tree, "a"@, None::<&LuaDecl>), m_visit(ss, l, 24, true)).0.2;
            assert(l == 1) by {
                if l == 0 { assert(kids(ss, 0)[0] matches ScopeOrDeclId::Scope(sid) ==> !rng(ss, sid.id as int, 24)); }
            }
            let ks1 = kids(ss, 1);
            let ks2 = kids(ss, 2);
            assert(ks2[0] == x6 && ks2[1] == x9);
            assert(decls_from(ks2, 2) =~= Seq::<ScopeOrDeclId>::empty());
            assert(decls_from(ks2, 1) =~= seq![x9]);
            assert(decls_from(ks2, 0) =~= seq![x6, x9]);
            assert(before(ss, ks1[0], 24));
            assert(m_cut(ss, ks1, 24, 1) == 0);
            assert(m_walk(ss, ks1, -1) =~= Seq::<ScopeOrDeclId>::empty());
            assert(m_child(ss, ks1[0]) == m_expose(ss, 2));
            assert(m_walk(ss, ks1, 0) =~= seq![x6, x9]);
            assert(m_search(ss, 1, 24) =~= seq![x6, x9]);
            lemma_visit_unfold(ss, 1, 24, true);
            lemma_visit_unfold(ss, 0, 24, false);
            assert(m_search(ss, 0, 24) =~= Seq::<ScopeOrDeclId>::empty()) by {
                let ks0 = kids(ss, 0);
                assert(before(ss, ks0[0], 24));
                assert(m_cut(ss, ks0, 24, 1) == 0);
                assert(m_walk(ss, ks0, -1) =~= Seq::<ScopeOrDeclId>::empty());
                assert(m_child(ss, ks0[0]) =~= Seq::<ScopeOrDeclId>::empty());
                assert(m_walk(ss, ks0, 0) =~= Seq::<ScopeOrDeclId>::empty());
            }
            assert(m_up(ss, 0, 24) =~= Seq::<ScopeOrDeclId>::empty());
            let t = m_visit(ss, 1, 24, true);
            assert(t =~= seq![x6, x9]);
            assert(find_hit(&tree, "a"@, t[0]));
            assert(r == Some(&tree.decls@[id6]));      // FINDING: Lua selects id9
        } else {
            // repaired code: the later name, as in Lua
            assert(r is Some);
            assert(r == Some(&tree.decls@[id9]));
        }
    }
}

// (4) the same finding for a closure in the header of a generic for: on the tree the builder produces for
//        local k = 1
//        for k, v in f(function() return k end) do g() end
// (`local k = 1` = [0,11), k at 6; the for statement = [12,61), loop variables k at 16, v at 19; the closure = [26,49), its block = [37,46),
// the `k` it returns at 44; the loop body block = [54,58)), the real find_local_decl("k", 44) returns the LOOP VARIABLE (16); in Lua the
// iterator expressions are evaluated outside the scope of the loop variables: the closure's `k` is `local k` (6).
pub open spec fn w3_tree(ss: Seq<LuaScope>) -> bool {
    &&& ss.len() == 7
    &&& forall|i: int| 0 <= i < 7 ==> (#[trigger] ss[i]).id.id as int == i
    &&& ss[0].parent is None && par(ss, 1) == 0 && par(ss, 2) == 1 && par(ss, 3) == 1 && par(ss, 4) == 3 && par(ss, 5) == 4 && par(ss, 6) == 3
    &&& kd(ss, 0) == LuaScopeKind::Normal && kd(ss, 1) == LuaScopeKind::Normal && kd(ss, 2) == LuaScopeKind::LocalOrAssignStat
    &&& kd(ss, 3) == LuaScopeKind::ForRange && kd(ss, 4) == LuaScopeKind::Normal && kd(ss, 5) == LuaScopeKind::Normal && kd(ss, 6) == W_BODY_KIND
    &&& st(ss, 0) == 0 && en(ss, 0) == 61 && st(ss, 1) == 0 && en(ss, 1) == 61 && st(ss, 2) == 0 && en(ss, 2) == 11
    &&& st(ss, 3) == 12 && en(ss, 3) == 61 && st(ss, 4) == 26 && en(ss, 4) == 49 && st(ss, 5) == 37 && en(ss, 5) == 46 && st(ss, 6) == 54 && en(ss, 6) == 58
    &&& kids(ss, 0).len() == 1 && kids(ss, 0)[0] is Scope && sidx(kids(ss, 0)[0]) == 1
    &&& kids(ss, 1).len() == 2 && kids(ss, 1)[0] is Scope && sidx(kids(ss, 1)[0]) == 2 && kids(ss, 1)[1] is Scope && sidx(kids(ss, 1)[1]) == 3
    &&& kids(ss, 2).len() == 1 && kids(ss, 2)[0] is Decl && cpos(ss, kids(ss, 2)[0]) == 6
    &&& kids(ss, 3).len() == 4 && kids(ss, 3)[0] is Decl && cpos(ss, kids(ss, 3)[0]) == 16 && kids(ss, 3)[1] is Decl && cpos(ss, kids(ss, 3)[1]) == 19
    &&& kids(ss, 3)[2] is Scope && sidx(kids(ss, 3)[2]) == 4 && kids(ss, 3)[3] is Scope && sidx(kids(ss, 3)[3]) == 6
    &&& kids(ss, 4).len() == 1 && kids(ss, 4)[0] is Scope && sidx(kids(ss, 4)[0]) == 5
    &&& kids(ss, 5).len() == 0 && kids(ss, 6).len() == 0
}
#[verifier::spinoff_prover]
pub proof fn lemma_w3_wf_ranges(ss: Seq<LuaScope>)
    requires w3_tree(ss)
    ensures wf_ranges(ss)
{}
#[verifier::spinoff_prover]
pub proof fn lemma_w3_wf_order(ss: Seq<LuaScope>)
    requires w3_tree(ss)
    ensures wf_order(ss)
{}
#[verifier::spinoff_prover]
pub proof fn lemma_w3_wf_repeat(ss: Seq<LuaScope>)
    requires w3_tree(ss)
    ensures wf_repeat(ss)
{}
#[verifier::spinoff_prover]
pub proof fn lemma_w3_wf_stmt(ss: Seq<LuaScope>)
    requires w3_tree(ss)
    ensures wf_stmt(ss)
{}
#[verifier::spinoff_prover]
pub proof fn lemma_w3_wf_func(ss: Seq<LuaScope>)
    requires w3_tree(ss)
    ensures wf_func(ss)
{}
#[verifier::spinoff_prover]
pub proof fn lemma_w3_wf_local(ss: Seq<LuaScope>)
    requires w3_tree(ss)
    ensures wf_local(ss)
{}
#[verifier::spinoff_prover]
pub proof fn lemma_w3_wf_declpos(ss: Seq<LuaScope>)
    requires w3_tree(ss)
    ensures wf_declpos(ss)
{}
#[verifier::spinoff_prover]
pub proof fn lemma_w3_wf_body(ss: Seq<LuaScope>)
    requires w3_tree(ss)
    ensures wf_body(ss)
{}
#[verifier::spinoff_prover]
pub proof fn lemma_w3_links(ss: Seq<LuaScope>)
    requires w3_tree(ss)
    ensures links_wf(ss), wf_listed(ss)
{
    assert forall|i: int, k: int| 0 <= i < ss.len() && 0 <= k < kids(ss, i).len() implies
        (#[trigger] kids(ss, i)[k] matches ScopeOrDeclId::Scope(sid) ==> i < sid.id < ss.len() && par(ss, sid.id as int) == i) by {
        if i == 0 {} else if i == 1 { if k == 0 {} else {} } else if i == 2 {} else if i == 3 { if k == 0 {} else if k == 1 {} else if k == 2 {} else {} }
            else if i == 4 {} else {}
    }
    assert(is_scope_child(ss, 0, 0, 1)); assert(is_scope_child(ss, 1, 0, 2)); assert(is_scope_child(ss, 1, 1, 3));
        assert(is_scope_child(ss, 3, 2, 4)); assert(is_scope_child(ss, 4, 0, 5)); assert(is_scope_child(ss, 3, 3, 6));
}
pub proof fn lemma_w3_tree_wf(ss: Seq<LuaScope>)
    requires w3_tree(ss)
    ensures tree_wf(ss)
{
    reveal(tree_wf);
    lemma_w3_links(ss);
    lemma_w3_wf_ranges(ss);
    lemma_w3_wf_order(ss);
    lemma_w3_wf_repeat(ss);
    lemma_w3_wf_stmt(ss);
    lemma_w3_wf_func(ss);
    lemma_w3_wf_local(ss);
    lemma_w3_wf_declpos(ss);
    lemma_w3_wf_body(ss);
}
pub fn witness_generic_for_header_closure(d6: LuaDecl, d16: LuaDecl, d19: LuaDecl)
    requires keys_ok(), dname(&d6) == "k"@, dname(&d16) == "k"@, dname(&d19) == "v"@
{
    let f = FileId { id: 0 };
    let id6 = w_did(6);
    let id16 = w_did(16);
    let id19 = w_did(19);
    let mut c0 = Vec::new(); c0.push(ScopeOrDeclId::Scope(w_sid(1)));
    let mut c1 = Vec::new(); c1.push(ScopeOrDeclId::Scope(w_sid(2))); c1.push(ScopeOrDeclId::Scope(w_sid(3)));
    let mut c2 = Vec::new(); c2.push(ScopeOrDeclId::Decl(id6));
    let mut c3 = Vec::new(); c3.push(ScopeOrDeclId::Decl(id16)); c3.push(ScopeOrDeclId::Decl(id19));
    c3.push(ScopeOrDeclId::Scope(w_sid(4))); c3.push(ScopeOrDeclId::Scope(w_sid(6)));
    let mut c4 = Vec::new(); c4.push(ScopeOrDeclId::Scope(w_sid(5)));
    let c5: Vec<ScopeOrDeclId> = Vec::new();
    let c6: Vec<ScopeOrDeclId> = Vec::new();
    let mut scopes: Vec<LuaScope> = Vec::new();
    scopes.push(w_scope(None, c0, 0, 61, LuaScopeKind::Normal, 0));
    scopes.push(w_scope(Some(w_sid(0)), c1, 0, 61, LuaScopeKind::Normal, 1));
    scopes.push(w_scope(Some(w_sid(1)), c2, 0, 11, LuaScopeKind::LocalOrAssignStat, 2));
    scopes.push(w_scope(Some(w_sid(1)), c3, 12, 61, LuaScopeKind::ForRange, 3));
    scopes.push(w_scope(Some(w_sid(3)), c4, 26, 49, LuaScopeKind::Normal, 4));
    scopes.push(w_scope(Some(w_sid(4)), c5, 37, 46, LuaScopeKind::Normal, 5));
    scopes.push(w_scope(Some(w_sid(3)), c6, 54, 58, W_BODY_KIND, 6));
    let mut decls: HashMap<LuaDeclId, LuaDecl> = HashMap::new();
    decls.insert(id6, d6);
    decls.insert(id16, d16);
    decls.insert(id19, d19);
    let tree = LuaDeclarationTree { file_id: f, decls, scopes };
    let ghost ss = tree.scopes@;
    proof {
        assert(w3_tree(ss));
        lemma_w3_tree_wf(ss);
        wf_basic(ss);
    }
    let r = tree.find_local_decl("k", TextSize::new(44));
    proof {
        reveal_strlit("k");
        reveal_strlit("v");
        assert("k"@ != "v"@) by { assert("k"@[0] != "v"@[0]); }
        assert(is_decl_child(ss, 3, 0, id16));
        assert(is_decl_child(ss, 2, 0, id6));
        assert(in_some_child(ss, 3, 44)) by { assert(kids(ss, 3)[2] matches ScopeOrDeclId::Scope(sid) && rng(ss, sid.id as int, 44)); }
        if !hdr_trav() {
            assert(region(ss, 3, id16, 44, false));
            assert(visible(ss, id16, 44, false));
        }
        assert(ext_inside(ss, 1, 44));
        assert(region(ss, 2, id6, 44, true));
        assert(visible(ss, id6, 44, true));
        assert(!visible(ss, id16, 44, true)) by {
            if visible(ss, id16, 44, true) {
                let (s, k) = choose|s: int, k: int| 0 <= s < ss.len() && is_decl_child(ss, s, k, id16) && region(ss, s, id16, 44, true);
                if s == 0 {} else if s == 1 {} else if s == 2 {} else if s == 3 { assert(kids(ss, 3).last() == kids(ss, 3)[3]); assert(!in_body(ss, 3, 44)); }
                else if s == 4 {} else {}
                assert(false);
            }
        }
        assert(no_dup_named(&tree, "k"@)) by {
            assert forall|s: int, k1: int, k2: int, e1: LuaDeclId, e2: LuaDeclId| 0 <= s < ss.len() && kd(ss, s) == LuaScopeKind::LocalOrAssignStat
                && #[trigger] is_decl_child(ss, s, k1, e1) && #[trigger] is_decl_child(ss, s, k2, e2) && e1 != e2 implies false by {}
        }
        if !hdr_trav() {
            assert(r is Some);
            assert(r == Some(&tree.decls@[id16]));     // FINDING: Lua selects id6
        }
        if hdr_trav() && enc_for() {
            // repaired code: the outer local, as in Lua
            assert(r is Some);
            assert(r == Some(&tree.decls@[id6]));
        }
    }
}

// (5) finding L1 of the bounded search replay/c13: the tree is queried WHILE IT IS BUILT. When the declaration analyzer reaches the `v`
// inside the closure of
//        for v = (function() return v end)(), 2 do print(v) end
// (loop variable v at 4, the closure = [9,32), its block = [20,28), the use at 27) the body block of the loop has no scope yet: the for
// scope holds [v, closure]. With the body identified by its kind (body_kind()) the lookup finds no local (Lua: the global v); a traversal
// that takes the LAST CHILD SCOPE for the body (hdr_trav() && !body_kind()) answers the loop variable - and, in that shape, so does the
// unit's reading of the tree, which is why the unit could not see L1.
pub open spec fn w4_tree(ss: Seq<LuaScope>) -> bool {
    &&& ss.len() == 5
    &&& forall|i: int| 0 <= i < 5 ==> (#[trigger] ss[i]).id.id as int == i
    &&& ss[0].parent is None && par(ss, 1) == 0 && par(ss, 2) == 1 && par(ss, 3) == 2 && par(ss, 4) == 3
    &&& kd(ss, 0) == LuaScopeKind::Normal && kd(ss, 1) == LuaScopeKind::Normal && kd(ss, 2) == W_FOR_KIND
    &&& kd(ss, 3) == LuaScopeKind::Normal && kd(ss, 4) == LuaScopeKind::Normal
    &&& st(ss, 0) == 0 && en(ss, 0) == 54 && st(ss, 1) == 0 && en(ss, 1) == 54 && st(ss, 2) == 0 && en(ss, 2) == 54
    &&& st(ss, 3) == 9 && en(ss, 3) == 32 && st(ss, 4) == 20 && en(ss, 4) == 28
    &&& kids(ss, 0).len() == 1 && kids(ss, 0)[0] is Scope && sidx(kids(ss, 0)[0]) == 1
    &&& kids(ss, 1).len() == 1 && kids(ss, 1)[0] is Scope && sidx(kids(ss, 1)[0]) == 2
    &&& kids(ss, 2).len() == 2 && kids(ss, 2)[0] is Decl && cpos(ss, kids(ss, 2)[0]) == 4 && kids(ss, 2)[1] is Scope && sidx(kids(ss, 2)[1]) == 3
    &&& kids(ss, 3).len() == 1 && kids(ss, 3)[0] is Scope && sidx(kids(ss, 3)[0]) == 4
    &&& kids(ss, 4).len() == 0
}
#[verifier::spinoff_prover]
pub proof fn lemma_w4_wf_ranges(ss: Seq<LuaScope>)
    requires w4_tree(ss)
    ensures wf_ranges(ss)
{}
#[verifier::spinoff_prover]
pub proof fn lemma_w4_wf_order(ss: Seq<LuaScope>)
    requires w4_tree(ss)
    ensures wf_order(ss)
{}
#[verifier::spinoff_prover]
pub proof fn lemma_w4_wf_repeat(ss: Seq<LuaScope>)
    requires w4_tree(ss)
    ensures wf_repeat(ss)
{}
#[verifier::spinoff_prover]
pub proof fn lemma_w4_wf_stmt(ss: Seq<LuaScope>)
    requires w4_tree(ss)
    ensures wf_stmt(ss)
{}
#[verifier::spinoff_prover]
pub proof fn lemma_w4_wf_func(ss: Seq<LuaScope>)
    requires w4_tree(ss)
    ensures wf_func(ss)
{}
#[verifier::spinoff_prover]
pub proof fn lemma_w4_wf_local(ss: Seq<LuaScope>)
    requires w4_tree(ss)
    ensures wf_local(ss)
{}
#[verifier::spinoff_prover]
pub proof fn lemma_w4_wf_declpos(ss: Seq<LuaScope>)
    requires w4_tree(ss)
    ensures wf_declpos(ss)
{}
#[verifier::spinoff_prover]
pub proof fn lemma_w4_wf_body(ss: Seq<LuaScope>)
    requires w4_tree(ss)
    ensures wf_body(ss)
{}
#[verifier::spinoff_prover]
pub proof fn lemma_w4_links(ss: Seq<LuaScope>)
    requires w4_tree(ss)
    ensures links_wf(ss), wf_listed(ss)
{
    assert forall|i: int, k: int| 0 <= i < ss.len() && 0 <= k < kids(ss, i).len() implies
        (#[trigger] kids(ss, i)[k] matches ScopeOrDeclId::Scope(sid) ==> i < sid.id < ss.len() && par(ss, sid.id as int) == i) by {
        if i == 0 {} else if i == 1 {} else if i == 2 { if k == 0 {} else {} } else if i == 3 {} else {}
    }
    assert(is_scope_child(ss, 0, 0, 1)); assert(is_scope_child(ss, 1, 0, 2)); assert(is_scope_child(ss, 2, 1, 3)); assert(is_scope_child(ss, 3, 0, 4));
}
pub proof fn lemma_w4_tree_wf(ss: Seq<LuaScope>)
    requires w4_tree(ss)
    ensures tree_wf(ss)
{
    reveal(tree_wf);
    lemma_w4_links(ss);
    lemma_w4_wf_ranges(ss);
    lemma_w4_wf_order(ss);
    lemma_w4_wf_repeat(ss);
    lemma_w4_wf_stmt(ss);
    lemma_w4_wf_func(ss);
    lemma_w4_wf_local(ss);
    lemma_w4_wf_declpos(ss);
    lemma_w4_wf_body(ss);
}

pub fn witness_header_closure_while_the_tree_is_built(d4: LuaDecl)
    requires keys_ok(), dname(&d4) == "v"@
{
    let f = FileId { id: 0 };
    let id4 = w_did(4);
    let mut c0 = Vec::new(); c0.push(ScopeOrDeclId::Scope(w_sid(1)));
    let mut c1 = Vec::new(); c1.push(ScopeOrDeclId::Scope(w_sid(2)));
    let mut c2 = Vec::new(); c2.push(ScopeOrDeclId::Decl(id4)); c2.push(ScopeOrDeclId::Scope(w_sid(3)));
    let mut c3 = Vec::new(); c3.push(ScopeOrDeclId::Scope(w_sid(4)));
    let c4: Vec<ScopeOrDeclId> = Vec::new();
    let mut scopes: Vec<LuaScope> = Vec::new();
    scopes.push(w_scope(None, c0, 0, 54, LuaScopeKind::Normal, 0));
    scopes.push(w_scope(Some(w_sid(0)), c1, 0, 54, LuaScopeKind::Normal, 1));
    scopes.push(w_scope(Some(w_sid(1)), c2, 0, 54, W_FOR_KIND, 2));
    scopes.push(w_scope(Some(w_sid(2)), c3, 9, 32, LuaScopeKind::Normal, 3));
    scopes.push(w_scope(Some(w_sid(3)), c4, 20, 28, LuaScopeKind::Normal, 4));
    let mut decls: HashMap<LuaDeclId, LuaDecl> = HashMap::new();
    decls.insert(id4, d4);
    let tree = LuaDeclarationTree { file_id: f, decls, scopes };
    let ghost ss = tree.scopes@;
    proof {
        assert(w4_tree(ss));
        lemma_w4_tree_wf(ss);
        wf_basic(ss);
    }
    let r = tree.find_local_decl("v", TextSize::new(27));
    proof {
        reveal_strlit("v");
        assert(is_decl_child(ss, 2, 0, id4));
        assert(kids(ss, 2).last() == kids(ss, 2)[1]);
        if hdr_trav() && enc_for() && body_kind() {
            // the body is identified by its kind: there is none yet, the loop variable is not visible, the lookup finds no local
            assert(!visible(ss, id4, 27, true)) by {
                if visible(ss, id4, 27, true) {
                    let (s, k) = choose|s: int, k: int| 0 <= s < ss.len() && is_decl_child(ss, s, k, id4) && region(ss, s, id4, 27, true);
                    if s == 0 {} else if s == 1 {} else if s == 2 { assert(!in_body(ss, 2, 27)); } else if s == 3 {} else {}
                    assert(false);
                }
            }
            assert(r is None);
        }
        if hdr_trav() && enc_for() && !body_kind() {
            // the body is "the last child scope": that is the header closure itself. FINDING L1: the loop variable is returned
            assert(in_body(ss, 2, 27));
            assert(region(ss, 2, id4, 27, false));
            assert(visible(ss, id4, 27, false));
            assert(r is Some);
            assert(r == Some(&tree.decls@[id4]));
        }
    }
}

// (6) finding L2 of the bounded search: a repeat statement with an EMPTY body gets no body block (the parser drops empty nodes):
//        local b = 1
//        repeat until f(function(b) end, b)
// (`local b = 1` = [0,11), b at 6; the repeat statement = [12,46), the closure = [27,42) with its parameter b at 36 and no block; the last
// `b` at 44). With the body identified by its kind the Repeat scope has no body and find_local_decl("b", 44) is the local (6), as in Lua.
// (A traversal that takes the FIRST CHILD SCOPE for the body answers the parameter (36); in that shape this tree is outside tree_wf -
// "the first child of a repeat scope is the body block and holds no declarations" -, which is the assumption that was false.)
pub open spec fn w5_tree(ss: Seq<LuaScope>) -> bool {
    &&& ss.len() == 5
    &&& forall|i: int| 0 <= i < 5 ==> (#[trigger] ss[i]).id.id as int == i
    &&& ss[0].parent is None && par(ss, 1) == 0 && par(ss, 2) == 1 && par(ss, 3) == 1 && par(ss, 4) == 3
    &&& kd(ss, 0) == LuaScopeKind::Normal && kd(ss, 1) == LuaScopeKind::Normal && kd(ss, 2) == LuaScopeKind::LocalOrAssignStat
    &&& kd(ss, 3) == LuaScopeKind::Repeat && kd(ss, 4) == LuaScopeKind::Normal
    &&& st(ss, 0) == 0 && en(ss, 0) == 47 && st(ss, 1) == 0 && en(ss, 1) == 47 && st(ss, 2) == 0 && en(ss, 2) == 11
    &&& st(ss, 3) == 12 && en(ss, 3) == 46 && st(ss, 4) == 27 && en(ss, 4) == 42
    &&& kids(ss, 0).len() == 1 && kids(ss, 0)[0] is Scope && sidx(kids(ss, 0)[0]) == 1
    &&& kids(ss, 1).len() == 2 && kids(ss, 1)[0] is Scope && sidx(kids(ss, 1)[0]) == 2 && kids(ss, 1)[1] is Scope && sidx(kids(ss, 1)[1]) == 3
    &&& kids(ss, 2).len() == 1 && kids(ss, 2)[0] is Decl && cpos(ss, kids(ss, 2)[0]) == 6
    &&& kids(ss, 3).len() == 1 && kids(ss, 3)[0] is Scope && sidx(kids(ss, 3)[0]) == 4
    &&& kids(ss, 4).len() == 1 && kids(ss, 4)[0] is Decl && cpos(ss, kids(ss, 4)[0]) == 36
}
#[verifier::spinoff_prover]
pub proof fn lemma_w5_wf_ranges(ss: Seq<LuaScope>)
    requires w5_tree(ss)
    ensures wf_ranges(ss)
{}
#[verifier::spinoff_prover]
pub proof fn lemma_w5_wf_order(ss: Seq<LuaScope>)
    requires w5_tree(ss)
    ensures wf_order(ss)
{}
#[verifier::spinoff_prover]
pub proof fn lemma_w5_wf_repeat(ss: Seq<LuaScope>)
    requires w5_tree(ss)
    ensures body_kind() ==> wf_repeat(ss)
{}
#[verifier::spinoff_prover]
pub proof fn lemma_w5_wf_stmt(ss: Seq<LuaScope>)
    requires w5_tree(ss)
    ensures wf_stmt(ss)
{}
#[verifier::spinoff_prover]
pub proof fn lemma_w5_wf_func(ss: Seq<LuaScope>)
    requires w5_tree(ss)
    ensures wf_func(ss)
{}
#[verifier::spinoff_prover]
pub proof fn lemma_w5_wf_local(ss: Seq<LuaScope>)
    requires w5_tree(ss)
    ensures wf_local(ss)
{}
#[verifier::spinoff_prover]
pub proof fn lemma_w5_wf_declpos(ss: Seq<LuaScope>)
    requires w5_tree(ss)
    ensures wf_declpos(ss)
{}
#[verifier::spinoff_prover]
pub proof fn lemma_w5_wf_body(ss: Seq<LuaScope>)
    requires w5_tree(ss)
    ensures wf_body(ss)
{}
#[verifier::spinoff_prover]
pub proof fn lemma_w5_links(ss: Seq<LuaScope>)
    requires w5_tree(ss)
    ensures links_wf(ss), wf_listed(ss)
{
    assert forall|i: int, k: int| 0 <= i < ss.len() && 0 <= k < kids(ss, i).len() implies
        (#[trigger] kids(ss, i)[k] matches ScopeOrDeclId::Scope(sid) ==> i < sid.id < ss.len() && par(ss, sid.id as int) == i) by {
        if i == 0 {} else if i == 1 { if k == 0 {} else {} } else if i == 2 {} else if i == 3 {} else {}
    }
    assert(is_scope_child(ss, 0, 0, 1)); assert(is_scope_child(ss, 1, 0, 2)); assert(is_scope_child(ss, 1, 1, 3)); assert(is_scope_child(ss, 3, 0, 4));
}
pub proof fn lemma_w5_tree_wf(ss: Seq<LuaScope>)
    requires w5_tree(ss)
    ensures body_kind() ==> tree_wf(ss)
{
    reveal(tree_wf);
    lemma_w5_links(ss);
    lemma_w5_wf_ranges(ss);
    lemma_w5_wf_order(ss);
    lemma_w5_wf_repeat(ss);
    lemma_w5_wf_stmt(ss);
    lemma_w5_wf_func(ss);
    lemma_w5_wf_local(ss);
    lemma_w5_wf_declpos(ss);
    lemma_w5_wf_body(ss);
}

pub fn witness_empty_repeat_condition(d6: LuaDecl, d36: LuaDecl)
    requires keys_ok(), dname(&d6) == "b"@, dname(&d36) == "b"@
{
    let f = FileId { id: 0 };
    let id6 = w_did(6);
    let id36 = w_did(36);
    let mut c0 = Vec::new(); c0.push(ScopeOrDeclId::Scope(w_sid(1)));
    let mut c1 = Vec::new(); c1.push(ScopeOrDeclId::Scope(w_sid(2))); c1.push(ScopeOrDeclId::Scope(w_sid(3)));
    let mut c2 = Vec::new(); c2.push(ScopeOrDeclId::Decl(id6));
    let mut c3 = Vec::new(); c3.push(ScopeOrDeclId::Scope(w_sid(4)));
    let mut c4 = Vec::new(); c4.push(ScopeOrDeclId::Decl(id36));
    let mut scopes: Vec<LuaScope> = Vec::new();
    scopes.push(w_scope(None, c0, 0, 47, LuaScopeKind::Normal, 0));
    scopes.push(w_scope(Some(w_sid(0)), c1, 0, 47, LuaScopeKind::Normal, 1));
    scopes.push(w_scope(Some(w_sid(1)), c2, 0, 11, LuaScopeKind::LocalOrAssignStat, 2));
    scopes.push(w_scope(Some(w_sid(1)), c3, 12, 46, LuaScopeKind::Repeat, 3));
    scopes.push(w_scope(Some(w_sid(3)), c4, 27, 42, LuaScopeKind::Normal, 4));
    let mut decls: HashMap<LuaDeclId, LuaDecl> = HashMap::new();
    decls.insert(id6, d6);
    decls.insert(id36, d36);
    let tree = LuaDeclarationTree { file_id: f, decls, scopes };
    let ghost ss = tree.scopes@;
    proof {
        assert(w5_tree(ss));
        lemma_w5_tree_wf(ss);
    }
    let r = tree.find_local_decl("b", TextSize::new(44));
    proof {
        reveal_strlit("b");
        if hdr_trav() && enc_for() && body_kind() && dup_fixed() {
            wf_basic(ss);
            assert(is_decl_child(ss, 2, 0, id6) && is_decl_child(ss, 4, 0, id36));
            assert(ext_inside(ss, 1, 44));
            assert(region(ss, 2, id6, 44, true));
            assert(visible(ss, id6, 44, true));
            assert(!visible(ss, id36, 44, true)) by {
                if visible(ss, id36, 44, true) {
                    let (s, k) = choose|s: int, k: int| 0 <= s < ss.len() && is_decl_child(ss, s, k, id36) && region(ss, s, id36, 44, true);
                    if s == 0 {} else if s == 1 {} else if s == 2 {} else if s == 3 {} else {}
                    assert(false);
                }
            }
            assert(r is Some);
            assert(r == Some(&tree.decls@[id6]));
        }
    }
}
