"""unit c13_scope - the lexical-scope LOOKUP of the declaration tree under contract (property C13).

Functions under proof (real text of crates/emmylua_code_analysis/src/db_index/declaration/{decl_tree,scope,decl_id}.rs):
  LuaDeclarationTree::{find_local_decl, get_env_decls, find_scope, visit_visible_decls, search_scope_children, visit_child_scope,
                       get_decl, get_scope} + the two visitor closures (statement slices), LuaScope getters, From<LuaDeclId> for ScopeOrDeclId.

Chain of the proof (template.rs + scope_spec.rs + scope_lemmas.rs):
  real code  ==  functional model of the traversal (m_visit / m_search / m_expose; exec contracts, only `links_wf` needed: ids are indices,
                 parent ids are smaller, child ids larger and pointing back)                                        [C13.lookup.total, C13.*.model]
  model      ==  the declarative specification `visible(ss, d, pos, lua)` (no recursion, no chain: owner scope kind + ranges), under the
                 builder assumption `tree_wf`                                                                         [lemmas, all with bodies]
  `visible`  is written from the property: (ii) names of a `local`/assignment statement are visible after the statement, (iii) a function
                 statement's name from the statement on (its own body included), parameters / implicit self / loop variables inside the BODY
                 (= last child scope) of their scope only (iv), (v) the names of a repeat body block also in the rest of the repeat statement,
                 (i)+(vi) among visible names of one text the one declared LATEST (largest position) is selected.
The real code deviates from `visible` in exactly the ways recorded as finding clauses (see `findings` below and the final report).

Two shapes of the code are supported, per finding, detected from the repository text on every run (`_detect`): today's, and the one after
proposed_fix_duplicate_names.diff / proposed_fix_for_header.diff (this directory). The model mirrors the code, so it follows the shape
(spec constants dup_fixed / hdr_trav / enc_for, emitted into the assembled file); on a repaired shape the guarded clause + finding clause pair
is replaced by ONE unguarded clause (C13.lookup.returns-the-visible-declaration / latest-visible-declaration-wins / C13.env.exactly-visible at
every position, for every name) and the witnesses assert Lua's choice instead of the deviation.
"""
import os
import re
from vc import rules as R
from vc import rustlex as L
from vc import extract as X
from vc.extract import Undecided

SRC = 'crates/emmylua_code_analysis/src/'
DECL = SRC + 'db_index/declaration/'
TREE = DECL + 'decl_tree.rs'
SCOPE = DECL + 'scope.rs'
DID = DECL + 'decl_id.rs'


BUILDER_MOD = SRC + 'compilation/analyzer/decl/mod.rs'


def _detect():
    """which of the two shapes of the code under proof the repository has (today's / repaired), per finding. The model of the traversal has
    to mirror the code (the exec contracts are refinement statements), and the reading of the tree follows the builder's encoding:
      DUP  visit_child_scope walks the names of a LocalOrAssignStat scope last first (`.iter().rev()`)          -> m_expose, `ordered`
      TRAV visit_visible_decls searches a ForRange scope in the non-entry visit only from its body (is_in_loop_body) -> lsearch, region
      ENC  the builder gives the numeric for (LuaForStat) the scope kind ForRange                                 -> region (reading of Normal)"""
    repo = os.environ.get('VERIF_REPO', '/repo')
    vcs = X.find_item(repo, {'file': TREE, 'kind': 'fn', 'impl': 'LuaDeclarationTree', 'name': 'visit_child_scope'}).raw
    dup = bool(re.search(r'LuaScopeKind::LocalOrAssignStat => \{\s*(?://[^\n]*\n\s*)*for child in scope\.get_children\(\)\.iter\(\)\.rev\(\) \{', vcs))
    vvd = X.find_item(repo, {'file': TREE, 'kind': 'fn', 'impl': 'LuaDeclarationTree', 'name': 'visit_visible_decls'}).raw
    trav = bool(re.search(r'scope\.get_kind\(\) != LuaScopeKind::ForRange \|\| self\.is_in_loop_body\(scope, position\)', vvd))
    enc = bool(re.search(r'LuaAst::LuaForStat\(stat\) => \{\s*analyzer\.create_scope\(stat\.get_range\(\), LuaScopeKind::ForRange\);',
                         X.read_source(repo, BUILDER_MOD)))
    # BODY: the body block of a for / repeat statement is identified by its scope kind LoopBody (builder + all three places of the traversal)
    scope_rs = X.read_source(repo, SCOPE)
    marks = [bool(re.search(r'\bLoopBody,', scope_rs)),
             bool(re.search(r'fn block_scope_kind\(', X.read_source(repo, BUILDER_MOD))),
             len(re.findall(r'get_kind\(\) == LuaScopeKind::LoopBody', vvd)) == 2,
             trav and bool(re.search(r'body\.get_kind\(\) == LuaScopeKind::LoopBody',
                                     X.find_item(repo, {'file': TREE, 'kind': 'fn', 'impl': 'LuaDeclarationTree', 'name': 'is_in_loop_body'}).raw))]
    if any(marks) and not all(marks):
        raise Undecided('c13_scope: the LoopBody scope kind is used only in part of {scope.rs, decl/mod.rs, visit_visible_decls, is_in_loop_body}: %s' % marks)
    return dup, trav, enc, all(marks)


DUP, TRAV, ENC, BODY = _detect()
HDR = TRAV and ENC          # loop headers repaired: the code's reading of `visible` is Lua's at every position


_CTRL = re.compile(r'\breturn\b|\bbreak\b|\bcontinue\b|\?')


def _receiver_start(text, toks, j):
    """toks[j] is the last token of a postfix chain (idents, `.`, calls); return the index of its first token"""
    while j >= 0:
        tt = L.tok_text(text, toks[j])
        if tt in (')', ']'):
            depth = 0
            while j >= 0:
                c = L.tok_text(text, toks[j])
                if c in (')', ']'): depth += 1
                elif c in ('(', '['):
                    depth -= 1
                    if depth == 0: break
                j -= 1
            j -= 1; continue
        if (toks[j][0] == 'ident' and tt not in ('let', 'return', 'if', 'while', 'match', 'in', 'else', 'mut')) or tt == '.':
            j -= 1; continue
        break
    return j + 1


def _closure1(text, toks, i, who):
    """toks[i] is the `(` of `.adapter(`; the argument must be one closure `|x| BODY`. returns (param, body_text, close_idx)"""
    close = L.match_close(text, toks, i)
    if L.tok_text(text, toks[i + 1]) != '|' or toks[i + 2][0] != 'ident' or L.tok_text(text, toks[i + 3]) != '|':
        raise Undecided('%s: closure with a pattern / several parameters / type annotation' % who)
    return L.tok_text(text, toks[i + 2]), text[toks[i + 3][2]:toks[close][1]].strip(), close


def _let_stmt(text, toks, first, who):
    """toks[first] is the first token of the initialiser of `let V = <init>;` : returns (index of `let`, V)"""
    if first < 3 or L.tok_text(text, toks[first - 1]) != '=' or toks[first - 2][0] != 'ident' or L.tok_text(text, toks[first - 3]) != 'let':
        raise Undecided('%s: the iterator chain is not the whole initialiser of a plain `let V = ...;`' % who)
    return first - 3, L.tok_text(text, toks[first - 2])


@R.rule('c13-filter-map-find-loop')
def filter_map_find_loop(text, ty=None, **_):
    """`let V = E.iter().filter_map(|X| M).find(|Y| P);`   (E a slice)   ->
         let mut V: TY = None; let __fs = E; let mut __fk: usize = 0;     (TY = rule argument `ty`, checked by rustc against the uses of V)
         while __fk < __fs.len() { let X = &__fs[__fk]; __fk += 1;
             if let Some(__fy) = (M) { let __fhit = { let Y = &__fy; P }; if __fhit { V = Some(__fy); break; } } }
    std: slice::Iter yields `&E[0], &E[1], ...` in order; Iterator::filter_map "yields only the values for which the supplied closure
    returns Some(value)"; Iterator::find "searches for an element of an iterator that satisfies a predicate ... find() is short-circuiting;
    in other words, it will stop processing as soon as the closure returns true" and returns that element, `None` if there is none; all
    adapters are lazy, so M and P are evaluated on exactly the same items in the same order in both forms. `find`'s closure receives a
    reference to the item (`Y = &__fy`). Side condition (checked): M and P contain no `return` / `?` / `break` / `continue`."""
    n = 0
    while True:
        toks = L.code_tokens(text)
        hit = None
        for i, t in enumerate(toks):
            if L.tok_text(text, t) != 'filter_map' or i < 5 or L.tok_text(text, toks[i + 1]) != '(':
                continue
            if [L.tok_text(text, x) for x in toks[i - 5:i]] != ['.', 'iter', '(', ')', '.']:
                raise Undecided('c13-filter-map-find-loop: `.filter_map(` not directly after `.iter()`')
            x, m, close = _closure1(text, toks, i + 1, 'c13-filter-map-find-loop')
            if [L.tok_text(text, y) for y in toks[close + 1:close + 4]] != ['.', 'find', '(']:
                raise Undecided('c13-filter-map-find-loop: `.filter_map(..)` is not followed by `.find(`')
            y, p, close2 = _closure1(text, toks, close + 3, 'c13-filter-map-find-loop')
            if L.tok_text(text, toks[close2 + 1]) != ';':
                raise Undecided('c13-filter-map-find-loop: `.find(..)` does not end the statement')
            if _CTRL.search(m) or _CTRL.search(p):
                raise Undecided('c13-filter-map-find-loop: control flow inside a closure')
            first = _receiver_start(text, toks, i - 6)
            let_i, v = _let_stmt(text, toks, first, 'c13-filter-map-find-loop')
            recv = ' '.join(text[toks[first][1]:toks[i - 5][1]].split())
            new = ('let mut %s%s = None; let __fs = %s; let mut __fk: usize = 0;\n            while __fk < __fs.len() {\n                let %s = &__fs[__fk]; __fk += 1;\n'
                   '                if let Some(__fy) = (%s) {\n                    let __fhit = { let %s = &__fy; %s };\n'
                   '                    if __fhit { %s = Some(__fy); break; }\n                }\n            }' % (v, (': ' + ty) if ty else '', recv, x, m, y, p, v))
            hit = (toks[let_i][1], toks[close2 + 1][2], new)
            break
        if not hit: break
        text = text[:hit[0]] + hit[2] + text[hit[1]:]
        n += 1
    return text, n


@R.rule('c13-rposition-loop')
def rposition_loop(text, **_):
    """`let V = E.iter().rposition(|X| P);`   (E a slice)   ->
         let mut V: Option<usize> = None; let mut __rk: usize = E.len();
         while __rk > 0 { __rk -= 1; let X = &E[__rk]; if P { V = Some(__rk); break; } }
    std (Iterator::rposition): "Searches for an element in an iterator from the right, returning its index ... rposition() is
    short-circuiting; in other words, it will stop processing as soon as it finds a true"; the index is the one counted from the front
    (ExactSizeIterator + DoubleEndedIterator); `None` if P is false on every element. P is evaluated on E[len-1], E[len-2], ... in both forms.
    Side condition (checked): E is a plain local, P contains no `return` / `?` / `break` / `continue`."""
    n = 0
    while True:
        toks = L.code_tokens(text)
        hit = None
        for i, t in enumerate(toks):
            if L.tok_text(text, t) != 'rposition' or i < 6 or L.tok_text(text, toks[i + 1]) != '(':
                continue
            if [L.tok_text(text, x) for x in toks[i - 5:i]] != ['.', 'iter', '(', ')', '.'] or toks[i - 6][0] != 'ident':
                raise Undecided('c13-rposition-loop: `.rposition(` not directly after `<local>.iter()`')
            x, p, close = _closure1(text, toks, i + 1, 'c13-rposition-loop')
            if L.tok_text(text, toks[close + 1]) != ';':
                raise Undecided('c13-rposition-loop: `.rposition(..)` does not end the statement')
            if _CTRL.search(p):
                raise Undecided('c13-rposition-loop: control flow inside the predicate')
            let_i, v = _let_stmt(text, toks, i - 6, 'c13-rposition-loop')
            e = L.tok_text(text, toks[i - 6])
            new = ('let mut %s: Option<usize> = None; let mut __rk: usize = %s.len();\n        while __rk > 0 {\n            __rk -= 1; let %s = &%s[__rk];\n'
                   '            if %s { %s = Some(__rk); break; }\n        }' % (v, e, x, e, p, v))
            hit = (toks[let_i][1], toks[close + 1][2], new)
            break
        if not hit: break
        text = text[:hit[0]] + hit[2] + text[hit[1]:]
        n += 1
    return text, n


@R.rule('c13-closure-visitor')
def closure_visitor(text, ctor=None, writeback=None, body_from=None, body_to=None, **_):
    """closure conversion of the visitor closure handed to `visit_visible_decls`:
         self.visit_visible_decls(A, B, C, &mut |P| { BODY });
      -> let mut __v = CTOR; self.visit_visible_decls(A, B, C, &mut __v); WRITEBACK;
    Rust reference (closure types): a closure expression is a value of an anonymous struct holding its captures, whose `FnMut::call_mut`
    runs BODY; a variable that BODY assigns is captured by unique borrow, i.e. BODY works on the caller's variable and the caller sees its
    last value when the borrow ends (here: when the call returns). CTOR is the struct literal of the unit's visitor type (one field per
    captured variable, the assigned one moved in), WRITEBACK moves it back; the visitor's `visit` method (template) forwards to the
    statement slice that is BODY itself, extracted from the same function with the anchors `body_from` .. `body_to`. The rule checks that
    the closure body IS exactly that slice (refuses otherwise), so no statement of the closure is outside the proof."""
    toks = L.code_tokens(text)
    hits = [i for i, t in enumerate(toks) if L.tok_text(text, t) == 'visit_visible_decls' and L.tok_text(text, toks[i + 1]) == '('
            and L.tok_text(text, toks[i - 1]) == '.' and L.tok_text(text, toks[i - 2]) == 'self']
    if len(hits) != 1:
        return text, 0
    i = hits[0]
    close = L.match_close(text, toks, i + 1)
    if L.tok_text(text, toks[close + 1]) != ';':
        raise Undecided('c13-closure-visitor: the call is not a statement')
    # last argument: & mut | P | { BODY }
    k = close - 1
    if L.tok_text(text, toks[k]) != '}':
        raise Undecided('c13-closure-visitor: last argument is not a block closure')
    depth, ob = 0, None
    for j in range(k, i, -1):
        c = L.tok_text(text, toks[j])
        if toks[j][0] == 'punct' and c == '}': depth += 1
        elif toks[j][0] == 'punct' and c == '{':
            depth -= 1
            if depth == 0: ob = j; break
    if ob is None or [L.tok_text(text, x) for x in toks[ob - 5:ob - 3]] != ['&', 'mut'] or L.tok_text(text, toks[ob - 3]) != '|' \
            or toks[ob - 2][0] != 'ident' or L.tok_text(text, toks[ob - 1]) != '|':
        raise Undecided('c13-closure-visitor: last argument is not `&mut |x| { .. }`')
    body = text[toks[ob][2]:toks[k][1]]
    mf = list(re.finditer(body_from, body, flags=re.S))
    if len(mf) != 1 or body[:mf[0].start()].strip():
        raise Undecided('c13-closure-visitor: the closure body does not start with the slice anchor /%s/' % body_from)
    mt = re.search(body_to, body[mf[0].start():], flags=re.S)
    if not mt or body[mf[0].start() + mt.end():].strip():
        raise Undecided('c13-closure-visitor: the closure body does not end with the slice anchor /%s/' % body_to)
    head = text[toks[i - 2][1]:toks[ob - 5][1]]            # `self.visit_visible_decls(scope, position, true, `
    new = 'let mut __v = %s;\n        %s&mut __v);\n        %s;' % (ctor, head, writeback)
    return text[:toks[i - 2][1]] + new + text[toks[close + 1][2]:], 1


EXTRA_RULES = [
    ('c13-rev-slice-for', r'for (\w+) in ([\w.()]+?)\.iter\(\)\.rev\(\) \{',
     r'let __vs = \2; let mut __vk: usize = __vs.len(); while __vk > 0 { __vk -= 1; let \1 = &__vs[__vk];',
     '`for x in E.iter().rev() { BODY }` (E a slice) -> `let __vs = E; let mut __vk = __vs.len(); while __vk > 0 { __vk -= 1; let x = &__vs[__vk]; BODY }`: '
     'std, Rev over slice::Iter yields &E[len-1], &E[len-2], .., &E[0] (DoubleEndedIterator::next_back of a slice iterator)'),
    ('c13-captured-assign', r'(?<![\w.*])result = Some\(decl\);', '*result = Some(decl);',
     'inside the closure `result` is the captured variable of the enclosing function (captured by unique borrow because the body assigns it: '
     'Rust reference, closure capture modes); an assignment in the closure body is an assignment through that borrow. In the lifted body '
     '(statement slice) the borrow is the explicit `&mut` parameter, so the assignment is spelled `*result = ..`'),
    ('c13-fnmut-visitor-bound', r'F: FnMut\(ScopeOrDeclId\) -> bool,', 'F: DeclVisitor,',
     '`F: FnMut(ScopeOrDeclId) -> bool` is the trait bound `FnMut<(ScopeOrDeclId,), Output = bool>`, whose only method is '
     '`call_mut(&mut self, (ScopeOrDeclId,)) -> bool`. The bound is renamed to the unit trait `DeclVisitor` with the method '
     '`visit(&mut self, ScopeOrDeclId) -> bool` of the same shape. Verus rejects closures that capture `&mut` and cannot state how an '
     'FnMut value changes across a call; the trait states it (spec fns `step` / `stops`): a visitor is ANY deterministic state machine, '
     'which covers every FnMut closure without interior mutability / IO. The two closures of this file are instances (c13-closure-visitor)'),
    ('c13-fnmut-visitor-call', r'(?<![\w.])f\(', 'f.visit(',
     '`f(x)` with `f: &mut F`, `F: FnMut(A) -> B` is sugar for `FnMut::call_mut(&mut *f, (x,))` (Rust reference, call expressions); '
     'after c13-fnmut-visitor-bound that method is `DeclVisitor::visit`'),
    ('c13-rev-range', r'for (\w+) in \(([\w.]+?)\.\.=([\w.]+?)\)\.rev\(\) \{',
     r'let mut __ri: usize = \3 + 1; while __ri > \2 { __ri -= 1; let \1 = __ri;',
     '`for i in (A..=B).rev() { BODY }` -> `let mut __ri = B + 1; while __ri > A { __ri -= 1; let i = __ri; BODY }`: std, Rev over '
     'RangeInclusive<usize> yields B, B-1, .., A (nothing if A > B). `B + 1` cannot wrap: Verus checks the addition (obligation). A '
     '`continue` in BODY jumps to the loop head, where the counter is decremented before use, exactly as the iterator would step'),
]


CHILD_LOOP = """invariant
                    it.seq().len() == ks.len(), forall|j: int| 0 <= j < ks.len() ==> *it.seq()[j] == ks[j],
                    f.inv(), run::<F>(f0, decls_from(ks, 0)) == run::<F>(f.state(), decls_from(ks, it.index@ as int)),
                    (scope.id.id as int) < self.scopes@.len() && m_expose(self.scopes@, scope.id.id as int) == decls_from(ks, 0),
                    (scope.id.id as int) < self.scopes@.len(), *scope == self.scopes@[scope.id.id as int], ks == scope.children@, f0 == old(f).state(),"""
CHILD_DONE = "proof { assert(decls_from(ks, ks.len() as int) =~= Seq::empty()); lemma_run_empty::<F>(f.state()); }"
CHILD_STEP = "proof { lemma_child_step::<F>(f.state(), ks, it.index@ as int); }"
CHILD_REV_LOOP = """invariant
                    __vk <= ks.len(), __vs@ == ks, f.inv(),
                    (scope.id.id as int) < self.scopes@.len() && m_expose(self.scopes@, scope.id.id as int) == decls_rev(ks, ks.len() as int),
                    run::<F>(f0, decls_rev(ks, ks.len() as int)) == run::<F>(f.state(), decls_rev(ks, __vk as int)),
                    (scope.id.id as int) < self.scopes@.len(), *scope == self.scopes@[scope.id.id as int], ks == scope.children@, f0 == old(f).state(),
                decreases __vk"""
CHILD_REV_DONE = "proof { assert(decls_rev(ks, 0) =~= Seq::empty()); lemma_run_empty::<F>(f.state()); }"
CHILD_REV_STEP = "proof { lemma_child_rev_step::<F>(f.state(), ks, __vk as int + 1); }"
RPOS_LOOP = """invariant_except_break
                    cut is None,
                    forall|j: int| __rk <= j < ks.len() ==> !before(ss, ks[j], p),
                invariant
                    __rk <= ks.len(), children@ == ks, ss == self.scopes@, p == position.raw as int, links_wf(ss),
                ensures
                    cut matches Some(c) ==> c < ks.len() && before(ss, ks[c as int], p) && (forall|j: int| c < j < ks.len() ==> !before(ss, ks[j], p)),
                    cut is None ==> forall|j: int| 0 <= j < ks.len() ==> !before(ss, ks[j], p),
                decreases __rk"""
WALK_LOOP = """invariant
                    __ri <= cut + 1, cut < ks.len(), children@ == ks, ss == self.scopes@, links_wf(ss), f.inv(),
                    (scope.id.id as int) < ss.len(), *scope == ss[scope.id.id as int], ks == scope.children@, p == position.raw as int,
                    cut as int == m_cut(ss, ks, p, ks.len() as int), f0 == old(f).state(),
                    run::<F>(f0, m_walk(ss, ks, cut as int)) == run::<F>(f.state(), m_walk(ss, ks, __ri as int - 1)),
                decreases __ri"""
WALK_STEP = "proof { lemma_walk_step::<F>(f.state(), ss, ks, i as int); }"
VISIT_FIRST = """let ghost f0 = f.state(); let ghost ss = self.scopes@; let ghost i = scope.id.id as int; let ghost p = position.raw as int;
        proof {
            let a = if first_scope(ss, i) >= 0 { m_search(ss, first_scope(ss, i), p) } else { Seq::<ScopeOrDeclId>::empty() };
            lemma_visit_segments::<F>(f0, a, m_search(ss, i, p), m_up(ss, i, p));
            lemma_visit_unfold(ss, i, p, is_entry);
        }"""
FIND_OUTER = """invariant
                    links_wf(self.scopes@), (scope.id.id as int) < self.scopes@.len(), *scope == self.scopes@[scope.id.id as int],
                    inside(self.scopes@, scope.id.id as int, position.raw as int),
                ensures
                    (scope.id.id as int) < self.scopes@.len(), *scope == self.scopes@[scope.id.id as int],
                    is_leaf(self.scopes@, scope.id.id as int, position.raw as int),
                decreases self.scopes@.len() - scope.id.id"""
FIND_INNER = """invariant_except_break
                    child_scope is None,
                    forall|j: int| 0 <= j < __fk ==> (#[trigger] scope.children@[j] matches ScopeOrDeclId::Scope(sid) ==> !rng(self.scopes@, sid.id as int, position.raw as int)),
                invariant
                    __fk <= __fs@.len(), __fs@ == scope.children@, links_wf(self.scopes@),
                    (scope.id.id as int) < self.scopes@.len(), *scope == self.scopes@[scope.id.id as int],
                ensures
                    child_scope matches Some(c) ==> scope.id.id < c.id.id && (c.id.id as int) < self.scopes@.len() && *c == self.scopes@[c.id.id as int]
                        && rng(self.scopes@, c.id.id as int, position.raw as int),
                    child_scope is None ==> forall|j: int| 0 <= j < scope.children@.len() ==>
                        (#[trigger] scope.children@[j] matches ScopeOrDeclId::Scope(sid) ==> !rng(self.scopes@, sid.id as int, position.raw as int)),
                decreases __fs@.len() - __fk"""

# ---- the property-level contracts ------------------------------------------------------------------------------------------------------
SS = 'self.scopes@'
P = 'position.raw as int'
def _found(lua):
    return ('(r matches Some(d) ==> exists|id: LuaDeclId| self.decls@.contains_key(id) && d == &self.decls@[id] && dname(d) == name@ '
            '&& visible(self.scopes@, id, position.raw as int, %s))' % lua)


def _latest(lua):
    return ('(r matches Some(d) ==> exists|id: LuaDeclId| self.decls@.contains_key(id) && d == &self.decls@[id] && dname(d) == name@ '
            '&& forall|id2: LuaDeclId| self.decls@.contains_key(id2) && #[trigger] visible(self.scopes@, id2, position.raw as int, %s) '
            '&& dname(&self.decls@[id2]) == name@ ==> pos_of(id2) <= pos_of(id))' % lua)


def _none(lua):
    return ('(r is None ==> forall|id: LuaDeclId| self.decls@.contains_key(id) && #[trigger] visible(self.scopes@, id, position.raw as int, %s) '
            '==> dname(&self.decls@[id]) != name@)' % lua)


_TW = 'tree_wf(self.scopes@)'
_HD = 'in_header(self.scopes@, position.raw as int)'
_find = ["""self.scopes@.len() == 0 ==> r is None""",
         """// the traversal model: the visitor is fed the trace m_visit from the innermost scope around the position (needs links_wf only)
            self.scopes@.len() > 0 ==> exists|l: int| is_leaf(self.scopes@, l, position.raw as int)
                && r == run::<FindVisitor>((self, name@, None::<&LuaDecl>), m_visit(self.scopes@, l, position.raw as int, true)).0.2 /*@C13.lookup.model*/"""]
if HDR:
    _find.append('// Some(d): d is a declaration of the tree with that name that Lua\'s scoping makes visible at the position (EVERY position)\n'
                 '            %s ==> %s /*@C13.lookup.returns-the-visible-declaration*/' % (_TW, _found('true')))
else:
    _find.append('// Some(d): d is a declaration of the tree with that name that Lua\'s scoping makes visible at the position\n'
                 '            (%s && !%s) ==> %s /*@C13.lookup.returns-the-visible-declaration*/' % (_TW, _HD, _found('true')))
_find.append('// None: no declaration with that name is visible there (the caller falls back to the global)\n'
             '            %s ==> %s /*@C13.lookup.none-iff-no-visible-local*/' % (_TW, _none('true')))
if DUP:
    _find.append('// (i) + (vi) shadowing: among the visible declarations with that name the one declared latest is returned\n'
                 '            %s ==> %s /*@C13.lookup.latest-visible-declaration-wins*/' % (_TW, _latest('true')))
else:
    _find.append('// (i) shadowing: among the visible declarations with that name the one declared latest is returned\n'
                 '            (%s && no_dup_named(self, name@)) ==> %s /*@C13.lookup.latest-visible-declaration-wins*/' % (_TW, _latest('true')))
_find += ['// what the code does at EVERY position, in its own reading of `visible` (region(.., lua = false)); used by the witnesses\n'
          '            %s ==> %s /*@C13.lookup.code-reading.found*/' % (_TW, _found('false')),
          '%s ==> %s /*@C13.lookup.code-reading.none*/' % (_TW, _none('false')),
          '(%s && (dup_fixed() || no_dup_named(self, name@))) ==> %s /*@C13.lookup.code-reading.latest*/' % (_TW, _latest('false'))]
if not HDR:
    _find.append('// ---- remaining case of returns-the-visible-declaration: FINDING on today\'s tree ----\n'
                 '            // (iv) a position in the header of a numeric / generic for (or in a closure inside it): loop variables are not visible there\n'
                 '            (%s && %s) ==> %s /*@C13.lookup.loop-variable-not-visible-in-loop-header*/' % (_TW, _HD, _found('true')))
if not DUP:
    _find.append('// ---- remaining case of latest-visible-declaration-wins: FINDING on today\'s tree ----\n'
                 '            // (vi) `local a, a = 1, 2`: the later of two names of one statement wins\n'
                 '            (%s && !no_dup_named(self, name@)) ==> %s /*@C13.lookup.duplicate-names-later-wins*/' % (_TW, _latest('true')))
FIND_ENSURES = ',\n            '.join(_find)
FIND_PROOF = """proof {
            let ss = self.scopes@; let l = scope.id.id as int; let p = position.raw as int;
            let t = m_visit(ss, l, p, true);
            lemma_find_run(self, name@, None, t);
            let r0 = run::<FindVisitor>((self, name@, None::<&LuaDecl>), t);
            assert(__v.state() == r0.0);
            if tree_wf(ss) {
                lemma_trace_is_visible(ss, l, p);
                assert forall|id: LuaDeclId| #[trigger] visible(ss, id, p, true) implies visible(ss, id, p, false) by { lemma_lua_vs_code(ss, id, p); }
                assert forall|id: LuaDeclId| !in_header(ss, p) && #[trigger] visible(ss, id, p, false) implies visible(ss, id, p, true) by { lemma_lua_vs_code(ss, id, p); }
                if r0.1 {
                    // stopped: at the first element that is a declaration of the tree with that name; it is in the trace, hence visible
                    let j = choose|j: int| 0 <= j < t.len() && find_hit(self, name@, t[j]) && r0.0.2 == Some(&self.decls@[t[j]->Decl_0])
                        && forall|j2: int| 0 <= j2 < j ==> !find_hit(self, name@, t[j2]);
                    assert(t.contains(t[j]));
                    let id = t[j]->Decl_0;
                    assert(visible(ss, id, p, false));
                    lemma_entry_ord(ss, l, p);
                    if dup_fixed() || no_dup_named(self, name@) {
                        assert forall|id2: LuaDeclId| self.decls@.contains_key(id2) && #[trigger] visible(ss, id2, p, false) && dname(&self.decls@[id2]) == name@
                            implies pos_of(id2) <= pos_of(id) by {
                            assert(t.contains(ScopeOrDeclId::Decl(id2)));
                            let b = choose|b: int| 0 <= b < t.len() && t[b] == ScopeOrDeclId::Decl(id2);
                            assert(find_hit(self, name@, t[b]));
                            lemma_first_is_latest(ss, t, j, b);
                            if !dup_fixed() && same_stmt(ss, t[j], t[b]) && id != id2 {
                                let s = choose|s: int| 0 <= s < ss.len() && kd(ss, s) == LuaScopeKind::LocalOrAssignStat
                                    && #[trigger] kids(ss, s).contains(t[j]) && kids(ss, s).contains(t[b]);
                                let k1 = choose|k1: int| 0 <= k1 < kids(ss, s).len() && kids(ss, s)[k1] == t[j];
                                let k2 = choose|k2: int| 0 <= k2 < kids(ss, s).len() && kids(ss, s)[k2] == t[b];
                                assert(is_decl_child(ss, s, k1, id) && is_decl_child(ss, s, k2, id2));
                                assert(false);
                            }
                        }
                    }
                } else {
                    // not stopped: a visible declaration with that name would be in the trace and would have stopped the visitor
                    assert forall|id: LuaDeclId| self.decls@.contains_key(id) && #[trigger] visible(ss, id, p, false) implies dname(&self.decls@[id]) != name@ by {
                        assert(t.contains(ScopeOrDeclId::Decl(id)));
                        let j = choose|j: int| 0 <= j < t.len() && t[j] == ScopeOrDeclId::Decl(id);
                        if dname(&self.decls@[id]) == name@ { assert(find_hit(self, name@, t[j])); }
                    }
                }
            }
        }"""
_ENV_EXACT = ('(r matches Some(v) && forall|id: LuaDeclId| #[trigger] v@.contains(id) <==> '
              '(visible(self.scopes@, id, position.raw as int, true) && !dself(&self.decls@[id])))')
_env = ['self.scopes@.len() == 0 ==> r is None', 'self.scopes@.len() > 0 ==> r is Some']
if HDR:
    _env.append('// exactly the declarations visible at the position (but the implicit `self`), at EVERY position\n'
                '            (%s && decls_wf(self)) ==> %s /*@C13.env.exactly-visible*/' % (_TW, _ENV_EXACT))
else:
    _env.append('// exactly the declarations visible at the position (but the implicit `self`)\n'
                '            (%s && decls_wf(self) && !%s) ==> %s /*@C13.env.exactly-visible*/' % (_TW, _HD, _ENV_EXACT))
_env.append('// closest first: the list is the order-preserving filter (env_list: drop the implicit self) of a sequence in closest-first order\n'
            '            // (`ordered`: a later element has a smaller position, or occurred before' + ('' if DUP else ', or is another name of the same statement') + ')\n'
            '            %s ==> (r matches Some(v) && exists|t: Seq<ScopeOrDeclId>| v@ == env_list(self, t) && ordered(self.scopes@, t)) /*@C13.env.closest-first*/' % _TW)
if not HDR:
    _env.append('// ---- remaining case of C13.env.exactly-visible: FINDING on today\'s tree (same defect as C13.lookup.loop-variable-...) ----\n'
                '            (%s && decls_wf(self) && %s) ==> %s /*@C13.env.loop-variable-not-visible-in-loop-header*/' % (_TW, _HD, _ENV_EXACT))
ENV_ENSURES = ',\n            '.join(_env)
ENV_PROOF = """proof {
            let ss = self.scopes@; let l = scope.id.id as int; let p = position.raw as int;
            let t = m_visit(ss, l, p, true);
            lemma_env_run(self, Seq::empty(), t);
            assert(Seq::<LuaDeclId>::empty() + env_list(self, t) =~= env_list(self, t));
            if tree_wf(ss) { lemma_entry_ord(ss, l, p); assert(result@ == env_list(self, t) && ordered(ss, t)); }
            if tree_wf(ss) && decls_wf(self) {
                lemma_trace_is_visible(ss, l, p);
                assert forall|id: LuaDeclId| #[trigger] result@.contains(id) <==> (visible(ss, id, p, false) && !dself(&self.decls@[id])) by {
                    lemma_env_list_char(self, t, id);
                    if visible(ss, id, p, false) && !dself(&self.decls@[id]) {
                        let (s, k) = choose|s: int, k: int| 0 <= s < ss.len() && is_decl_child(ss, s, k, id) && region(ss, s, id, p, false);
                        assert(t.contains(ScopeOrDeclId::Decl(id)));
                        let j = choose|j: int| 0 <= j < t.len() && t[j] == ScopeOrDeclId::Decl(id);
                        assert(env_hit(self, t[j]) && did(&self.decls@[t[j]->Decl_0]) == id);
                    }
                    if result@.contains(id) {
                        let j = choose|j: int| 0 <= j < t.len() && env_hit(self, t[j]) && did(&self.decls@[t[j]->Decl_0]) == id;
                        assert(t.contains(t[j]));
                        let id2 = t[j]->Decl_0;
                        assert(visible(ss, id2, p, false));
                        let (s, k) = choose|s: int, k: int| 0 <= s < ss.len() && is_decl_child(ss, s, k, id2) && region(ss, s, id2, p, false);
                        assert(id2 == id);
                    }
                }
                assert forall|id: LuaDeclId| #[trigger] visible(ss, id, p, true) implies visible(ss, id, p, false) by { lemma_lua_vs_code(ss, id, p); }
                assert forall|id: LuaDeclId| !in_header(ss, p) && #[trigger] visible(ss, id, p, false) implies visible(ss, id, p, true) by { lemma_lua_vs_code(ss, id, p); }
            }
        }"""


def fn(name, impl='LuaDeclarationTree', file=TREE, **kw):
    d = {'src': {'file': file, 'kind': 'fn', 'impl': impl, 'name': name}}
    d.update(kw)
    return d


def _check_transcribed():
    """the one impl the extractor cannot address (fourth of four `impl From<..> for ScopeOrDeclId` blocks with the same header name):
    its text is compared with the transcription in the template on every run"""
    repo = os.environ.get('VERIF_REPO', '/repo')
    src = X.read_source(repo, SCOPE)
    if not re.search(r'impl From<&LuaDeclId> for ScopeOrDeclId \{\s*fn from\(decl_id: &LuaDeclId\) -> Self \{\s*Self::Decl\(\*decl_id\)\s*\}\s*\}', src):
        raise Undecided('scope.rs: `impl From<&LuaDeclId> for ScopeOrDeclId` is no longer `Self::Decl(*decl_id)` (transcribed shim out of date)')


_check_transcribed()

WF = 'links_wf(self.scopes@)'
SC = '(scope.id.id as int) < self.scopes@.len() && *scope == self.scopes@[scope.id.id as int]'

UNIT = {
    'extra_rules': EXTRA_RULES,
    'items': {
        'FileId': {'src': {'file': SRC + 'vfs/file_id.rs', 'kind': 'struct', 'name': 'FileId', 'drop_attrs': False}},
        'LuaDeclId': {'src': {'file': DID, 'kind': 'struct', 'name': 'LuaDeclId', 'drop_attrs': False}},
        'LuaScopeKind': {'src': {'file': SCOPE, 'kind': 'enum', 'name': 'LuaScopeKind', 'drop_attrs': False}, 'attrs': '#[derive(Structural)]'},
        'LuaScopeId': {'src': {'file': SCOPE, 'kind': 'struct', 'name': 'LuaScopeId', 'drop_attrs': False}},
        'ScopeOrDeclId': {'src': {'file': SCOPE, 'kind': 'enum', 'name': 'ScopeOrDeclId', 'drop_attrs': False}},
        'LuaScope': {'src': {'file': SCOPE, 'kind': 'struct', 'name': 'LuaScope'}, 'rules': [('struct-fields', {})]},
        'LuaScope::get_parent': fn('get_parent', 'LuaScope', SCOPE, ret='r', ensures='r == self.parent'),
        'LuaScope::get_children': fn('get_children', 'LuaScope', SCOPE, ret='r', ensures='r@ == self.children@'),
        'LuaScope::get_range': fn('get_range', 'LuaScope', SCOPE, ret='r', ensures='r == self.range'),
        'LuaScope::get_kind': fn('get_kind', 'LuaScope', SCOPE, ret='r', ensures='r == self.kind'),
        'LuaScope::get_position': fn('get_position', 'LuaScope', SCOPE, ret='r', ensures='r == self.range.start'),
        'LuaScope::get_id': fn('get_id', 'LuaScope', SCOPE, ret='r', ensures='r == self.id'),
        'ScopeOrDeclId::from_decl_id': {'src': {'file': SCOPE, 'kind': 'fn', 'impl': 'From for ScopeOrDeclId', 'name': 'from'}, 'pub': False,
                                        'ret': 'r', 'ensures': 'r == ScopeOrDeclId::Decl(decl_id)'},
        'LuaDeclarationTree': {'src': {'file': TREE, 'kind': 'struct', 'name': 'LuaDeclarationTree'}, 'rules': [('struct-fields', {})]},
        'LuaDeclarationTree::get_decl': fn(
            'get_decl', ret='r', requires='keys_ok()',
            ensures='r == (if self.decls@.contains_key(*decl_id) { Some(&self.decls@[*decl_id]) } else { None::<&LuaDecl> })'),
        'LuaDeclarationTree::get_scope': fn(
            'get_scope', ret='r',
            ensures='r == (if (scope_id.id as int) < self.scopes@.len() { Some(&self.scopes@[scope_id.id as int]) } else { None::<&LuaScope> })'),

        # ---- the writers of the tree (its API; the builder that calls them walks rowan ASTs and stays outside) ---------------------------
        'LuaScope::new': fn('new', 'LuaScope', SCOPE, ret='r',
                            ensures='r.parent is None, r.children@.len() == 0, r.range == range, r.kind == kind, r.id == id'),
        'LuaScope::add_decl': fn('add_decl', 'LuaScope', SCOPE,
                                 ensures='final(self).children@ == old(self).children@.push(ScopeOrDeclId::Decl(decl)), final(self).parent == old(self).parent, '
                                         'final(self).range == old(self).range, final(self).kind == old(self).kind, final(self).id == old(self).id /*@C13.tree.decls-appended-in-order*/'),
        'LuaScope::add_child': fn('add_child', 'LuaScope', SCOPE,
                                  ensures='final(self).children@ == old(self).children@.push(ScopeOrDeclId::Scope(child)), final(self).parent == old(self).parent, '
                                          'final(self).range == old(self).range, final(self).kind == old(self).kind, final(self).id == old(self).id /*@C13.tree.scopes-appended-in-order*/'),
        'LuaScope::set_parent': fn('set_parent', 'LuaScope', SCOPE,
                                   ensures='final(self).parent == parent, final(self).children == old(self).children, '
                                           'final(self).range == old(self).range, final(self).kind == old(self).kind, final(self).id == old(self).id'),
        'LuaDeclarationTree::create_scope': fn(
            'create_scope', ret='r',
            requires='old(self).scopes@.len() < u32::MAX, ids_are_indices(old(self).scopes@)',
            ensures="""r.id as int == old(self).scopes@.len(), final(self).scopes@.len() == old(self).scopes@.len() + 1,
            final(self).scopes@.drop_last() == old(self).scopes@, final(self).scopes@.last().parent is None, final(self).scopes@.last().children@.len() == 0,
            final(self).scopes@.last().range == range && final(self).scopes@.last().kind == kind,
            ids_are_indices(final(self).scopes@) /*@C13.tree.ids-are-indices*/, final(self).decls == old(self).decls""",
            proof=[(r'scope_id\s*\}\s*$', 'before', 'proof { assert(self.scopes@.drop_last() =~= old(self).scopes@); }')]),
        'LuaDeclarationTree::add_decl': fn(
            'add_decl', ret='r', requires='keys_ok()',
            ensures="""r == did(&decl), final(self).decls@ == old(self).decls@.insert(did(&decl), decl) /*@C13.tree.decl-key-is-its-id*/,
            final(self).scopes == old(self).scopes"""),
        # ---- the traversal ------------------------------------------------------------------------------------------------------------
        'LuaDeclarationTree::visit_child_scope': fn(
            'visit_child_scope', ret='r',
            rules=['c13-fnmut-visitor-bound', ('c13-fnmut-visitor-call', {'count': 2})] + (['c13-rev-slice-for'] if DUP else []),
            requires=WF + ', ' + SC + ', old(f).inv()',
            ensures='final(f).inv(), (final(f).state(), r) == run::<F>(old(f).state(), m_expose(self.scopes@, scope.id.id as int)) /*@C13.expose.model*/',
            body_first='let ghost f0 = f.state(); let ghost ks = scope.children@;',
            iter_names=({0: 'it'} if DUP else {0: 'it', 1: 'it'}),
            loops={0: CHILD_LOOP, 1: (CHILD_REV_LOOP if DUP else CHILD_LOOP)},
            proof=[(r'false\s*\}\s*LuaScopeKind::LocalOrAssignStat', 'before', CHILD_DONE),
                   (r'false\s*\}\s*_ => false', 'before', (CHILD_REV_DONE if DUP else CHILD_DONE)),
                   (r'(?s)if let ScopeOrDeclId::Decl\(decl_id\) = child(?=.*LuaScopeKind::LocalOrAssignStat)', 'before', CHILD_STEP),
                   (r'(?s)if let ScopeOrDeclId::Decl\(decl_id\) = child(?!.*LuaScopeKind::LocalOrAssignStat)', 'before', (CHILD_REV_STEP if DUP else CHILD_STEP))]),
        'LuaDeclarationTree::search_scope_children': fn(
            'search_scope_children', ret='r',
            rules=['c13-fnmut-visitor-bound', ('c13-fnmut-visitor-call', {'count': 1}), 'c13-rposition-loop', 'c13-rev-range'],
            requires=WF + ', ' + SC + ', old(f).inv()',
            ensures='final(f).inv(), (final(f).state(), r) == run::<F>(old(f).state(), m_search(self.scopes@, scope.id.id as int, position.raw as int)) /*@C13.search.model*/',
            body_first='let ghost f0 = f.state(); let ghost ss = self.scopes@; let ghost ks = scope.children@; let ghost p = position.raw as int;',
            loops={0: RPOS_LOOP, 1: WALK_LOOP},
            proof=[(r'let Some\(cut\) = cut else \{', 'before', 'proof { if cut is None { lemma_cut_none(ss, ks, p, ks.len() as int); } }'),
                   (r'// Walk children in reverse source order', 'before', 'proof { lemma_cut_some(ss, ks, p, ks.len() as int, cut as int); }'),
                   (r'match children\.get\(', 'before', WALK_STEP),
                   (r'false\s*\}\s*$', 'before', 'proof { lemma_run_empty::<F>(f.state()); }')]),
        'LuaDeclarationTree::visit_visible_decls': fn(
            'visit_visible_decls', rules=['c13-fnmut-visitor-bound'],
            requires=WF + ', ' + SC + ', old(f).inv()',
            ensures='final(f).inv(), final(f).state() == run::<F>(old(f).state(), m_visit(self.scopes@, scope.id.id as int, position.raw as int, is_entry)).0 /*@C13.visit.model*/',
            decreases='(if is_entry { 1int } else { 0int }), (if is_entry { self.scopes@.len() - scope.id.id } else { scope.id.id as int }) /*@C13.lookup.total*/',
            body_first=VISIT_FIRST),
        'LuaDeclarationTree::is_in_loop_body': fn(
            'is_in_loop_body', ret='r', requires=WF + ', ' + SC,
            ensures='r == in_body(self.scopes@, scope.id.id as int, position.raw as int) /*@C13.loop-body.is-the-loop-body-block*/'),
        'LuaDeclarationTree::find_scope': fn(
            'find_scope', ret='r', rules=[('c13-filter-map-find-loop', {'ty': 'Option<&LuaScope>'})],
            requires=WF,
            ensures="""self.scopes@.len() == 0 ==> r is None,
            self.scopes@.len() > 0 ==> (r matches Some(s) && (s.id.id as int) < self.scopes@.len() && *s == self.scopes@[s.id.id as int]
                && is_leaf(self.scopes@, s.id.id as int, position.raw as int)) /*@C13.find-scope.innermost*/,
            // ... and, in a well-formed tree, every scope around the position is that scope or one of its ancestors
            tree_wf(self.scopes@) ==> (r matches Some(s) && forall|a: int| 0 <= a < self.scopes@.len() && #[trigger] inside(self.scopes@, a, position.raw as int)
                ==> is_anc(self.scopes@, a, s.id.id as int)) /*@C13.find-scope.innermost.all-enclosing-scopes-are-ancestors*/""",
            body_first='proof { if tree_wf(self.scopes@) { wf_basic(self.scopes@); } }',
            loops={0: FIND_OUTER, 1: FIND_INNER},
            proof=[(r'Some\(scope\)\s*\}\s*$', 'before', '''proof {
            if tree_wf(self.scopes@) {
                assert forall|a: int| 0 <= a < self.scopes@.len() && #[trigger] inside(self.scopes@, a, position.raw as int)
                    implies is_anc(self.scopes@, a, scope.id.id as int) by { lemma_leaf_innermost(self.scopes@, scope.id.id as int, a, position.raw as int); }
            }
        }'''),
                   (r'let child = &__fs\[__fk\];', 'before',
                    'proof { let c = kids(self.scopes@, scope.id.id as int)[__fk as int]; assert(c == scope.children@[__fk as int]); }')]),
        # ---- the two visitor closures (statement slices) and their hosts ---------------------------------------------------------------
        'LuaDeclarationTree::find_local_decl::visitor': {
            'src': {'kind': 'slice', 'name': 'find_local_decl__visitor', 'in': {'file': TREE, 'kind': 'fn', 'impl': 'LuaDeclarationTree', 'name': 'find_local_decl'},
                    'from': r'match decl_id \{', 'to': r'\n {12}false',
                    'head': "pub fn find_local_decl__visitor<'a>(&'a self, name: &str, result: &mut Option<&'a LuaDecl>, decl_id: ScopeOrDeclId) -> bool"},
            'rules': ['c13-captured-assign'], 'ret': 'r', 'requires': 'keys_ok()',
            'ensures': """r == find_hit(self, name@, decl_id) /*@C13.lookup.visitor-stops-at-the-name*/,
            *final(result) == (if r { Some(&self.decls@[decl_id->Decl_0]) } else { *old(result) })"""},
        'LuaDeclarationTree::get_env_decls::visitor': {
            'src': {'kind': 'slice', 'name': 'get_env_decls__visitor', 'in': {'file': TREE, 'kind': 'fn', 'impl': 'LuaDeclarationTree', 'name': 'get_env_decls'},
                    'from': r'match decl_id \{', 'to': r'\n {12}false',
                    'head': 'pub fn get_env_decls__visitor(&self, result: &mut Vec<LuaDeclId>, decl_id: ScopeOrDeclId) -> bool'},
            'ret': 'r', 'requires': 'keys_ok()',
            'ensures': """!r /*@C13.env.visitor-never-stops*/,
            final(result)@ == (if env_hit(self, decl_id) { old(result)@.push(did(&self.decls@[decl_id->Decl_0])) } else { old(result)@ })"""},
        'LuaDeclarationTree::find_local_decl': fn(
            'find_local_decl', ret='r',
            rules=[('c13-closure-visitor', {'ctor': 'FindVisitor { this: self, name, result }', 'writeback': 'result = __v.result',
                                            'body_from': r'match decl_id \{', 'body_to': r'\n {12}false'})],
            requires=WF + ', keys_ok()',
            ensures=FIND_ENSURES, attrs='#[verifier::spinoff_prover]',
            body_first='proof { if tree_wf(self.scopes@) { wf_basic(self.scopes@); } }',
            proof=[(r'result = __v\.result;', 'after', FIND_PROOF)]),
        'LuaDeclarationTree::get_env_decls': fn(
            'get_env_decls', ret='r',
            rules=[('c13-closure-visitor', {'ctor': 'EnvVisitor { this: self, result }', 'writeback': 'result = __v.result',
                                            'body_from': r'match decl_id \{', 'body_to': r'\n {12}false'})],
            requires=WF + ', keys_ok()',
            ensures=ENV_ENSURES, attrs='#[verifier::spinoff_prover]',
            body_first='proof { if tree_wf(self.scopes@) { wf_basic(self.scopes@); } }',
            proof=[(r'result = __v\.result;', 'after', ENV_PROOF)]),
    },
    'allow': [r'external_body', r'uninterp'],
    'min_obligations': 120,
    'timeout': 900,
    'trusted': [
        'ASSUMPTION tree_wf (scope_spec.rs, spelled out there clause by clause; derived from compilation/analyzer/decl/{mod,stats,exprs}.rs, which walk rowan ASTs '
        'and stay outside the unit): non-empty; ids are indices, parent id < child id, parent <-> child links agree (links_wf: also guaranteed by create_scope / '
        'add_child_scope themselves); every non-root scope is listed by its parent; ranges are ranges, child range inside parent range, sibling scopes disjoint; '
        'children of every scope but a LocalOrAssignStat one are in source order (each ends before the next starts; a declaration occupies >= 1 char); a Repeat scope '
        'holds only scopes, its first child is the body block (Normal) which holds no declaration directly; statement scopes (LocalOrAssignStat / FuncStat / MethodStat) '
        'are not empty, are direct children of a Normal scope (block) and their declarations are name tokens inside the statement; a function statement holds at most one '
        'declaration, in front of its closure, and starts before the closure; the names of one local/assignment statement are listed in source order; the declarations '
        'held by a scope lie after the scope\'s previous sibling and inside its parent (not necessarily inside the scope: implicit `self` sits at the colon). '
        'Satisfiable: proved for five concrete trees (witness.rs). Holds for trees of syntactically valid programs; the no-panic / termination / traversal-model '
        'clauses need links_wf only',
        '%%READING%%',
        'ASSUMPTION decls_wf (only for C13.env.exactly-visible): every declaration id listed in a scope is a key of `decls` and decls[id].get_id() == id '
        '(DeclAnalyzer::add_decl; the key half is proved for LuaDeclarationTree::add_decl: C13.tree.decl-key-is-its-id)',
        'LuaDecl is opaque: get_name / get_id / is_implicit_self are uninterpreted functions of the declaration (external_body shims, weakest contract of a pure getter)',
        'hash-map key model for LuaDeclId (obeys_key_model, a precondition: derived Eq + Hash over two u32 newtypes); hashbrown -> std HashMap (get / insert only, no iteration)',
        '`impl From<&LuaDeclId> for ScopeOrDeclId` is transcribed (the extractor cannot address the 3rd of 4 impl blocks with one header name); unit.py compares it with scope.rs on every run',
        'text-size shim (units/common/textsize.rs); plain-Rust Hash / Debug impls for the shim so that the extracted derives compile',
        'rewrite rules: c13-fnmut-visitor-bound / -call (FnMut(ScopeOrDeclId) -> bool as the unit trait DeclVisitor: a deterministic state machine step/stops), '
        'c13-closure-visitor + c13-captured-assign (closure conversion of the two visitor closures; bodies extracted as statement slices, the rule checks body == slice), '
        'c13-filter-map-find-loop, c13-rposition-loop, c13-rev-range (std docs of the adapters), letchain-nest, is-some-and; the glue `DeclVisitor::visit` impls of '
        'FindVisitor / EnvVisitor (template) forward to the slices',
        'the five `witness_*` functions (witness.rs) are verified TESTS written by hand: they build the tree of a 2-line Lua program (hand-traced through the builder) and '
        'call the real find_local_decl',
    ],
    'not_covered': [
        'the builder: compilation/analyzer/decl/{mod,stats,exprs}.rs (walk_node_enter / leave, analyze_*_stat, analyze_closure_expr): that it produces a tree_wf / decls_wf tree '
        'is ASSUMED; LuaDeclarationTree::{add_decl_to_scope, add_child_scope} (Vec::get_mut is outside the dialect)',
        'the global fallback (LuaGlobalIndex, SemanticModel::find_decl), the mapping token -> (name, position) and every LSP handler (definition, hover, references, completion)',
        'whether a returned declaration is a Local / Param / ImplicitSelf or an in-file Global declaration (`x = 1` creates a Global LuaDecl that the tree treats like a local)',
        'trees of programs with syntax errors (tree_wf may fail; no-panic / termination / model clauses still hold: they need links_wf only)',
        'order of get_env_decls is stated on the trace (C13.env.closest-first: the list is env_list of an `ordered` trace); repetitions are allowed by `ordered` and do occur '
        '(names of a repeat body, name of a local function seen from its own body are listed twice; consumers dedupe by name)',
    ],
    'samples': [
        'find_local_decl(name, pos) = Some(d): d is a declaration of the tree named `name` with visible(tree, d, pos) [Lua reading], outside loop/function headers',
        'find_local_decl(name, pos) = None: no declaration named `name` is visible at pos (Lua reading) -> the caller falls back to the global',
        'find_local_decl returns the visible declaration with the LARGEST position (shadowing), if no statement declares the name twice',
        'find_scope(pos) = the scope around pos none of whose children is around pos; every scope around pos is it or an ancestor (lemma_leaf_innermost)',
        'visit_visible_decls / search_scope_children / visit_child_scope == the functional model m_visit / m_search / m_expose, terminate, under links_wf only',
    ],
    # genuine deviations of TODAY's code from the property (each one: a failing clause + a verified witness on a concrete tree + a regression test
    # in the proposed diff that fails on today's crate with exactly these values: 17 / 16 / 6 instead of 6 / 6 / 9)
    'findings': [
        {'clause': 'C13.lookup.loop-variable-not-visible-in-loop-header (+ C13.env.loop-variable-not-visible-in-loop-header)',
         'what': 'the loop variable of a NUMERIC for is visible in the loop header: ForStat gets a scope of kind Normal, and an entry at a Normal scope searches '
                 'its own declarations. `local n = 10  for n = 1, n do f() end`: find_local_decl("n", offset of the limit `n` = 24) returns the loop variable '
                 '(declared at 17); Lua selects `local n` (6). witness_numeric_for_header (verified)'},
        {'clause': 'C13.lookup.loop-variable-not-visible-in-loop-header',
         'what': 'closures in the header of a numeric OR generic for see the loop variables: the non-entry visit of a ForRange / Normal scope searches its own '
                 'declarations. `local k = 1  for k, v in f(function() return k end) do g() end`: find_local_decl("k", 44) returns the loop variable k (16); '
                 'Lua selects `local k` (6). witness_generic_for_header_closure (verified)'},
        {'clause': 'C13.lookup.duplicate-names-later-wins',
         'what': 'visit_child_scope walks the names of one statement FORWARD and the visitor stops at the first match: `local a, a = 1, 2  print(a)`: '
                 'find_local_decl("a", 24) returns the first `a` (6); Lua binds the second (9). witness_duplicate_names (verified)'},
    ],
    'mutants': [
        {'name': 'search-position-le', 'item': 'LuaDeclarationTree::search_scope_children',
         'pattern': r'decl_id\.position < position', 'repl': 'decl_id.position <= position', 'expect': r'search_scope_children:'},
        {'name': 'no-statement-cutoff', 'item': 'LuaDeclarationTree::visit_visible_decls',
         'pattern': r'self\.visit_visible_decls\(parent, cutoff, false, f\);', 'repl': 'self.visit_visible_decls(parent, position, false, f);',
         'expect': r'visit_visible_decls.*C13\.visit\.model'},
        {'name': 'no-statement-cutoff-from-closure', 'item': 'LuaDeclarationTree::visit_visible_decls',
         'pattern': r'(let cutoff = scope\.get_position\(\);.*?let cutoff = )scope\.get_position\(\);', 'repl': r'\1position;',
         'expect': r'visit_visible_decls.*C13\.visit\.model'},
        {'name': 'walk-children-forward', 'item': 'LuaDeclarationTree::search_scope_children',
         'pattern': r'match children\.get\(i\) \{', 'repl': 'match children.get(cut - i) {', 'expect': r'search_scope_children.*C13\.search\.model'},
        {'name': 'expose-normal-child-block', 'item': 'LuaDeclarationTree::visit_child_scope',
         'pattern': r'LuaScopeKind::LocalOrAssignStat => \{', 'repl': 'LuaScopeKind::LocalOrAssignStat | LuaScopeKind::Normal => {',
         'expect': r'visit_child_scope:'},
        {'name': 'for-range-entry-searches-itself', 'item': 'LuaDeclarationTree::visit_visible_decls',
         'pattern': r'LuaScopeKind::ForRange => \{.*?false\s*\}\s*_ => true,', 'repl': '_ => true,', 'expect': r'visit_visible_decls.*C13\.visit\.model'},
        {'name': 'repeat-until-does-not-see-body', 'item': 'LuaDeclarationTree::visit_visible_decls',
         'pattern': r'self\.visit_visible_decls\(child, position, true, f\);\s*return;', 'repl': '',
         'expect': r'visit_visible_decls.*C13\.visit\.model'},
        {'name': 'recurse-on-the-same-scope', 'item': 'LuaDeclarationTree::visit_visible_decls',
         'pattern': r'self\.visit_visible_decls\(parent, position, false, f\);(\s*\}\s*\}\s*\}\s*)$', 'repl': r'self.visit_visible_decls(scope, position, false, f);\1',
         'expect': r'visit_visible_decls:(decreases|could-not-prove-termination)'},
        {'name': 'find-scope-end-inclusive', 'item': 'LuaDeclarationTree::find_scope',
         'pattern': r'\.contains\(position\)', 'repl': '.contains_inclusive(position)', 'expect': r'find_scope:'},
        {'name': 'find-visitor-any-name', 'item': 'LuaDeclarationTree::find_local_decl::visitor',
         'pattern': r'if decl\.get_name\(\) == name \{', 'repl': 'if decl.get_name() != name {', 'expect': r'C13\.lookup\.visitor-stops-at-the-name'},
        {'name': 'env-visitor-stops', 'item': 'LuaDeclarationTree::get_env_decls::visitor',
         'pattern': r'\n {12}false', 'repl': '\n            true', 'expect': r'C13\.env\.visitor-never-stops'},
    ],
}


# ---- shape-dependent parts ---------------------------------------------------------------------------------------------------------------
if not TRAV:
    del UNIT['items']['LuaDeclarationTree::is_in_loop_body']


def _template():
    d = os.path.dirname(os.path.abspath(__file__))
    with open(os.path.join(d, 'template.rs'), encoding='utf-8') as f:
        t = f.read()
    with open(os.path.join(d, 'witness.rs'), encoding='utf-8') as f:
        w = f.read()
    b = lambda v: 'true' if v else 'false'
    cfg = ('/// visit_child_scope walks the names of a LocalOrAssignStat scope last first\n'
           'pub open spec fn dup_fixed() -> bool { %s }\n'
           '/// visit_visible_decls searches a ForRange scope, when it is not the entry scope, only from its body (is_in_loop_body)\n'
           'pub open spec fn hdr_trav() -> bool { %s }\n'
           '/// the builder gives the numeric for (LuaForStat) the scope kind ForRange\n'
           'pub open spec fn enc_for() -> bool { %s }\n'
           '/// the builder gives the body block of a for / repeat statement the scope kind LoopBody and the traversal identifies the body by it\n'
           'pub open spec fn body_kind() -> bool { %s }\n'
           'pub open spec fn is_lbk(k: LuaScopeKind) -> bool { %s }' % (b(DUP), b(TRAV), b(ENC), b(BODY), 'k == LuaScopeKind::LoopBody' if BODY else 'false'))
    t = t.replace('//%%C13_CONFIG%%', cfg)
    t = t.replace('//%%C13_LOOP_BODY%%', '//@@ LuaDeclarationTree::is_in_loop_body' if TRAV else '')
    t = t.replace('//%%C13_WITNESSES%%', w.replace('W_FOR_KIND', 'LuaScopeKind::ForRange' if ENC else 'LuaScopeKind::Normal')
                  .replace('W_BODY_KIND', 'LuaScopeKind::LoopBody' if BODY else 'LuaScopeKind::Normal'))
    return t


_READING_OLD = ('ASSUMPTION (reading of "body", only while the builder does not mark body blocks, !body_kind()): the BODY of a for scope is its LAST child '
                'scope, the body of a repeat scope its FIRST child scope. False while the tree is being built (the header closure is the last child: '
                'replay/c13 finding L1, witness_header_closure_while_the_tree_is_built) and for empty bodies, for which the parser creates no Block node '
                '(finding L2); repaired by proposed_fix_loop_body_identity.diff')
_READING_NEW = ('the body block of a for / repeat statement is identified by what it IS: the child scope of kind LoopBody (wf_body: the builder gives that kind '
                'to a Block whose parent node is a for / repeat statement; it is the last child of a for scope, the first child of a repeat scope; there is '
                'none for an empty body or while the header is analysed). No reading assumption about "which child is the body" is left; '
                'lemma_body_identity; a partly built tree is just another tree_wf tree (witness_header_closure_while_the_tree_is_built, '
                'witness_empty_repeat_condition)')
UNIT['trusted'] = [(_READING_NEW if BODY else _READING_OLD) if t == '%%READING%%' else t for t in UNIT['trusted']]
UNIT['template_text'] = _template()
UNIT['shape'] = {'dup_fixed': DUP, 'hdr_trav': TRAV, 'enc_for': ENC, 'body_kind': BODY}
# (reverting the reverse walk of the repaired visit_child_scope is not a text mutant: it IS today's shape, which the unit detects and on which it
# exits 1 exactly at C13.lookup.duplicate-names-later-wins)
if BODY:
    UNIT['mutants'] += [
        {'name': 'repaired-loop-body-kind-not-checked', 'item': 'LuaDeclarationTree::is_in_loop_body',
         'pattern': r'body\.get_kind\(\) == LuaScopeKind::LoopBody && ', 'repl': '', 'expect': r'is_in_loop_body:'},
        {'name': 'repaired-repeat-body-kind-not-checked', 'item': 'LuaDeclarationTree::visit_visible_decls',
         'pattern': r'\s*&& child\.get_kind\(\) == LuaScopeKind::LoopBody', 'repl': '', 'expect': r'visit_visible_decls.*C13\.visit\.model'},
        {'name': 'repaired-repeat-body-kind-not-checked-from-closure', 'item': 'LuaDeclarationTree::visit_visible_decls',
         'pattern': r'\s*&& body\.get_kind\(\) == LuaScopeKind::LoopBody', 'repl': '', 'expect': r'visit_visible_decls.*C13\.visit\.model'},
    ]
if TRAV:
    UNIT['mutants'] += [
        {'name': 'repaired-loop-body-guard-dropped', 'item': 'LuaDeclarationTree::visit_visible_decls',
         'pattern': r'scope\.get_kind\(\) != LuaScopeKind::ForRange \|\| self\.is_in_loop_body\(scope, position\)', 'repl': 'true',
         'expect': r'visit_visible_decls.*C13\.visit\.model'},
        {'name': 'repaired-loop-body-is-the-first-child', 'item': 'LuaDeclarationTree::is_in_loop_body',
         'pattern': r'scope\.get_children\(\)\.last\(\)', 'repl': 'scope.get_children().first()', 'expect': r'is_in_loop_body:'},
    ]
