LIB = 'crates/emmylua_code_analysis/src/lib.rs'
COMP = 'crates/emmylua_code_analysis/src/compilation/mod.rs'
DB = 'crates/emmylua_code_analysis/src/db_index/mod.rs'
UNIT = {
    'items': {
        'DbIndex::remove_index': {
            'src': {'file': DB, 'kind': 'fn', 'impl': 'DbIndex', 'name': 'remove_index'},
            'ensures': '''final(self).removed@ == old(self).removed@ + file_ids@ /*@C10.entry.remove-index-removes-every-listed-file*/,
            final(self).vfs == old(self).vfs''',
            'iter_names': {0: 'it'},
            'loops': {0: '''invariant
                self.removed@ == old(self).removed@ + file_ids@.take(it.index@ as int) /*@C10.entry.remove-index-removes-every-listed-file.inv*/,
                self.vfs == old(self).vfs,'''},
            'proof': [(r'self\.remove\(file_id\);', 'after',
                       'proof { assert(file_ids@.take(it.index@ + 1) =~= file_ids@.take(it.index@ as int).push(file_id)); }'),
                      (r'\}\s*$', 'before', 'proof { assert(file_ids@.take(file_ids@.len() as int) =~= file_ids@); }')],
        },
        'LuaCompilation': {'src': {'file': COMP, 'kind': 'struct', 'name': 'LuaCompilation'},
                           'rules': [('struct-fields', {'keep': ['db']})]},
        'LuaCompilation::remove_index': {
            'src': {'file': COMP, 'kind': 'fn', 'impl': 'LuaCompilation', 'name': 'remove_index'},
            'ensures': '''final(self).db.removed@ == old(self).db.removed@ + file_ids@ /*@C10.entry.compilation-delegates*/,
            final(self).db.vfs == old(self).db.vfs''',
        },
        'EmmyLuaAnalysis': {'src': {'file': LIB, 'kind': 'struct', 'name': 'EmmyLuaAnalysis'},
                            'rules': [('struct-fields', {'keep': ['compilation']})]},
        'EmmyLuaAnalysis::remove_file_by_uri': {
            'src': {'file': LIB, 'kind': 'fn', 'impl': 'EmmyLuaAnalysis', 'name': 'remove_file_by_uri'},
            'ret': 'r',
            'ensures': '''r == sp_vfs_remove(&old(self).compilation.db.vfs, uri),
            final(self).compilation.db.vfs == sp_vfs_after_remove(&old(self).compilation.db.vfs, uri),
            // whatever file the Vfs withdrew is removed from EVERY index, unconditionally (no look at the module index, the
            // workspace roots or the uri scheme); nothing else is removed
            r matches Some(id) ==> final(self).compilation.db.removed@ == old(self).compilation.db.removed@.push(id) /*@C10.entry.withdrawn-file-is-removed-from-the-index*/,
            r is None ==> final(self).compilation.db.removed@ == old(self).compilation.db.removed@ /*@C10.entry.nothing-else-removed*/''',
            'proof': [(r'self\.compilation\.remove_index\(vec!\[[^\]]*\]\);', 'before',
                       'let ghost mid = self.compilation.db.removed@; proof { assert(mid == old(self).compilation.db.removed@); }'),

                      (r'return Some\(file_id\);', 'before',
                       'proof { assert(seq![file_id] =~= Seq::<FileId>::empty().push(file_id)); assert(mid + seq![file_id] =~= mid.push(file_id)); assert(self.compilation.db.removed@ =~= mid.push(file_id)); }')],
        },
    },
    'allow': [r'external_body', r'uninterp spec fn sp_'],
    'min_obligations': 3,
    'trusted': ['DbIndex abstracted to its Vfs + a ghost log of LuaIndex::remove calls (the effect of one such call on the 14 indexes is units c10_remove / c10_remove2 / c10_module); '
                'Vfs::remove_file uninterpreted here (unit c22_vfs proves it); get_db_mut / get_vfs_mut are the plain field accessors (transcribed)'],
    'samples': ['remove_file_by_uri: the id the Vfs withdrew is pushed on the index-removal log, exactly once, on every path',
                'DbIndex::remove_index: log\' == log + file_ids (every listed id, in order)'],
    'not_covered': ['EmmyLuaAnalysis::update_files_by_uri / update_file_by_uri (closing a document = submitting None): the HashSet of touched ids is not under contract here',
                    'LuaCompilation::update_index (re-analysis)'],
    'mutants': [
        {'name': 'remove-index-skips-files-without-module', 'item': 'DbIndex::remove_index',
         'pattern': r'self\.remove\(file_id\);', 'repl': 'if file_id.id % 2 == 0 { self.remove(file_id); }', 'expect': r'C10\.entry\.remove-index-removes-every-listed-file'},
        {'name': 'compilation-does-not-delegate', 'item': 'LuaCompilation::remove_index',
         'pattern': r'self\.db\.remove_index\(file_ids\);', 'repl': '', 'expect': r'C10\.entry\.compilation-delegates'},
        {'name': 'entry-forgets-the-index', 'item': 'EmmyLuaAnalysis::remove_file_by_uri',
         'pattern': r'self\.compilation\.remove_index\(vec!\[file_id\]\);', 'repl': 'self.compilation.remove_index(vec![]);', 'expect': r'remove_file_by_uri:(assertion-failed|postcondition-not-satisfied)'},
    ],
}
