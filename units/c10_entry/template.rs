// unit c10_entry — C10: the ENTRY path of a removal. `EmmyLuaAnalysis::remove_file_by_uri` withdraws the text from the Vfs and, for
// exactly that file id, reaches `DbIndex::remove` (whose effect on every index is proved in units c10_remove / c10_remove2 /
// c10_module) through `LuaCompilation::remove_index` and `DbIndex::remove_index` — unconditionally: whether the file has a module
// entry, lies inside a workspace root or is a remote document plays no role.
use vstd::prelude::*;
verus! {

#[derive(Clone, Copy, PartialEq, Eq)]
pub struct FileId { pub id: u32 }
#[verifier::external_body] pub struct Uri { _p: () }
#[verifier::external_body] pub struct LuaDiagnostic { _p: () }
#[verifier::external_body] pub struct Emmyrc { _p: () }
#[verifier::external_body] pub struct Vfs { _p: () }

/// what `Vfs::remove_file(uri)` answers in a given Vfs state (contract of the real fn: unit c22_vfs, labels C10.vfs.*)
pub uninterp spec fn sp_vfs_remove(v: &Vfs, uri: &Uri) -> Option<FileId>;
pub uninterp spec fn sp_vfs_after_remove(v: &Vfs, uri: &Uri) -> Vfs;

impl Vfs {
    #[verifier::external_body]
    pub fn remove_file(&mut self, uri: &Uri) -> (r: Option<FileId>)
        ensures r == sp_vfs_remove(old(self), uri), *final(self) == sp_vfs_after_remove(old(self), uri),
    { unimplemented!() }
}

/// DbIndex: the Vfs it owns + the ghost log of `LuaIndex::remove(file_id)` calls applied to the indexes so far
pub struct DbIndex { pub vfs: Vfs, pub removed: Ghost<Seq<FileId>> }
impl DbIndex {
    /// `impl LuaIndex for DbIndex :: remove` — proved in unit c10_remove2 to delegate to the remove of all 14 indexes
    #[verifier::external_body]
    pub fn remove(&mut self, file_id: FileId)
        ensures final(self).removed@ == old(self).removed@.push(file_id), final(self).vfs == old(self).vfs,
    { unimplemented!() }
    pub fn get_vfs_mut(&mut self) -> (r: &mut Vfs)
        ensures *r == old(self).vfs, final(self).vfs == *final(r), final(self).removed == old(self).removed,
    { &mut self.vfs }
    //@@ DbIndex::remove_index
}

//@@ LuaCompilation
impl LuaCompilation {
    pub fn get_db_mut(&mut self) -> (r: &mut DbIndex)
        ensures *r == old(self).db, final(self).db == *final(r),
    { &mut self.db }
    //@@ LuaCompilation::remove_index
}

//@@ EmmyLuaAnalysis
impl EmmyLuaAnalysis {
    //@@ EmmyLuaAnalysis::remove_file_by_uri
}

} // verus!
fn main() {}
