// unit c10_remove — C10 "Removed files leave no trace" for the indexes keyed directly by file.
// Values are opaque (remove never inspects them except where shown). hashbrown -> std::collections.
use vstd::prelude::*;
use std::collections::{HashMap, HashSet};
verus! {

#[derive(Clone, Copy, PartialEq, Eq, Hash)]
pub struct FileId { pub id: u32 }


#[verifier::external_body] #[derive(PartialEq, Eq, Hash)] pub struct LuaDeclarationTree { _p: () }
#[verifier::external_body] #[derive(PartialEq, Eq, Hash)] pub struct DiagnosticAction { _p: () }
#[verifier::external_body] #[derive(PartialEq, Eq, Hash)] pub struct AnalyzeError { _p: () }
#[verifier::external_body] #[derive(PartialEq, Eq, Hash)] pub struct DiagnosticCode { _p: () }
#[verifier::external_body] #[derive(PartialEq, Eq, Hash)] pub struct FlowTree { _p: () }
#[verifier::external_body] #[derive(PartialEq, Eq, Hash)] pub struct LuaSignatureCast { _p: () }
#[verifier::external_body] #[derive(PartialEq, Eq, Hash)] pub struct LuaSignature { _p: () }
#[verifier::external_body] #[derive(PartialEq, Eq, Hash)] pub struct FileReference { _p: () }
#[verifier::external_body] #[derive(PartialEq, Eq, Hash)] pub struct StringReference { _p: () }
#[verifier::external_body] #[derive(PartialEq, Eq, Hash)] pub struct FileLabelReferences { _p: () }
#[verifier::external_body] #[derive(PartialEq, Eq, Hash)] pub struct LuaMemberKey { _p: () }
#[verifier::external_body] #[derive(PartialEq, Eq, Hash)] pub struct LuaSyntaxId { _p: () }
#[verifier::external_body] #[derive(PartialEq, Eq, Hash)] pub struct SmolStr { _p: () }
#[verifier::external_body] #[derive(PartialEq, Eq, Hash)] pub struct LuaTypeDeclId { _p: () }
#[verifier::external_body] #[derive(PartialEq, Eq, Hash)] pub struct TextRange { _p: () }
#[verifier::external_body] #[derive(PartialEq, Eq, Hash)] pub struct LuaCommonProperty { _p: () }

/// ids that carry their file: only the file projection matters here
#[derive(Clone, Copy, PartialEq, Eq, Hash)]
pub struct LuaSignatureId { pub file_id: FileId, pub position: u32 }
#[derive(Clone, Copy, PartialEq, Eq, Hash)]
pub struct LuaPropertyId { pub id: u32 }
#[derive(Clone, Copy, PartialEq, Eq, Hash)]
pub struct LuaSemanticDeclId { pub id: u64 }

pub open spec fn keys_ok() -> bool {
    &&& vstd::std_specs::hash::obeys_key_model::<FileId>()
    &&& vstd::std_specs::hash::obeys_key_model::<LuaSignatureId>()
    &&& vstd::std_specs::hash::obeys_key_model::<LuaPropertyId>()
    &&& vstd::std_specs::hash::obeys_key_model::<LuaSemanticDeclId>()
}

/// trusted std contract: HashSet::into_iter yields every element exactly once (order unspecified)
#[verifier::external_body]
pub fn vx_set_into_vec<T>(s: HashSet<T>) -> (r: Vec<T>)
    ensures r@.to_set() == s@, r@.no_duplicates(),
{ s.into_iter().collect() }

/// the C10 clause for a map keyed by file: the removed file's entry is gone and nothing else changed
pub open spec fn dropped<V>(old_m: Map<FileId, V>, new_m: Map<FileId, V>, f: FileId) -> bool {
    new_m == old_m.remove(f)
}

// per-index statement of "nothing keyed by the removed file remains, nothing else changed"
pub open spec fn removed_decl(o: &LuaDeclIndex, n: &LuaDeclIndex, f: FileId) -> bool { dropped(o.decl_trees@, n.decl_trees@, f) }
pub open spec fn removed_dependency(o: &LuaDependencyIndex, n: &LuaDependencyIndex, f: FileId) -> bool { dropped(o.dependencies@, n.dependencies@, f) }
pub open spec fn removed_diagnostic(o: &DiagnosticIndex, n: &DiagnosticIndex, f: FileId) -> bool {
    &&& dropped(o.diagnostic_actions@, n.diagnostic_actions@, f) &&& dropped(o.diagnostics@, n.diagnostics@, f)
    &&& dropped(o.file_diagnostic_disabled@, n.file_diagnostic_disabled@, f) &&& dropped(o.file_diagnostic_enabled@, n.file_diagnostic_enabled@, f)
}
pub open spec fn removed_flow(o: &LuaFlowIndex, n: &LuaFlowIndex, f: FileId) -> bool {
    dropped(o.file_flow_tree@, n.file_flow_tree@, f) && dropped(o.signature_cast_cache@, n.signature_cast_cache@, f)
}
pub open spec fn removed_signature(o: &LuaSignatureIndex, n: &LuaSignatureIndex, f: FileId) -> bool {
    &&& dropped(o.in_file_signatures@, n.in_file_signatures@, f)
    &&& forall|id: LuaSignatureId| o.in_file_signatures@.contains_key(f) && o.in_file_signatures@[f]@.contains(id) ==> !n.signatures@.contains_key(id)
    &&& forall|id: LuaSignatureId| #[trigger] n.signatures@.contains_key(id) ==> o.signatures@.contains_key(id) && n.signatures@[id] == o.signatures@[id]
}
pub open spec fn removed_property(o: &LuaPropertyIndex, n: &LuaPropertyIndex, f: FileId) -> bool {
    &&& dropped(o.in_filed_owner@, n.in_filed_owner@, f)
    &&& forall|w: LuaSemanticDeclId| o.in_filed_owner@.contains_key(f) && o.in_filed_owner@[f]@.contains(w) ==> !n.property_owners_map@.contains_key(w)
}

// indexes whose `remove` is outside the dialect (nested get_mut / retain cascades / iter_mut): no contract,
// their effect on DbIndex::remove's postcondition is nil (listed under not_covered)
#[verifier::external_body] pub struct LuaTypeIndex { _p: () }
#[verifier::external_body] pub struct LuaModuleIndex { _p: () }
#[verifier::external_body] pub struct LuaMemberIndex { _p: () }
#[verifier::external_body] pub struct LuaOperatorIndex { _p: () }
#[verifier::external_body] pub struct LuaMetatableIndex { _p: () }
#[verifier::external_body] pub struct LuaGlobalIndex { _p: () }
#[verifier::external_body] pub struct JsonSchemaIndex { _p: () }
impl LuaTypeIndex { #[verifier::external_body] pub fn remove(&mut self, file_id: FileId) { unimplemented!() } }
impl LuaModuleIndex { #[verifier::external_body] pub fn remove(&mut self, file_id: FileId) { unimplemented!() } }
impl LuaMemberIndex { #[verifier::external_body] pub fn remove(&mut self, file_id: FileId) { unimplemented!() } }
impl LuaOperatorIndex { #[verifier::external_body] pub fn remove(&mut self, file_id: FileId) { unimplemented!() } }
impl LuaMetatableIndex { #[verifier::external_body] pub fn remove(&mut self, file_id: FileId) { unimplemented!() } }
impl LuaGlobalIndex { #[verifier::external_body] pub fn remove(&mut self, file_id: FileId) { unimplemented!() } }
impl JsonSchemaIndex { #[verifier::external_body] pub fn remove(&mut self, file_id: FileId) { unimplemented!() } }

// ---- extracted from /repo --------------------------------------------------------------------
//@@ LuaDeclIndex
impl LuaDeclIndex {
    //@@ LuaDeclIndex::remove
}
//@@ LuaDependencyIndex
impl LuaDependencyIndex {
    //@@ LuaDependencyIndex::remove
}
//@@ DiagnosticIndex
impl DiagnosticIndex {
    //@@ DiagnosticIndex::remove
}
//@@ LuaFlowIndex
impl LuaFlowIndex {
    //@@ LuaFlowIndex::remove
}
//@@ LuaReferenceIndex
impl LuaReferenceIndex {
    //@@ LuaReferenceIndex::remove_per_file_maps
    /// the whole `remove` (per-file maps + two iter_mut sweeps over nested maps): sweeps not under contract
    #[verifier::external_body] pub fn remove(&mut self, file_id: FileId) { unimplemented!() }
}
//@@ LuaSignatureIndex
impl LuaSignatureIndex {
    //@@ LuaSignatureIndex::remove
}
//@@ LuaPropertyIndex
impl LuaPropertyIndex {
    //@@ LuaPropertyIndex::remove
}

//@@ DbIndex
impl DbIndex {
    //@@ DbIndex::remove
}

} // verus!
fn main() {}
