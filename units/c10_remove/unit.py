DB = 'crates/emmylua_code_analysis/src/db_index/'


def st(file, name, **kw):
    return {'src': {'file': DB + file, 'kind': 'struct', 'name': name}, 'rules': [('struct-fields', kw)]}


def rm(file, name, ensures, **kw):
    d = {'src': {'file': DB + file, 'kind': 'fn', 'impl': 'LuaIndex for ' + name, 'name': 'remove'},
         'requires': 'keys_ok()', 'ensures': ensures}
    d.update(kw)
    return d


def dropped(fields, tag):
    return ',\n            '.join('dropped(old(self).%s@, final(self).%s@, file_id) /*@C10.%s.%s*/' % (f, f, tag, f) for f in fields)


SIG_LOOP = '''invariant
                keys_ok(), v@ == __v@,
                forall|i: int| 0 <= i < it.index@ ==> !self.signatures@.contains_key(#[trigger] __v@[i]) /*@C10.signature.signatures-of-file-gone.inv*/,
                forall|id: LuaSignatureId| #[trigger] self.signatures@.contains_key(id) ==> old(self).signatures@.contains_key(id)
                    && self.signatures@[id] == old(self).signatures@[id],
                self.in_file_signatures@ == old(self).in_file_signatures@.remove(file_id),'''

PROP_LOOP = '''invariant
                keys_ok(), v@ == __v@,
                forall|i: int| 0 <= i < it.index@ ==> !self.property_owners_map@.contains_key(#[trigger] __v@[i]) /*@C10.property.owners-of-file-gone.inv*/,
                forall|o: LuaSemanticDeclId| #[trigger] self.property_owners_map@.contains_key(o) ==> old(self).property_owners_map@.contains_key(o),
                self.in_filed_owner@ == old(self).in_filed_owner@.remove(file_id),'''

UNIT = {
    'extra_rules': [
        ('hashset-into-iter-vec', r'for (\w+) in (\w+) \{', r'let __v = vx_set_into_vec(\2); let ghost v = __v; for \1 in __v {',
         'for x in SET { B } (SET: HashSet<T> by value) -> let __v = vx_set_into_vec(SET); for x in __v { B }: '
         'HashSet::into_iter yields every element exactly once in unspecified order; vx_set_into_vec returns such a sequence (no duplicates, same set)'),
    ],
    'items': {
        'LuaDeclIndex': st('declaration/mod.rs', 'LuaDeclIndex'),
        'LuaDeclIndex::remove': rm('declaration/mod.rs', 'LuaDeclIndex', dropped(['decl_trees'], 'decl')),
        'LuaDependencyIndex': st('dependency/mod.rs', 'LuaDependencyIndex'),
        'LuaDependencyIndex::remove': rm('dependency/mod.rs', 'LuaDependencyIndex', dropped(['dependencies'], 'dependency')),
        'DiagnosticIndex': st('diagnostic/mod.rs', 'DiagnosticIndex'),
        'DiagnosticIndex::remove': rm('diagnostic/mod.rs', 'DiagnosticIndex',
                                      dropped(['diagnostic_actions', 'diagnostics', 'file_diagnostic_disabled', 'file_diagnostic_enabled'], 'diagnostic')),
        'LuaFlowIndex': st('flow/mod.rs', 'LuaFlowIndex'),
        'LuaFlowIndex::remove': rm('flow/mod.rs', 'LuaFlowIndex', dropped(['file_flow_tree', 'signature_cast_cache'], 'flow')),
        'LuaReferenceIndex': st('reference/mod.rs', 'LuaReferenceIndex'),
        'LuaReferenceIndex::remove_per_file_maps': {
            'src': {'kind': 'slice', 'name': 'remove_per_file_maps',
                    'in': {'file': DB + 'reference/mod.rs', 'kind': 'fn', 'impl': 'LuaIndex for LuaReferenceIndex', 'name': 'remove'},
                    'from': r'self\.file_references\.remove\(&file_id\);', 'to': r'self\.label_references\.remove\(&file_id\);',
                    'head': 'pub fn remove_per_file_maps(&mut self, file_id: FileId)', 'tail': ''},
            'requires': 'keys_ok()',
            'ensures': dropped(['file_references', 'string_references', 'type_references', 'label_references'], 'reference')
                       + ',\n            final(self).index_reference == old(self).index_reference, final(self).global_references == old(self).global_references',
        },
        'LuaSignatureIndex': st('signature/mod.rs', 'LuaSignatureIndex'),
        'LuaSignatureIndex::remove': rm(
            'signature/mod.rs', 'LuaSignatureIndex', rules=['hashset-into-iter-vec'], iter_names={0: 'it'}, loops={0: SIG_LOOP},
            proof=[(r'self\.signatures\.(remove|get)\(&signature_id\);\s*\}', 'after', '''proof {
                    assert forall|id: LuaSignatureId| old(self).in_file_signatures@[file_id]@.contains(id) implies !self.signatures@.contains_key(id) by {
                        assert(__v@.to_set().contains(id));
                        let i = choose|i: int| 0 <= i < __v@.len() && __v@[i] == id;
                    }
                }''')],
            ensures=
            dropped(['in_file_signatures'], 'signature') + ''',
            forall|id: LuaSignatureId| old(self).in_file_signatures@.contains_key(file_id) && old(self).in_file_signatures@[file_id]@.contains(id)
                ==> !final(self).signatures@.contains_key(id) /*@C10.signature.signatures-of-file-gone*/,
            forall|id: LuaSignatureId| #[trigger] final(self).signatures@.contains_key(id) ==> old(self).signatures@.contains_key(id)
                && final(self).signatures@[id] == old(self).signatures@[id] /*@C10.signature.frame*/'''),
        'LuaPropertyIndex': st('property/mod.rs', 'LuaPropertyIndex'),
        'LuaPropertyIndex::remove': rm(
            'property/mod.rs', 'LuaPropertyIndex', rules=['hashset-into-iter-vec'], iter_names={0: 'it'}, loops={0: PROP_LOOP},
            proof=[(r'self\.properties\.remove\(&property_id\);\s*\}\s*\}', 'after', '''proof {
                    assert forall|o: LuaSemanticDeclId| old(self).in_filed_owner@[file_id]@.contains(o) implies !self.property_owners_map@.contains_key(o) by {
                        assert(__v@.to_set().contains(o));
                        let i = choose|i: int| 0 <= i < __v@.len() && __v@[i] == o;
                    }
                }''')],
            ensures=
            dropped(['in_filed_owner'], 'property') + ''',
            forall|o: LuaSemanticDeclId| old(self).in_filed_owner@.contains_key(file_id) && old(self).in_filed_owner@[file_id]@.contains(o)
                ==> !final(self).property_owners_map@.contains_key(o) /*@C10.property.owners-of-file-gone*/'''),
        'DbIndex': {'src': {'file': DB + 'mod.rs', 'kind': 'struct', 'name': 'DbIndex'},
                    'rules': [('struct-fields', {'drop': ['vfs', 'emmyrc']})]},
        'DbIndex::remove': {'src': {'file': DB + 'mod.rs', 'kind': 'fn', 'impl': 'LuaIndex for DbIndex', 'name': 'remove'},
                            'requires': 'keys_ok()',
                            'ensures': '''removed_decl(&old(self).decl_index, &final(self).decl_index, file_id) /*@C10.DbIndex.decl_index*/,
            removed_dependency(&old(self).file_dependencies_index, &final(self).file_dependencies_index, file_id) /*@C10.DbIndex.file_dependencies_index*/,
            removed_diagnostic(&old(self).diagnostic_index, &final(self).diagnostic_index, file_id) /*@C10.DbIndex.diagnostic_index*/,
            removed_flow(&old(self).flow_index, &final(self).flow_index, file_id) /*@C10.DbIndex.flow_index*/,
            removed_signature(&old(self).signature_index, &final(self).signature_index, file_id) /*@C10.DbIndex.signature_index*/,
            removed_property(&old(self).property_index, &final(self).property_index, file_id) /*@C10.DbIndex.property_index*/'''},
    },
    'allow': [r'external_body'],
    'mutants': [
        {'name': 'dbindex-skips-diagnostics', 'item': 'DbIndex::remove', 'pattern': r'self\.diagnostic_index\.remove\(file_id\);', 'repl': '', 'expect': r'C10\.DbIndex\.diagnostic_index'},
        {'name': 'dbindex-skips-flow', 'item': 'DbIndex::remove', 'pattern': r'self\.flow_index\.remove\(file_id\);', 'repl': '', 'expect': r'C10\.DbIndex\.flow_index'},
        {'name': 'flow-keeps-cast-cache', 'item': 'LuaFlowIndex::remove', 'pattern': r'self\.signature_cast_cache\.remove\(&file_id\);', 'repl': '', 'expect': r'C10\.flow\.signature_cast_cache'},
        {'name': 'signature-keeps-signatures', 'item': 'LuaSignatureIndex::remove', 'pattern': r'self\.signatures\.remove\(&signature_id\);', 'repl': 'self.signatures.get(&signature_id);', 'expect': r'C10\.signature'},
        {'name': 'diagnostic-keeps-enabled', 'item': 'DiagnosticIndex::remove', 'pattern': r'self\.file_diagnostic_enabled\.remove\(&file_id\);', 'repl': '', 'expect': r'C10\.diagnostic\.file_diagnostic_enabled'},
        {'name': 'property-keeps-owner-map', 'item': 'LuaPropertyIndex::remove', 'pattern': r'self\.property_owners_map\.remove\(&property_owner_id\)', 'repl': 'self.property_owners_map.get(&property_owner_id)', 'expect': r'C10\.property'},
    ],
    'min_obligations': 7,
    'trusted': ['hashbrown -> std::collections', 'opaque value types', 'obeys_key_model for FileId and the id newtypes (derived Hash/Eq)'],
}
