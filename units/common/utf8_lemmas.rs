// ---- common UTF-8 structure lemmas over vstd::utf8 (all proved by induction on its definitions; no assumptions) ----
// requires `use vstd::utf8::*; use vstd::string::*;` in the including template

/// bytewise characterisation of a char boundary (this is how core::str::is_char_boundary is implemented)
pub open spec fn cb(b: Seq<u8>, i: int) -> bool {
    0 <= i <= b.len() && (i == b.len() || !is_continuation_byte(b[i]))
}

/// shape of the first scalar of a non-empty valid sequence
pub proof fn lemma_first_scalar_shape(b: Seq<u8>)
    requires valid_utf8(b), b.len() > 0,
    ensures
        valid_first_scalar(b),
        1 <= length_of_first_scalar(b) <= 4,
        length_of_first_scalar(b) <= b.len(),
        !is_continuation_byte(b[0]),
        forall|i: int| 1 <= i < length_of_first_scalar(b) ==> is_continuation_byte(#[trigger] b[i]),
        b[0] < 0x80u8 <==> length_of_first_scalar(b) == 1,
        valid_utf8(pop_first_scalar(b)),
        pop_first_scalar(b) == b.subrange(length_of_first_scalar(b), b.len() as int),
        pop_first_scalar(b).len() == b.len() - length_of_first_scalar(b),
{
}

/// (L1+L2 generalised) in valid UTF-8, `is_char_boundary` is exactly "end of text or not a continuation byte"
pub proof fn lemma_char_boundary_iff(b: Seq<u8>, i: int)
    requires valid_utf8(b),
    ensures is_char_boundary(b, i) <==> cb(b, i),
    decreases b.len(),
{
    if i == 0 {
        if b.len() > 0 { lemma_first_scalar_shape(b); }
    } else if i < 0 || b.len() < i {
    } else {
        lemma_first_scalar_shape(b);
        let l = length_of_first_scalar(b);
        let p = pop_first_scalar(b);
        lemma_char_boundary_iff(p, i - l);
        if i < l {
            assert(is_continuation_byte(b[i]));
        } else if i < b.len() {
            assert(p[i - l] == b[i]);
        }
    }
}

/// all boundaries at once
pub proof fn lemma_char_boundary_all(b: Seq<u8>)
    requires valid_utf8(b),
    ensures forall|i: int| #[trigger] is_char_boundary(b, i) <==> cb(b, i),
{
    assert forall|i: int| #[trigger] is_char_boundary(b, i) <==> cb(b, i) by { lemma_char_boundary_iff(b, i); }
}

pub proof fn lemma_valid_suffix(b: Seq<u8>, i: int)
    requires valid_utf8(b), is_char_boundary(b, i),
    ensures valid_utf8(b.subrange(i, b.len() as int)),
    decreases b.len(),
{
    if i == 0 {
        assert(b.subrange(0, b.len() as int) =~= b);
    } else {
        lemma_first_scalar_shape(b);
        let l = length_of_first_scalar(b);
        let p = pop_first_scalar(b);
        lemma_valid_suffix(p, i - l);
        lemma_char_boundary_iff(p, i - l);
        assert(p.subrange(i - l, p.len() as int) =~= b.subrange(i, b.len() as int));
    }
}

pub proof fn lemma_valid_prefix(b: Seq<u8>, j: int)
    requires valid_utf8(b), is_char_boundary(b, j),
    ensures valid_utf8(b.subrange(0, j)),
    decreases b.len(),
{
    if j == 0 {
        assert(b.subrange(0, 0).len() == 0);
    } else {
        lemma_first_scalar_shape(b);
        let l = length_of_first_scalar(b);
        let p = pop_first_scalar(b);
        lemma_char_boundary_iff(p, j - l);
        lemma_valid_prefix(p, j - l);
        let q = b.subrange(0, j);
        assert(q.len() == j && j >= l);
        assert(forall|k: int| 0 <= k < l ==> q[k] == b[k]);
        assert(valid_leading_and_continuation_bytes_first_codepoint(q));
        assert(length_of_first_codepoint(q) == l);
        assert(decode_first_codepoint(q) == decode_first_codepoint(b));
        assert(valid_first_scalar(q));
        assert(pop_first_scalar(q) =~= p.subrange(0, j - l));
    }
}

/// (L3) a range between two boundaries is valid UTF-8 and its boundaries are those of the whole text
pub proof fn lemma_valid_subrange(b: Seq<u8>, i: int, j: int)
    requires valid_utf8(b), is_char_boundary(b, i), is_char_boundary(b, j), i <= j,
    ensures
        0 <= i <= j <= b.len(),
        valid_utf8(b.subrange(i, j)),
        forall|k: int| i <= k <= j ==> (#[trigger] is_char_boundary(b.subrange(i, j), k - i) <==> is_char_boundary(b, k)),
{
    lemma_char_boundary_all(b);
    lemma_valid_prefix(b, j);
    let q = b.subrange(0, j);
    lemma_char_boundary_all(q);
    assert(cb(q, i));
    lemma_valid_suffix(q, i);
    assert(q.subrange(i, q.len() as int) =~= b.subrange(i, j));
    let r = b.subrange(i, j);
    lemma_char_boundary_all(r);
    assert forall|k: int| i <= k <= j implies (#[trigger] is_char_boundary(r, k - i) <==> is_char_boundary(b, k)) by {
        if k < j { assert(r[k - i] == b[k]); }
    }
}

/// (L5) decoding splits at boundaries
pub proof fn lemma_decode_split3(b: Seq<u8>, i: int, j: int, k: int)
    requires valid_utf8(b), is_char_boundary(b, i), is_char_boundary(b, j), is_char_boundary(b, k), i <= j <= k,
    ensures decode_utf8(b.subrange(i, k)) =~= decode_utf8(b.subrange(i, j)) + decode_utf8(b.subrange(j, k)),
{
    lemma_valid_subrange(b, i, k);
    let r = b.subrange(i, k);
    assert(is_char_boundary(r, j - i));
    decode_utf8_split(r, j - i);
    assert(r.subrange(0, j - i) =~= b.subrange(i, j));
    assert(r.subrange(j - i, r.len() as int) =~= b.subrange(j, k));
}

pub proof fn lemma_decode_nonempty(s: Seq<u8>)
    requires valid_utf8(s), s.len() > 0,
    ensures decode_utf8(s).len() > 0,
{
}

/// (L4) an all-ASCII valid sequence decodes to as many chars as it has bytes
pub proof fn lemma_ascii_decode_len(s: Seq<u8>)
    requires valid_utf8(s), forall|i: int| 0 <= i < s.len() ==> s[i] < 0x80u8,
    ensures decode_utf8(s).len() == s.len(),
    decreases s.len(),
{
    if s.len() > 0 {
        lemma_first_scalar_shape(s);
        let p = pop_first_scalar(s);
        assert(forall|i: int| 0 <= i < p.len() ==> p[i] == s[i + 1]);
        lemma_ascii_decode_len(p);
    }
}

/// a `str`'s chars are the decoding of its bytes
pub proof fn lemma_str_view_decode(s: &str)
    ensures valid_utf8(s.spec_bytes()), s@ == decode_utf8(s.spec_bytes()), s.spec_bytes() == encode_utf8(s@),
{
    encode_utf8_valid_utf8(s@);
    encode_utf8_decode_utf8(s@);
}

/// byte length of the encoding of a prefix of `s`: grows by the encoded char, never exceeds the whole
pub proof fn lemma_encode_prefix(s: Seq<char>, k: int)
    requires 0 <= k <= s.len(),
    ensures
        encode_utf8(s.subrange(0, k)).len() <= encode_utf8(s).len(),
        k == s.len() ==> encode_utf8(s.subrange(0, k)).len() == encode_utf8(s).len(),
        k < s.len() ==> encode_utf8(s.subrange(0, k)).len() < encode_utf8(s).len(),
        k < s.len() ==> encode_utf8(s.subrange(0, k + 1)).len() == encode_utf8(s.subrange(0, k)).len() + encode_scalar(s[k] as u32).len(),
        encode_utf8(s) =~= encode_utf8(s.subrange(0, k)) + encode_utf8(s.subrange(k, s.len() as int)),
{
    assert(s =~= s.subrange(0, k) + s.subrange(k, s.len() as int));
    encode_utf8_concat(s.subrange(0, k), s.subrange(k, s.len() as int));
    assert(s.subrange(0, s.len() as int) =~= s);
    if k < s.len() {
        assert(s.subrange(0, k + 1) =~= s.subrange(0, k).push(s[k]));
        encode_utf8_push(s.subrange(0, k), s[k]);
        lemma_encode_utf8_len_strictly_monotonic(s, k, s.len() as int);
    }
}

/// (L2) in valid UTF-8 an ASCII byte sits on a char boundary, and so does the position after it
pub proof fn lemma_ascii_byte_boundaries(b: Seq<u8>, p: int)
    requires valid_utf8(b), 0 <= p < b.len(), b[p] < 0x80u8,
    ensures is_char_boundary(b, p), is_char_boundary(b, p + 1),
    decreases b.len(),
{
    lemma_first_scalar_shape(b);
    let l = length_of_first_scalar(b);
    let q = pop_first_scalar(b);
    if p == 0 {
        assert(l == 1);
        assert(is_char_boundary(q, 0));
    } else if p < l {
        assert(is_continuation_byte(b[p]));
    } else {
        assert(q[p - l] == b[p]);
        lemma_ascii_byte_boundaries(q, p - l);
    }
}

pub proof fn lemma_decode_len_le(s: Seq<u8>)
    requires valid_utf8(s),
    ensures decode_utf8(s).len() <= s.len(),
    decreases s.len(),
{
    if s.len() > 0 {
        lemma_first_scalar_shape(s);
        lemma_decode_len_le(pop_first_scalar(s));
    }
}
// ---- end of common UTF-8 lemmas ----
