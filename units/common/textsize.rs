// ---- common shim: text-size 1.1.1 (`TextSize`, `TextRange`) -----------------------------------
// Transcribed from ~/.cargo/registry/src/*/text-size-1.1.1/src/{size,range}.rs. Each operation the
// units use is cross-checked against the real crate by the loop-free Kani harness `kani/shims`
// (thorough tier). `TextRange::new`'s run-time assertion `start <= end` is a *precondition* here, so
// it becomes a proof obligation at every extracted call site. `+`/`-` panic on overflow in the real
// crate (debug and release: the ops! macro uses checked arithmetic semantics through u32 `+` with
// overflow checks in debug, wrapping otherwise is NOT assumed): no-overflow is a precondition.
#[derive(Clone, Copy)]
pub struct TextSize { pub raw: u32 }

impl vstd::std_specs::cmp::PartialEqSpecImpl for TextSize {
    open spec fn obeys_eq_spec() -> bool { true }
    open spec fn eq_spec(&self, other: &TextSize) -> bool { self.raw == other.raw }
}
impl PartialEq for TextSize {
    fn eq(&self, other: &TextSize) -> bool { self.raw == other.raw }
}
impl Eq for TextSize {}
impl vstd::std_specs::cmp::PartialOrdSpecImpl for TextSize {
    open spec fn obeys_partial_cmp_spec() -> bool { true }
    open spec fn partial_cmp_spec(&self, other: &TextSize) -> Option<core::cmp::Ordering> {
        if self.raw < other.raw { Some(core::cmp::Ordering::Less) }
        else if self.raw == other.raw { Some(core::cmp::Ordering::Equal) }
        else { Some(core::cmp::Ordering::Greater) }
    }
}
impl PartialOrd for TextSize {
    fn partial_cmp(&self, other: &TextSize) -> Option<core::cmp::Ordering> {
        if self.raw < other.raw { Some(core::cmp::Ordering::Less) }
        else if self.raw == other.raw { Some(core::cmp::Ordering::Equal) }
        else { Some(core::cmp::Ordering::Greater) }
    }
}
impl vstd::std_specs::convert::FromSpecImpl<u32> for TextSize {
    open spec fn obeys_from_spec() -> bool { true }
    open spec fn from_spec(v: u32) -> TextSize { TextSize { raw: v } }
}
impl From<u32> for TextSize {
    fn from(raw: u32) -> (r: TextSize) { TextSize { raw } }
}
impl vstd::std_specs::convert::FromSpecImpl<TextSize> for u32 {
    open spec fn obeys_from_spec() -> bool { true }
    open spec fn from_spec(v: TextSize) -> u32 { v.raw }
}
impl From<TextSize> for u32 {
    fn from(t: TextSize) -> (r: u32) { t.raw }
}
impl vstd::std_specs::convert::FromSpecImpl<TextSize> for usize {
    open spec fn obeys_from_spec() -> bool { true }
    open spec fn from_spec(v: TextSize) -> usize { v.raw as usize }
}
impl From<TextSize> for usize {
    fn from(t: TextSize) -> (r: usize) { t.raw as usize }
}
impl vstd::std_specs::ops::AddSpecImpl<TextSize> for TextSize {
    open spec fn obeys_add_spec() -> bool { true }
    open spec fn add_req(self, rhs: TextSize) -> bool { self.raw + rhs.raw <= u32::MAX }
    open spec fn add_spec(self, rhs: TextSize) -> TextSize { TextSize { raw: (self.raw + rhs.raw) as u32 } }
}
impl core::ops::Add<TextSize> for TextSize {
    type Output = TextSize;
    fn add(self, rhs: TextSize) -> TextSize { TextSize { raw: self.raw + rhs.raw } }
}
impl vstd::std_specs::ops::SubSpecImpl<TextSize> for TextSize {
    open spec fn obeys_sub_spec() -> bool { true }
    open spec fn sub_req(self, rhs: TextSize) -> bool { self.raw >= rhs.raw }
    open spec fn sub_spec(self, rhs: TextSize) -> TextSize { TextSize { raw: (self.raw - rhs.raw) as u32 } }
}
impl core::ops::Sub<TextSize> for TextSize {
    type Output = TextSize;
    fn sub(self, rhs: TextSize) -> TextSize { TextSize { raw: self.raw - rhs.raw } }
}
impl TextSize {
    pub const fn new(raw: u32) -> (r: TextSize) ensures r.raw == raw { TextSize { raw } }
}

#[derive(Clone, Copy)]
pub struct TextRange { pub start: TextSize, pub end: TextSize }

impl vstd::std_specs::cmp::PartialEqSpecImpl for TextRange {
    open spec fn obeys_eq_spec() -> bool { true }
    open spec fn eq_spec(&self, other: &TextRange) -> bool { self.start.raw == other.start.raw && self.end.raw == other.end.raw }
}
impl PartialEq for TextRange {
    fn eq(&self, other: &TextRange) -> bool { self.start.raw == other.start.raw && self.end.raw == other.end.raw }
}
impl Eq for TextRange {}

impl TextRange {
    pub open spec fn wf(self) -> bool { self.start.raw <= self.end.raw }

    pub const fn new(start: TextSize, end: TextSize) -> (r: TextRange)
        requires start.raw <= end.raw,          // assert!(start.raw <= end.raw) in the real crate
        ensures r.start == start, r.end == end, r.wf(),
    { TextRange { start, end } }

    pub const fn empty(offset: TextSize) -> (r: TextRange)
        ensures r.start == offset, r.end == offset, r.wf(),
    { TextRange { start: offset, end: offset } }

    pub const fn start(self) -> (r: TextSize) ensures r == self.start { self.start }
    pub const fn end(self) -> (r: TextSize) ensures r == self.end { self.end }

    pub const fn len(self) -> (r: TextSize)
        requires self.wf(),
        ensures r.raw == self.end.raw - self.start.raw,
    { TextSize { raw: self.end.raw - self.start.raw } }

    pub const fn is_empty(self) -> (r: bool) ensures r == (self.start.raw == self.end.raw)
    { self.start.raw == self.end.raw }

    pub fn contains(self, offset: TextSize) -> (r: bool)
        ensures r == (self.start.raw <= offset.raw && offset.raw < self.end.raw)
    { self.start.raw <= offset.raw && offset.raw < self.end.raw }

    pub fn contains_inclusive(self, offset: TextSize) -> (r: bool)
        ensures r == (self.start.raw <= offset.raw && offset.raw <= self.end.raw)
    { self.start.raw <= offset.raw && offset.raw <= self.end.raw }

    pub fn contains_range(self, other: TextRange) -> (r: bool)
        ensures r == (self.start.raw <= other.start.raw && other.end.raw <= self.end.raw)
    { self.start.raw <= other.start.raw && other.end.raw <= self.end.raw }

    pub open spec fn spec_intersect(self, other: TextRange) -> Option<TextRange> {
        let s = if self.start.raw >= other.start.raw { self.start } else { other.start };
        let e = if self.end.raw <= other.end.raw { self.end } else { other.end };
        if e.raw < s.raw { None } else { Some(TextRange { start: s, end: e }) }
    }

    pub fn intersect(self, other: TextRange) -> (r: Option<TextRange>)
        ensures r == self.spec_intersect(other)
    {
        let start = if self.start.raw >= other.start.raw { self.start } else { other.start };
        let end = if self.end.raw <= other.end.raw { self.end } else { other.end };
        if end.raw < start.raw { return None; }
        Some(TextRange { start, end })
    }
}
// ---- end of text-size shim ---------------------------------------------------------------------
