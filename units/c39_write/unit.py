"""unit c39_write — C39 "in-place formatting never leaves a truncated file" (`luafmt --write`).

Crash points and failing writes (ENOSPC, EFBIG / SIGXFSZ) are OS states, not pre/post states of a Rust function. They become
part of a contract through a GHOST MODEL OF THE FILE SYSTEM (template.rs, `FsLog`): the log of every logical state the file
system passes through. Rule `c39-fs-ghost` threads it through the real text as the explicit parameter `disk` (the technique of
unit c36_channel's ghost channel state); every std::fs operation is a shim whose `ensures` lists the states the operation can pass
through (= its crash points) and end in. The model is the specification of the PLATFORM and is trusted; the code is the repository's.

The unit adapts to the tree: the per-file step of `main` is always extracted; `write_atomically` / `write_then_rename` /
`temp_sibling` (proposed_fix_atomic_write.diff) are extracted and put under contract when the tree has them."""
import os
import re

from vc import rustlex as L
from vc import extract as X
from vc.extract import Undecided
from vc.rules import rule

HERE = os.path.dirname(os.path.abspath(__file__))
REPO = os.environ.get('VERIF_REPO', '/repo')
FMT = 'crates/emmylua_formatter/src/'
BIN = FMT + 'bin/luafmt.rs'
ARGS = FMT + 'cmd_args.rs'


def _T(text, toks):
    return lambda i: L.tok_text(text, toks[i]) if 0 <= i < len(toks) else ''


# ---------------------------------------------------------------------------------------------
# rules
# ---------------------------------------------------------------------------------------------
FS_FNS = ('write', 'rename', 'remove_file', 'metadata', 'set_permissions', 'canonicalize')


@rule('c39-fs-ghost')
def c39_fs_ghost(text, files=('file',), callees=(), **_):
    """ghost file system, state-passing form (like `async-seq-chan` of unit c36_channel): the state of the file system that
    every `std::fs` call reads and changes becomes the explicit parameter `disk`: `fs::{write, rename, remove_file, metadata,
    set_permissions, canonicalize}(ARGS)` -> `fs::F(ARGS, disk)`, `fs::File::create_new(P)` -> `fs::File::create_new(P, disk)`,
    `F.write_all(B)` / `F.sync_all()` -> `F.write_all(B, disk)` / `F.sync_all(disk)` for the `fs::File` variables F (NOT for
    stdout), and `disk` is appended to the calls of the listed repository fns that take it (rule `c39-ghost-param`).
    Nothing else is touched."""
    n = 0
    while True:
        toks = L.code_tokens(text)
        T = _T(text, toks)
        hit = None
        for i in range(len(toks) - 1):
            if toks[i][0] != 'ident' or T(i + 1) != '(':
                continue
            c = L.match_close(text, toks, i + 1)
            if T(c - 1) == 'disk':
                continue
            name = T(i)
            is_method = T(i - 1) == '.'
            is_path = T(i - 1) == ':' and T(i - 2) == ':'
            ok = False
            if is_path and T(i - 3) == 'fs' and name in FS_FNS:
                ok = True
            elif is_path and T(i - 3) == 'File' and name == 'create_new':
                ok = True
            elif is_method and name in ('write_all', 'sync_all') and T(i - 2) in files:
                ok = True
            elif not is_method and not is_path and name in callees and T(i - 1) != 'fn':
                ok = True
            if not ok:
                continue
            empty = (c == i + 2)
            if T(c - 1) == ',':
                hit = (toks[c - 1][2], toks[c][1], ' disk')           # multi-line call with a trailing comma
            else:
                hit = (toks[c][1], toks[c][1], 'disk' if empty else ', disk')
            break
        if not hit:
            break
        text = text[:hit[0]] + hit[2] + text[hit[1]:]
        n += 1
    return text, n


@rule('c39-stderr-ghost')
def c39_stderr_ghost(text, **_):
    """`eprint!(FMT, ARGS..);` / `eprintln!(FMT, ARGS..);` -> `vx_eprint(ui);`: a message to the user on stderr becomes one tick of
    the ghost counter `ui.lines` ("the user is told"); the message TEXT is no part of any clause. The arguments that are dropped
    with it are pure: `path.to_string_lossy()`, `{e}` / `{out:?}` (Display / Debug), and `format_unified_diff(..)`, which builds a
    String from two strings (no file-system access: it is not handed `disk`)."""
    n = 0
    while True:
        toks = L.code_tokens(text)
        T = _T(text, toks)
        hit = None
        for i in range(len(toks) - 2):
            if toks[i][0] == 'ident' and T(i) in ('eprint', 'eprintln') and T(i + 1) == '!' and T(i + 2) == '(':
                c = L.match_close(text, toks, i + 2)
                if T(c + 1) != ';':
                    raise Undecided('c39-stderr-ghost: eprint!/eprintln! is not a statement')
                hit = (toks[i][1], toks[c][2], 'vx_eprint(ui)')
                break
        if not hit:
            break
        text = text[:hit[0]] + hit[2] + text[hit[1]:]
        n += 1
    return text, n


@rule('c39-letchain-bool-first')
def c39_letchain_bool_first(text, **_):
    """else-less `if A && let P = E { B }` -> `if A { if let P = E { B } }` (Rust reference, let chains: the conditions are
    evaluated left to right, `E` only when `A` is true; the bindings of P scope over B). The catalogue's `letchain-nest` only takes
    chains that START with a `let`."""
    n = 0
    while True:
        toks = L.code_tokens(text)
        T = _T(text, toks)
        hit = None
        for i in range(len(toks) - 1):
            if T(i) != 'if' or toks[i][0] != 'ident' or T(i + 1) == 'let':
                continue
            j, amp = i + 1, None
            while j < len(toks):
                tt = T(j)
                if tt in ('(', '['):
                    j = L.match_close(text, toks, j) + 1
                    continue
                if tt == '{':
                    break
                if tt == '&' and T(j + 1) == '&' and toks[j + 1][1] == toks[j][2] and T(j + 2) == 'let' and amp is None:
                    amp = j
                j += 1
            if amp is None or j >= len(toks):
                continue
            if '&&' in text[toks[amp + 2][1]:toks[j][1]] or '||' in text[toks[i + 1][1]:toks[amp][1]]:
                raise Undecided('c39-letchain-bool-first: chain with more than two conditions')
            bo, bc = j, L.match_close(text, toks, j)
            if T(bc + 1) == 'else':
                raise Undecided('c39-letchain-bool-first: chain has an else branch')
            hit = (toks[amp][1], toks[amp + 1][2], toks[bo][1], toks[bc][2])
            break
        if not hit:
            break
        a0, a1, bo, bc = hit
        text = text[:a0].rstrip() + ' { if' + text[a1:bo] + text[bo:bc] + ' }' + text[bc:]
        n += 1
    return text, n


EXTRA_RULES = [
    ('c39-ghost-param', r',?\s*\)(\s*->\s*io::Result<\(\)>)', r', disk: &mut FsLog)\1',
     'ghost file system, callee side: a repository fn that calls std::fs takes the explicit file-system state `disk` as its last parameter'),
    ('c39-tmp-suffix', r'format!\("\.luafmt-tmp-\{\}", process::id\(\)\)', 'vx_tmp_suffix()',
     '`format!(".luafmt-tmp-{}", process::id())` -> `vx_tmp_suffix()`: an opaque String of which only "not empty" is known (the format '
     'string begins with a 12-character literal, which the rule matches literally); formatting a u32 does not panic'),
]

# ---------------------------------------------------------------------------------------------
# contracts
# ---------------------------------------------------------------------------------------------
# the per-file output step: the body of the `Ok(result)` arm of `match format_result` in the loop `for path in &files`
NEW = 'old(disk).len() <= i < final(disk).len()'

WRITE_ONE = {
    'src': {'kind': 'slice', 'name': 'luafmt_write_one', 'in': {'file': BIN, 'kind': 'fn', 'name': 'main'},
            'from': r'let \(result_path, source, formatted, changed\) = result;',
            'to': r'stdout\.write_all\(formatted\.as_bytes\(\)\) \{.*?exit\(2\);\s*\}\s*\}',
            'head': 'pub fn luafmt_write_one(args: &CliArgs, path: &PathBuf, result: (PathBuf, String, String, bool), mut exit_code: i32, '
                    'different_paths: &mut Vec<String>, disk: &mut FsLog, ui: &mut Ui) -> i32',
            'tail': 'exit_code'},
    'rules': ['c39-stderr-ghost', 'c39-letchain-bool-first',
              ('c39-fs-ghost', {'callees': ('write_atomically',)})],
    'attrs': '#[verifier::spinoff_prover]',
    'ret': 'r',
    'requires': '''
            old(disk).wf(),
            // `source` (result.1) is what `fs::read_to_string(path)` returned earlier in the same iteration: the file still holds it
            old(disk).cur()(path.id()) == Some(bytes(result.1@))''',
    'ensures': '''
            grows(*old(disk), *final(disk)),
            // C39: from the moment the file was read to the return of this step, at EVERY state the file system passes through (every
            // crash point) and in the state left behind on every error return, the target holds its complete original content
            // (`source`, result.1) or its complete formatted content (`formatted`, result.2)
            write_mode(args) ==> forall|i: int| old(disk).len() - 1 <= i < final(disk).len() ==>
                holds_orig_or_fmt(#[trigger] final(disk).hist@[i], path.id(), bytes(result.1@), bytes(result.2@)) /*@C39.write.original-or-formatted-at-every-point*/,
            // no other path's content changes, except a temp file next to the target that did not exist before
            write_mode(args) ==> forall|i: int| %(NEW)s ==>
                frame_ok(#[trigger] final(disk).hist@[i], old(disk).cur(), path.id()) /*@C39.write.frame*/,
            // a step that tells the user nothing has installed the formatted text where the text had to change
            write_mode(args) && result.3 && final(ui).lines@ == old(ui).lines@ ==>
                final(disk).cur()(path.id()) == Some(bytes(result.2@)) /*@C39.write.silent-means-installed*/,
            // on an error the user is told and the exit status is non-zero; and it stays non-zero
            final(disk).failed@ > old(disk).failed@ ==> r != 0 && final(ui).lines@ > old(ui).lines@ /*@C39.write.error-reported*/,
            exit_code != 0 ==> r != 0 /*@C39.write.error-status-sticky*/,
            // --check / --list-different never write
            (args.check || args.list_different) ==> final(disk).hist@ == old(disk).hist@ /*@C39.check.nothing-written*/''' % {'NEW': NEW},
}

# ---- the repair (only when the tree has it) -----------------------------------------------------------------
WRITE_ATOMICALLY = {
    'src': {'file': BIN, 'kind': 'fn', 'name': 'write_atomically'},
    'rules': [('c39-ghost-param', {'count': 1}),
              ('c39-fs-ghost', {'callees': ('write_then_rename',)})],
    'attrs': '#[verifier::spinoff_prover]',
    'ret': 'r',
    'requires': 'old(disk).wf()',
    'ensures': '''
            grows(*old(disk), *final(disk)),
            // at every state passed through and in the final state: the complete old content or the complete new content
            forall|i: int| %(NEW)s ==> ((#[trigger] final(disk).hist@[i])(path.id()) == old(disk).cur()(path.id())
                || final(disk).hist@[i](path.id()) == Some(data@)) /*@C39.atomic.old-or-new-at-every-point*/,
            forall|i: int| %(NEW)s ==> frame_ok(#[trigger] final(disk).hist@[i], old(disk).cur(), path.id()) /*@C39.atomic.frame*/,
            r is Ok ==> final(disk).cur()(path.id()) == Some(data@) /*@C39.atomic.ok-installs-new*/,
            final(disk).failed@ > old(disk).failed@ ==> r is Err /*@C39.atomic.failure-is-returned*/,
            r is Ok ==> final(disk).failed@ == old(disk).failed@''' % {'NEW': NEW},
}

WRITE_THEN_RENAME = {
    'src': {'file': BIN, 'kind': 'fn', 'name': 'write_then_rename'},
    'rules': [('c39-ghost-param', {'count': 1}), 'c39-fs-ghost'],
    'attrs': '#[verifier::spinoff_prover]',
    'ret': 'r',
    'requires': '''
            old(disk).wf(),
            // the temp file is another file than the target; it was just created (empty) and `file` is its handle
            tmp.id() != target.id() /*@C39.atomic.temp-is-not-target*/,
            old(disk).open@.contains_key(file.hid()) && old(disk).open@[file.hid()] == tmp.id() /*@C39.atomic.handle-is-temp*/,
            old(disk).cur()(tmp.id()) == Some(Seq::<u8>::empty()) /*@C39.atomic.temp-starts-empty*/''',
    'ensures': '''
            grows(*old(disk), *final(disk)),
            forall|i: int| %(NEW)s ==> ((#[trigger] final(disk).hist@[i])(target.id()) == old(disk).cur()(target.id())
                || final(disk).hist@[i](target.id()) == Some(data@)) /*@C39.atomic.old-or-new-at-every-point*/,
            // only the target and the temp file change
            forall|i: int| %(NEW)s ==> same_except2(#[trigger] final(disk).hist@[i], old(disk).cur(), target.id(), tmp.id()) /*@C39.atomic.frame*/,
            r is Ok ==> final(disk).cur()(target.id()) == Some(data@) /*@C39.atomic.ok-installs-new*/,
            final(disk).failed@ > old(disk).failed@ ==> r is Err /*@C39.atomic.failure-is-returned*/,
            r is Ok ==> final(disk).failed@ == old(disk).failed@''' % {'NEW': NEW},
}

TEMP_SIBLING = {
    'src': {'file': BIN, 'kind': 'fn', 'name': 'temp_sibling'},
    'rules': [('c39-tmp-suffix', {'count': 1})],
    'ret': 'r',
    'ensures': '''
            // a file in the same directory whose name extends the target's name: another file, on the same file system
            r matches Ok(t) ==> is_tmp_for(t.id(), path.id()) /*@C39.atomic.temp-is-sibling*/''',
    'proof': [
        (r'name\.push\(vx_tmp_suffix\(\)\);', 'before', 'let ghost n0 = name.bytes();'),
        (r'name\.push\(vx_tmp_suffix\(\)\);', 'after', 'proof { assert(name.bytes().take(n0.len() as int) =~= n0); }'),
    ],
}


def _has_helper():
    try:
        X.find_item(REPO, {'file': BIN, 'kind': 'fn', 'name': 'write_atomically'})
        return True
    except Undecided:
        return False


HAS_FIX = _has_helper()

if not HAS_FIX:
    # PIN of the finding (this tree rewrites in place with `fs::write`): it is PROVED that every rewrite that ends without a message has
    # passed through a state in which the target file is EMPTY: the failure of C39.write.original-or-formatted-at-every-point is not
    # an artefact of an over-approximating model, the truncated state is a real crash point for every file that needs reformatting
    WRITE_ONE['ensures'] += """,
            write_mode(args) && result.3 && final(ui).lines@ == old(ui).lines@ ==> exists|i: int| %(NEW)s
                && (#[trigger] final(disk).hist@[i])(path.id()) == Some(Seq::<u8>::empty()) /*@C39.finding-pin.truncated-state-is-passed-through*/""" % {'NEW': NEW}

ITEMS = {
    'CliArgs': {'src': {'file': ARGS, 'kind': 'struct', 'name': 'CliArgs'},
                'rules': [('struct-fields', {'keep': ['write', 'check', 'list_different', 'output']})]},
    'main::write_one': WRITE_ONE,
}
HELPER_KEYS = ['temp_sibling', 'write_then_rename', 'write_atomically']
if HAS_FIX:
    ITEMS['temp_sibling'] = TEMP_SIBLING
    ITEMS['write_then_rename'] = WRITE_THEN_RENAME
    ITEMS['write_atomically'] = WRITE_ATOMICALLY

with open(os.path.join(HERE, 'template.rs'), encoding='utf-8') as _f:
    _TEMPLATE = _f.read()
_TEMPLATE = _TEMPLATE.replace('//@@HELPERS', '\n\n'.join('//@@ ' + k for k in HELPER_KEYS) if HAS_FIX else '// (this tree has no `write_atomically`)')

MUTANTS = [
    {'name': 'error-status-not-set', 'item': 'main::write_one',
     'pattern': r'(Failed to write \{\}: \{e\}", path\.to_string_lossy\(\)\);\s*)exit_code = 2;', 'repl': r'\1',
     'expect': r'C39\.write\.error-reported'},
    {'name': 'error-not-printed', 'item': 'main::write_one',
     'pattern': r'eprintln!\("Failed to write \{\}: \{e\}", path\.to_string_lossy\(\)\);', 'repl': '',
     'expect': r'C39\.write\.error-reported'},
    {'name': 'error-status-reset', 'item': 'main::write_one',
     'pattern': r'if changed \{\s*exit_code = 1;', 'repl': 'if changed { exit_code = 0;',
     'expect': r'C39\.write\.error-status-sticky'},
    # the frame: a path that is not known to be the target is removed on the error path
    {'name': 'removes-another-file', 'item': 'main::write_one',
     'pattern': r'(path\.to_string_lossy\(\)\);\s*)exit_code = 2;', 'repl': r'\1exit_code = 2; let _ = fs::remove_file(&result_path);',
     'expect': r'C39\.write\.frame'},
    {'name': 'check-mode-writes', 'item': 'main::write_one',
     'pattern': r'if changed \{\s*exit_code = 1;', 'repl': 'if changed { let _ = fs::remove_file(path); exit_code = 1;',
     'expect': r'C39\.check\.nothing-written'},
]
if HAS_FIX:
    MUTANTS += [
        # the temp file is renamed over the target BEFORE it is written: the target is empty, then a prefix
        {'name': 'rename-before-write', 'item': 'write_then_rename',
         'pattern': r'(file\.write_all\(data\)\?;.*?)fs::rename\(tmp, target\)(\s*\})', 'repl': r'fs::rename(tmp, target)?; \1Ok(())\2',
         'expect': r'C39\.atomic\.old-or-new-at-every-point'},
        # the data is written straight into the target (created/truncated in place), the temp file is renamed afterwards
        {'name': 'write-target-directly', 'item': 'write_atomically',
         'pattern': r'let result = write_then_rename\(file, &tmp, &target, data\);',
         'repl': 'let result = fs::write(&target, String::new()); let result = write_then_rename(file, &tmp, &target, data);',
         'expect': r'C39\.atomic\.old-or-new-at-every-point'},
        # the "temp file" IS the target
        {'name': 'temp-is-target', 'item': 'write_atomically',
         'pattern': r'let tmp = temp_sibling\(&target\)\?;', 'repl': 'let tmp = fs::canonicalize(&target)?;',
         'expect': r'C39\.atomic\.(temp-is-not-target|old-or-new-at-every-point|frame)'},
        # the temp name is the target's own name (empty suffix)
        {'name': 'temp-name-not-extended', 'item': 'temp_sibling',
         'pattern': r'path\.with_file_name\(name\)', 'repl': 'path.with_file_name(file_name.to_os_string())',
         'expect': r'C39\.atomic\.temp-is-sibling'},
        # a failed write of the temp file is swallowed: the half-written temp file is installed
        {'name': 'write-error-ignored', 'item': 'write_then_rename',
         'pattern': r'file\.write_all\(data\)\?;', 'repl': 'let _ = file.write_all(data);',
         'expect': r'C39\.atomic\.(old-or-new-at-every-point|failure-is-returned)'},
        # the helper's error is dropped by the caller side of the contract: Ok although an operation failed
        {'name': 'error-swallowed', 'item': 'write_atomically',
         'pattern': r'\n(\s*)result\n\}', 'repl': r'\n\1Ok(())\n}',
         'expect': r'C39\.atomic\.(failure-is-returned|ok-installs-new)'},
        # the seeded defect itself: back to the truncating write
        {'name': 'back-to-fs-write', 'item': 'main::write_one',
         'pattern': r'write_atomically\(path, formatted\.as_bytes\(\)\)', 'repl': 'fs::write(path, formatted)',
         'expect': r'C39\.write\.original-or-formatted-at-every-point'},
    ]

UNIT = {
    'template_text': _TEMPLATE,
    'items': ITEMS,
    'extra_rules': EXTRA_RULES,
    'allow': [r'external_body', r'uninterp',
              r'assume_specification \[String::as_bytes\]', r'assume_specification<T> \[core::mem::drop\]'],
    'min_obligations': 3,
    'trusted': [
        'THE FILE-SYSTEM MODEL (template.rs, `FsLog` and the std::fs shims) is the specification of the platform; nothing in it is proved. '
        '`hist` = every LOGICAL state (what any process would read, page cache included) the file system passes through; a process kill '
        '(SIGKILL, SIGXFSZ) can stop the program in any of them; `failed` = number of operations that returned Err; `open` = handle -> path',
        'std::fs::write(p, data) ("creates the file or entirely replaces its contents"; std source: File::create = open(O_WRONLY|O_CREAT|O_TRUNC), then '
        'write_all) = Truncate(p); Append(p, chunk)*, stoppable by a crash or an error (ENOSPC, EFBIG, EIO) after any event or inside an append: the '
        'content of p during/after the call is the old content, or ANY prefix of data (the empty one included), or data; no other path changes; Ok => all of '
        'data is there and the truncated (empty) state was passed through',
        'std::fs::rename(a, b) within one directory (= one file system) is ATOMIC (POSIX rename(2); Windows: MoveFileExW(MOVEFILE_REPLACE_EXISTING), which '
        'replaces but is documented as atomic only on NTFS in practice): one step from "b = old file" to "b = a\'s file", a disappears; Err => nothing changed',
        'File::create_new(p) (open(O_CREAT|O_EXCL)): Ok only if p did not exist, one step to an empty file, an existing file is never touched; '
        'File::write_all through the handle appends to the file the handle is linked at, byte-wise stoppable, touches no other path; sync_all, metadata, '
        'set_permissions, canonicalize change no content; remove_file is one step; every Err is counted in `failed`',
        'ALIAS-FREE paths: different PathIds (directory, name) are different files (no hard links / symlinks between the files of the run); under this '
        'assumption `fs::canonicalize(p)` names the same file as p (same id). A path = (dir, name): Path::file_name / with_file_name / OsString::push '
        'by their std docs (with_file_name keeps the parent directory when the path has a file name)',
        'NO CONCURRENT WRITER: only luafmt changes the files (hist has no foreign steps). In particular the precondition of the per-file step: the '
        'target still holds what `fs::read_to_string(path)` returned earlier in the same loop iteration (the read is inside closures of `main` and is not '
        'extracted); check_text does not touch the file system',
        'rule c39-fs-ghost: the file-system state is threaded as the explicit parameter `disk` (state-passing form, as unit c36_channel\'s `ch`); '
        'rule c39-ghost-param adds it to the signatures of the repository fns that call std::fs',
        'rule c39-stderr-ghost: eprint!/eprintln! = one tick of the ghost counter `ui.lines`; the dropped format arguments (to_string_lossy, Display of the '
        'error, format_unified_diff = string building in luafmt.rs) are pure; rule c39-tmp-suffix: format!(".luafmt-tmp-{}", pid) is a non-empty String',
        'rule c39-letchain-bool-first: `if A && let P = E {B}` == `if A { if let P = E {B} }` (Rust reference, let chains)',
        '`PathBuf` and `Path` are identified (type alias): owned / borrowed form of the same value; `std::process::exit` never returns (`-> !`); '
        'String::as_bytes = the UTF-8 encoding of the string (vstd encode_utf8); core::mem::drop has no observable effect in the model (the handle stays in '
        '`open`, nothing is written through it afterwards); io::stdout is not a file of the model',
    ],
    'not_covered': [
        'the loop `for path in &files` of `main` and the final `exit(exit_code)`: the composition of the per-file steps over several files is proved on the '
        'CONTRACT (lemma_run_keeps_every_target in template.rs: steps with this contract over distinct existing targets keep every target original-or-formatted), '
        'not on the loop text, whose body computes `format_result` through closures (map_err / and_then / map) that are outside the extractable dialect',
        'DURABILITY after power loss / kernel crash: the model is the logical state. The proposed repair calls sync_all() before the rename (data reaches the disk '
        'before the name does); it does not fsync the directory, so after a power loss the rename itself may be lost (the ORIGINAL is then still intact)',
        'hard links, symlinked targets (the repair resolves the link with fs::canonicalize and replaces the file it points to; rename gives the file a new inode: '
        'other hard links keep the old content, ownership becomes the caller\'s, permissions are copied), directories that are not writable (the repair then '
        'reports an error where fs::write would have rewritten the file in place)',
        'a temp file `<name>.luafmt-tmp-<pid>` is left behind when the process is KILLED between create_new and rename (seen in the replay); on every error RETURN it is removed',
        'the stdin / `--output` paths (luafmt.rs:253, :340) write a file the user names as a NEW output; truncating a pre-existing output is what was asked for. '
        'Only `luafmt x.lua -o x.lua` rewrites a source in place through that path: it would need the same helper (not in the minimal diff)',
        'collect_lua_files (workspace.rs): which files are targets; the BTreeSet there makes the targets pairwise distinct paths, which the composition lemma assumes',
    ],
    'samples': [
        'per-file step of main (slice): requires disk(path) == source; ensures  --write mode ==> forall states i from entry to return: disk_i(path) == source || disk_i(path) == formatted   '
        '[C39.write.original-or-formatted-at-every-point: FAILS on fs::write(path, formatted): the states with a proper prefix of `formatted`, the empty one first]',
        'per-file step: --write mode ==> every other path keeps its content in every state, except a temp sibling `<name>...` of the target that did not exist [C39.write.frame]',
        'per-file step: an operation failed ==> exit_code != 0 and a message was printed; exit_code stays non-zero; nothing printed and text changed ==> disk(path) == formatted',
        'per-file step: --check / --list-different ==> the file-system log is unchanged (nothing is written at all)',
        'write_atomically (repair): forall states: disk_i(path) == old content || disk_i(path) == data; Ok ==> disk(path) == data; a failed operation ==> Err; frame as above',
        'write_then_rename (repair): requires tmp != target, `file` is the handle of the empty tmp; only target and tmp change; target is old-or-new in every state',
        'temp_sibling (repair): Ok(t) ==> t is in the directory of `path` and its name is the name of `path` plus a non-empty suffix',
        'finding pin (unrepaired tree only): a silent rewrite has passed through a state where the target is EMPTY [C39.finding-pin.truncated-state-is-passed-through: proved]',
    ],
    'mutants': MUTANTS,
}
