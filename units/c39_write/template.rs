// unit c39_write — C39 "in-place formatting never leaves a truncated file":
//   * slice of `main` (emmylua_formatter/src/bin/luafmt.rs): the per-file output step of the loop over the collected files
//     (the body of the `Ok(result)` arm: --check / --list-different, --write, --output, stdout)
//   * when the tree has them (proposed repair): `write_atomically`, `write_then_rename`, `temp_sibling`, whole fns
// Crash points and failing writes are OS states. They are made part of a contract by a GHOST MODEL OF THE FILE SYSTEM
// (`FsLog`, below): the log of every logical state the file system passes through. Every std::fs operation the code calls is a
// shim whose `ensures` lists the states the operation can pass through (its crash points) and the states it can end in on
// Ok and on Err. The model is the SPECIFICATION OF THE PLATFORM (trusted, see unit.py `trusted`); the code is the repository's.
use vstd::prelude::*;
use vstd::utf8::encode_utf8;
verus! {

// =====================================================================================================
// ghost model of the file system
// =====================================================================================================
/// a file name as the file system sees it: the directory it lives in and its name in that directory
pub ghost struct PathId { pub dir: int, pub name: Seq<u8> }
/// what a reader of a path gets: `None` = no such file
pub type Content = Option<Seq<u8>>;
/// one logical state of the file system (what every process would read; page cache included)
pub type Disk = spec_fn(PathId) -> Content;

pub open spec fn upd(d: Disk, p: PathId, c: Content) -> Disk {
    |q: PathId| if q == p { c } else { d(q) }
}

/// The ghost log (threaded through the code by rule `c39-fs-ghost`): `hist` = EVERY logical state the file system has passed
/// through, oldest first, the last one is the current state. The process can be killed (SIGKILL, SIGXFSZ, power button held by
/// the user's thumb) in any of them: each element of `hist` is a crash point. `failed` counts the operations that returned
/// `Err`. `open` maps the open file handles to the path their file is linked at.
pub struct FsLog { pub hist: Ghost<Seq<Disk>>, pub failed: Ghost<nat>, pub open: Ghost<Map<int, PathId>> }
impl FsLog {
    pub open spec fn wf(&self) -> bool { self.hist@.len() > 0 }
    pub open spec fn cur(&self) -> Disk { self.hist@.last() }
    pub open spec fn len(&self) -> int { self.hist@.len() as int }
}

/// the log only grows: nothing that was observable is forgotten
pub open spec fn grows(a: FsLog, b: FsLog) -> bool {
    &&& b.wf() && a.len() <= b.len()
    &&& forall|i: int| 0 <= i < a.len() ==> #[trigger] b.hist@[i] == a.hist@[i]
}
/// nothing happened on the disk (a failed open, a metadata query, an fsync)
pub open spec fn no_step(a: FsLog, b: FsLog) -> bool { b.hist@ == a.hist@ && b.open@ == a.open@ }
/// exactly one atomic step to state `d`
pub open spec fn one_step(a: FsLog, b: FsLog, d: Disk) -> bool { b.hist@ == a.hist@.push(d) }
/// `d` differs from `base` at most at `p`
pub open spec fn same_except(d: Disk, base: Disk, p: PathId) -> bool {
    forall|q: PathId| q != p ==> #[trigger] d(q) == base(q)
}
pub open spec fn same_except2(d: Disk, base: Disk, p1: PathId, p2: PathId) -> bool {
    forall|q: PathId| q != p1 && q != p2 ==> #[trigger] d(q) == base(q)
}
pub open spec fn failure(a: FsLog, b: FsLog, is_err: bool) -> bool {
    b.failed@ == a.failed@ + (if is_err { 1nat } else { 0nat })
}
/// the contents `std::fs::write(p, data)` / a sequence of `write(2)` calls can leave behind: the old content, or any prefix of
/// the data (the empty one is the state right after O_TRUNC; a short `write(2)` stops in the middle of a chunk), or all of it
pub open spec fn write_state(c: Content, oldc: Content, data: Seq<u8>) -> bool {
    c == oldc || exists|k: int| 0 <= k <= data.len() && c == Some(#[trigger] data.take(k))
}
pub open spec fn appended(c: Content, s: Seq<u8>) -> Content {
    match c { Some(b) => Some(b + s), None => None }
}

// ---- paths --------------------------------------------------------------------------------------------
/// std::path::Path and PathBuf (borrowed / owned form of the same value; the model identifies them)
#[verifier::external_body]
pub struct Path { _p: () }
pub type PathBuf = Path;
#[verifier::external_body]
pub struct OsStr { _p: () }
#[verifier::external_body]
pub struct OsString { _p: () }
/// `Cow<str>` returned by `to_string_lossy`
#[verifier::external_body]
pub struct LossyStr { _p: () }
impl LossyStr {
    #[verifier::external_body]
    pub fn to_string(&self) -> String { unimplemented!() }
}
impl OsStr {
    pub uninterp spec fn bytes(&self) -> Seq<u8>;
    #[verifier::external_body]
    pub fn to_os_string(&self) -> (r: OsString)
        ensures r.bytes() == self.bytes(),
    { unimplemented!() }
}
impl OsString {
    pub uninterp spec fn bytes(&self) -> Seq<u8>;
    /// "Extends the string with the given &OsStr slice."
    #[verifier::external_body]
    pub fn push(&mut self, s: String)
        ensures final(self).bytes() == old(self).bytes() + encode_utf8(s@),
    { unimplemented!() }
}
impl Path {
    /// the file this path names (ALIAS-FREE model: different ids are different files; no hard links, no symlinks between them)
    pub uninterp spec fn id(&self) -> PathId;
    /// `file_name()` is `Some`: the path does not end in `..` and is not a root
    pub uninterp spec fn has_file_name(&self) -> bool;
    /// "Returns the final component of the Path, if there is one."
    #[verifier::external_body]
    pub fn file_name(&self) -> (r: Option<&OsStr>)
        ensures r is Some == self.has_file_name(), r matches Some(n) ==> n.bytes() == self.id().name,
    { unimplemented!() }
    /// "Creates an owned PathBuf like self but with the given file name": same parent directory, the new name (when self has a
    /// file name; otherwise the name is pushed and nothing is promised here)
    #[verifier::external_body]
    pub fn with_file_name(&self, file_name: OsString) -> (r: PathBuf)
        ensures self.has_file_name() ==> r.id() == (PathId { dir: self.id().dir, name: file_name.bytes() }),
    { unimplemented!() }
    #[verifier::external_body]
    pub fn to_string_lossy(&self) -> LossyStr { unimplemented!() }
}
/// "a temp file in the same directory" as the target `p`: a sibling whose name extends the target's name
pub open spec fn is_tmp_for(q: PathId, p: PathId) -> bool {
    q.dir == p.dir && q.name.len() > p.name.len() && q.name.take(p.name.len() as int) == p.name
}

// ---- std::io ------------------------------------------------------------------------------------------
pub mod io {
    use super::*;
    #[verifier::external_body]
    pub struct Error { _p: () }
    pub enum ErrorKind { InvalidInput }
    impl Error {
        #[verifier::external_body]
        pub fn new(kind: ErrorKind, msg: &str) -> Error { unimplemented!() }
    }
    pub type Result<T> = core::result::Result<T, Error>;
    #[verifier::external_body]
    pub struct Stdout { _p: () }
    #[verifier::external_body]
    pub fn stdout() -> Stdout { unimplemented!() }
    impl Stdout {
        /// stdout is not a file of the model (a shell redirection `> file` is the shell's truncation, not luafmt's)
        #[verifier::external_body]
        pub fn write_all(&mut self, buf: &[u8]) -> Result<()> { unimplemented!() }
    }
}

// ---- std::fs: THE PLATFORM SPECIFICATION (trusted) ----------------------------------------------------------
#[verifier::external_body]
pub struct File { _p: () }
#[verifier::external_body]
pub struct Metadata { _p: () }
#[verifier::external_body]
pub struct Permissions { _p: () }
impl Metadata {
    #[verifier::external_body]
    pub fn permissions(&self) -> Permissions { unimplemented!() }
}
impl File {
    /// identity of the open handle
    pub uninterp spec fn hid(&self) -> int;
    /// std: "Creates a new file in read-write mode; error if the file exists. [...] This option is useful because it is atomic."
    /// (open(O_CREAT|O_EXCL)): one step from "no such file" to "empty file"; an existing file is never touched.
    #[verifier::external_body]
    pub fn create_new(path: &Path, disk: &mut FsLog) -> (r: io::Result<File>)
        requires old(disk).wf(),
        ensures grows(*old(disk), *final(disk)), failure(*old(disk), *final(disk), r is Err),
            match r {
                Ok(f) => old(disk).cur()(path.id()) is None
                    && one_step(*old(disk), *final(disk), upd(old(disk).cur(), path.id(), Some(Seq::<u8>::empty())))
                    && !old(disk).open@.contains_key(f.hid()) && final(disk).open@ == old(disk).open@.insert(f.hid(), path.id()),
                Err(_) => no_step(*old(disk), *final(disk)),
            },
    { unimplemented!() }
    /// `Write::write_all` on a file that this handle alone writes, sequentially from its creation: a sequence of `write(2)` calls,
    /// each appending a chunk; a crash or an error (ENOSPC, EFBIG, EIO) can stop after any byte. Only the file the handle is
    /// linked at changes; Ok means all of `buf` was appended. A handle whose file was unlinked changes nothing observable.
    #[verifier::external_body]
    pub fn write_all(&mut self, buf: &[u8], disk: &mut FsLog) -> (r: io::Result<()>)
        requires old(disk).wf(),
        ensures final(self).hid() == old(self).hid(),
            grows(*old(disk), *final(disk)), failure(*old(disk), *final(disk), r is Err), final(disk).open@ == old(disk).open@,
            match old(disk).open@.get(old(self).hid()) {
                Some(t) => {
                    &&& forall|i: int| old(disk).len() <= i < final(disk).len() ==> {
                            &&& same_except(#[trigger] final(disk).hist@[i], old(disk).cur(), t)
                            &&& exists|k: int| 0 <= k <= buf@.len() && final(disk).hist@[i](t) == appended(old(disk).cur()(t), #[trigger] buf@.take(k))
                        }
                    &&& r is Ok ==> final(disk).cur()(t) == appended(old(disk).cur()(t), buf@)
                },
                None => final(disk).hist@ == old(disk).hist@,
            },
    { unimplemented!() }
    /// fsync: durability only; the logical content does not change
    #[verifier::external_body]
    pub fn sync_all(&self, disk: &mut FsLog) -> (r: io::Result<()>)
        requires old(disk).wf(),
        ensures no_step(*old(disk), *final(disk)), failure(*old(disk), *final(disk), r is Err),
    { unimplemented!() }
}

/// std::fs::write: "This function will create a file if it does not exist, and will entirely replace its contents if it does."
/// Implementation (std/src/fs.rs): `File::create(path)?.write_all(contents)` = open(O_WRONLY|O_CREAT|O_TRUNC) then write(2)
/// in a loop. Event sequence: Truncate(path); Append(path, chunk)*; a crash or an error may stop after ANY event or inside an
/// append. Hence the contents of `path` during / after the call: the old content (open failed), every prefix of the data
/// (including the empty one: right after O_TRUNC), the data. No other path changes. Ok: all data written, and the truncated
/// state has been passed through.
#[verifier::external_body]
pub fn fs_write(path: &Path, contents: String, disk: &mut FsLog) -> (r: io::Result<()>)
    requires old(disk).wf(),
    ensures grows(*old(disk), *final(disk)), failure(*old(disk), *final(disk), r is Err), final(disk).open@ == old(disk).open@,
        forall|i: int| old(disk).len() <= i < final(disk).len() ==> {
            &&& same_except(#[trigger] final(disk).hist@[i], old(disk).cur(), path.id())
            &&& write_state(final(disk).hist@[i](path.id()), old(disk).cur()(path.id()), encode_utf8(contents@))
        },
        r is Ok ==> final(disk).cur()(path.id()) == Some(encode_utf8(contents@))
            && exists|i: int| old(disk).len() <= i < final(disk).len() && (#[trigger] final(disk).hist@[i])(path.id()) == Some(Seq::<u8>::empty()),
{ unimplemented!() }

/// std::fs::rename: "Rename a file or directory to a new name, replacing the original file if `to` already exists." rename(2)
/// within one file system is ATOMIC: a reader of `to` sees the old file or the new one, never anything in between. One step;
/// open handles follow the file. (`from` and `to` in the same directory are on the same file system.)
#[verifier::external_body]
pub fn fs_rename(from: &Path, to: &Path, disk: &mut FsLog) -> (r: io::Result<()>)
    requires old(disk).wf(), from.id() != to.id(),
    ensures grows(*old(disk), *final(disk)), failure(*old(disk), *final(disk), r is Err),
        match r {
            Ok(_) => old(disk).cur()(from.id()) is Some
                && one_step(*old(disk), *final(disk), upd(upd(old(disk).cur(), to.id(), old(disk).cur()(from.id())), from.id(), None))
                && (forall|h: int| #[trigger] final(disk).open@.contains_key(h) == old(disk).open@.contains_key(h))
                && (forall|h: int| old(disk).open@.contains_key(h) ==> #[trigger] final(disk).open@[h]
                        == (if old(disk).open@[h] == from.id() { to.id() } else { old(disk).open@[h] })),
            Err(_) => no_step(*old(disk), *final(disk)),
        },
{ unimplemented!() }

/// std::fs::remove_file (unlink): one step; handles of the file stay usable but nothing they write is observable
#[verifier::external_body]
pub fn fs_remove_file(path: &Path, disk: &mut FsLog) -> (r: io::Result<()>)
    requires old(disk).wf(),
    ensures grows(*old(disk), *final(disk)), failure(*old(disk), *final(disk), r is Err),
        match r {
            Ok(_) => one_step(*old(disk), *final(disk), upd(old(disk).cur(), path.id(), None))
                && (forall|h: int| #[trigger] final(disk).open@.contains_key(h) == (old(disk).open@.contains_key(h) && old(disk).open@[h] != path.id()))
                && (forall|h: int| final(disk).open@.contains_key(h) ==> #[trigger] final(disk).open@[h] == old(disk).open@[h]),
            Err(_) => no_step(*old(disk), *final(disk)),
        },
{ unimplemented!() }

/// std::fs::metadata / set_permissions: no content changes
#[verifier::external_body]
pub fn fs_metadata(path: &Path, disk: &mut FsLog) -> (r: io::Result<Metadata>)
    requires old(disk).wf(),
    ensures no_step(*old(disk), *final(disk)), failure(*old(disk), *final(disk), r is Err),
{ unimplemented!() }
#[verifier::external_body]
pub fn fs_set_permissions(path: &Path, perm: Permissions, disk: &mut FsLog) -> (r: io::Result<()>)
    requires old(disk).wf(),
    ensures no_step(*old(disk), *final(disk)), failure(*old(disk), *final(disk), r is Err),
{ unimplemented!() }
/// std::fs::canonicalize: "Returns the canonical, absolute form of a path with all intermediate components normalized and
/// symbolic links resolved": another name of the SAME file (in the alias-free model: the same id), which has a file name
#[verifier::external_body]
pub fn fs_canonicalize(path: &Path, disk: &mut FsLog) -> (r: io::Result<PathBuf>)
    requires old(disk).wf(),
    ensures no_step(*old(disk), *final(disk)), failure(*old(disk), *final(disk), r is Err),
        r matches Ok(c) ==> c.id() == path.id(),
{ unimplemented!() }
pub mod fs {
    pub use super::File;
    pub use super::{fs_write as write, fs_rename as rename, fs_remove_file as remove_file, fs_metadata as metadata,
                    fs_set_permissions as set_permissions, fs_canonicalize as canonicalize};
}

// ---- std documented behaviour restated ------------------------------------------------------------------------
pub assume_specification [String::as_bytes] (s: &String) -> (r: &[u8])
    ensures r@ == encode_utf8(s@);
pub assume_specification<T> [core::mem::drop] (_0: T);

/// `std::process::exit`: never returns
#[verifier::external_body]
pub fn exit(code: i32) -> !
{ std::process::exit(code) }

// ---- stderr (rule `c39-stderr-ghost`) ---------------------------------------------------------------------------
/// what the user has been told: number of messages written to stderr
pub struct Ui { pub lines: Ghost<nat> }
#[verifier::external_body]
pub fn vx_eprint(ui: &mut Ui)
    ensures final(ui).lines@ == old(ui).lines@ + 1,
{ }
/// `format!(".luafmt-tmp-{}", process::id())` (rule `c39-tmp-suffix`): a string that begins with the 12-character literal
#[verifier::external_body]
pub fn vx_tmp_suffix() -> (r: String)
    ensures encode_utf8(r@).len() > 0,
{ unimplemented!() }

// ---- property vocabulary ----------------------------------------------------------------------------------------
/// `luafmt --write` rewrites files: --write given and neither --check nor --list-different (which take precedence in `main`)
pub open spec fn write_mode(args: &CliArgs) -> bool { args.write && !(args.check || args.list_different) }
pub open spec fn bytes(s: Seq<char>) -> Seq<u8> { encode_utf8(s) }
/// C39 for one state: the target holds its complete original content or its complete formatted content
pub open spec fn holds_orig_or_fmt(d: Disk, p: PathId, orig: Seq<u8>, fmt: Seq<u8>) -> bool {
    d(p) == Some(orig) || d(p) == Some(fmt)
}
/// the frame for one state: apart from the target, only a temp file next to it that did not exist before may differ
pub open spec fn frame_ok(d: Disk, base: Disk, p: PathId) -> bool {
    forall|q: PathId| q != p && !(is_tmp_for(q, p) && base(q) is None) ==> #[trigger] d(q) == base(q)
}

//@@ CliArgs

//@@include c39_write/lemmas.rs

//@@HELPERS

//@@ main::write_one

} // verus!
fn main() {}
