// ---- composition over several files: proved ON THE CONTRACT of the per-file step (not on the loop text of `main`) ---------------
/// the contract of one per-file step in --write mode as a predicate over the log before (`a`) and after (`b`) the step:
/// clauses C39.write.original-or-formatted-at-every-point and C39.write.frame of `main::write_one`, with `orig` = what the
/// target holds when the step starts (the step's precondition: that is what was read)
pub open spec fn step_ok(a: FsLog, b: FsLog, p: PathId, fmt: Seq<u8>) -> bool {
    &&& a.wf() && grows(a, b)
    &&& a.cur()(p) is Some
    &&& forall|i: int| a.len() - 1 <= i < b.len() ==> holds_orig_or_fmt(#[trigger] b.hist@[i], p, a.cur()(p)->0, fmt)
    &&& forall|i: int| a.len() <= i < b.len() ==> frame_ok(#[trigger] b.hist@[i], a.cur(), p)
}
/// a run of `luafmt --write` over the targets `ps`: logs[0] = the file system when the run starts, logs[k + 1] = the log after
/// the step for ps[k], which installs fmts[k]
pub open spec fn run_ok(logs: Seq<FsLog>, ps: Seq<PathId>, fmts: Seq<Seq<u8>>) -> bool {
    &&& logs.len() == ps.len() + 1 && fmts.len() == ps.len()
    &&& forall|k: int| 0 <= k < ps.len() ==> step_ok(#[trigger] logs[k], logs[k + 1], ps[k], fmts[k])
}
/// after `m` steps: in every state since the start of the run, a target already processed holds its original (= what it held when
/// the run started) or its formatted text; a target not yet processed still holds its original
pub open spec fn run_inv(logs: Seq<FsLog>, ps: Seq<PathId>, fmts: Seq<Seq<u8>>, m: int) -> bool {
    forall|i: int, k: int| logs[0].len() - 1 <= i < logs[m].len() && 0 <= k < ps.len() ==> {
        let c = (#[trigger] logs[m].hist@[i])(#[trigger] ps[k]);
        if k < m { c == logs[0].cur()(ps[k]) || c == Some(fmts[k]) } else { c == logs[0].cur()(ps[k]) }
    }
}

pub proof fn lemma_run_prefix(logs: Seq<FsLog>, ps: Seq<PathId>, fmts: Seq<Seq<u8>>, m: nat)
    requires
        run_ok(logs, ps, fmts), ps.no_duplicates(), m <= ps.len(), logs[0].wf(),
        forall|k: int| 0 <= k < ps.len() ==> logs[0].cur()(#[trigger] ps[k]) is Some,
    ensures
        run_inv(logs, ps, fmts, m as int), logs[m as int].wf(), logs[0].len() <= logs[m as int].len(),
    decreases m,
{
    if m == 0 {
        assert(logs[0].hist@[logs[0].len() - 1] == logs[0].cur());
    } else {
        let j = (m - 1) as int;
        lemma_run_prefix(logs, ps, fmts, (m - 1) as nat);
        let a = logs[j];
        let b = logs[j + 1];
        assert(step_ok(a, b, ps[j], fmts[j]));
        assert(a.hist@[a.len() - 1] == a.cur());
        // what the step starts from: every target holds its original or (if already processed) its formatted text: it EXISTS
        assert forall|k: int| 0 <= k < ps.len() implies (a.cur()(#[trigger] ps[k]) is Some
            && (if k < j { a.cur()(ps[k]) == logs[0].cur()(ps[k]) || a.cur()(ps[k]) == Some(fmts[k]) } else { a.cur()(ps[k]) == logs[0].cur()(ps[k]) })) by {
            let c = (a.hist@[a.len() - 1])(ps[k]);
        }
        assert forall|i: int, k: int| logs[0].len() - 1 <= i < b.len() && 0 <= k < ps.len() implies ({
            let c = (#[trigger] b.hist@[i])(#[trigger] ps[k]);
            if k < m { c == logs[0].cur()(ps[k]) || c == Some(fmts[k]) } else { c == logs[0].cur()(ps[k]) }
        }) by {
            if i < a.len() {
                assert(b.hist@[i] == a.hist@[i]);
                let c = (a.hist@[i])(ps[k]);
            } else if k == j {
                assert(holds_orig_or_fmt(b.hist@[i], ps[j], a.cur()(ps[j])->0, fmts[j]));
            } else {
                // another target: it exists, so the frame's exemption for a FRESH temp file does not apply to it
                assert(frame_ok(b.hist@[i], a.cur(), ps[j]));
                assert(ps[k] != ps[j]);
                assert(!(is_tmp_for(ps[k], ps[j]) && a.cur()(ps[k]) is None));
                assert(b.hist@[i](ps[k]) == a.cur()(ps[k]));
            }
        }
    }
}

/// C39 over the whole run: at every state the file system passes through from the start of the run to its end (every crash point
/// of the run over several files), EVERY target holds its complete original content or its complete formatted content
pub proof fn lemma_run_keeps_every_target(logs: Seq<FsLog>, ps: Seq<PathId>, fmts: Seq<Seq<u8>>)
    requires
        run_ok(logs, ps, fmts), logs[0].wf(),
        // collect_lua_files returns a set of paths (BTreeSet) of existing files
        ps.no_duplicates(),
        forall|k: int| 0 <= k < ps.len() ==> logs[0].cur()(#[trigger] ps[k]) is Some,
    ensures
        forall|i: int, k: int| logs[0].len() - 1 <= i < logs.last().len() && 0 <= k < ps.len() ==>
            holds_orig_or_fmt(#[trigger] logs.last().hist@[i], #[trigger] ps[k], logs[0].cur()(ps[k])->0, fmts[k]) /*@C39.run.every-target-at-every-point*/,
{
    lemma_run_prefix(logs, ps, fmts, ps.len());
    assert(logs.last() == logs[ps.len() as int]);
}
