"""unit c36_writers — the three `OutputWriter` implementations of emmylua_check and `TerminalDisplay` (C36, report sentence)."""
import re

from vc import rustlex as L
from vc.extract import Undecided
from vc.rules import rule

JSON = 'crates/emmylua_check/src/output/json_output_writer.rs'
SARIF = 'crates/emmylua_check/src/output/sarif_output_writer.rs'
TEXT = 'crates/emmylua_check/src/output/text_output_writer.rs'
DISP = 'crates/emmylua_check/src/terminal_display/display.rs'


# ---------------------------------------------------------------------------------------------
# rewrite rules of this unit
# ---------------------------------------------------------------------------------------------
def _macro_calls(text, names):
    """(start, end) of every `name!( ... )` invocation (balanced), textual order"""
    toks = L.code_tokens(text)
    T = lambda i: L.tok_text(text, toks[i]) if 0 <= i < len(toks) else ''
    hits = []
    i = 0
    while i < len(toks) - 2:
        if toks[i][0] == 'ident' and T(i) in names and T(i + 1) == '!' and T(i + 2) == '(':
            c = L.match_close(text, toks, i + 2)
            hits.append((toks[i][1], toks[c][2]))
            i = c + 1
            continue
        i += 1
    return hits


@rule('stdout-print-fmt')
def stdout_print_fmt(text, **_):
    """every remaining `print!(FMT, ARGS..)` / `println!(FMT, ARGS..)` -> `out.vx_print_fmt()`: the write to the
    process-global stdout becomes ONE uninterpreted event on the explicit sink `out` (rule family `stdout-explicit`).
    The format string and the arguments are DROPPED: formatting is not under contract, and a panic inside an argument
    expression (none of them indexes or divides; `x + 1` on a usize that came from a u32) is not covered."""
    hits = _macro_calls(text, ('print', 'println'))
    for a, b in reversed(hits):
        text = text[:a] + 'out.vx_print_fmt()' + text[b:]
    return text, len(hits)


@rule('stdout-pass')
def stdout_pass(text, callees=(), **_):
    """`RECV.f(ARGS)` -> `RECV.f(ARGS, out)` for the listed callees `f`, which print: the explicit stdout sink introduced by
    the `stdout-*` rules is threaded through the call (state-passing form of a write to a process-global)."""
    n = 0
    while True:
        toks = L.code_tokens(text)
        T = lambda i: L.tok_text(text, toks[i]) if 0 <= i < len(toks) else ''
        hit = None
        for i in range(1, len(toks) - 1):
            if toks[i][0] == 'ident' and T(i) in callees and T(i - 1) == '.' and T(i + 1) == '(':
                c = L.match_close(text, toks, i + 1)
                if T(c - 1) == 'out':
                    continue
                if T(c - 1) == ',':
                    hit = (toks[c - 1][1], toks[c][1], ', out')      # trailing comma of a multi-line call
                else:
                    hit = (toks[c][1], toks[c][1], ', out')
                break
        if not hit:
            break
        text = text[:hit[0]] + hit[2] + text[hit[1]:]
        n += 1
    return text, n


@rule('formatting-body-opaque')
def formatting_body_opaque(text, self_calls=(), **_):
    """the body of a pure-formatting method is replaced by `{ unimplemented!() }` (the item gets `external_body`; its
    signature stays the repository's, its contract is a trusted shim). Guard, checked on every run: inside the body
    `self` occurs only as the receiver of the listed `&self` methods — so the `&mut self` is never written (the frame
    clause of the shim). If the body changes so that the guard no longer holds the unit is undecided."""
    toks = L.code_tokens(text)
    T = lambda i: L.tok_text(text, toks[i]) if 0 <= i < len(toks) else ''
    k = next(i for i in range(len(toks)) if T(i) == 'fn')
    j = k
    while T(j) != '(':
        j += 1
    j = L.match_close(text, toks, j) + 1
    while T(j) != '{':
        j = L.match_close(text, toks, j) + 1 if T(j) in ('(', '[') else j + 1
    bc = L.match_close(text, toks, j)
    for i in range(j + 1, bc):
        if toks[i][0] == 'ident' and T(i) == 'self':
            if not (T(i + 1) == '.' and T(i + 2) in self_calls and T(i + 3) == '('):
                raise Undecided('formatting-body-opaque: the body uses `self` other than through %s' % (list(self_calls),))
        if toks[i][0] == 'ident' and T(i) in ('unsafe', 'static'):
            raise Undecided('formatting-body-opaque: the body contains `%s`' % T(i))
    return text[:toks[j][1]] + '{ unimplemented!() }' + text[toks[bc][2]:], 1


LIT = r'"((?:[^"{}\\]|\\.)*)"'
EXTRA_RULES = [
    ('stdout-println-lit', r'println!\(' + LIT + r'\)', r'out.vx_println_lit("\1")',
     'println!("lit") (no placeholders) -> out.vx_println_lit("lit"): the line written to the process-global stdout is recorded on '
     'the explicit sink `out` (rule family `stdout-explicit`: print!/println! write to a global; the global is made a parameter)'),
    ('stdout-println-empty', r'println!\(\)', r'out.vx_println_lit("")',
     'println!() -> out.vx_println_lit(""): an empty line on the explicit sink'),
    ('stdout-println-display', r'println!\("\{\}", (.*?)\);', r'out.vx_println_string(&\1);',
     'println!("{}", E) with E: String -> out.vx_println_string(&E): `Display for String` writes the string\'s content (std); '
     'rustc checks E: String through the helper\'s parameter type'),
    ('json-file-entry', r'json!\(\{\s*"file": (\w+),\s*"diagnostics": (\w+),?\s*\}\)', r'vx_json_file(\1, &\2)',
     'json!({"file": F, "diagnostics": D}) -> vx_json_file(F, &D), ensures r == sp_json_file(F@, D@) (uninterpreted): serde_json\'s '
     'json! builds an object from the interpolated expressions, taken by reference; what the object looks like is not claimed'),
    ('json-sarif-run', r'json!\(\{\s*"tool": \{\s*"driver": (\w+)\s*\},\s*"results": ([\w\.]+)\s*\}\)', r'vx_sarif_run(&\1, &\2)',
     'json!({"tool": {"driver": T}, "results": R}) -> vx_sarif_run(&T, &R), ensures r == sp_sarif_run(T, R@) (uninterpreted)'),
    ('json-sarif-document', r'json!\(\{\s*"version": "2\.1\.0",\s*"\$schema": "[^"]*",\s*"runs": \[(\w+)\]\s*\}\)', r'vx_sarif_document(&\1)',
     'json!({"version": .., "$schema": .., "runs": [RUN]}) -> vx_sarif_document(&RUN), ensures r == sp_sarif_document(RUN) (uninterpreted)'),
    ('json-opaque', r'json!\(\{[^{}]*\}\)', r'vx_json_opaque()',
     'a json! object that is no part of the claim (the SARIF tool descriptor) -> vx_json_opaque(): an unconstrained Value'),
    ('str-lines-collect', r'(\w+)\.lines\(\)\.collect::<Vec<&str>>\(\)', r'vx_lines(\1)',
     'T.lines().collect::<Vec<&str>>() -> vx_lines(T), ensures r@.len() <= sp_line_count(T@): str::lines yields at most '
     '(number of \'\\n\') + 1 lines (std: split at \\n / \\r\\n, final line ending optional); the content of the lines is not specified'),
    ('iter-skip-vec', r'for (\w+) in (\w+)(?:\.into_iter\(\))?\.skip\((\w+)\) \{', r'for \1 in vx_vec_skip(\2, \3) {',
     'for x in V.into_iter().skip(N) { B } (V: Vec by value) -> for x in vx_vec_skip(V, N) { B }: Iterator::skip drops the first N '
     'elements (std); the helper returns the remaining elements in order. Optional: the construct is absent from the current tree'),
]

SKIP = ('iter-skip-vec', {'optional': True})
STDOUT = ['stdout-println-lit', 'stdout-println-empty', 'stdout-println-display']


def opt(names):
    return [(n, {'optional': True}) for n in names]


# ---------------------------------------------------------------------------------------------
# contracts
# ---------------------------------------------------------------------------------------------
JSON_WRITE = {
    'src': {'kind': 'slice', 'name': 'write',
            'in': {'file': JSON, 'kind': 'fn', 'impl': 'OutputWriter for JsonOutputWriter', 'name': 'write'},
            'from': r'let file_path = db\.get_vfs\(\)\.get_file_path\(&file_id\)\.unwrap\(\);',
            'to': r'self\.json_file_caches\.push\(json_file\);\s*\}',
            'head': 'pub fn write(&mut self, db: &DbIndex, file_id: FileId, diagnostics: Vec<Diagnostic>, out: &mut Stdout)',
            'tail': ''},
    'rules': [SKIP, 'json-file-entry', ('stdout-println-lit', {'count': 2}), ('stdout-println-display', {'count': 1})],
    'requires': 'path_text(db, file_id) is Some',
    'ensures': '''
            final(self).output == old(self).output,
            // report file: ONE entry per call, carrying the file's path and ALL diagnostics it was given, in order
            old(self).output is Some ==> final(self).json_file_caches@ == old(self).json_file_caches@.push(json_entry(path_text(db, file_id)->0, diagnostics@))
                && final(out).log@ == old(out).log@ && final(self).first_write == old(self).first_write /*@C36.json.each-diagnostic-once-under-its-file*/,
            // stdout: the same entry is printed at once (after "[" for the first file, "," for the others), nothing is cached
            old(self).output is None ==> final(self).json_file_caches@ == old(self).json_file_caches@ && !final(self).first_write
                && final(out).log@ == old(out).log@.push(Out::Line(if old(self).first_write { "["@ } else { ","@ }))
                    .push(Out::Line(sp_pretty(json_entry(path_text(db, file_id)->0, diagnostics@)))) /*@C36.json.each-diagnostic-once-under-its-file*/''',
    'iter_names': {0: 'it'},
    'loops': {0: '''invariant
                    json_diagnostics@.len() == it.index@,
                    forall|i: int| 0 <= i < it.index@ ==> json_diagnostics@[i] == sp_to_value(diagnostics@[i]) /*@C36.json.each-diagnostic-once-under-its-file.inv*/,'''},
    'proof': [(r'let json_file = ', 'before', 'proof { assert(json_diagnostics@ =~= values_of(diagnostics@)); /*@C36.json.each-diagnostic-once-under-its-file.all*/ }')],
}

JSON_FINISH = {
    'src': {'kind': 'slice', 'name': 'finish',
            'in': {'file': JSON, 'kind': 'fn', 'impl': 'OutputWriter for JsonOutputWriter', 'name': 'finish'},
            'from': r'if let Some\(output\) = self\.output\.as_mut\(\) \{',
            'to': r'println!\("\\n\]"\);\s*\}',
            'head': 'pub fn finish(&mut self, out: &mut Stdout)', 'tail': ''},
    'rules': [('stdout-println-lit', {'count': 1})],
    'ensures': '''
            final(self).json_file_caches == old(self).json_file_caches && final(self).first_write == old(self).first_write,
            // report file: the accumulated entries, serialised as one array, are what is written
            old(self).output matches Some(f) ==> (final(self).output matches Some(g)
                && g.written@ == f.written@.push(sp_utf8(sp_pretty(old(self).json_file_caches))))
                && final(out).log@ == old(out).log@ /*@C36.json.finish-serialises-what-was-accumulated*/,
            // stdout: the array opened by the first `write` is closed; nothing else is printed
            old(self).output is None ==> final(self).output is None
                && final(out).log@ == (if old(self).first_write { old(out).log@ } else { old(out).log@.push(Out::Line("\\n]"@)) }) /*@C36.json.finish-closes-the-array*/''',
}

SARIF_WRITE = {
    'src': {'file': SARIF, 'kind': 'fn', 'impl': 'OutputWriter for SarifOutputWriter', 'name': 'write'},
    'rules': [SKIP],
    'requires': 'diagnostics@.len() > 0 ==> uri_text(db, file_id) is Some',
    'ensures': '''
            final(self).output == old(self).output,
            // one result per diagnostic, in order, each carrying THIS file's uri; earlier results untouched
            final(self).current_results@ == old(self).current_results@
                + sarif_results(uri_text(db, file_id)->0, diagnostics@) /*@C36.sarif.each-diagnostic-once-under-its-file*/''',
    'iter_names': {0: 'it'},
    'loops': {0: '''invariant
                    self.output == old(self).output,
                    file_uri@ == uri_text(db, file_id)->0 /*@C36.sarif.each-diagnostic-once-under-its-file.uri.inv*/,
                    self.current_results@ == old(self).current_results@
                        + sarif_results(file_uri@, diagnostics@.take(it.index@ as int)) /*@C36.sarif.each-diagnostic-once-under-its-file.inv*/,'''},
    'proof': [
        (r'if diagnostics\.is_empty\(\) \{', 'after',
         'proof { assert(sarif_results(uri_text(db, file_id)->0, diagnostics@) =~= Seq::empty()); assert(self.current_results@ + Seq::<Value>::empty() =~= self.current_results@); }'),
        (r'self\.ensure_tool\(\);', 'after',
         'proof { assert(sarif_results(file_uri@, diagnostics@.take(0)) =~= Seq::empty()); assert(self.current_results@ + Seq::<Value>::empty() =~= self.current_results@); }'),
        (r'self\.current_results\.push\(result\);', 'after',
         '''proof {
                let k = it.index@ as int;
                assert(diagnostics@.take(k + 1) =~= diagnostics@.take(k).push(diagnostics@[k]));
                assert(sarif_results(file_uri@, diagnostics@.take(k + 1)) =~= sarif_results(file_uri@, diagnostics@.take(k)).push(sp_sarif_result(file_uri@, diagnostics@[k])));
                assert(self.current_results@ =~= old(self).current_results@ + sarif_results(file_uri@, diagnostics@.take(k + 1))); /*@C36.sarif.each-diagnostic-once-under-its-file.step*/
            }'''),
        (r'\n\s*\}$', 'before', 'proof { assert(diagnostics@.take(diagnostics@.len() as int) =~= diagnostics@); }'),
    ],
}

SARIF_FINISH = {
    'src': {'kind': 'slice', 'name': 'finish_emit',
            'in': {'file': SARIF, 'kind': 'fn', 'impl': 'OutputWriter for SarifOutputWriter', 'name': 'finish'},
            'from': r'let run = json!\(', 'to': r'println!\("\{\}", pretty_json\);\s*\}',
            'head': 'pub fn finish_emit(&mut self, tool: Value, out: &mut Stdout)', 'tail': ''},
    'rules': ['json-sarif-run', 'json-sarif-document', ('stdout-println-display', {'count': 1})],
    'ensures': '''
            final(self).current_results == old(self).current_results,
            // the one document emitted holds exactly the accumulated results
            old(self).output matches Some(f) ==> (final(self).output matches Some(g)
                && g.written@ == f.written@.push(sp_utf8(sp_pretty(sp_sarif_document(sp_sarif_run(tool, old(self).current_results@))))))
                && final(out).log@ == old(out).log@ /*@C36.sarif.finish-serialises-what-was-accumulated*/,
            old(self).output is None ==> final(self).output is None
                && final(out).log@ == old(out).log@.push(Out::Line(sp_pretty(sp_sarif_document(sp_sarif_run(tool, old(self).current_results@))))) /*@C36.sarif.finish-serialises-what-was-accumulated*/''',
}

SECTION = '''
            diagnostics@.len() == 0 ==> final(out).log@ == old(out).log@ /*@C36.text.no-diagnostics-no-section*/,
            // header with the file's path, then ONE block per diagnostic in order under that path, then a blank line
            diagnostics@.len() > 0 ==> final(out).log@ == old(out).log@
                + text_section(sp_rel_path(%s, db, file_id), diagnostics@) /*@C36.text.each-diagnostic-displayed-once-under-its-file*/'''

DISPLAY_DIAGNOSTICS = {
    'src': {'kind': 'slice', 'name': 'display_diagnostics',
            'in': {'file': DISP, 'kind': 'fn', 'impl': 'TerminalDisplay', 'name': 'display_diagnostics'},
            'from': r'if diagnostics\.is_empty\(\) \{', 'to': r'println!\(\);',
            'head': 'pub fn display_diagnostics(&mut self, db: &DbIndex, file_id: FileId, diagnostics: Vec<Diagnostic>, out: &mut Stdout)',
            'tail': ''},
    'rules': [SKIP, 'str-lines-collect', ('stdout-println-empty', {'count': 1}),
              ('stdout-pass', {'callees': ('print_file_header', 'display_single_diagnostic'), 'count': 2})],
    'requires': 'diagnostics@.len() > 0 ==> sp_document(sp_vfs(db), file_id) is Some',
    'ensures': SECTION % 'old(self)',
    'body_first': 'proof { assert(diagnostics.len() == diagnostics@.len()); }   // a Vec\'s length is a usize: the four counters cannot overflow',
    'iter_names': {0: 'itc', 1: 'it'},
    'loops': {
        0: '''invariant
                    diagnostics@.len() <= usize::MAX,
                    error_count <= itc.index@, warning_count <= itc.index@, info_count <= itc.index@, hint_count <= itc.index@,''',
        1: '''invariant
                    text_lines@.len() <= sp_line_count(sp_doc_text(&document)),
                    out.log@ == old(out).log@.push(Out::FileHeader(file_path@))
                        + diag_blocks(file_path@, diagnostics@.take(it.index@ as int)) /*@C36.text.each-diagnostic-displayed-once-under-its-file.inv*/,'''},
    'proof': [
        (r'self\.print_file_header\((?:[^()]|\([^()]*\))*\);', 'after',
         'proof { assert(diag_blocks(file_path@, diagnostics@.take(0)) =~= Seq::empty()); assert(out.log@ + Seq::<Out>::empty() =~= out.log@); }'),
        (r'self\.display_single_diagnostic\([^;]*\);', 'after',
         '''proof {
                let k = it.index@ as int;
                assert(diagnostics@.take(k + 1) =~= diagnostics@.take(k).push(diagnostics@[k]));
                assert(diag_blocks(file_path@, diagnostics@.take(k + 1)) =~= diag_blocks(file_path@, diagnostics@.take(k)).push(Out::DiagBlock(file_path@, diagnostics@[k])));
                assert(out.log@ =~= old(out).log@.push(Out::FileHeader(file_path@)) + diag_blocks(file_path@, diagnostics@.take(k + 1))); /*@C36.text.each-diagnostic-displayed-once-under-its-file.step*/
            }'''),
        (r'\n\}$', 'before',
         '''proof {
            assert(diagnostics@.take(diagnostics@.len() as int) =~= diagnostics@);
            assert(out.log@ =~= old(out).log@ + text_section(file_path@, diagnostics@)); /*@C36.text.each-diagnostic-displayed-once-under-its-file.all*/
        }'''),
    ],
}

GUARD = {
    'src': {'kind': 'slice', 'name': 'display_single_diagnostic_guard',
            'in': {'file': DISP, 'kind': 'fn', 'impl': 'TerminalDisplay', 'name': 'display_single_diagnostic'},
            'from': r'let start_line = range\.start\.line as usize;',
            'to': r'print!\(" \{\}", code\);\s*\}\s*\}\s*println!\(\);',
            'head': 'pub fn display_single_diagnostic_guard(&self, range: lsp_types::Range, document: &LuaDocument, lines: &[&str], '
                    'code: String, out: &mut Stdout)',
            'tail': ''},
    'rules': ['stdout-print-fmt'],
    # `lines` are the `str::lines()` of the document's own text (established by display_diagnostics at the call)
    'requires': 'lines@.len() <= sp_line_count(sp_doc_text(document))',
    'ensures': '''
            old(out).log@.len() <= final(out).log@.len(),
            // a diagnostic whose start line exists in the text IS rendered (its header is printed) — provided its END line
            // exists in the document's line index (the second column look-up returns None otherwise: see the report)
            range.start.line < lines@.len() && range.end.line < sp_line_count(sp_doc_text(document))
                ==> final(out).log@.len() > old(out).log@.len() /*@C36.text.each-existing-line-diagnostic-rendered*/,
            range.start.line >= lines@.len() ==> final(out).log@ == old(out).log@ /*@C36.text.missing-line-diagnostic-prints-nothing*/''',
}

TEXT_WRITE = {
    'src': {'kind': 'slice', 'name': 'write',
            'in': {'file': TEXT, 'kind': 'fn', 'impl': 'OutputWriter for TextOutputWriter', 'name': 'write'},
            'from': r'if diagnostics\.is_empty\(\) \{', 'to': r'\.display_diagnostics\(db, file_id, diagnostics\);',
            'head': 'pub fn write(&mut self, db: &DbIndex, file_id: FileId, diagnostics: Vec<Diagnostic>, out: &mut Stdout)',
            'tail': ''},
    'rules': [('stdout-pass', {'callees': ('display_diagnostics',), 'count': 1})],
    'requires': 'diagnostics@.len() > 0 ==> sp_document(sp_vfs(db), file_id) is Some',
    'ensures': SECTION % '&old(self).terminal_display',
}

UNIT = {
    'items': {
        'JsonOutputWriter': {'src': {'file': JSON, 'kind': 'struct', 'name': 'JsonOutputWriter'}, 'rules': [('struct-fields', {})]},
        'JsonOutputWriter::write': JSON_WRITE,
        'JsonOutputWriter::finish': JSON_FINISH,
        'SarifOutputWriter': {'src': {'file': SARIF, 'kind': 'struct', 'name': 'SarifOutputWriter'}, 'rules': [('struct-fields', {})]},
        'SarifOutputWriter::ensure_tool': {
            'src': {'file': SARIF, 'kind': 'fn', 'impl': 'SarifOutputWriter', 'name': 'ensure_tool'},
            'rules': [('json-opaque', {'count': 1})],
            'ensures': 'final(self).current_results == old(self).current_results && final(self).output == old(self).output /*@C36.sarif.ensure-tool-touches-no-result*/'},
        'SarifOutputWriter::convert_diagnostic_to_sarif_result': {
            'src': {'file': SARIF, 'kind': 'fn', 'impl': 'SarifOutputWriter', 'name': 'convert_diagnostic_to_sarif_result'},
            'rules': [('formatting-body-opaque', {'self_calls': ('get_sarif_level',)})],
            'attrs': '#[verifier::external_body]',
            'ret': 'r',
            'ensures': 'r == sp_sarif_result(file_uri@, *diagnostic), *final(self) == *old(self)'},
        'SarifOutputWriter::write': SARIF_WRITE,
        'SarifOutputWriter::finish::emit': SARIF_FINISH,
        'TerminalDisplay': {'src': {'file': DISP, 'kind': 'struct', 'name': 'TerminalDisplay'}, 'rules': [('struct-fields', {})]},
        'TerminalDisplay::display_diagnostics': DISPLAY_DIAGNOSTICS,
        'TerminalDisplay::display_single_diagnostic::guard': GUARD,
        'TextOutputWriter': {'src': {'file': TEXT, 'kind': 'struct', 'name': 'TextOutputWriter'}, 'rules': [('struct-fields', {})]},
        'TextOutputWriter::write': TEXT_WRITE,
    },
    'extra_rules': EXTRA_RULES,
    'allow': [r'external_body', r'uninterp spec fn sp_', r'assume_specification \[String::as_bytes\]'],
    'min_obligations': 9,
    'trusted': [
        'stdout model: print!/println! write to a process-global; rules stdout-* make it an explicit `out: &mut Stdout` (ghost event log) that is threaded through the printing callees (rule stdout-pass); the slice heads carry the extra parameter',
        'report file model: std::fs::File as the ghost sequence of buffers passed to write_all; write_all returns Ok (an I/O error makes the real writers panic: out of scope)',
        'serde_json opaque: to_value(Diagnostic) and to_string_pretty are total uninterpreted functions of their argument (sp_to_value, sp_pretty); every json! object that is part of a report is an uninterpreted function of its interpolated inputs (sp_json_file, sp_sarif_run, sp_sarif_document); String::as_bytes == sp_utf8(content) (assume_specification restating std)',
        'SarifOutputWriter::convert_diagnostic_to_sarif_result: body not under contract (formatting); shim r == sp_sarif_result(uri, diagnostic) and `self` unchanged; the frame is guarded syntactically on every run (rule formatting-body-opaque: `self` occurs in the body only as receiver of get_sarif_level)',
        'TerminalDisplay::{get_relative_path, print_file_header}: formatting shims without contract (one FileHeader event); display_single_diagnostic as called from the per-file loop is abstracted to ONE DiagBlock event carrying (file_path, diagnostic); what its real body prints is the subject of the guard slice',
        'LuaDocument::get_col_offset_at_line returns None exactly for a line >= line count of the document text (C22.doc.coloffset.none-iff-line-missing of unit c22_lineindex + the document invariant of c22_vfs); str::lines() yields at most (number of \\n) + 1 lines (std), vx_lines',
        'DbIndex/Vfs accessors (get_vfs, get_file_path, get_document), PathBuf::to_str, file_path_to_uri, Uri::as_str: uninterpreted results; that the file has a path / a UTF-8 path / a uri / a document is a PRECONDITION of write (the real code unwraps and panics otherwise)',
        'lsp_types::Diagnostic projected to range/severity/message (+ an opaque rest); DiagnosticSeverity transcribed (i32 newtype, ERROR=1..HINT=4); text-size shim (units/common/textsize.rs)',
    ],
    'not_covered': [
        'display_single_diagnostic after the header line: the location line, the context-line loop (iterator adapters enumerate/take/skip, str slicing by column) and the computations in front of the guard slice (severity colour, code formatting) — formatting, no contract; panics inside them (str slicing at a non-boundary) are not excluded here',
        'the arguments of every print!/println! that rule stdout-print-fmt drops (formatting expressions)',
        'a diagnostic whose END line is missing from the document line index is silently dropped by the second `let Some(end_col) = .. else { return; }` even when its start line exists: the rendered clause carries that hypothesis. Not reachable for ranges produced by LuaDocument::to_lsp_range on the same document (line <= last line of the index); not proved here',
        'a diagnostic on the empty last line of a text that ends in a newline (line index has the line, str::lines() does not: start_line == lines.len()) is NOT rendered by the text writer while JSON/SARIF report it and the summary counts it (clause C36.text.missing-line-diagnostic-prints-nothing states the behaviour; whether that is acceptable is a property-statement question, see report)',
        'JsonOutputWriter::new / SarifOutputWriter::new (file creation), SarifOutputWriter::finish before `let run` (tool look-up), get_sarif_level, print_summary',
        'Box<dyn OutputWriter> dispatch in output_result: which writer a format selects is read, not proved',
    ],
    'samples': [
        'JsonOutputWriter::write: file mode: json_file_caches\' == json_file_caches.push(json!{file: path, diagnostics: [to_value(d) for d in diagnostics]}); stdout mode: the same entry is printed after "[" / ","',
        'SarifOutputWriter::write: current_results\' == current_results + [convert(uri(file_id), d) for d in diagnostics]',
        'TerminalDisplay::display_diagnostics: stdout\' == stdout + [FileHeader(path)] + [DiagBlock(path, d) for d in diagnostics] + [""]',
        'display_single_diagnostic guard: start_line < lines.len() && end line in the line index ==> the header is printed; start_line >= lines.len() ==> nothing is printed',
    ],
    'mutants': [
        {'name': 'json-skips-first-diagnostic', 'item': 'JsonOutputWriter::write',
         'pattern': r'for diagnostic in diagnostics \{\s*(let json_diagnostic = serde_json::to_value\(diagnostic\)\.unwrap\(\);\s*json_diagnostics\.push\(json_diagnostic\);)\s*\}',
         'repl': r'let mut skip_first = true;\n        for diagnostic in diagnostics {\n            if skip_first { skip_first = false; } else { \1 }\n        }',
         'expect': r'C36\.json\.each-diagnostic-once-under-its-file'},
        {'name': 'json-iter-skip-1', 'item': 'JsonOutputWriter::write',
         'pattern': r'for diagnostic in diagnostics \{', 'repl': 'for diagnostic in diagnostics.into_iter().skip(1) {',
         'expect': r'C36\.json\.each-diagnostic-once-under-its-file'},
        {'name': 'json-stdout-entry-also-cached', 'item': 'JsonOutputWriter::write',
         'pattern': r'println!\("\{\}", serde_json::to_string_pretty\(&json_file\)\.unwrap\(\)\);',
         'repl': 'println!("{}", serde_json::to_string_pretty(&json_file).unwrap());\n            self.json_file_caches.push(json_file);',
         'expect': r'C36\.json\.each-diagnostic-once-under-its-file'},
        {'name': 'json-finish-writes-nothing', 'item': 'JsonOutputWriter::finish',
         'pattern': r'output\.write_all\(pretty_json\.as_bytes\(\)\)\.unwrap\(\);', 'repl': '',
         'expect': r'C36\.json\.finish-serialises-what-was-accumulated'},
        {'name': 'sarif-previous-file-uri', 'item': 'SarifOutputWriter::write',
         'pattern': r'get_file_path\(&file_id\)', 'repl': 'get_file_path(&FileId { id: if file_id.id > 0 { file_id.id - 1 } else { 0 } })',
         'expect': r'C36\.sarif\.each-diagnostic-once-under-its-file'},
        {'name': 'sarif-results-reset-per-file', 'item': 'SarifOutputWriter::write',
         'pattern': r'self\.ensure_tool\(\);', 'repl': 'self.ensure_tool();\n        self.current_results.clear();',
         'expect': r'C36\.sarif\.each-diagnostic-once-under-its-file'},
        {'name': 'sarif-extra-result-per-diagnostic', 'item': 'SarifOutputWriter::write',
         'pattern': r'self\.current_results\.push\(result\);',
         'repl': 'self.current_results.push(result);\n            self.current_results.push(vx_json_opaque());',
         'expect': r'C36\.sarif\.each-diagnostic-once-under-its-file'},
        {'name': 'text-guard-off-by-one', 'item': 'TerminalDisplay::display_single_diagnostic::guard',
         'pattern': r'if start_line >= lines\.len\(\)', 'repl': 'if start_line + 1 >= lines.len()',
         'expect': r'C36\.text\.each-existing-line-diagnostic-rendered'},
        {'name': 'text-loop-skip-1', 'item': 'TerminalDisplay::display_diagnostics',
         'pattern': r'for diagnostic in diagnostics \{', 'repl': 'for diagnostic in diagnostics.into_iter().skip(1) {',
         'expect': r'C36\.text\.each-diagnostic-displayed-once-under-its-file'},
        {'name': 'text-loop-skips-first-diagnostic', 'item': 'TerminalDisplay::display_diagnostics',
         'pattern': r'for diagnostic in diagnostics \{\s*(self\.display_single_diagnostic\([^;]*\);)\s*\}',
         'repl': r'let mut skip_first = true;\n        for diagnostic in diagnostics {\n            if skip_first { skip_first = false; } else { \1 }\n        }',
         'expect': r'C36\.text\.each-diagnostic-displayed-once-under-its-file'},
        {'name': 'text-write-drops-single-diagnostic', 'item': 'TextOutputWriter::write',
         'pattern': r'if diagnostics\.is_empty\(\) \{', 'repl': 'if diagnostics.len() <= 1 {',
         'expect': r'C36\.text\.each-diagnostic-displayed-once-under-its-file'},
    ],
}
