// unit c36_writers — C36 "... Its text, JSON and SARIF reports each contain exactly the filtered diagnostics of the
// main-workspace files, with each diagnostic appearing once under its own file."
// Unit c36_exit proves that `output_result` hands each file's filtered diagnostics exactly once to
// `writer.write(db, file_id, diagnostics)` (the writers are a ghost call log there). This unit puts the three writers
// behind that call under contract: what ONE call `write(db, file_id, diagnostics)` contributes to the report, and what
// `finish` emits from what was accumulated.
//
// Hand-written part: shims of external types (weakest contracts: uninterpreted spec functions), the model of the two
// output sinks (process stdout, the report file), the helpers the rewrite rules introduce, the property vocabulary.
// Everything marked `//@@` is extracted from /repo on every run.
use vstd::prelude::*;
use std::collections::{HashMap, HashSet};
verus! {

//@@include common/textsize.rs

// ---------------------------------------------------------------------------------------------
// lsp_types (transcribed, projected to what the writers read)
// ---------------------------------------------------------------------------------------------
/// lsp_types::DiagnosticSeverity: a transparent i32 newtype with associated consts ERROR=1 … HINT=4
#[derive(Clone, Copy, PartialEq, Eq)]
pub struct DiagnosticSeverity(pub i32);
impl DiagnosticSeverity {
    pub const ERROR: DiagnosticSeverity = DiagnosticSeverity(1);
    pub const WARNING: DiagnosticSeverity = DiagnosticSeverity(2);
    pub const INFORMATION: DiagnosticSeverity = DiagnosticSeverity(3);
    pub const HINT: DiagnosticSeverity = DiagnosticSeverity(4);
}
pub mod lsp_types {
    use vstd::prelude::*;
    verus!{
    #[derive(Clone, Copy, PartialEq, Eq)]
    pub struct Position { pub line: u32, pub character: u32 }
    #[derive(Clone, Copy, PartialEq, Eq)]
    pub struct Range { pub start: Position, pub end: Position }
    }
}
/// lsp_types::Diagnostic projected to range / severity / message; `rest` stands for the fields no guard reads
pub struct Diagnostic {
    pub range: lsp_types::Range,
    pub severity: Option<DiagnosticSeverity>,
    pub message: String,
    pub rest: u64,
}

// ---------------------------------------------------------------------------------------------
// emmylua_code_analysis (opaque)
// ---------------------------------------------------------------------------------------------
#[derive(Clone, Copy, PartialEq, Eq)]
pub struct FileId { pub id: u32 }
#[verifier::external_body]
pub struct DbIndex { _p: () }
#[verifier::external_body]
pub struct Vfs { _p: () }
/// std::path::PathBuf: opaque
#[verifier::external_body]
pub struct PathBuf { _p: () }
/// lsp_types::Uri: opaque
#[verifier::external_body]
pub struct Uri { _p: () }
/// LuaDocument<'a>: opaque. `sp_doc_text` = its text; its line index is `LineIndex::parse(text)` (the representation
/// invariant unit c22_vfs discharges), whose line count is 1 + the number of '\n' bytes (`wf`, unit c22_lineindex)
#[verifier::external_body]
pub struct LuaDocument { _p: () }

pub uninterp spec fn sp_vfs(db: &DbIndex) -> &Vfs;
pub uninterp spec fn sp_file_path(vfs: &Vfs, f: FileId) -> Option<&PathBuf>;
pub uninterp spec fn sp_path_str(p: &PathBuf) -> Option<Seq<char>>;
pub uninterp spec fn sp_path_uri(p: &PathBuf) -> Option<Uri>;
pub uninterp spec fn sp_uri_str(u: &Uri) -> Seq<char>;
pub uninterp spec fn sp_document(vfs: &Vfs, f: FileId) -> Option<LuaDocument>;
pub uninterp spec fn sp_doc_text(d: &LuaDocument) -> Seq<char>;
/// 1 + the number of '\n' in the text = `LineIndex::parse(text).line_count()`
pub uninterp spec fn sp_line_count(text: Seq<char>) -> nat;
pub uninterp spec fn sp_col_offset(d: &LuaDocument, line: usize, col: usize) -> Option<TextSize>;

impl DbIndex {
    #[verifier::external_body]
    pub fn get_vfs(&self) -> (r: &Vfs) ensures r == sp_vfs(self) { unimplemented!() }
}
impl Vfs {
    #[verifier::external_body]
    pub fn get_file_path(&self, file_id: &FileId) -> (r: Option<&PathBuf>) ensures r == sp_file_path(self, *file_id) { unimplemented!() }
    #[verifier::external_body]
    pub fn get_document(&self, file_id: &FileId) -> (r: Option<LuaDocument>) ensures r == sp_document(self, *file_id) { unimplemented!() }
}
impl PathBuf {
    #[verifier::external_body]
    pub fn to_str(&self) -> (r: Option<&str>)
        ensures r is Some <==> sp_path_str(self) is Some, r matches Some(s) ==> s@ == sp_path_str(self)->0,
    { unimplemented!() }
}
impl Uri {
    #[verifier::external_body]
    pub fn as_str(&self) -> (r: &str) ensures r@ == sp_uri_str(self) { unimplemented!() }
}
#[verifier::external_body]
pub fn file_path_to_uri(path: &PathBuf) -> (r: Option<Uri>) ensures r == sp_path_uri(path) { unimplemented!() }

impl LuaDocument {
    #[verifier::external_body]
    pub fn get_text(&self) -> (r: &str) ensures r@ == sp_doc_text(self) { unimplemented!() }
    /// `None` exactly when the line is missing from the line index: clause C22.doc.coloffset.none-iff-line-missing of
    /// unit c22_lineindex, with `line_offsets.len() == sp_line_count(text)` (C22.parse.wf + the document invariant)
    #[verifier::external_body]
    pub fn get_col_offset_at_line(&self, line: usize, col: usize) -> (r: Option<TextSize>)
        ensures r == sp_col_offset(self, line, col), r is None <==> line >= sp_line_count(sp_doc_text(self)),
    { unimplemented!() }
}

/// helper of rule `str-lines-collect`: `text.lines().collect::<Vec<&str>>()`. std (`str::lines`): lines are split at
/// "\n" / "\r\n", "the final line ending is optional" — so there are at most (number of '\n') + 1 of them. What the
/// lines contain is not specified here (only the guards' use of `lines.len()` is under contract).
#[verifier::external_body]
pub fn vx_lines(text: &str) -> (r: Vec<&str>)
    ensures r@.len() <= sp_line_count(text@),
{ text.lines().collect::<Vec<&str>>() }

/// helper of the optional rule `iter-skip-vec` (the construct is NOT in the current tree; the rule exists so that a
/// `.skip(n)` inserted into one of the per-diagnostic loops is judged against the contract instead of leaving the unit
/// undecided). std (`Iterator::skip`): "creates an iterator that skips the first n elements"; `Vec::into_iter` yields the
/// elements in order.
#[verifier::external_body]
pub fn vx_vec_skip<T>(v: Vec<T>, n: usize) -> (r: Vec<T>)
    ensures r@ == v@.skip(if n <= v@.len() { n as int } else { v@.len() as int }),
{ v.into_iter().skip(n).collect() }

// ---------------------------------------------------------------------------------------------
// serde_json (opaque): serialisation is NOT under contract. `Value` is an opaque value; every constructor is an
// uninterpreted function of its inputs, so two reports are equal only if they were built from the same inputs.
// ---------------------------------------------------------------------------------------------
#[verifier::external_body]
pub struct Value { _p: () }
#[derive(Debug)]
pub struct SerdeError { }
/// serde_json::to_value(diagnostic): a total function of the diagnostic (an lsp_types::Diagnostic always serialises)
pub uninterp spec fn sp_to_value(d: Diagnostic) -> Value;
/// serde_json::to_string_pretty(&v): a total function of the value
pub uninterp spec fn sp_pretty<T>(v: T) -> Seq<char>;
/// `json!({"file": f, "diagnostics": ds})`
pub uninterp spec fn sp_json_file(file: Seq<char>, diagnostics: Seq<Value>) -> Value;
/// SarifOutputWriter::convert_diagnostic_to_sarif_result(uri, diagnostic)
pub uninterp spec fn sp_sarif_result(uri: Seq<char>, d: Diagnostic) -> Value;
/// `json!({"tool": {"driver": tool}, "results": results})`
pub uninterp spec fn sp_sarif_run(tool: Value, results: Seq<Value>) -> Value;
/// `json!({"version": "2.1.0", "$schema": .., "runs": [run]})`
pub uninterp spec fn sp_sarif_document(run: Value) -> Value;
/// the UTF-8 bytes of a string
pub uninterp spec fn sp_utf8(s: Seq<char>) -> Seq<u8>;

pub mod serde_json {
    use vstd::prelude::*;
    use super::*;
    verus!{
    #[verifier::external_body]
    pub fn to_value(d: Diagnostic) -> (r: Result<Value, SerdeError>) ensures r is Ok, r->Ok_0 == sp_to_value(d) { unimplemented!() }
    #[verifier::external_body]
    pub fn to_string_pretty<T>(v: &T) -> (r: Result<String, SerdeError>) ensures r is Ok, r->Ok_0@ == sp_pretty(*v) { unimplemented!() }
    }
}
/// helpers of the `json-*` rules: one per `json!` invocation that builds a piece of a report
#[verifier::external_body]
pub fn vx_json_file(file: &str, diagnostics: &Vec<Value>) -> (r: Value) ensures r == sp_json_file(file@, diagnostics@) { unimplemented!() }
#[verifier::external_body]
pub fn vx_sarif_run(tool: &Value, results: &Vec<Value>) -> (r: Value) ensures r == sp_sarif_run(*tool, results@) { unimplemented!() }
#[verifier::external_body]
pub fn vx_sarif_document(run: &Value) -> (r: Value) ensures r == sp_sarif_document(*run) { unimplemented!() }
/// a `json!` object that is no part of the claim (the SARIF tool descriptor): unconstrained
#[verifier::external_body]
pub fn vx_json_opaque() -> (r: Value) { unimplemented!() }

/// std: `String::as_bytes` "returns a byte slice of this String's contents"
pub assume_specification [String::as_bytes] (s: &String) -> (r: &[u8]) ensures r@ == sp_utf8(s@);

// ---------------------------------------------------------------------------------------------
// the two sinks
// ---------------------------------------------------------------------------------------------
/// what reached the process's standard output, in order. `print!` / `println!` write to a process-global; rule
/// `stdout-explicit` makes that global an explicit `out: &mut Stdout`.
pub enum Out {
    /// `println!("lit")` / `println!("{}", s)` with `s: String`: the line's text
    Line(Seq<char>),
    /// a `print!` / `println!` whose formatting is not interpreted
    Fmt,
    /// everything `TerminalDisplay::print_file_header(path, ..)` prints (formatting: no contract)
    FileHeader(Seq<char>),
    /// everything ONE call `display_single_diagnostic(file_path, document, lines, diagnostic)` prints (what that is:
    /// slice `display_single_diagnostic::guard`)
    DiagBlock(Seq<char>, Diagnostic),
}
pub struct Stdout { pub log: Ghost<Seq<Out>> }
impl Stdout {
    #[verifier::external_body]
    pub fn vx_println_lit(&mut self, s: &'static str)
        ensures final(self).log@ == old(self).log@.push(Out::Line(s@)) { }
    #[verifier::external_body]
    pub fn vx_println_string(&mut self, s: &String)
        ensures final(self).log@ == old(self).log@.push(Out::Line(s@)) { }
    #[verifier::external_body]
    pub fn vx_print_fmt(&mut self)
        ensures final(self).log@ == old(self).log@.push(Out::Fmt) { }
}
/// std::fs::File as the sequence of buffers written to it. `write_all` returning `Err` makes the real writers panic
/// (`.unwrap()`); I/O failure is out of scope: the shim returns `Ok`.
pub struct File { pub written: Ghost<Seq<Seq<u8>>> }
#[derive(Debug)]
pub struct IoError { }
impl File {
    #[verifier::external_body]
    pub fn write_all(&mut self, buf: &[u8]) -> (r: Result<(), IoError>)
        ensures r is Ok, final(self).written@ == old(self).written@.push(buf@) { unimplemented!() }
}

// ---------------------------------------------------------------------------------------------
// property vocabulary
// ---------------------------------------------------------------------------------------------
/// the diagnostics of one `write` call, serialised one by one, in order
pub open spec fn values_of(ds: Seq<Diagnostic>) -> Seq<Value> {
    Seq::new(ds.len(), |i: int| sp_to_value(ds[i]))
}
/// the JSON report entry of one file
pub open spec fn json_entry(path: Seq<char>, ds: Seq<Diagnostic>) -> Value {
    sp_json_file(path, values_of(ds))
}
/// the SARIF results of one file: one per diagnostic, in order, each built with that file's uri
pub open spec fn sarif_results(uri: Seq<char>, ds: Seq<Diagnostic>) -> Seq<Value> {
    Seq::new(ds.len(), |i: int| sp_sarif_result(uri, ds[i]))
}
/// the text report's per-diagnostic blocks of one file: one per diagnostic, in order, each under that file's path
pub open spec fn diag_blocks(path: Seq<char>, ds: Seq<Diagnostic>) -> Seq<Out> {
    Seq::new(ds.len(), |i: int| Out::DiagBlock(path, ds[i]))
}
/// the file's path as text (JSON), None if the file has no path or the path is not UTF-8 (the real code panics then)
pub open spec fn path_text(db: &DbIndex, f: FileId) -> Option<Seq<char>> {
    match sp_file_path(sp_vfs(db), f) { Some(p) => sp_path_str(p), None => None }
}
/// the file's uri as text (SARIF)
pub open spec fn uri_text(db: &DbIndex, f: FileId) -> Option<Seq<char>> {
    match sp_file_path(sp_vfs(db), f) {
        Some(p) => match sp_path_uri(p) { Some(u) => Some(sp_uri_str(&u)), None => None },
        None => None,
    }
}
/// the whole text-report section of one file: header, one block per diagnostic, blank line
pub open spec fn text_section(path: Seq<char>, ds: Seq<Diagnostic>) -> Seq<Out> {
    (seq![Out::FileHeader(path)] + diag_blocks(path, ds)).push(Out::Line(""@))
}

// ---------------------------------------------------------------------------------------------
// extracted from /repo
// ---------------------------------------------------------------------------------------------
//@@ JsonOutputWriter
impl JsonOutputWriter {
    //@@ JsonOutputWriter::write
    //@@ JsonOutputWriter::finish
}

//@@ SarifOutputWriter
impl SarifOutputWriter {
    //@@ SarifOutputWriter::ensure_tool
    // pure formatting (four `json!` objects): body NOT under contract (rule `formatting-body-opaque`: external_body, the
    // repository's signature, the frame guard checked syntactically on every run)
    //@@ SarifOutputWriter::convert_diagnostic_to_sarif_result
    //@@ SarifOutputWriter::write
    //@@ SarifOutputWriter::finish::emit
}

//@@ TerminalDisplay
/// `TerminalDisplay::get_relative_path(db, file_id)` (path prettifying: no contract)
pub uninterp spec fn sp_rel_path(t: &TerminalDisplay, db: &DbIndex, f: FileId) -> Seq<char>;
impl TerminalDisplay {
    #[verifier::external_body]
    pub fn get_relative_path(&self, db: &DbIndex, file_id: FileId) -> (r: String) ensures r@ == sp_rel_path(self, db, file_id) { unimplemented!() }
    /// formatting only; everything it prints is one `FileHeader` event
    #[verifier::external_body]
    pub fn print_file_header(&self, file_path: &str, error_count: usize, warning_count: usize, info_count: usize, hint_count: usize, out: &mut Stdout)
        ensures final(out).log@ == old(out).log@.push(Out::FileHeader(file_path@)) { }
    /// the callee of the per-diagnostic loop, abstracted to ONE event carrying what it was called with; what the real
    /// body prints for that call is the subject of slice `display_single_diagnostic::guard` below
    #[verifier::external_body]
    pub fn display_single_diagnostic(&mut self, file_path: &str, document: &LuaDocument, lines: &[&str], diagnostic: Diagnostic, out: &mut Stdout)
        requires lines@.len() <= sp_line_count(sp_doc_text(document)),
        ensures final(out).log@ == old(out).log@.push(Out::DiagBlock(file_path@, diagnostic)),
    { }
    //@@ TerminalDisplay::display_diagnostics
    //@@ TerminalDisplay::display_single_diagnostic::guard
}

//@@ TextOutputWriter
impl TextOutputWriter {
    //@@ TextOutputWriter::write
}

} // verus!
fn main() {}
