// unit c26_locations — C26, first sentence: "Every location or range the server returns lies inside its document",
// for the `lsp_types::Location`s the handlers build (a Location pairs a URI with line/column positions: both have to
// come from the SAME document), and the description part of "selection ranges strictly grow outward"
// (document_selection_range/mod.rs add_detail_ranges).
// Hand-written part: shims of lsp_types / LuaDocument / SemanticModel / index records, std contracts, the vocabulary of
// the property, lemmas. `//@@` items are extracted from /repo on every run.
#![feature(allocator_api)]
use vstd::prelude::*;
use std::collections::HashMap;
use core::cmp::Ordering;
use vstd::std_specs::cmp::OrdSpec;
verus! {

//@@include common/textsize.rs

// ---------------------------------------------------------------------------------------------
// shims: text-size additions (same text as unit c26_ranges)
// ---------------------------------------------------------------------------------------------
/// `TextSize` derives `Ord` in text-size 1.1.1 (`#[derive(Default, Copy, Clone, PartialEq, Eq, PartialOrd, Ord, Hash)]`
/// on a u32 newtype); the common shim omits it. `sort_by_key(|item| item.range.len())` needs `TextSize: Ord`.
impl vstd::std_specs::cmp::OrdSpecImpl for TextSize {
    open spec fn obeys_cmp_spec() -> bool { true }
    open spec fn cmp_spec(&self, other: &TextSize) -> core::cmp::Ordering {
        if self.raw < other.raw { core::cmp::Ordering::Less }
        else if self.raw == other.raw { core::cmp::Ordering::Equal }
        else { core::cmp::Ordering::Greater }
    }
}
impl Ord for TextSize {
    fn cmp(&self, other: &TextSize) -> core::cmp::Ordering {
        if self.raw < other.raw { core::cmp::Ordering::Less }
        else if self.raw == other.raw { core::cmp::Ordering::Equal }
        else { core::cmp::Ordering::Greater }
    }
}

// ---------------------------------------------------------------------------------------------
// shims: lsp_types (emmy_lsp_types 0.1.0), transcribed field by field
// ---------------------------------------------------------------------------------------------
pub mod lsp_types {
    use vstd::prelude::*;
    verus!{
    #[derive(Clone, Copy)]
    pub struct Position { pub line: u32, pub character: u32 }
    #[derive(Clone, Copy)]
    pub struct Range { pub start: Position, pub end: Position }
    /// `Uri` (a parsed URI string): opaque value
    #[verifier::external_body]
    pub struct Uri { _p: () }
    /// the text of the URI (`impl Display for Uri`)
    pub uninterp spec fn sp_uri_text(u: Uri) -> Seq<char>;
    impl Clone for Uri {
        /// `#[derive(Clone)]`
        #[verifier::external_body]
        fn clone(&self) -> (r: Uri) ensures r == *self { unimplemented!() }
    }
    impl Uri {
        /// `ToString::to_string` through `impl Display for Uri`: the URI's text
        #[verifier::external_body]
        pub fn to_string(&self) -> (r: String) ensures r@ == sp_uri_text(*self) { unimplemented!() }
    }
    /// lib.rs:317-328
    pub struct Location { pub uri: Uri, pub range: Range }
    impl Location {
        /// lib.rs:325 `pub fn new(uri: Uri, range: Range) -> Location { Location { uri, range } }`
        pub fn new(uri: Uri, range: Range) -> (r: Location)
            ensures r.uri == uri, r.range == range,
        { Location { uri, range } }
    }
    /// lib.rs:333-349 (never built by the code under proof)
    pub struct LocationLink {
        pub origin_selection_range: Option<Range>,
        pub target_uri: Uri,
        pub target_range: Range,
        pub target_selection_range: Range,
    }
    /// lib.rs:2617-2621
    pub enum GotoDefinitionResponse { Scalar(Location), Array(Vec<Location>), Link(Vec<LocationLink>) }
    /// inlay_hint.rs: the two Option fields the code under proof never sets are opaque
    #[verifier::external_body]
    pub struct InlayHintLabelPartTooltip { _p: () }
    #[verifier::external_body]
    pub struct Command { _p: () }
    /// inlay_hint.rs:185-215
    pub struct InlayHintLabelPart {
        pub value: String,
        pub tooltip: Option<InlayHintLabelPartTooltip>,
        pub location: Option<Location>,
        pub command: Option<Command>,
    }
    }
}
pub use lsp_types::{Location, GotoDefinitionResponse, InlayHintLabelPart, Uri};

// ---------------------------------------------------------------------------------------------
// shims: emmylua_code_analysis::{FileId, LuaDocument} — LuaDocument's contracts are PROVED in unit c22_lineindex
// ---------------------------------------------------------------------------------------------
//@@ FileId

/// opaque. Vocabulary (uninterpreted functions of the document, as in units c26_ranges / c26_semantic_tokens):
///   sp_doc_ok(doc)      = c22 `wf(doc.line_index, doc.text.bytes)`  (includes text.len() < 2^32 - 1)
///   sp_in_doc(doc, off) = c22 `off <= text.len() && is_char_boundary(text, off)`
///   sp_pos(doc, off)    = the (line, col) of the offset (c22: the line the offset lies on, chars before it on that line)
///   sp_doc_id(doc)      = identity of the document (which file's text and line index it pairs)
///   sp_uri(doc)         = the URI made from the document's path (`file_path_to_uri(self.path)`)
#[verifier::external_body]
pub struct LuaDocument<'a> { _p: core::marker::PhantomData<&'a ()> }
pub uninterp spec fn sp_doc_ok(doc: &LuaDocument) -> bool;
pub uninterp spec fn sp_in_doc(doc: &LuaDocument, off: TextSize) -> bool;
pub uninterp spec fn sp_pos(doc: &LuaDocument, off: TextSize) -> (usize, usize);
pub uninterp spec fn sp_doc_id(doc: &LuaDocument) -> int;
pub uninterp spec fn sp_uri(doc: &LuaDocument) -> Uri;
pub uninterp spec fn sp_line_count(doc: &LuaDocument) -> usize;
pub uninterp spec fn sp_text_of(doc_id: int) -> Seq<char>;

pub open spec fn range_in_doc(doc: &LuaDocument, range: TextRange) -> bool {
    range.wf() && sp_in_doc(doc, range.start) && sp_in_doc(doc, range.end)
}
/// LSP position of an offset
pub open spec fn doc_lsp_pos(doc: &LuaDocument, off: TextSize) -> lsp_types::Position {
    lsp_types::Position { line: sp_pos(doc, off).0 as u32, character: sp_pos(doc, off).1 as u32 }
}
pub open spec fn doc_lsp_range(doc: &LuaDocument, range: TextRange) -> lsp_types::Range {
    lsp_types::Range { start: doc_lsp_pos(doc, range.start), end: doc_lsp_pos(doc, range.end) }
}
pub open spec fn pos_le(a: lsp_types::Position, b: lsp_types::Position) -> bool {
    a.line < b.line || (a.line == b.line && a.character <= b.character)
}
/// emmylua_code_analysis file path handle (`&PathBuf` in the repository): opaque; the one method the code calls
#[verifier::external_body]
pub struct FilePath { _p: () }
#[verifier::external_body]
pub struct IoError { _p: () }
impl FilePath {
    /// std::path::Path::try_exists: asks the file system; nothing is assumed about the answer
    #[verifier::external_body]
    pub fn try_exists(&self) -> (r: Result<bool, IoError>) { unimplemented!() }
}

/// std doc of `Result::unwrap_or`: "Returns the contained Ok value or a provided default."
pub assume_specification<T, E>[ Result::<T, E>::unwrap_or ](r: Result<T, E>, default: T) -> (v: T)
    ensures v == (match r { Ok(x) => x, Err(_) => default });

impl<'a> LuaDocument<'a> {
    /// vfs/document.rs:40 `file_path_to_uri(self.path).expect(..)`: a function of the document
    #[verifier::external_body]
    pub fn get_uri(&self) -> (r: Uri) ensures r == sp_uri(self) { unimplemented!() }
    #[verifier::external_body]
    pub fn get_file_path(&self) -> (r: &FilePath) { unimplemented!() }
    /// the document's text: a function of which document it is
    #[verifier::external_body]
    pub fn get_text(&self) -> (r: &str) ensures r@ == sp_text_of(sp_doc_id(self)) { unimplemented!() }
    /// vfs/document.rs:56 `self.line_index.line_count()`
    #[verifier::external_body]
    pub fn get_line_count(&self) -> (r: usize) ensures r == sp_line_count(self) { unimplemented!() }

    /// proved in unit c22_lineindex: [C21.range-wellformed] (an ordered in-text range gives an ordered LSP range) and
    /// [C22.doc.to_lsp_range] (always `Some`; start / end are the LSP positions of range.start / range.end; line, col
    /// < 2^32 - 1 by lemma_position_fits)
    #[verifier::external_body]
    pub fn to_lsp_range(&self, range: TextRange) -> (r: Option<lsp_types::Range>)
        requires sp_doc_ok(self), range_in_doc(self, range),
        ensures
            r == Some(doc_lsp_range(self, range)),
            pos_le(doc_lsp_range(self, range).start, doc_lsp_range(self, range).end),
    { unimplemented!() }

    //@@ LuaDocument::to_lsp_location
    //@@ LuaDocument::get_document_lsp_range
}

// ---------------------------------------------------------------------------------------------
// property vocabulary
// ---------------------------------------------------------------------------------------------
/// the Location `loc` is the text range `r` of document `d`: the URI is d's URI and the line/column range is r
/// converted with d's OWN line index — "uri and range come from the same LuaDocument value"
pub open spec fn loc_of(d: &LuaDocument, r: TextRange, loc: Location) -> bool {
    loc.uri == sp_uri(d) && loc.range == doc_lsp_range(d, r)
}
/// "the location lies inside its document": there is ONE document whose URI it carries and one range inside that
/// document's text whose positions (in that document's line index) it carries
pub open spec fn loc_in_its_doc(loc: Location) -> bool {
    exists|d: &LuaDocument, r: TextRange| sp_doc_ok(d) && range_in_doc(d, r) && #[trigger] loc_of(d, r, loc)
}
/// … where the document is the one with identity `id` and the range is `r`: what every site is shown to return
pub open spec fn same_doc(id: int, r: TextRange, loc: Location) -> bool {
    exists|d: &LuaDocument| #![trigger sp_doc_id(d)] sp_doc_id(d) == id && sp_doc_ok(d) && range_in_doc(d, r) && loc_of(d, r, loc)
}
pub proof fn lemma_same_doc_inside(id: int, r: TextRange, loc: Location)
    requires same_doc(id, r, loc),
    ensures loc_in_its_doc(loc),
{
    let d = choose|d: &LuaDocument| #![trigger sp_doc_id(d)] sp_doc_id(d) == id && sp_doc_ok(d) && range_in_doc(d, r) && loc_of(d, r, loc);
    assert(loc_of(d, r, loc));
}

// ---------------------------------------------------------------------------------------------
// shims: SemanticModel and the index records the sites read
// ---------------------------------------------------------------------------------------------
/// emmylua_code_analysis::SemanticModel, opaque.
///   sp_model_doc(m)      = identity of the document of the model's own file   (`get_document()`)
///   sp_doc_of_file(m, f) = identity of the document of file f                 (`get_document_by_file_id(f)`)
/// NOTHING relates the two (the file an operator / a type was declared in is in general another file).
#[verifier::external_body]
pub struct SemanticModel<'a> { _p: core::marker::PhantomData<&'a ()> }
pub uninterp spec fn sp_model_doc(m: &SemanticModel) -> int;
pub uninterp spec fn sp_doc_of_file(m: &SemanticModel, f: FileId) -> int;
/// ASSUMPTION index-consistency: "range r was recorded for / is the range of a syntax element of the file whose
/// document has identity `id`". Call sites state it as a `requires` (sp_file_range(sp_doc_of_file(m, x.file_id), x.range));
/// axiom_file_range turns it into "r is an ordered range of that document's text on char boundaries".
pub uninterp spec fn sp_file_range(id: int, r: TextRange) -> bool;
/// ASSUMPTION (index / tree — document agreement, cf. axiom_range_in_doc of unit c26_ranges): a range recorded for a
/// file lies inside the text of that file's document (C01: tree text == input text; tokens are whole chars; the index
/// records node ranges of the tree parsed from the file's current text — C09/C10 re-index on change).
#[verifier::external_body]
pub proof fn axiom_file_range(d: &LuaDocument, r: TextRange)
    requires sp_file_range(sp_doc_id(d), r),
    ensures range_in_doc(d, r),
{ }

impl<'a> SemanticModel<'a> {
    /// semantic/mod.rs:104 `self.db.get_vfs().get_document(&self.file_id).expect("always exists")`; sp_doc_ok: unit
    /// c22_vfs [C22.vfs.document-pairs-text-with-its-line-index] (+ c22_lineindex: parse establishes wf)
    #[verifier::external_body]
    pub fn get_document(&self) -> (r: LuaDocument<'_>)
        ensures sp_doc_id(&r) == sp_model_doc(self), sp_doc_ok(&r),
    { unimplemented!() }
    /// semantic/mod.rs:115 `self.db.get_vfs().get_document(&file_id)`
    #[verifier::external_body]
    pub fn get_document_by_file_id(&self, file_id: FileId) -> (r: Option<LuaDocument<'_>>)
        ensures r matches Some(d) ==> sp_doc_id(&d) == sp_doc_of_file(self, file_id) && sp_doc_ok(&d),
    { unimplemented!() }
}

impl<'a> SemanticModel<'a> {
    /// semantic/mod.rs get_root_by_file_id: the root of the syntax tree the Vfs holds for the file — parsed from the text
    /// the file's document pairs with its line index (unit c22_vfs: [C22.vfs.tree-is-parse-of-current-text])
    #[verifier::external_body]
    pub fn get_root_by_file_id(&self, file_id: FileId) -> (r: Option<LuaChunk>)
        ensures r matches Some(root) ==> sp_tree(root) == sp_doc_of_file(self, file_id),
    { unimplemented!() }
}

/// emmylua_code_analysis::LuaOperator (db_index/operator): opaque record; the two getters return stored fields
#[verifier::external_body]
pub struct LuaOperator { _p: () }
pub uninterp spec fn sp_op_range(o: &LuaOperator) -> TextRange;
pub uninterp spec fn sp_op_file(o: &LuaOperator) -> FileId;
impl LuaOperator {
    #[verifier::external_body]
    pub fn get_range(&self) -> (r: TextRange) ensures r == sp_op_range(self) { unimplemented!() }
    #[verifier::external_body]
    pub fn get_file_id(&self) -> (r: FileId) ensures r == sp_op_file(self) { unimplemented!() }
}

/// … where the document is the one with identity `id` and the range is SOME range of it (sites that build several
/// Locations in a loop)
pub open spec fn in_doc_of(id: int, loc: Location) -> bool {
    exists|d: &LuaDocument, rg: TextRange| #![trigger doc_lsp_range(d, rg)]
        sp_doc_id(d) == id && sp_doc_ok(d) && range_in_doc(d, rg) && loc_of(d, rg, loc)
}
pub proof fn lemma_in_doc_of_inside(id: int, loc: Location)
    requires in_doc_of(id, loc),
    ensures loc_in_its_doc(loc),
{
    let (d, rg) = choose|d: &LuaDocument, rg: TextRange| #![trigger doc_lsp_range(d, rg)]
        sp_doc_id(d) == id && sp_doc_ok(d) && range_in_doc(d, rg) && loc_of(d, rg, loc);
    assert(loc_of(d, rg, loc));
}
/// the range `get_document_lsp_range` returns: (0, 0) .. (line_count, 0)
pub open spec fn whole_doc_range(d: &LuaDocument) -> lsp_types::Range {
    lsp_types::Range {
        start: lsp_types::Position { line: 0, character: 0 },
        end: lsp_types::Position { line: sp_line_count(d) as u32, character: 0 },
    }
}

// ---------------------------------------------------------------------------------------------
// shims: syntax tree handles (emmylua_parser). ONE opaque type stands for every handle (as in unit c26_ranges); the
// repository's type names are aliases of it, so the extracted code type-checks against a SUPERSET of the real typing.
//   sp_range(e) its text range        sp_tree(e) identity of the document whose text the tree was parsed from
// ---------------------------------------------------------------------------------------------
#[verifier::external_body]
pub struct Syn { _p: () }
pub uninterp spec fn sp_range(e: Syn) -> TextRange;
pub uninterp spec fn sp_tree(e: Syn) -> int;
pub type LuaIndexExpr = Syn;
pub type LuaParamList = Syn;
pub type LuaParamName = Syn;
pub type LuaNameToken = Syn;
pub type LuaSyntaxToken = Syn;
pub type LuaChunk = Syn;
/// emmylua_parser::LuaIndexKey (enum over the key node / token of an index expression): opaque
#[verifier::external_body]
pub struct LuaIndexKey { _p: () }
pub uninterp spec fn sp_key_tree(k: &LuaIndexKey) -> int;
impl LuaIndexKey {
    /// LuaIndexKey::get_range: the range of the key's node / token — an element of the tree the key was taken from
    #[verifier::external_body]
    pub fn get_range(&self) -> (r: Option<TextRange>)
        ensures r matches Some(x) ==> sp_file_range(sp_key_tree(self), x),
    { unimplemented!() }
}
/// ASSUMED (tree — document agreement): the range of a tree element is a range of the file the tree was parsed from
#[verifier::external_body]
pub proof fn axiom_tree_range(e: Syn)
    ensures sp_file_range(sp_tree(e), sp_range(e)),
{ }
impl Clone for Syn {
    /// rowan handles are reference-counted cursors: a clone denotes the same element
    #[verifier::external_body]
    fn clone(&self) -> (r: Syn) ensures r == *self { unimplemented!() }
}
/// emmylua_parser::LuaSyntaxId (kind + range of a node): opaque
#[verifier::external_body]
pub struct LuaSyntaxId { _p: () }
impl LuaSyntaxId {
    /// LuaSyntaxId::to_node_from_root: looks the node up in the tree under `root` — a node of that tree
    #[verifier::external_body]
    pub fn to_node_from_root(&self, root: &Syn) -> (r: Option<Syn>) ensures r matches Some(n) ==> sp_tree(n) == sp_tree(*root) { unimplemented!() }
}
impl Syn {
    #[verifier::external_body]
    pub fn text_range(&self) -> (r: TextRange) ensures r == sp_range(*self) { unimplemented!() }
    /// LuaAstNode::get_range = self.syntax().text_range()
    #[verifier::external_body]
    pub fn get_range(&self) -> (r: TextRange) ensures r == sp_range(*self) { unimplemented!() }
    /// typed child accessors: an element of the same tree
    #[verifier::external_body]
    pub fn get_index_name_token(&self) -> (r: Option<Syn>) ensures r matches Some(t) ==> sp_tree(t) == sp_tree(*self) { unimplemented!() }
    #[verifier::external_body]
    pub fn get_index_key(&self) -> (r: Option<LuaIndexKey>) ensures r matches Some(k) ==> sp_key_tree(&k) == sp_tree(*self) { unimplemented!() }
    #[verifier::external_body]
    pub fn get_name_token(&self) -> (r: Option<Syn>) ensures r matches Some(t) ==> sp_tree(t) == sp_tree(*self) { unimplemented!() }
    /// LuaParamList::get_params (iterator over the child LuaParamName nodes, shimmed as the Vec of what it yields)
    #[verifier::external_body]
    pub fn get_params(&self) -> (r: Vec<Syn>) ensures forall|i: int| 0 <= i < r@.len() ==> sp_tree(#[trigger] r@[i]) == sp_tree(*self) { unimplemented!() }
    /// LuaAstNode::syntax: the wrapped element (the wrapper IS the element here)
    #[verifier::external_body]
    pub fn syntax(&self) -> (r: &Syn) ensures *r == *self { unimplemented!() }
    /// LuaAstNode::cast (e.g. LuaIndexExpr::cast): the node itself when its kind fits, else None
    #[verifier::external_body]
    pub fn cast(syntax: Syn) -> (r: Option<Syn>) ensures r matches Some(x) ==> x == syntax { unimplemented!() }
    #[verifier::external_body]
    pub fn is_dots(&self) -> (r: bool) { unimplemented!() }
    #[verifier::external_body]
    pub fn get_name_text(&self) -> (r: &str) { unimplemented!() }
}

// ---------------------------------------------------------------------------------------------
// shims: index records and callees of the inlay-hint / gutter sites
// ---------------------------------------------------------------------------------------------
//@@ LuaDeclLocation
/// emmylua_code_analysis::LuaType: opaque
#[verifier::external_body]
pub struct LuaType { _p: () }
/// emmylua_code_analysis::RenderLevel, transcribed (db_index/type/humanize_type.rs:18-27)
pub enum RenderLevel { Documentation, CustomDetailed(u8), Detailed, Simple, Normal, Brief, Minimal }
/// inlay_hint/build_function_hint.rs hint_humanize_type: the label text (irrelevant to every clause here): no contract
#[verifier::external_body]
pub fn hint_humanize_type(semantic_model: &SemanticModel, typ: &LuaType, level: RenderLevel) -> (r: String) { unimplemented!() }
/// `format!(": {}", S)` (rule c26l-format-label): the label text: no contract
#[verifier::external_body]
pub fn vx_format_label(s: String) -> (r: String) { unimplemented!() }
/// inlay_hint/build_function_hint.rs get_type_location: shimmed callee. Its two arms that BUILD a Location are under
/// proof here (slices get_type_location::location and get_base_type_location::location, [C26.location.type-decl.
/// same-document]); the remaining arms return the result of a recursive call or of get_base_type_location (by reading).
#[verifier::external_body]
pub fn get_type_location(semantic_model: &SemanticModel, typ: &LuaType, depth: usize) -> (r: Option<Location>)
    ensures r matches Some(l) ==> loc_in_its_doc(l),
{ unimplemented!() }
/// inlay_hint/build_function_hint.rs build_label_parts: shimmed callee; its result is named (sp_label_parts, an
/// uninterpreted function of the arguments) and otherwise NOT specified (the parts it returns take their location from
/// get_type_location only — by reading; not needed for the clause proved about the part built at the call site)
pub uninterp spec fn sp_label_parts(m: &SemanticModel, typ: &LuaType) -> Seq<InlayHintLabelPart>;
#[verifier::external_body]
pub fn build_label_parts(semantic_model: &SemanticModel, typ: &LuaType) -> (r: Vec<InlayHintLabelPart>)
    ensures r@ == sp_label_parts(semantic_model, typ),
{ unimplemented!() }

/// emmylua_code_analysis::{DbIndex, Vfs}: opaque. sp_vfs_doc(v, f) = identity of the document of file f
#[verifier::external_body]
pub struct DbIndex { _p: () }
#[verifier::external_body]
pub struct Vfs { _p: () }
pub uninterp spec fn sp_db_vfs(db: &DbIndex) -> &Vfs;
pub uninterp spec fn sp_vfs_doc(v: &Vfs, f: FileId) -> int;
impl DbIndex {
    #[verifier::external_body]
    pub fn get_vfs(&self) -> (r: &Vfs) ensures r == sp_db_vfs(self) { unimplemented!() }
}
impl Vfs {
    /// vfs/mod.rs:182 (under contract in unit c22_vfs: [C22.vfs.document-pairs-text-with-its-line-index])
    #[verifier::external_body]
    pub fn get_document(&self, id: &FileId) -> (r: Option<LuaDocument<'_>>)
        ensures r matches Some(d) ==> sp_doc_id(&d) == sp_vfs_doc(self, *id) && sp_doc_ok(&d),
    { unimplemented!() }
}
//@@ GutterKind
//@@ GutterLocation

// ---------------------------------------------------------------------------------------------
// extracted from /repo: the hand-built Locations
// ---------------------------------------------------------------------------------------------
//@@ get_override_lsp_location
//@@ get_call_signature_param_location::locations
//@@ set_meta_call_part::location
//@@ build_index_expr_hint::location
//@@ build_closure_hint::location
//@@ get_type_location::location
//@@ get_base_type_location::location
//@@ goto_module_file::location
//@@ on_emmy_gutter_detail_handler::location

//@@include c26_locations/selection_spec.rs

impl<'a> SemanticModel<'a> {
    /// semantic/mod.rs get_module: the module record of the model's file (named, otherwise unspecified)
    #[verifier::external_body]
    pub fn get_module(&self) -> (r: Option<&ModuleInfo>) ensures r == sp_module(self) { unimplemented!() }
    /// semantic/mod.rs get_emmyrc: the configuration (named, otherwise unspecified)
    #[verifier::external_body]
    pub fn get_emmyrc(&self) -> (r: &Emmyrc) ensures r == sp_emmyrc(self) { unimplemented!() }
}

// ---------------------------------------------------------------------------------------------
// extracted from /repo: the description part of the selection-range chain
// ---------------------------------------------------------------------------------------------
//@@ add_detail_ranges

} // verus!
fn main() {}
