// ---- selection ranges inside a doc description: the detail ranges add_detail_ranges puts in front of the ancestry -------
pub type LuaDocDescription = Syn;
//@@ WorkspaceId
impl WorkspaceId {
    //@@ WorkspaceId::MAIN
    ; // (the extractor ends a `const X: T = T { .. };` item at the closing brace: the `;` is supplied here)
}
//@@ ModuleInfo
//@@ DescItem
/// emmylua_code_analysis::Emmyrc: opaque
#[verifier::external_body]
pub struct Emmyrc { _p: () }
pub uninterp spec fn sp_module<'a>(m: &'a SemanticModel) -> Option<&'a ModuleInfo>;
pub uninterp spec fn sp_emmyrc<'a>(m: &'a SemanticModel) -> &'a Emmyrc;

/// what the description parser returns (util/desc.rs parse_desc -> emmylua_parser_desc::parse: the markdown / MyST / RST
/// markup parsers of property C37, 5.9 kLoC): an uninterpreted function of its arguments
pub uninterp spec fn sp_parse_desc(ws: WorkspaceId, emmyrc: &Emmyrc, text: Seq<char>, desc: Syn, cursor: Option<usize>) -> Seq<DescItem>;
/// util/desc.rs:16 parse_desc: shimmed callee. The only thing stated about the items is the TYPE INVARIANT of
/// text-size's TextRange (start <= end: its fields are private and every constructor asserts it), which the common shim
/// turns into the predicate `wf`. NOTHING is assumed here about nesting, order or distinctness of the items.
#[verifier::external_body]
pub fn parse_desc(workspace_id: WorkspaceId, emmyrc: &Emmyrc, text: &str, desc: LuaDocDescription, offset: Option<usize>) -> (r: Vec<DescItem>)
    ensures
        r@ == sp_parse_desc(workspace_id, emmyrc, text@, desc, offset),
        forall|i: int| 0 <= i < r@.len() ==> (#[trigger] r@[i]).range.wf(),
{ unimplemented!() }
/// the items add_detail_ranges works on: parse_desc run with the workspace of the model's module (MAIN if it has none),
/// the model's configuration, the text of the model's own document, no cursor
pub open spec fn desc_items(m: &SemanticModel, description: Syn) -> Seq<DescItem> {
    sp_parse_desc(
        match sp_module(m) { Some(mi) => mi.workspace_id, None => WorkspaceId::MAIN },
        sp_emmyrc(m), sp_text_of(sp_model_doc(m)), description, None::<usize>)
}

// ---- std contracts (trusted) -------------------------------------------------------------------
/// `p` is a permutation of 0..n (injective map into 0..n)
pub open spec fn is_perm(p: Seq<int>, n: int) -> bool {
    &&& p.len() == n
    &&& forall|i: int| 0 <= i < n ==> 0 <= #[trigger] p[i] < n
    &&& forall|i: int, j: int| 0 <= i < j < n ==> #[trigger] p[i] != #[trigger] p[j]
}
/// "the key of a is not greater than the key of b"
pub open spec fn key_says_le<T, K: Ord, F: FnMut(&T) -> K>(f: F, a: T, b: T) -> bool {
    exists|ka: K, kb: K| #[trigger] call_ensures(f, (&a,), ka) && #[trigger] call_ensures(f, (&b,), kb) && ka.cmp_spec(&kb) != Ordering::Greater
}
/// the key function may be called on every element and is deterministic
pub open spec fn key_fn_ok<T, K: Ord, F: FnMut(&T) -> K>(f: F, s: Seq<T>) -> bool {
    &&& forall|i: int| 0 <= i < s.len() ==> call_requires(f, (&#[trigger] s[i],))
    &&& forall|a: &T, k1: K, k2: K| #[trigger] call_ensures(f, (a,), k1) && #[trigger] call_ensures(f, (a,), k2) ==> k1 == k2
}
/// std doc of `<[T]>::sort_by_key`: "Sorts the slice in ascending order with a key extraction function, preserving
/// initial order of equal elements. … May panic if the implementation of Ord for K does not implement a total order":
/// the result is a rearrangement (permutation) of the input, ascending w.r.t. the keys.
pub assume_specification<T, K: Ord, F: FnMut(&T) -> K>[ <[T]>::sort_by_key ](v: &mut [T], f: F)
    requires
        key_fn_ok::<T, K, F>(f, old(v)@),
        <K as vstd::std_specs::cmp::OrdSpec>::obeys_cmp_spec(),
    ensures
        exists|p: Seq<int>| is_perm(p, old(v)@.len() as int) && final(v)@.len() == old(v)@.len()
            && forall|i: int| 0 <= i < final(v)@.len() ==> #[trigger] final(v)@[i] == old(v)@[p[i]],
        forall|i: int, j: int| #![trigger final(v)@[i], final(v)@[j]] 0 <= i < j < final(v)@.len() ==> key_says_le(f, final(v)@[i], final(v)@[j]);

// ---- vocabulary ---------------------------------------------------------------------------------
/// text range a lies inside text range b
pub open spec fn off_inside(a: TextRange, b: TextRange) -> bool { b.start.raw <= a.start.raw && a.end.raw <= b.end.raw }
/// the range contains the offset in the HALF-OPEN sense (text-size `TextRange::contains`): start <= offset < end
pub open spec fn has(r: TextRange, o: TextSize) -> bool { r.start.raw <= o.raw && o.raw < r.end.raw }
pub open spec fn rlen(r: TextRange) -> int { r.end.raw - r.start.raw }
pub open spec fn disjoint(a: TextRange, b: TextRange) -> bool { a.end.raw <= b.start.raw || b.end.raw <= a.start.raw }
/// ASSUMPTION `desc-items-laminar` about the markup parser (NOT proved; property C37's parser): any two items either
/// nest or are disjoint (half-open ranges: touching at a boundary is disjoint)
pub open spec fn laminar(items: Seq<DescItem>) -> bool {
    forall|i: int, j: int| 0 <= i < items.len() && 0 <= j < items.len()
        ==> off_inside(#[trigger] items[i].range, #[trigger] items[j].range) || off_inside(items[j].range, items[i].range)
            || disjoint(items[i].range, items[j].range)
}
pub open spec fn all_contain(s: Seq<TextRange>, o: TextSize) -> bool { forall|i: int| 0 <= i < s.len() ==> has(#[trigger] s[i], o) }
pub open spec fn sorted_by_len(s: Seq<TextRange>) -> bool { forall|i: int, j: int| 0 <= i < j < s.len() ==> rlen(#[trigger] s[i]) <= rlen(#[trigger] s[j]) }
/// every range is the range of one of the items
pub open spec fn from_items(s: Seq<TextRange>, items: Seq<DescItem>) -> bool {
    forall|i: int| 0 <= i < s.len() ==> exists|k: int| 0 <= k < items.len() && (#[trigger] items[k]).range == #[trigger] s[i]
}
/// "grow outward": each range is contained in the next one
pub open spec fn chain_grows(s: Seq<TextRange>) -> bool { forall|i: int| 0 <= i && i + 1 < s.len() ==> off_inside(#[trigger] s[i], s[i + 1]) }
/// … and differs from it: "selection ranges STRICTLY grow outward"
pub open spec fn chain_grows_strictly(s: Seq<TextRange>) -> bool {
    forall|i: int| 0 <= i && i + 1 < s.len() ==> off_inside(#[trigger] s[i], s[i + 1]) && s[i] != s[i + 1]
}
/// no range twice in a row
pub open spec fn consecutive_differ(s: Seq<TextRange>) -> bool { forall|i: int| 0 <= i && i + 1 < s.len() ==> #[trigger] s[i] != s[i + 1] }
pub proof fn lemma_strict_chain(s: Seq<TextRange>)
    requires chain_grows(s), consecutive_differ(s),
    ensures chain_grows_strictly(s),
{ }
/// what add_detail_ranges appended
pub open spec fn appended(old_r: Seq<TextRange>, new_r: Seq<TextRange>) -> Seq<TextRange> { new_r.subrange(old_r.len() as int, new_r.len() as int) }

/// THE LEMMA the property needs: ranges of laminar items that all contain the offset (half-open) and are sorted by
/// non-decreasing length form a chain in which each range contains the previous one.
/// (With `contains_inclusive` two ADJACENT items [a, o) and [o, b) would both be kept: they are disjoint, neither
/// contains the other — the step "both contain the offset ==> not disjoint" needs the half-open sense.)
pub proof fn lemma_detail_chain(items: Seq<DescItem>, s: Seq<TextRange>, o: TextSize)
    requires laminar(items), from_items(s, items), all_contain(s, o), sorted_by_len(s),
    ensures chain_grows(s),
{
    assert forall|i: int| 0 <= i && i + 1 < s.len() implies off_inside(#[trigger] s[i], s[i + 1]) by {
        let a = s[i]; let b = s[i + 1];
        let ka = choose|k: int| 0 <= k < items.len() && (#[trigger] items[k]).range == s[i];
        let kb = choose|k: int| 0 <= k < items.len() && (#[trigger] items[k]).range == s[i + 1];
        assert(has(a, o) && has(b, o));
        assert(!disjoint(items[ka].range, items[kb].range));
        assert(rlen(a) <= rlen(b));
        assert(off_inside(items[ka].range, items[kb].range) || off_inside(items[kb].range, items[ka].range));
    }
}

/// the half-open sense is NEEDED: with inclusive containment (`contains_inclusive`, start <= offset <= end) two adjacent
/// items [0, 5) and [5, 9) are laminar (disjoint), both "contain" offset 5, and sorted by length they are [5, 9), [0, 5):
/// the second does not contain the first — the chain does not grow.
pub open spec fn has_inclusive(r: TextRange, o: TextSize) -> bool { r.start.raw <= o.raw && o.raw <= r.end.raw }
pub proof fn lemma_inclusive_containment_breaks_the_chain()
    ensures ({
        let a = TextRange { start: TextSize { raw: 0 }, end: TextSize { raw: 5 } };
        let b = TextRange { start: TextSize { raw: 5 }, end: TextSize { raw: 9 } };
        let o = TextSize { raw: 5 };
        let items = seq![DescItem { range: a }, DescItem { range: b }];
        &&& laminar(items) && from_items(seq![b, a], items) && sorted_by_len(seq![b, a])
        &&& has_inclusive(a, o) && has_inclusive(b, o)
        &&& !chain_grows(seq![b, a])
    }),
{
    let a = TextRange { start: TextSize { raw: 0 }, end: TextSize { raw: 5 } };
    let b = TextRange { start: TextSize { raw: 5 }, end: TextSize { raw: 9 } };
    let items = seq![DescItem { range: a }, DescItem { range: b }];
    let s = seq![b, a];
    assert(items[0].range == a && items[1].range == b);
    assert(s[0] == b && s[1] == a);
    assert(!off_inside(s[0int], s[0int + 1]));
}
