"""unit c26_locations — C26, first sentence ("every location or range the server returns lies inside its document") for
the `lsp_types::Location`s the handlers build BY HAND, and the description part of "selection ranges strictly grow outward".

A Location pairs a URI with line/column positions. It lies inside its document only if both come from the SAME LuaDocument:
positions computed with another file's line index point somewhere else (or nowhere) in the file the URI names. Documents are
modelled by an uninterpreted identity sp_doc_id; `semantic_model.get_document()` returns the document with identity
sp_model_doc(model), `get_document_by_file_id(f)` the one with identity sp_doc_of_file(model, f); NOTHING relates the two.

PROVED (site -> clause)
  vfs/document.rs LuaDocument::to_lsp_location (whole fn)           uri == uri of self, range == to_lsp_range(self, range)
                                                                    [C26.location.same-document], [..inside-its-document]
  vfs/document.rs LuaDocument::get_document_lsp_range (whole fn)    == (0,0)..(line_count,0) [C26.location.whole-document-range]
  inlay_hint/build_inlay_hint.rs get_override_lsp_location (whole)  document and tree fetched by the SAME file id -> the
                                                                    precondition of to_lsp_location holds [C26.location.override.*]
  inlay_hint/build_inlay_hint.rs:133,137 (slice, the param loop)    every Location of the map: uri and range of the ONE document
                                                                    [C26.location.call-signature-param.same-document]
  inlay_hint/build_inlay_hint.rs:534 set_meta_call_part (slice)     uri and range of the document of the operator's file
                                                                    [C26.location.meta-call.same-document]   <- seeded defect (A)
  inlay_hint/build_inlay_hint.rs:664 build_index_expr_hint (slice)  [C26.location.index-hint.same-document]
  inlay_hint/build_function_hint.rs:59 build_closure_hint (slice)   the default label part's location lies inside its document
                                                                    [C26.location.closure-hint.inside-its-document]
  inlay_hint/build_function_hint.rs:163 get_type_location (slice)   [C26.location.type-decl.same-document]
  inlay_hint/build_function_hint.rs:198 get_base_type_location (sl) [C26.location.type-decl.same-document]
  definition/goto_module_file.rs:29 (slice)                         uri and whole-document range of the SAME document
                                                                    [C26.location.module-file.same-document]  (see finding F2)
  emmy_gutter/mod.rs:170 GutterLocation (slice)                     uri text and line of the SAME document
                                                                    [C26.location.gutter.same-document]
  document_selection_range/mod.rs add_detail_ranges (whole fn)      appended ranges are item ranges [..detail-are-item-ranges],
                                                                    contain the offset half-open [..detail-contains-offset], sorted by
                                                                    length [..detail-sorted-by-length]; IF the parser's items are
                                                                    laminar the chain grows [..detail-chain-grows] (lemma_detail_chain;
                                                                    lemma_inclusive_containment_breaks_the_chain: the half-open sense
                                                                    is needed)                                  <- seeded defect (B)
                                                                    … and differs from the previous one [..detail-strictly-grows]:
                                                                    FAILS today (finding F1), proved on the repaired text
NOT COVERED  definition/goto_def_definition.rs:259 goto_source_location (no document is consulted), see `not_covered`.
FINDINGS     F1 (OPEN, the unit exits 1 on it): selection ranges inside `***both***` repeat a range — the property clause
             [C26.selection.detail-strictly-grows] FAILS on the unrepaired tree as
             add_detail_ranges:invariant-not-satisfied-at-end-of-loop-b[C26.selection.detail-strictly-grows]; with
             proposed_fix_detail_dedup.diff applied the unit exits 0 and the clause is proved. F2 goto_module_file's range ends
             on a line that does not exist — see `findings`.
"""
import re

H = 'crates/emmylua_ls/src/handlers/'
DOC = 'crates/emmylua_code_analysis/src/vfs/document.rs'
FID = 'crates/emmylua_code_analysis/src/vfs/file_id.rs'
INLAY = H + 'inlay_hint/build_inlay_hint.rs'
FHINT = H + 'inlay_hint/build_function_hint.rs'
GMOD = H + 'definition/goto_module_file.rs'
GUT = H + 'emmy_gutter/mod.rs'
SEL = H + 'document_selection_range/mod.rs'
DB = 'crates/emmylua_code_analysis/src/db_index/'


def fn(file, name, owner=None, **kw):
    src = {'file': file, 'kind': 'fn', 'name': name}
    if owner:
        src['impl'] = owner
    d = {'src': src}
    d.update(kw)
    return d


def slc(file, host, name, frm, to, head, tail='', **kw):
    d = {'src': {'kind': 'slice', 'name': name, 'in': {'file': file, 'kind': 'fn', 'name': host},
                 'from': frm, 'to': to, 'head': head, 'tail': tail}}
    d.update(kw)
    return d


KEYS_S = 'vstd::std_specs::hash::obeys_key_model::<String>()'


def type_decl_slice(host, name):
    """`let document = get_document_by_file_id(location.file_id)?; let lsp_range = document.to_lsp_range(location.range)?;
    Some(Location::new(document.get_uri(), lsp_range))` — the same three statements in get_type_location (Ref/Def arm) and
    get_base_type_location"""
    return slc(
        FHINT, host, name,
        r'let document = semantic_model\.get_document_by_file_id\(location\.file_id\)\?;',
        r'Some\(Location::new\(document\.get_uri\(\), lsp_range\)\)',
        'pub fn %s(semantic_model: &SemanticModel, location: &LuaDeclLocation) -> Option<Location>' % name,
        ret='r',
        # ASSUMED index consistency: a LuaDeclLocation of the type index records a range of the file it names
        requires='sp_file_range(sp_doc_of_file(semantic_model, location.file_id), location.range)',
        ensures='r matches Some(loc) ==> same_doc(sp_doc_of_file(semantic_model, location.file_id), location.range, loc) /*@C26.location.type-decl.same-document*/',
        proof=[(r'let document = semantic_model\.get_document_by_file_id\(location\.file_id\)\?;', 'after',
                'proof { axiom_file_range(&document, location.range); }')])


ITEMS = {
    'FileId': {'src': {'file': FID, 'kind': 'struct', 'name': 'FileId'}, 'attrs': '#[derive(Clone, Copy)]'},
    'LuaDocument::to_lsp_location': fn(
        DOC, 'to_lsp_location', 'LuaDocument', ret='r',
        requires='sp_doc_ok(self), range_in_doc(self, range)',
        ensures='''r matches Some(loc) && loc.uri == sp_uri(self) && loc.range == doc_lsp_range(self, range) /*@C26.location.same-document*/,
        r matches Some(loc) && same_doc(sp_doc_id(self), range, loc) /*@C26.location.inside-its-document*/'''),
    'LuaDocument::get_document_lsp_range': fn(
        DOC, 'get_document_lsp_range', 'LuaDocument', ret='r',
        ensures='r == whole_doc_range(self) /*@C26.location.whole-document-range*/'),
    # ---- inlay_hint/build_inlay_hint.rs:459-475 get_override_lsp_location (whole function): a CALLER of to_lsp_location that
    # fetches document and syntax tree by the same file id (used by emmy_gutter/mod.rs:121 and the override inlay hint)
    'get_override_lsp_location': fn(
        INLAY, 'get_override_lsp_location', ret='r',
        ensures='r matches Some(loc) ==> in_doc_of(sp_doc_of_file(semantic_model, file_id), loc) /*@C26.location.override.same-document*/',
        proof=[(r'let lsp_range = document\.to_lsp_location\(range\)\?;', 'before', '''proof {
        // `range` is the range of a node / token of the tree of file_id — the file `document` was fetched for
        assert(exists|e: Syn| #![trigger sp_range(e)] sp_tree(e) == sp_doc_of_file(semantic_model, file_id) && sp_range(e) == range);
        let e = choose|e: Syn| #![trigger sp_range(e)] sp_tree(e) == sp_doc_of_file(semantic_model, file_id) && sp_range(e) == range;
        axiom_tree_range(e); axiom_file_range(&document, range);
    }''')]),
    # ---- inlay_hint/build_inlay_hint.rs:125-140: the two Location::new in the parameter loop ---------------------------------
    'get_call_signature_param_location::locations': slc(
        INLAY, 'get_call_signature_param_location', 'call_signature_param_locations',
        r'let document = document\?;', r'Some\(lua_params_map\)',
        'pub fn call_signature_param_locations(document: Option<LuaDocument>, lua_params: LuaParamList) -> Option<HashMap<String, Location>>',
        ret='r',
        requires=KEYS_S + ''',
            // `document` was assigned `semantic_model.get_document_by_file_id(sig_file_id)` and the closure whose parameter list
            // this is was found in `semantic_model.get_root_by_file_id(sig_file_id)` (build_inlay_hint.rs:96-98): same file id
            document matches Some(d) ==> sp_doc_ok(&d) && sp_tree(lua_params) == sp_doc_id(&d)''',
        ensures='''r matches Some(m) ==> document is Some && forall|k: String| #[trigger] m@.contains_key(k)
                ==> in_doc_of(sp_doc_id(&document->Some_0), m@[k]) /*@C26.location.call-signature-param.same-document*/''',
        body_first='broadcast use vstd::std_specs::hash::group_hash_axioms;',
        iter_names={0: 'it'},
        loops={0: '''invariant
                ''' + KEYS_S + ''', sp_doc_ok(&document), url == sp_uri(&document),
                forall|i: int| 0 <= i < it.seq().len() ==> sp_tree(#[trigger] it.seq()[i]) == sp_doc_id(&document),
                forall|k: String| #[trigger] lua_params_map@.contains_key(k) ==> in_doc_of(sp_doc_id(&document), lua_params_map@[k]) /*@C26.location.call-signature-param.same-document.inv*/,'''},
        proof=[(r'if let Some\(name_token\) = param\.get_name_token\(\) \{', 'before',
                'proof { axiom_tree_range(param); axiom_file_range(&document, sp_range(param)); }')]),
    # ---- inlay_hint/build_inlay_hint.rs:530-535 -----------------------------------------------------------------------------------
    'set_meta_call_part::location': slc(
        INLAY, 'set_meta_call_part', 'meta_call_location',
        r'let location = \{', r'Location::new\(document\.get_uri\(\), lsp_range\)\s*\};',
        'pub fn meta_call_location(semantic_model: &SemanticModel, operator: &LuaOperator) -> Option<Location>',
        'Some(location)',
        ret='r',
        # ASSUMED index consistency: the operator index records, for an operator, a range of the file it was declared in
        requires='sp_file_range(sp_doc_of_file(semantic_model, sp_op_file(operator)), sp_op_range(operator))',
        ensures='''r matches Some(loc) ==> same_doc(sp_doc_of_file(semantic_model, sp_op_file(operator)), sp_op_range(operator), loc) /*@C26.location.meta-call.same-document*/''',
        proof=[(r'let document = semantic_model\.get_document_by_file_id\(operator\.get_file_id\(\)\)\?;', 'after',
                'proof { axiom_file_range(&document, range); }')]),
    # ---- inlay_hint/build_inlay_hint.rs:653-665 ---------------------------------------------------------------------------------
    'build_index_expr_hint::location': slc(
        INLAY, 'build_index_expr_hint', 'index_hint_location',
        r'let document = semantic_model\.get_document\(\);', r'Location::new\(document\.get_uri\(\), lsp_range\)\s*\};',
        'pub fn index_hint_location(semantic_model: &SemanticModel, index_expr: LuaIndexExpr) -> Option<(lsp_types::Position, Location)>',
        'Some((position, label_location))',
        ret='r',
        # the index expression is a node of the tree of the model's own file (the hint builder walks semantic_model.get_root())
        requires='sp_tree(index_expr) == sp_model_doc(semantic_model)',
        ensures='r matches Some((_, loc)) ==> in_doc_of(sp_model_doc(semantic_model), loc) /*@C26.location.index-hint.same-document*/',
        proof=[(r'let lsp_range = document\.to_lsp_range\(range\)\?;\s*lsp_range\.end', 'before',
                'proof { axiom_tree_range(index_token); axiom_file_range(&document, range); }'),
               (r'let lsp_range = document\.to_lsp_range\(range\)\?;\s*Location::new', 'before',
                'proof { axiom_file_range(&document, range); }')]),
    # ---- inlay_hint/build_function_hint.rs:46-63 (build_closure_hint): the fallback Location of the default label part ----------
    'build_closure_hint::location': slc(
        FHINT, 'build_closure_hint', 'closure_hint_label_parts',
        r'let lsp_range = document\.to_lsp_range\(lua_param\.get_range\(\)\)\?;', r'\.\.Default::default\(\)\s*\}\);\s*\}',
        '''pub fn closure_hint_label_parts(semantic_model: &SemanticModel, document: LuaDocument, lua_param: &LuaParamName, typ: &LuaType)
        -> Option<(lsp_types::Range, Vec<InlayHintLabelPart>)>''',
        'Some((lsp_range, label_parts))',
        rules=['c26l-format-label', 'c26l-label-part-default-rest'],
        ret='r',
        # `let document = semantic_model.get_document();` (build_function_hint.rs:38, in front of the loop the slice is taken from)
        # and the closure whose parameter this is is a node of the model's own tree
        requires='sp_doc_id(&document) == sp_model_doc(semantic_model), sp_doc_ok(&document), sp_tree(*lua_param) == sp_model_doc(semantic_model)',
        ensures='''// the default part (pushed when build_label_parts returns nothing) carries a location that lies inside its document:
            // what get_type_location found, or the parameter's own range in the model's document
            r matches Some((rg, parts)) ==> rg == doc_lsp_range(&document, sp_range(*lua_param))
                && (sp_label_parts(semantic_model, typ).len() == 0 ==> parts@.len() == 1
                    && (parts@[0].location matches Some(l) && loc_in_its_doc(l))) /*@C26.location.closure-hint.inside-its-document*/,
            r matches Some((_, parts)) ==> (sp_label_parts(semantic_model, typ).len() != 0 ==> parts@ == sp_label_parts(semantic_model, typ)) /*@C26.location.closure-hint.frame*/''',
        proof=[(r'let lsp_range = document\.to_lsp_range\(lua_param\.get_range\(\)\)\?;', 'before',
                'proof { axiom_tree_range(*lua_param); axiom_file_range(&document, sp_range(*lua_param)); }'),
               (r'label_parts\.push\(InlayHintLabelPart \{', 'before',
                '''proof {
                    let fallback = Location { uri: sp_uri(&document), range: lsp_range };
                    assert(in_doc_of(sp_doc_id(&document), fallback));
                    lemma_in_doc_of_inside(sp_doc_id(&document), fallback);
                }''')]),
    # ---- inlay_hint/build_function_hint.rs:161-163 and :196-198 -----------------------------------------------------------------
    'LuaDeclLocation': {'src': {'file': 'crates/emmylua_code_analysis/src/db_index/type/type_decl.rs', 'kind': 'struct', 'name': 'LuaDeclLocation'},
                        'rules': [('struct-fields', {'keep': ['file_id', 'range']})]},
    'get_type_location::location': type_decl_slice('get_type_location', 'type_decl_location'),
    'get_base_type_location::location': type_decl_slice('get_base_type_location', 'base_type_decl_location'),
    # ---- definition/goto_module_file.rs:19-32 -----------------------------------------------------------------------------------
    'goto_module_file::location': slc(
        GMOD, 'goto_module_file', 'module_file_location',
        r'let document = semantic_model\.get_document_by_file_id\(file_id\)\?;', r'range: lsp_range,\s*\}\)\)',
        'pub fn module_file_location(semantic_model: &SemanticModel, file_id: FileId) -> Option<GotoDefinitionResponse>',
        ret='r',
        ensures='''r matches Some(resp) ==> (resp matches GotoDefinitionResponse::Scalar(loc) && exists|d: &LuaDocument| #![trigger sp_doc_id(d)]
                sp_doc_id(d) == sp_doc_of_file(semantic_model, file_id) && loc.uri == sp_uri(d) && loc.range == whole_doc_range(d)) /*@C26.location.module-file.same-document*/'''),
    # ---- emmy_gutter/mod.rs:168-176 -----------------------------------------------------------------------------------------------
    'GutterKind': {'src': {'file': H + 'emmy_gutter/emmy_gutter_request.rs', 'kind': 'enum', 'name': 'GutterKind'}},
    'GutterLocation': {'src': {'file': H + 'emmy_gutter/emmy_gutter_detail_request.rs', 'kind': 'struct', 'name': 'GutterLocation'},
                       'rules': [('struct-fields', {})]},
    'on_emmy_gutter_detail_handler::location': slc(
        GUT, 'on_emmy_gutter_detail_handler', 'gutter_location',
        r'if let Some\(document\) = db\.get_vfs\(\)\.get_document\(&file_id\) \{', r'kind: GutterKind::Class,\s*\}\);\s*\}\s*\}',
        'pub fn gutter_location(db: &DbIndex, file_id: FileId, location: &LuaDeclLocation, locations: &mut Vec<GutterLocation>)',
        # `let file_id = location.file_id;` is the statement in front of the slice
        requires='file_id == location.file_id, sp_file_range(sp_vfs_doc(sp_db_vfs(db), location.file_id), location.range)',
        ensures='''final(locations)@ == old(locations)@ || (final(locations)@.len() == old(locations)@.len() + 1
                && final(locations)@.drop_last() == old(locations)@
                && exists|d: &LuaDocument| #![trigger sp_doc_id(d)] sp_doc_id(d) == sp_vfs_doc(sp_db_vfs(db), location.file_id) && sp_doc_ok(d)
                    && range_in_doc(d, location.range)
                    && final(locations)@.last().uri@ == lsp_types::sp_uri_text(sp_uri(d))
                    && final(locations)@.last().line == doc_lsp_range(d, location.range).start.line as i32) /*@C26.location.gutter.same-document*/''',
        proof=[(r'if let Some\(lsp_range\) = document\.to_lsp_range\(location\.range\) \{', 'before',
                'proof { axiom_file_range(&document, location.range); }'),
               (r'kind: GutterKind::Class,\s*\}\);', 'after',
                'proof { assert(locations@.drop_last() =~= old(locations)@); }')]),
    # ---- document_selection_range/mod.rs:72-100 add_detail_ranges (whole function) -------------------------------------------
    'WorkspaceId': {'src': {'file': DB + 'module/workspace.rs', 'kind': 'struct', 'name': 'WorkspaceId'}, 'attrs': '#[derive(Clone, Copy)]'},
    'WorkspaceId::MAIN': {'src': {'file': DB + 'module/workspace.rs', 'kind': 'const', 'impl': 'WorkspaceId', 'name': 'MAIN'}},
    'ModuleInfo': {'src': {'file': DB + 'module/module_info.rs', 'kind': 'struct', 'name': 'ModuleInfo'},
                   'rules': [('struct-fields', {'keep': ['workspace_id']})]},
    'DescItem': {'src': {'file': 'crates/emmylua_parser_desc/src/lib.rs', 'kind': 'struct', 'name': 'DescItem'},
                 'rules': [('struct-fields', {'keep': ['range']})]},
    'add_detail_ranges': fn(
        SEL, 'add_detail_ranges',
        # the two loop rules are alternatives: the repository text is either `result.extend(PIPELINE)` (today) or
        # `for range in PIPELINE { .. }` (units/c26_locations/proposed_fix_detail_dedup.diff); whichever is present is desugared
        rules=['c26l-closure-contract-workspace-id', 'c26l-closure-contract-range-len',
               ('c26l-extend-map-filter-loop', {'optional': True}), ('c26l-for-map-filter-loop', {'optional': True})],
        ensures='''
            old(result)@.is_prefix_of(final(result)@) /*@C26.selection.detail-appends*/,
            // every range appended is the range of one of the description parser's items …
            from_items(appended(old(result)@, final(result)@), desc_items(semantic_model, description)) /*@C26.selection.detail-are-item-ranges*/,
            // … that contains the cursor offset in the half-open sense …
            all_contain(appended(old(result)@, final(result)@), offset) /*@C26.selection.detail-contains-offset*/,
            // … shortest first
            sorted_by_len(appended(old(result)@, final(result)@)) /*@C26.selection.detail-sorted-by-length*/,
            // hence (lemma_detail_chain), IF the parser's items are laminar, each appended range contains the one before it
            laminar(desc_items(semantic_model, description))
                ==> chain_grows(appended(old(result)@, final(result)@)) /*@C26.selection.detail-chain-grows*/,
            // … and, the property AS STATED ("selection ranges STRICTLY grow outward"), differs from it. (The link from the last
            // detail range to the first ancestor range is the host loop's `ranges.last() != Some(&range)` guard: unit c26_ranges.)
            laminar(desc_items(semantic_model, description))
                ==> chain_grows_strictly(appended(old(result)@, final(result)@)) /*@C26.selection.detail-strictly-grows*/''',
        iter_names={0: 'it'},
        loops={0: '''invariant
                it.seq() == sorted,
                old(result)@.is_prefix_of(result@),
                from_items(appended(old(result)@, result@), items0) /*@C26.selection.detail-are-item-ranges.inv*/,
                all_contain(appended(old(result)@, result@), offset) /*@C26.selection.detail-contains-offset.inv*/,
                sorted_by_len(appended(old(result)@, result@)) /*@C26.selection.detail-sorted-by-length.inv*/,
                // no range is appended twice in a row (what the code has to see to: items with IDENTICAL ranges exist). The loop-level
                // form of the property clause, hence the same label
                consecutive_differ(appended(old(result)@, result@)) /*@C26.selection.detail-strictly-grows*/,
                // everything still to come is at least as long as everything appended so far
                forall|i: int, k: int| 0 <= i < appended(old(result)@, result@).len() && it.index@ <= k < sorted.len()
                    ==> rlen(#[trigger] appended(old(result)@, result@)[i]) <= rlen((#[trigger] sorted[k]).range),
                // the sorted list: a rearrangement of the parser's items, ascending in length
                sorted.len() == items0.len(), is_perm(p, items0.len() as int),
                forall|i: int| 0 <= i < sorted.len() ==> #[trigger] sorted[i] == items0[p[i]],
                forall|i: int, j: int| 0 <= i < j < sorted.len() ==> rlen((#[trigger] sorted[i]).range) <= rlen((#[trigger] sorted[j]).range),'''},
        proof=[
            (r'items\.sort_by_key\(', 'before', 'let ghost items0 = items@;\nproof { assert(items0 == desc_items(semantic_model, description)); }'),
            (r'items\.sort_by_key\([^;]*;', 'after', '''let ghost sorted = items@;
    let ghost p = choose|p: Seq<int>| is_perm(p, items0.len() as int) && sorted.len() == items0.len()
        && forall|i: int| 0 <= i < sorted.len() ==> #[trigger] sorted[i] == items0[p[i]];
    proof {
        assert forall|i: int, j: int| 0 <= i < j < sorted.len() implies rlen((#[trigger] sorted[i]).range) <= rlen((#[trigger] sorted[j]).range) by {
            assert(sorted[i] == items0[p[i]] && sorted[j] == items0[p[j]]);
        }
        assert(appended(old(result)@, result@) =~= Seq::<TextRange>::empty());
    }'''),
            # `__m` (extend form) / `range` (for form)
            (r'result\.push\((?:__m|range)\);', 'before', 'let ghost before = result@;'),
            (r'result\.push\((?:__m|range)\);', 'after', '''proof {
                let a0 = appended(old(result)@, before);
                let a1 = appended(old(result)@, result@);
                let x = result@.last();
                assert(a1 =~= a0.push(x));
                assert(x == sorted[it.index@].range);
                assert(sorted[it.index@] == items0[p[it.index@]]);
                assert(a0.len() > 0 ==> a0.last() == before.last());
                assert forall|i: int| 0 <= i < a1.len() implies exists|k: int| 0 <= k < items0.len() && (#[trigger] items0[k]).range == #[trigger] a1[i] by {
                    if i < a0.len() { assert(a1[i] == a0[i]); } else { assert(items0[p[it.index@]].range == a1[i]); }
                }
            }'''),
            # after the loop = in front of the closing brace of the function (both forms end with the loop)
            (r'\}\s*\Z', 'before', '''proof {
        let app = appended(old(result)@, result@);
        if laminar(items0) {
            lemma_detail_chain(items0, app, offset);
            lemma_strict_chain(app);
        }
    }'''),
        ],
        ),
}

# (4) the repair of finding F1 (proposed_fix_detail_dedup.diff) undone. Only applicable once the repository carries the repair:
# on the unrepaired text the pattern does not occur (and the strict clause fails anyway), so the mutant is registered only when
# the guard is present in the text under $VERIF_REPO
AFTER_REPAIR_MUTANTS = [
    {'name': 'detail-ranges-dedup-guard-removed', 'item': 'add_detail_ranges', 'applicable': 'after-repair',
     'pattern': r'if result\.last\(\) != Some\(&range\) \{\s*result\.push\(range\);\s*\}', 'repl': 'result.push(range);',
     'expect': r'add_detail_ranges.*C26\.selection\.detail-strictly-grows'},
]


def _repair_present():
    import os
    try:
        with open(os.path.join(os.environ.get('VERIF_REPO', '/repo'), SEL), encoding='utf-8') as f:
            txt = f.read()
    except OSError:
        return False
    i = txt.find('fn add_detail_ranges')
    return i >= 0 and 'result.last() != Some(&range)' in txt[i:]


UNIT = {
    'items': ITEMS,
    'extra_rules': [
        ('c26l-closure-contract-workspace-id', r'\|m\| m\.workspace_id',
         '|m: &ModuleInfo| -> (w: WorkspaceId) ensures w == m.workspace_id { m.workspace_id }',
         'contract overlay on the closure passed to Option::map (vstd specifies map through the closure\'s contract): parameter '
         'type, named result and `ensures` added; the body expression is kept verbatim and Verus checks the ensures against it'),
        ('c26l-closure-contract-range-len', r'\|item\| item\.range\.len\(\)',
         '|item: &DescItem| -> (k: TextSize) requires item.range.wf() ensures k.raw == item.range.end.raw - item.range.start.raw { item.range.len() }',
         'contract overlay on the key closure passed to sort_by_key: parameter type (the one sort_by_key demands), named result, '
         '`requires` (= the precondition of the shimmed TextRange::len, i.e. the type invariant of the real TextRange) and `ensures` '
         '(= its postcondition) added; the body expression is kept verbatim and Verus checks the contract against it, and the '
         '`requires` where sort_by_key may call it (on every element)'),
        ('c26l-for-map-filter-loop',
         r'for (\w+) in\s+(\w+)\s*\.into_iter\(\)\s*\.map\(\|(\w+)\| ([^|;]*?)\)\s*\.filter\(\|(\w+)\| ([^|;]*?)\)\s*\{((?:[^{}]|\{[^{}]*\})*)\}',
         r'for \3 in \2 { let __m = \4; let \5 = &__m; if \6 { let \1 = __m; \7 } }',
         'for z in W.into_iter().map(|x| M).filter(|y| P) { B } -> for x in W { let __m = M; let y = &__m; if P { let z = __m; B } }: '
         'Rust reference (`for` drives IntoIterator::into_iter(E).next()), std doc of Iterator::map (calls the closure once on every '
         'element, in order) and Iterator::filter (calls the predicate once per mapped element with a REFERENCE to it and yields those '
         'for which it is true); the adapters are lazy, so per element the calls are map, filter, then the loop body — the order of '
         'the rewritten body. M, P and B are kept verbatim with their parameters bound as in the closures / the loop; the closures '
         'capture nothing B writes (rustc would reject a closure borrowing `result` across the loop). B may nest braces one level deep',
         re.S),
        ('c26l-extend-map-filter-loop',
         r'(\w+)\.extend\(\s*(\w+)\s*\.into_iter\(\)\s*\.map\(\|(\w+)\| ([^|;]*?)\)\s*\.filter\(\|(\w+)\| ([^|;]*?)\),?\s*\);',
         r'for \3 in \2 { let __m = \4; let \5 = &__m; if \6 { \1.push(__m); } }',
         'V.extend(W.into_iter().map(|x| M).filter(|y| P)) -> for x in W { let __m = M; let y = &__m; if P { V.push(__m); } }: '
         'std doc of Extend for Vec (appends every yielded element in order), Iterator::map (calls the closure once on every '
         'element, in order), Iterator::filter (calls the predicate once per mapped element with a REFERENCE to it, in order, and '
         'yields those for which it is true); the adapters are lazy, so per element the calls are map, then filter, then the push — '
         'the order of the loop body. M and P are kept verbatim with their closure parameters bound as in the closures', re.S),
        ('c26l-format-label', r'format!\(\s*": \{\}",\s*(hint_humanize_type\(semantic_model, typ, RenderLevel::Simple\))\s*\)',
         r'vx_format_label(\1)',
         'format!(": {}", S) used only as the text of an inlay-hint label -> vx_format_label(S) (opaque String; the label text is '
         'irrelevant to every clause of this unit)'),
        ('c26l-label-part-default-rest', r'\.\.Default::default\(\)', 'tooltip: None, command: None',
         '`..Default::default()` in an lsp_types::InlayHintLabelPart literal that sets `value` and `location` -> the two remaining '
         'fields spelled out (InlayHintLabelPart derives Default; both are Option fields, default None)'),
    ],
    'allow': [
        r'external_body', r'\buninterp\b',
        r'assume_specification<T, E>\[ Result::<T, E>::unwrap_or \]',
        r'assume_specification<T, K: Ord, F: FnMut\(&T\) -> K>\[ <\[T\]>::sort_by_key \]',
    ],
    'min_obligations': 40,
    'trusted': [
        # ---- proved elsewhere --------------------------------------------------------------------------------------------------
        'LuaDocument::to_lsp_range shim: requires sp_doc_ok(self) && range_in_doc(self, range); r == Some(range of the LSP positions '
        'of range.start / range.end), start <= end — PROVED in unit c22_lineindex ([C22.doc.to_lsp_range], [C21.range-wellformed]) '
        'under sp_doc_ok = c22 wf(line_index, text) and sp_in_doc = offset <= text.len() on a char boundary; that the position is a '
        'FUNCTION of (document, offset) is the uniqueness of the line an offset lies on (as in units c26_ranges / c26_semantic_tokens)',
        'SemanticModel::get_document / get_document_by_file_id / Vfs::get_document shims return a document with sp_doc_ok: unit '
        'c22_vfs [C22.vfs.document-pairs-text-with-its-line-index] (+ c22_lineindex: LineIndex::parse establishes wf) under vfs_wf; '
        'that the two SemanticModel accessors are `self.db.get_vfs().get_document(&id)` is by reading (semantic/mod.rs:104-117)',
        # ---- assumed ---------------------------------------------------------------------------------------------------------------
        'ASSUMPTION index-consistency (sp_file_range + axiom_file_range, external_body proof fn): a range the index recorded for a '
        'file — LuaOperator::get_range() with get_file_id() (set_meta_call_part), LuaDeclLocation { file_id, range } (get_type_location, '
        'get_base_type_location, emmy_gutter) — is an ordered range of THAT file\'s current text on char boundaries. Stated as a '
        '`requires` of each of those slices. It rests on C09/C10 (the index is rebuilt from the tree of the file\'s current text) and '
        'C01 (tree text == input text); not proved here',
        'ASSUMPTION tree-document agreement (axiom_tree_range, external_body proof fn; cf. axiom_range_in_doc of unit c26_ranges): the '
        'range of a syntax element is a range of the file its tree was parsed from. sp_tree(e) == identity of that file\'s document is '
        'a `requires` of the slices that take ranges from the tree (index_expr / lua_param / lua_params are nodes of the tree that '
        'belongs to the document in scope: by reading the statements in front of the slices) and an `ensures` of the shimmed '
        'get_root_by_file_id (c22_vfs [C22.vfs.tree-is-parse-of-current-text])',
        'ASSUMPTION desc-items-laminar (hypothesis of [C26.selection.detail-chain-grows], NOT proved): any two items returned by '
        'parse_desc (util/desc.rs -> emmylua_parser_desc::parse, the 5.9 kLoC markdown / MyST / RST markup parsers of property C37) '
        'either nest or are disjoint. By reading: the inline and block parsers are stack based (inline_state / states are popped in '
        'LIFO order), which suggests it; items with IDENTICAL ranges do occur (finding F1) and count as nested',
        'parse_desc shim: result named sp_parse_desc(workspace, emmyrc, text, description, cursor); the only thing stated about the '
        'items is the type invariant of text-size\'s TextRange (start <= end), which the common shim turns into the predicate wf',
        'get_type_location shim (callee of the build_closure_hint slice): `r matches Some(l) ==> loc_in_its_doc(l)` — PROVED for its '
        'two arms that build a Location (slices get_type_location::location, get_base_type_location::location) under the '
        'index-consistency assumption; the remaining arms return the result of a recursive call / of get_base_type_location (by reading)',
        # ---- shims without contract / named results -------------------------------------------------------------------------------
        'opaque types: lsp_types::Uri (Clone returns an equal value; to_string = sp_uri_text), LuaDocument (get_uri = sp_uri(doc), a '
        'function of the document: vfs/document.rs:40 file_path_to_uri(self.path)), SemanticModel, LuaOperator, LuaType, Emmyrc, '
        'DbIndex, Vfs, LuaIndexKey, LuaSyntaxId, FilePath (stands for &PathBuf; try_exists has NO contract), IoError; all syntax-tree '
        'handle types are aliases of ONE opaque type Syn (the extracted code is type-checked against a superset of the real typing); '
        'typed child accessors / get_params / to_node_from_root return elements of the same tree; cast returns the node itself',
        'callee shims WITHOUT contract: hint_humanize_type, vx_format_label (rule c26l-format-label); build_label_parts: result named '
        'sp_label_parts(model, typ), otherwise unspecified; get_module / get_emmyrc / get_text: results named, otherwise unspecified',
        'lsp_types::{Position, Range, Location (+ Location::new, transcribed with its body), LocationLink, GotoDefinitionResponse, '
        'InlayHintLabelPart} transcribed from emmy_lsp_types 0.1.0; RenderLevel transcribed; FileId, LuaDeclLocation (projected to '
        'file_id, range), GutterKind, GutterLocation, WorkspaceId (+ MAIN), ModuleInfo (projected to workspace_id), DescItem '
        '(projected to range) EXTRACTED from the repository',
        # ---- std ---------------------------------------------------------------------------------------------------------------------
        'Result::unwrap_or (std doc: "Returns the contained Ok value or a provided default") and <[T]>::sort_by_key (std doc: "Sorts '
        'the slice in ascending order with a key extraction function, preserving initial order of equal elements": a permutation of '
        'the input, ascending in the key; requires a deterministic key function that may be called on every element and K: Ord '
        'obeying its spec) as assume_specification; TextSize: Ord added to the common text-size shim (derived in text-size 1.1.1, same '
        'text as unit c26_ranges); obeys_key_model::<String>() is a precondition of the HashMap<String, Location> slice',
    ],
    'findings': [
        {'id': 'F1', 'clause': 'C26 selection ranges strictly grow outward (description part)', 'status': 'open',
         'where': 'document_selection_range/mod.rs:92-99 add_detail_ranges + emmylua_parser_desc/src/markdown/mod.rs:1801-1817 '
                  '(end_highlight, InlineState::Both)',
         'what': 'the markdown parser emits TWO items with the IDENTICAL range for `***text***` (DescItemKind::Em and '
                 'DescItemKind::Strong, both SourceRange::from_start_end(scope_start, scope_end); the test suite expects it: '
                 'markdown/test.rs:163 `<Em><Strong><Markup>***</Markup>both<Markup>***</Markup></Strong></Em>`; sort_result even '
                 'orders equal ranges "scopes go first"). add_detail_ranges keeps every item range that contains the offset and never '
                 'compares neighbours (the `ranges.last() != Some(&range)` guard of commit 604fa2e is only in the ancestor loop), so '
                 'the chain repeats the range: parent.range == range — the same defect class as the one fixed by 604fa2e',
         'input': 'document "--- ***both***\\nlocal x = 1" (default doc.syntax = md), textDocument/selectionRange at 0:8 (inside '
                  '"both"): ranges = [4..14 (Em), 4..14 (Strong), …ancestors]: the first two SelectionRanges are both 0:4-0:14',
         'clause stated': 'laminar(items) ==> every appended range contains the previous one AND differs from it '
                          '[C26.selection.detail-strictly-grows] (postcondition + loop invariant consecutive_differ, same label)',
         'obligation': r'add_detail_ranges:invariant-not-satisfied-at-end-of-loop-b\[C26\.selection\.detail-strictly-grows\]',
         'proposed fix': 'units/c26_locations/proposed_fix_detail_dedup.diff (relative to /repo, `git -C /repo apply --check` passes): the '
                         '`result.extend(PIPELINE)` becomes `for range in PIPELINE { if result.last() != Some(&range) { result.push(range); } }` '
                         '— the guard of commit 604fa2e. Under laminarity kept ranges of equal length are equal, hence adjacent after the '
                         'sort by length, so skipping a range equal to the previous entry removes every repetition. Checked on a scratch '
                         'worktree of HEAD with the diff applied: the unit exits 0, [C26.selection.detail-strictly-grows] proved; '
                         'guarded by mutant detail-ranges-dedup-guard-removed (registered only when the guard is in the text)',
         'verified by': 'the failing obligation (deductive) + reading of the parser for the concrete input (no cargo build in this task)'},
        {'id': 'F2', 'clause': 'C26 every location or range the server returns lies inside its document', 'status': 'open (low severity)',
         'where': 'vfs/document.rs:130-141 get_document_lsp_range, returned by definition/goto_module_file.rs:27-32',
         'what': 'the range ends at Position { line: line_count, character: 0 }: lines are numbered 0..line_count-1, so the end '
                 'position is on a line that does not exist in the document (PROVED shape: [C26.location.whole-document-range])',
         'input': 'module file "return 1" (one line, line_count == 1): goto definition on require("a") returns 0:0-1:0; line 1 does not exist',
         'obligation': 'none fails: the unit states what the function returns; "end inside the document" is not claimed'},
    ],
    'not_covered': [
        'definition/goto_def_definition.rs:259 goto_source_location: the Location is parsed out of a `---@source uri#L<line>:<col>` '
        'string (Uri::from_str, two u32): NO document is consulted, so neither "same document" nor "inside its document" can be stated; '
        'whatever the annotation says is returned',
        'the 27 call sites of LuaDocument::to_lsp_location other than get_override_lsp_location (references, implementation, '
        'definition, rename, workspace symbols): the CALLEE is under contract; that each caller passes a range of the document it '
        'calls it on (the precondition) is not checked here',
        'the statements in front of the slices (how document / root / lua_param / location are obtained) and what is done with the '
        'Locations afterwards (InlayHint construction, dedup / reorder in build_label_parts)',
        'selection ranges inside a description beyond the detail ranges themselves: that the LAST detail range lies inside the '
        'description node\'s range (the first ancestor range pushed after it) needs "items lie inside the description", another '
        'assumption about parse_desc; the ancestor part is unit c26_ranges',
        'columns are counts of Unicode scalar values (unit c22), not UTF-16 code units (property C23)',
    ],
    'samples': [
        'to_lsp_location: loc.uri == sp_uri(self) && loc.range == doc_lsp_range(self, range)',
        'set_meta_call_part (slice): same_doc(sp_doc_of_file(model, operator.file), operator.range, loc): ONE document d with that '
        'identity, loc.uri == sp_uri(d), loc.range == doc_lsp_range(d, range), range inside d',
        'add_detail_ranges: appended ranges contain the offset (start <= offset < end), sorted by length; laminar items ==> each '
        'appended range contains the previous one',
    ],
    'mutants': [
        # the Location is built from another range than the one asked for
        {'name': 'to-lsp-location-converts-empty-range', 'item': 'LuaDocument::to_lsp_location',
         'pattern': r'self\.to_lsp_range\(range\)\?', 'repl': 'self.to_lsp_range(TextRange::new(range.start(), range.start()))?',
         'expect': r'to_lsp_location.*C26\.location\.(same-document|inside-its-document)'},
        # seeded defect (A): the operator's range (a range of the file the operator was declared in) is converted with the line
        # index of the CURRENT file's document, the URI is still the declaring file's
        {'name': 'meta-call-converts-with-model-document', 'item': 'set_meta_call_part::location',
         'pattern': r'let lsp_range = document\.to_lsp_range\(range\)\?;',
         'repl': 'let lsp_range = semantic_model.get_document().to_lsp_range(range)?;',
         'expect': r'set_meta_call_part::location.*(C26\.location\.meta-call\.same-document|precondition-not-satisfied)'},
        {'name': 'override-converts-with-model-document', 'item': 'get_override_lsp_location',
         'pattern': r'let document = semantic_model\.get_document_by_file_id\(file_id\)\?;', 'repl': 'let document = semantic_model.get_document();',
         'expect': r'get_override_lsp_location.*(C26\.location\.override\.same-document|precondition-not-satisfied)'},
        # the same defect class at the other sites that fetch the document of ANOTHER file
        {'name': 'type-decl-converts-with-model-document', 'item': 'get_type_location::location',
         'pattern': r'let lsp_range = document\.to_lsp_range\(location\.range\)\?;',
         'repl': 'let lsp_range = semantic_model.get_document().to_lsp_range(location.range)?;',
         'expect': r'get_type_location::location.*(C26\.location\.type-decl\.same-document|precondition-not-satisfied)'},
        {'name': 'base-type-uri-of-model-document', 'item': 'get_base_type_location::location',
         'pattern': r'Location::new\(document\.get_uri\(\), lsp_range\)',
         'repl': 'Location::new(semantic_model.get_document().get_uri(), lsp_range)',
         'expect': r'get_base_type_location::location.*C26\.location\.type-decl\.same-document'},
        {'name': 'module-file-range-of-model-document', 'item': 'goto_module_file::location',
         'pattern': r'let lsp_range = document\.get_document_lsp_range\(\);',
         'repl': 'let lsp_range = semantic_model.get_document().get_document_lsp_range();',
         'expect': r'goto_module_file::location.*C26\.location\.module-file\.same-document'},
        {'name': 'index-hint-uri-of-another-file', 'item': 'build_index_expr_hint::location',
         'pattern': r'Location::new\(document\.get_uri\(\), lsp_range\)',
         'repl': 'Location::new(semantic_model.get_document_by_file_id(FileId { id: 0 })?.get_uri(), lsp_range)',
         'expect': r'build_index_expr_hint::location.*C26\.location\.index-hint\.same-document'},
        # a range that is not the conversion of a range of the document
        {'name': 'param-location-whole-document', 'item': 'get_call_signature_param_location::locations',
         'pattern': r'let lsp_range = document\.to_lsp_range\(range\)\?;', 'repl': 'let lsp_range = document.get_document_lsp_range();',
         'expect': r'get_call_signature_param_location::locations.*C26\.location\.call-signature-param\.same-document'},
        {'name': 'closure-hint-fallback-whole-document', 'item': 'build_closure_hint::location',
         'pattern': r'Location::new\(document\.get_uri\(\), lsp_range\)', 'repl': 'Location::new(document.get_uri(), document.get_document_lsp_range())',
         'expect': r'build_closure_hint::location.*C26\.location\.closure-hint\.inside-its-document'},
        {'name': 'gutter-line-from-range-end', 'item': 'on_emmy_gutter_detail_handler::location',
         'pattern': r'lsp_range\.start\.line as i32', 'repl': 'lsp_range.end.line as i32',
         'expect': r'on_emmy_gutter_detail_handler::location.*C26\.location\.gutter\.same-document'},
        {'name': 'whole-document-range-end-line-zero', 'item': 'LuaDocument::get_document_lsp_range',
         'pattern': r'line: self\.get_line_count\(\) as u32,', 'repl': 'line: 0,',
         'expect': r'get_document_lsp_range.*C26\.location\.whole-document-range'},
        # ---- selection ranges inside a description ------------------------------------------------------------------------------
        # seeded defect (B): inclusive containment keeps BOTH of two adjacent items at their common boundary — disjoint ranges,
        # neither contains the other, the chain does not grow
        {'name': 'detail-ranges-contains-inclusive', 'item': 'add_detail_ranges',
         'pattern': r'range\.contains\(offset\)', 'repl': 'range.contains_inclusive(offset)',
         'expect': r'add_detail_ranges.*C26\.selection\.detail-(contains-offset|chain-grows)'},
        {'name': 'detail-ranges-filter-negated', 'item': 'add_detail_ranges',
         'pattern': r'range\.contains\(offset\)', 'repl': '!range.contains(offset)',
         'expect': r'add_detail_ranges.*C26\.selection\.detail-(contains-offset|chain-grows)'},
        # a longest-possible range put in FRONT of the sorted items
        {'name': 'detail-ranges-not-sorted', 'item': 'add_detail_ranges',
         'pattern': r'items\.sort_by_key\(\|item\| item\.range\.len\(\)\);', 'repl': 'items.sort_by_key(|item| item.range.len()); items.insert(0, DescItem { range: TextRange::new(TextSize::from(0), TextSize::from(u32::MAX)) });',
         'expect': r'add_detail_ranges.*(C26\.selection\.detail-(sorted-by-length|are-item-ranges|chain-grows)|invariant-not-satisfied-before-loop)'},
    ],
}

UNIT['mutants_after_repair'] = AFTER_REPAIR_MUTANTS
if _repair_present():
    UNIT['mutants'] = UNIT['mutants'] + AFTER_REPAIR_MUTANTS
