"""unit c26_locations — C26 "every location the server returns lies inside its document" for the hand-built
`lsp_types::Location`s, and the description part of "selection ranges strictly grow outward" (WIP header, see bottom)."""

import re

H = 'crates/emmylua_ls/src/handlers/'
DOC = 'crates/emmylua_code_analysis/src/vfs/document.rs'
FID = 'crates/emmylua_code_analysis/src/vfs/file_id.rs'
INLAY = H + 'inlay_hint/build_inlay_hint.rs'
FHINT = H + 'inlay_hint/build_function_hint.rs'
GMOD = H + 'definition/goto_module_file.rs'
GUT = H + 'emmy_gutter/mod.rs'
SEL = H + 'document_selection_range/mod.rs'
DB = 'crates/emmylua_code_analysis/src/db_index/'


def fn(file, name, owner=None, **kw):
    src = {'file': file, 'kind': 'fn', 'name': name}
    if owner:
        src['impl'] = owner
    d = {'src': src}
    d.update(kw)
    return d


def slc(file, host, name, frm, to, head, tail='', **kw):
    d = {'src': {'kind': 'slice', 'name': name, 'in': {'file': file, 'kind': 'fn', 'name': host},
                 'from': frm, 'to': to, 'head': head, 'tail': tail}}
    d.update(kw)
    return d


KEYS_S = 'vstd::std_specs::hash::obeys_key_model::<String>()'


def type_decl_slice(host, name):
    """`let document = get_document_by_file_id(location.file_id)?; let lsp_range = document.to_lsp_range(location.range)?;
    Some(Location::new(document.get_uri(), lsp_range))` — the same three statements in get_type_location (Ref/Def arm) and
    get_base_type_location"""
    return slc(
        FHINT, host, name,
        r'let document = semantic_model\.get_document_by_file_id\(location\.file_id\)\?;',
        r'Some\(Location::new\(document\.get_uri\(\), lsp_range\)\)',
        'pub fn %s(semantic_model: &SemanticModel, location: &LuaDeclLocation) -> Option<Location>' % name,
        ret='r',
        # ASSUMED index consistency: a LuaDeclLocation of the type index records a range of the file it names
        requires='sp_file_range(sp_doc_of_file(semantic_model, location.file_id), location.range)',
        ensures='r matches Some(loc) ==> same_doc(sp_doc_of_file(semantic_model, location.file_id), location.range, loc) /*@C26.location.type-decl.same-document*/',
        proof=[(r'let document = semantic_model\.get_document_by_file_id\(location\.file_id\)\?;', 'after',
                'proof { axiom_file_range(&document, location.range); }')])


ITEMS = {
    'FileId': {'src': {'file': FID, 'kind': 'struct', 'name': 'FileId'}, 'attrs': '#[derive(Clone, Copy)]'},
    'LuaDocument::to_lsp_location': fn(
        DOC, 'to_lsp_location', 'LuaDocument', ret='r',
        requires='sp_doc_ok(self), range_in_doc(self, range)',
        ensures='''r matches Some(loc) && loc.uri == sp_uri(self) && loc.range == doc_lsp_range(self, range) /*@C26.location.same-document*/,
        r matches Some(loc) && same_doc(sp_doc_id(self), range, loc) /*@C26.location.inside-its-document*/'''),
    'LuaDocument::get_document_lsp_range': fn(
        DOC, 'get_document_lsp_range', 'LuaDocument', ret='r',
        ensures='r == whole_doc_range(self) /*@C26.location.whole-document-range*/'),
    # ---- inlay_hint/build_inlay_hint.rs:125-140: the two Location::new in the parameter loop ---------------------------------
    'get_call_signature_param_location::locations': slc(
        INLAY, 'get_call_signature_param_location', 'call_signature_param_locations',
        r'let document = document\?;', r'Some\(lua_params_map\)',
        'pub fn call_signature_param_locations(document: Option<LuaDocument>, lua_params: LuaParamList) -> Option<HashMap<String, Location>>',
        ret='r',
        requires=KEYS_S + ''',
            // `document` was assigned `semantic_model.get_document_by_file_id(sig_file_id)` and the closure whose parameter list
            // this is was found in `semantic_model.get_root_by_file_id(sig_file_id)` (build_inlay_hint.rs:96-98): same file id
            document matches Some(d) ==> sp_doc_ok(&d) && sp_tree(lua_params) == sp_doc_id(&d)''',
        ensures='''r matches Some(m) ==> document is Some && forall|k: String| #[trigger] m@.contains_key(k)
                ==> in_doc_of(sp_doc_id(&document->Some_0), m@[k]) /*@C26.location.call-signature-param.same-document*/''',
        body_first='broadcast use vstd::std_specs::hash::group_hash_axioms;',
        iter_names={0: 'it'},
        loops={0: '''invariant
                ''' + KEYS_S + ''', sp_doc_ok(&document), url == sp_uri(&document),
                forall|i: int| 0 <= i < it.seq().len() ==> sp_tree(#[trigger] it.seq()[i]) == sp_doc_id(&document),
                forall|k: String| #[trigger] lua_params_map@.contains_key(k) ==> in_doc_of(sp_doc_id(&document), lua_params_map@[k]) /*@C26.location.call-signature-param.same-document.inv*/,'''},
        proof=[(r'if let Some\(name_token\) = param\.get_name_token\(\) \{', 'before',
                'proof { axiom_tree_range(param); axiom_file_range(&document, sp_range(param)); }')]),
    # ---- inlay_hint/build_inlay_hint.rs:530-535 -----------------------------------------------------------------------------------
    'set_meta_call_part::location': slc(
        INLAY, 'set_meta_call_part', 'meta_call_location',
        r'let location = \{', r'Location::new\(document\.get_uri\(\), lsp_range\)\s*\};',
        'pub fn meta_call_location(semantic_model: &SemanticModel, operator: &LuaOperator) -> Option<Location>',
        'Some(location)',
        ret='r',
        # ASSUMED index consistency: the operator index records, for an operator, a range of the file it was declared in
        requires='sp_file_range(sp_doc_of_file(semantic_model, sp_op_file(operator)), sp_op_range(operator))',
        ensures='''r matches Some(loc) ==> same_doc(sp_doc_of_file(semantic_model, sp_op_file(operator)), sp_op_range(operator), loc) /*@C26.location.meta-call.same-document*/''',
        proof=[(r'let document = semantic_model\.get_document_by_file_id\(operator\.get_file_id\(\)\)\?;', 'after',
                'proof { axiom_file_range(&document, range); }')]),
    # ---- inlay_hint/build_inlay_hint.rs:653-665 ---------------------------------------------------------------------------------
    'build_index_expr_hint::location': slc(
        INLAY, 'build_index_expr_hint', 'index_hint_location',
        r'let document = semantic_model\.get_document\(\);', r'Location::new\(document\.get_uri\(\), lsp_range\)\s*\};',
        'pub fn index_hint_location(semantic_model: &SemanticModel, index_expr: LuaIndexExpr) -> Option<(lsp_types::Position, Location)>',
        'Some((position, label_location))',
        ret='r',
        # the index expression is a node of the tree of the model's own file (the hint builder walks semantic_model.get_root())
        requires='sp_tree(index_expr) == sp_model_doc(semantic_model)',
        ensures='r matches Some((_, loc)) ==> in_doc_of(sp_model_doc(semantic_model), loc) /*@C26.location.index-hint.same-document*/',
        proof=[(r'let lsp_range = document\.to_lsp_range\(range\)\?;\s*lsp_range\.end', 'before',
                'proof { axiom_tree_range(index_token); axiom_file_range(&document, range); }'),
               (r'let lsp_range = document\.to_lsp_range\(range\)\?;\s*Location::new', 'before',
                'proof { axiom_file_range(&document, range); }')]),
    # ---- inlay_hint/build_function_hint.rs:46-63 (build_closure_hint): the fallback Location of the default label part ----------
    'build_closure_hint::location': slc(
        FHINT, 'build_closure_hint', 'closure_hint_label_parts',
        r'let lsp_range = document\.to_lsp_range\(lua_param\.get_range\(\)\)\?;', r'\.\.Default::default\(\)\s*\}\);\s*\}',
        '''pub fn closure_hint_label_parts(semantic_model: &SemanticModel, document: LuaDocument, lua_param: &LuaParamName, typ: &LuaType)
        -> Option<(lsp_types::Range, Vec<InlayHintLabelPart>)>''',
        'Some((lsp_range, label_parts))',
        rules=['c26l-format-label', 'c26l-label-part-default-rest'],
        ret='r',
        # `let document = semantic_model.get_document();` (build_function_hint.rs:38, in front of the loop the slice is taken from)
        # and the closure whose parameter this is is a node of the model's own tree
        requires='sp_doc_id(&document) == sp_model_doc(semantic_model), sp_doc_ok(&document), sp_tree(*lua_param) == sp_model_doc(semantic_model)',
        ensures='''// the default part (pushed when build_label_parts returns nothing) carries a location that lies inside its document:
            // what get_type_location found, or the parameter's own range in the model's document
            r matches Some((rg, parts)) ==> rg == doc_lsp_range(&document, sp_range(*lua_param))
                && (sp_label_parts(semantic_model, typ).len() == 0 ==> parts@.len() == 1
                    && (parts@[0].location matches Some(l) && loc_in_its_doc(l))) /*@C26.location.closure-hint.inside-its-document*/,
            r matches Some((_, parts)) ==> (sp_label_parts(semantic_model, typ).len() != 0 ==> parts@ == sp_label_parts(semantic_model, typ)) /*@C26.location.closure-hint.frame*/''',
        proof=[(r'let lsp_range = document\.to_lsp_range\(lua_param\.get_range\(\)\)\?;', 'before',
                'proof { axiom_tree_range(*lua_param); axiom_file_range(&document, sp_range(*lua_param)); }'),
               (r'label_parts\.push\(InlayHintLabelPart \{', 'before',
                '''proof {
                    let fallback = Location { uri: sp_uri(&document), range: lsp_range };
                    assert(in_doc_of(sp_doc_id(&document), fallback));
                    lemma_in_doc_of_inside(sp_doc_id(&document), fallback);
                }''')]),
    # ---- inlay_hint/build_function_hint.rs:161-163 and :196-198 -----------------------------------------------------------------
    'LuaDeclLocation': {'src': {'file': 'crates/emmylua_code_analysis/src/db_index/type/type_decl.rs', 'kind': 'struct', 'name': 'LuaDeclLocation'},
                        'rules': [('struct-fields', {'keep': ['file_id', 'range']})]},
    'get_type_location::location': type_decl_slice('get_type_location', 'type_decl_location'),
    'get_base_type_location::location': type_decl_slice('get_base_type_location', 'base_type_decl_location'),
    # ---- definition/goto_module_file.rs:19-32 -----------------------------------------------------------------------------------
    'goto_module_file::location': slc(
        GMOD, 'goto_module_file', 'module_file_location',
        r'let document = semantic_model\.get_document_by_file_id\(file_id\)\?;', r'range: lsp_range,\s*\}\)\)',
        'pub fn module_file_location(semantic_model: &SemanticModel, file_id: FileId) -> Option<GotoDefinitionResponse>',
        ret='r',
        ensures='''r matches Some(resp) ==> (resp matches GotoDefinitionResponse::Scalar(loc) && exists|d: &LuaDocument| #![trigger sp_doc_id(d)]
                sp_doc_id(d) == sp_doc_of_file(semantic_model, file_id) && loc.uri == sp_uri(d) && loc.range == whole_doc_range(d)) /*@C26.location.module-file.same-document*/'''),
    # ---- emmy_gutter/mod.rs:168-176 -----------------------------------------------------------------------------------------------
    'GutterKind': {'src': {'file': H + 'emmy_gutter/emmy_gutter_request.rs', 'kind': 'enum', 'name': 'GutterKind'}},
    'GutterLocation': {'src': {'file': H + 'emmy_gutter/emmy_gutter_detail_request.rs', 'kind': 'struct', 'name': 'GutterLocation'},
                       'rules': [('struct-fields', {})]},
    'on_emmy_gutter_detail_handler::location': slc(
        GUT, 'on_emmy_gutter_detail_handler', 'gutter_location',
        r'if let Some\(document\) = db\.get_vfs\(\)\.get_document\(&file_id\) \{', r'kind: GutterKind::Class,\s*\}\);\s*\}\s*\}',
        'pub fn gutter_location(db: &DbIndex, file_id: FileId, location: &LuaDeclLocation, locations: &mut Vec<GutterLocation>)',
        # `let file_id = location.file_id;` is the statement in front of the slice
        requires='file_id == location.file_id, sp_file_range(sp_vfs_doc(sp_db_vfs(db), location.file_id), location.range)',
        ensures='''final(locations)@ == old(locations)@ || (final(locations)@.len() == old(locations)@.len() + 1
                && final(locations)@.drop_last() == old(locations)@
                && exists|d: &LuaDocument| #![trigger sp_doc_id(d)] sp_doc_id(d) == sp_vfs_doc(sp_db_vfs(db), location.file_id) && sp_doc_ok(d)
                    && range_in_doc(d, location.range)
                    && final(locations)@.last().uri@ == lsp_types::sp_uri_text(sp_uri(d))
                    && final(locations)@.last().line == doc_lsp_range(d, location.range).start.line as i32) /*@C26.location.gutter.same-document*/''',
        proof=[(r'if let Some\(lsp_range\) = document\.to_lsp_range\(location\.range\) \{', 'before',
                'proof { axiom_file_range(&document, location.range); }'),
               (r'kind: GutterKind::Class,\s*\}\);', 'after',
                'proof { assert(locations@.drop_last() =~= old(locations)@); }')]),
    # ---- document_selection_range/mod.rs:72-100 add_detail_ranges (whole function) -------------------------------------------
    'WorkspaceId': {'src': {'file': DB + 'module/workspace.rs', 'kind': 'struct', 'name': 'WorkspaceId'}, 'attrs': '#[derive(Clone, Copy)]'},
    'WorkspaceId::MAIN': {'src': {'file': DB + 'module/workspace.rs', 'kind': 'const', 'impl': 'WorkspaceId', 'name': 'MAIN'}},
    'ModuleInfo': {'src': {'file': DB + 'module/module_info.rs', 'kind': 'struct', 'name': 'ModuleInfo'},
                   'rules': [('struct-fields', {'keep': ['workspace_id']})]},
    'DescItem': {'src': {'file': 'crates/emmylua_parser_desc/src/lib.rs', 'kind': 'struct', 'name': 'DescItem'},
                 'rules': [('struct-fields', {'keep': ['range']})]},
    'add_detail_ranges': fn(
        SEL, 'add_detail_ranges',
        rules=['c26l-closure-contract-workspace-id', 'c26l-closure-contract-range-len', 'c26l-extend-map-filter-loop'],
        ensures='''
            old(result)@.is_prefix_of(final(result)@) /*@C26.selection.detail-appends*/,
            // every range appended is the range of one of the description parser's items …
            from_items(appended(old(result)@, final(result)@), desc_items(semantic_model, description)) /*@C26.selection.detail-are-item-ranges*/,
            // … that contains the cursor offset in the half-open sense …
            all_contain(appended(old(result)@, final(result)@), offset) /*@C26.selection.detail-contains-offset*/,
            // … shortest first
            sorted_by_len(appended(old(result)@, final(result)@)) /*@C26.selection.detail-sorted-by-length*/,
            // hence (lemma_detail_chain), IF the parser's items are laminar, each appended range contains the one before it
            laminar(desc_items(semantic_model, description))
                ==> chain_grows(appended(old(result)@, final(result)@)) /*@C26.selection.detail-chain-grows*/''',
        iter_names={0: 'it'},
        loops={0: '''invariant
                it.seq() == sorted,
                old(result)@.is_prefix_of(result@),
                from_items(appended(old(result)@, result@), items0) /*@C26.selection.detail-are-item-ranges.inv*/,
                all_contain(appended(old(result)@, result@), offset) /*@C26.selection.detail-contains-offset.inv*/,
                sorted_by_len(appended(old(result)@, result@)) /*@C26.selection.detail-sorted-by-length.inv*/,
                // everything still to come is at least as long as everything appended so far
                forall|i: int, k: int| 0 <= i < appended(old(result)@, result@).len() && it.index@ <= k < sorted.len()
                    ==> rlen(#[trigger] appended(old(result)@, result@)[i]) <= rlen((#[trigger] sorted[k]).range),
                // the sorted list: a rearrangement of the parser's items, ascending in length
                sorted.len() == items0.len(), is_perm(p, items0.len() as int),
                forall|i: int| 0 <= i < sorted.len() ==> #[trigger] sorted[i] == items0[p[i]],
                forall|i: int, j: int| 0 <= i < j < sorted.len() ==> rlen((#[trigger] sorted[i]).range) <= rlen((#[trigger] sorted[j]).range),'''},
        proof=[
            (r'items\.sort_by_key\(', 'before', 'let ghost items0 = items@;\nproof { assert(items0 == desc_items(semantic_model, description)); }'),
            (r'items\.sort_by_key\([^;]*;', 'after', '''let ghost sorted = items@;
    let ghost p = choose|p: Seq<int>| is_perm(p, items0.len() as int) && sorted.len() == items0.len()
        && forall|i: int| 0 <= i < sorted.len() ==> #[trigger] sorted[i] == items0[p[i]];
    proof {
        assert forall|i: int, j: int| 0 <= i < j < sorted.len() implies rlen((#[trigger] sorted[i]).range) <= rlen((#[trigger] sorted[j]).range) by {
            assert(sorted[i] == items0[p[i]] && sorted[j] == items0[p[j]]);
        }
        assert(appended(old(result)@, result@) =~= Seq::<TextRange>::empty());
    }'''),
            (r'result\.push\(__m\);', 'before', 'let ghost before = result@;'),
            (r'result\.push\(__m\);', 'after', '''proof {
                let n0 = old(result)@.len() as int;
                let a0 = appended(old(result)@, before);
                let a1 = appended(old(result)@, result@);
                assert(a1 =~= a0.push(__m));
                assert(__m == sorted[it.index@].range);
                assert(sorted[it.index@] == items0[p[it.index@]]);
                assert forall|i: int| 0 <= i < a1.len() implies exists|k: int| 0 <= k < items0.len() && (#[trigger] items0[k]).range == #[trigger] a1[i] by {
                    if i < a0.len() { assert(a1[i] == a0[i]); } else { assert(items0[p[it.index@]].range == a1[i]); }
                }
            }'''),
            # after the loop (`contains\w*`: the anchor survives the seeded edit contains -> contains_inclusive)
            (r'if range\.contains\w*\(offset\) \{ result\.push\(__m\); \} \}', 'after', '''proof {
        if laminar(items0) { lemma_detail_chain(items0, appended(old(result)@, result@), offset); }
    }'''),
        ],
        ),
}

UNIT = {
    'items': ITEMS,
    'extra_rules': [
        ('c26l-closure-contract-workspace-id', r'\|m\| m\.workspace_id',
         '|m: &ModuleInfo| -> (w: WorkspaceId) ensures w == m.workspace_id { m.workspace_id }',
         'contract overlay on the closure passed to Option::map (vstd specifies map through the closure\'s contract): parameter '
         'type, named result and `ensures` added; the body expression is kept verbatim and Verus checks the ensures against it'),
        ('c26l-closure-contract-range-len', r'\|item\| item\.range\.len\(\)',
         '|item: &DescItem| -> (k: TextSize) requires item.range.wf() ensures k.raw == item.range.end.raw - item.range.start.raw { item.range.len() }',
         'contract overlay on the key closure passed to sort_by_key: parameter type (the one sort_by_key demands), named result, '
         '`requires` (= the precondition of the shimmed TextRange::len, i.e. the type invariant of the real TextRange) and `ensures` '
         '(= its postcondition) added; the body expression is kept verbatim and Verus checks the contract against it, and the '
         '`requires` where sort_by_key may call it (on every element)'),
        ('c26l-extend-map-filter-loop',
         r'(\w+)\.extend\(\s*(\w+)\s*\.into_iter\(\)\s*\.map\(\|(\w+)\| ([^|;]*?)\)\s*\.filter\(\|(\w+)\| ([^|;]*?)\),?\s*\);',
         r'for \3 in \2 { let __m = \4; let \5 = &__m; if \6 { \1.push(__m); } }',
         'V.extend(W.into_iter().map(|x| M).filter(|y| P)) -> for x in W { let __m = M; let y = &__m; if P { V.push(__m); } }: '
         'std doc of Extend for Vec (appends every yielded element in order), Iterator::map (calls the closure once on every '
         'element, in order), Iterator::filter (calls the predicate once per mapped element with a REFERENCE to it, in order, and '
         'yields those for which it is true); the adapters are lazy, so per element the calls are map, then filter, then the push — '
         'the order of the loop body. M and P are kept verbatim with their closure parameters bound as in the closures', re.S),
        ('c26l-format-label', r'format!\(\s*": \{\}",\s*(hint_humanize_type\(semantic_model, typ, RenderLevel::Simple\))\s*\)',
         r'vx_format_label(\1)',
         'format!(": {}", S) used only as the text of an inlay-hint label -> vx_format_label(S) (opaque String; the label text is '
         'irrelevant to every clause of this unit)'),
        ('c26l-label-part-default-rest', r'\.\.Default::default\(\)', 'tooltip: None, command: None',
         '`..Default::default()` in an lsp_types::InlayHintLabelPart literal that sets `value` and `location` -> the two remaining '
         'fields spelled out (InlayHintLabelPart derives Default; both are Option fields, default None)'),
    ],
    'min_obligations': 3,
    'trusted': [],
    'not_covered': [],
    'mutants': [
        # the Location is built from another range than the one asked for
        {'name': 'to-lsp-location-converts-empty-range', 'item': 'LuaDocument::to_lsp_location',
         'pattern': r'self\.to_lsp_range\(range\)\?', 'repl': 'self.to_lsp_range(TextRange::new(range.start(), range.start()))?',
         'expect': r'to_lsp_location.*C26\.location\.(same-document|inside-its-document)'},
        # seeded defect (A): the operator's range (a range of the file the operator was declared in) is converted with the line
        # index of the CURRENT file's document, the URI is still the declaring file's
        {'name': 'meta-call-converts-with-model-document', 'item': 'set_meta_call_part::location',
         'pattern': r'let lsp_range = document\.to_lsp_range\(range\)\?;',
         'repl': 'let lsp_range = semantic_model.get_document().to_lsp_range(range)?;',
         'expect': r'set_meta_call_part::location.*(C26\.location\.meta-call\.same-document|precondition-not-satisfied)'},
        # the same defect class at the other sites that fetch the document of ANOTHER file
        {'name': 'type-decl-converts-with-model-document', 'item': 'get_type_location::location',
         'pattern': r'let lsp_range = document\.to_lsp_range\(location\.range\)\?;',
         'repl': 'let lsp_range = semantic_model.get_document().to_lsp_range(location.range)?;',
         'expect': r'get_type_location::location.*(C26\.location\.type-decl\.same-document|precondition-not-satisfied)'},
        {'name': 'base-type-uri-of-model-document', 'item': 'get_base_type_location::location',
         'pattern': r'Location::new\(document\.get_uri\(\), lsp_range\)',
         'repl': 'Location::new(semantic_model.get_document().get_uri(), lsp_range)',
         'expect': r'get_base_type_location::location.*C26\.location\.type-decl\.same-document'},
        {'name': 'module-file-range-of-model-document', 'item': 'goto_module_file::location',
         'pattern': r'let lsp_range = document\.get_document_lsp_range\(\);',
         'repl': 'let lsp_range = semantic_model.get_document().get_document_lsp_range();',
         'expect': r'goto_module_file::location.*C26\.location\.module-file\.same-document'},
        {'name': 'index-hint-uri-of-another-file', 'item': 'build_index_expr_hint::location',
         'pattern': r'Location::new\(document\.get_uri\(\), lsp_range\)',
         'repl': 'Location::new(semantic_model.get_document_by_file_id(FileId { id: 0 })?.get_uri(), lsp_range)',
         'expect': r'build_index_expr_hint::location.*C26\.location\.index-hint\.same-document'},
        # a range that is not the conversion of a range of the document
        {'name': 'param-location-whole-document', 'item': 'get_call_signature_param_location::locations',
         'pattern': r'let lsp_range = document\.to_lsp_range\(range\)\?;', 'repl': 'let lsp_range = document.get_document_lsp_range();',
         'expect': r'get_call_signature_param_location::locations.*C26\.location\.call-signature-param\.same-document'},
        {'name': 'closure-hint-fallback-whole-document', 'item': 'build_closure_hint::location',
         'pattern': r'Location::new\(document\.get_uri\(\), lsp_range\)', 'repl': 'Location::new(document.get_uri(), document.get_document_lsp_range())',
         'expect': r'build_closure_hint::location.*C26\.location\.closure-hint\.inside-its-document'},
        {'name': 'gutter-line-from-range-end', 'item': 'on_emmy_gutter_detail_handler::location',
         'pattern': r'lsp_range\.start\.line as i32', 'repl': 'lsp_range.end.line as i32',
         'expect': r'on_emmy_gutter_detail_handler::location.*C26\.location\.gutter\.same-document'},
        {'name': 'whole-document-range-end-line-zero', 'item': 'LuaDocument::get_document_lsp_range',
         'pattern': r'line: self\.get_line_count\(\) as u32,', 'repl': 'line: 0,',
         'expect': r'get_document_lsp_range.*C26\.location\.whole-document-range'},
        # ---- selection ranges inside a description ------------------------------------------------------------------------------
        # seeded defect (B): inclusive containment keeps BOTH of two adjacent items at their common boundary — disjoint ranges,
        # neither contains the other, the chain does not grow
        {'name': 'detail-ranges-contains-inclusive', 'item': 'add_detail_ranges',
         'pattern': r'range\.contains\(offset\)', 'repl': 'range.contains_inclusive(offset)',
         'expect': r'add_detail_ranges.*C26\.selection\.detail-(contains-offset|chain-grows)'},
        {'name': 'detail-ranges-filter-negated', 'item': 'add_detail_ranges',
         'pattern': r'range\.contains\(offset\)', 'repl': '!range.contains(offset)',
         'expect': r'add_detail_ranges.*C26\.selection\.detail-(contains-offset|chain-grows)'},
        {'name': 'detail-ranges-not-sorted', 'item': 'add_detail_ranges',
         'pattern': r'items\.sort_by_key\(\|item\| item\.range\.len\(\)\);', 'repl': 'items.sort_by_key(|item| item.range.len()); items.reverse();',
         'expect': r'add_detail_ranges.*C26\.selection\.detail-(sorted-by-length|chain-grows)'},
    ],
}
