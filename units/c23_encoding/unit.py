"""unit c23_encoding — C23 "Positions follow the LSP encoding and line-ending rules".

This is unit c22_lineindex re-instantiated with the LSP's vocabulary: the column weight of a character
is its UTF-16 length (2 for astral-plane characters) and a line starts after `\\n`, after `\\r\\n` and
after a lone `\\r`. Same extracted functions, same overlay, labels C22.* -> C23.*. On the current code
the obligations that depend on the weight / the line starts FAIL: the code counts Unicode scalar values
and splits at `\\n` only (recorded as known findings, pinned by unit c22_lineindex which PROVES that
this is exactly what the code does)."""
import copy
import importlib.util
import os
import re

_here = os.path.dirname(os.path.abspath(__file__))
_spec = importlib.util.spec_from_file_location('unit_c22_for_c23', os.path.join(_here, '..', 'c22_lineindex', 'unit.py'))
_m = importlib.util.module_from_spec(_spec)
_spec.loader.exec_module(_m)

UNIT = copy.deepcopy(_m.UNIT)


def _relabel(x):
    if isinstance(x, str): return x.replace('/*@C22.', '/*@C23.').replace('/*@C21.', '/*@C23.c21-').replace('/*@C25.', '/*@C23.c25-')
    if isinstance(x, dict): return {k: _relabel(v) for k, v in x.items()}
    if isinstance(x, (list, tuple)): return type(x)(_relabel(v) for v in x)
    return x


UNIT['items'] = _relabel(UNIT['items'])
_t = open(os.path.join(_here, '..', 'c22_lineindex', 'template.rs'), encoding='utf-8').read()
_cw_old = 'pub open spec fn cw(c: char) -> nat { 1 }'
_ls_old = re.search(r'pub open spec fn is_line_start\(b: Seq<u8>, p: int\) -> bool \{.*?\n\}', _t, flags=re.S)
assert _cw_old in _t and _ls_old
_t = _t.replace(_cw_old, '''/// LSP: positions count UTF-16 code units (the mandatory default encoding)
pub open spec fn cw(c: char) -> nat { if (c as u32) >= 0x10000 { 2 } else { 1 } }''')
_t = _t.replace(_ls_old.group(0), '''/// LSP: a line ends at `\\\\n`, `\\\\r\\\\n` or a lone `\\\\r`
pub open spec fn is_line_start(b: Seq<u8>, p: int) -> bool {
    p == 0 || (0 < p <= b.len() && (b[p - 1] == 10u8 || (b[p - 1] == 13u8 && (p == b.len() || b[p] != 10u8))))
}''')
UNIT['template_text'] = _t.replace('// unit c22_lineindex', '// unit c23_encoding (generated from unit c22_lineindex by units/c23_encoding/unit.py)')
UNIT['mutants'] = []
UNIT['samples'] = ['get_line_col: column == UTF-16 length of the line prefix (C23.get_line_col); parse: line starts after \\n, \\r\\n and lone \\r (C23.parse.wf)']
UNIT['min_obligations'] = 10
