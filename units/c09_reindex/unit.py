LIB = 'crates/emmylua_code_analysis/src/lib.rs'
UNIT = {
    'extra_rules': [
        ('drop-cfg-test-block', r'#\[cfg\(test\)\]\s*\{[^{}]*\}', '',
         'a `#[cfg(test)] { .. }` statement block is not compiled outside test builds: removed'),
    ],
    'items': {
        'EmmyLuaAnalysis': {'src': {'file': LIB, 'kind': 'struct', 'name': 'EmmyLuaAnalysis'},
                            'rules': [('struct-fields', {'keep': ['compilation']})]},
        'EmmyLuaAnalysis::reindex': {
            'src': {'file': LIB, 'kind': 'fn', 'impl': 'EmmyLuaAnalysis', 'name': 'reindex'},
            'rules': [('drop-cfg-test-block', {'optional': True})],
            'ensures': '''final(self).compilation.log@ == old(self).compilation.log@
                .push(IndexOp::Clear)
                .push(IndexOp::Update(sp_all_file_ids(sp_vfs(&old(self).compilation.db)))) /*@C09.reindex.clears-then-reanalyses-every-file*/''',
        },
    },
    'allow': [r'external_body', r'uninterp spec fn sp_'],
    'min_obligations': 1,
    'trusted': ['LuaCompilation::{clear_index, update_index} abstracted to a ghost log of index operations; Vfs file-id listing uninterpreted'],
    'samples': ['reindex: log\' == log + [Clear, Update(all file ids of the Vfs)]'],
    'mutants': [
        {'name': 'reindex-forgets-clear', 'item': 'EmmyLuaAnalysis::reindex', 'pattern': r'self\.compilation\.clear_index\(\);', 'repl': '', 'expect': r'C09\.reindex'},
        {'name': 'reindex-local-files-only', 'item': 'EmmyLuaAnalysis::reindex', 'pattern': r'get_all_file_ids\(\)', 'repl': 'get_all_local_file_ids()', 'expect': r'C09\.reindex'},
    ],
}
