// unit c09_reindex — C09: `EmmyLuaAnalysis::reindex` = clear the whole index, then re-analyse EVERY file
// the Vfs holds (so that, with unit c09_clear, the result is the analysis of the current files from scratch).
use vstd::prelude::*;
verus! {

#[derive(Clone, Copy, PartialEq, Eq)]
pub struct FileId { pub id: u32 }
#[verifier::external_body] pub struct Vfs { _p: () }
#[verifier::external_body] pub struct DbIndex { _p: () }
#[verifier::external_body] pub struct LuaDiagnostic { _p: () }
#[verifier::external_body] pub struct Emmyrc { _p: () }

pub enum IndexOp { Clear, Update(Seq<FileId>) }

/// every file id the Vfs currently holds (local and remote documents)
pub uninterp spec fn sp_all_file_ids(v: &Vfs) -> Seq<FileId>;
pub uninterp spec fn sp_local_file_ids(v: &Vfs) -> Seq<FileId>;
pub uninterp spec fn sp_vfs(db: &DbIndex) -> &Vfs;

/// LuaCompilation: the index operations applied so far (ghost log); its Vfs is not touched by them
pub struct LuaCompilation { pub db: DbIndex, pub log: Ghost<Seq<IndexOp>> }
impl LuaCompilation {
    pub fn get_db(&self) -> (r: &DbIndex) ensures r == &self.db { &self.db }
    #[verifier::external_body]
    pub fn clear_index(&mut self)
        ensures final(self).log@ == old(self).log@.push(IndexOp::Clear), sp_vfs(&final(self).db) == sp_vfs(&old(self).db),
    { unimplemented!() }
    #[verifier::external_body]
    pub fn update_index(&mut self, file_ids: Vec<FileId>)
        ensures final(self).log@ == old(self).log@.push(IndexOp::Update(file_ids@)), sp_vfs(&final(self).db) == sp_vfs(&old(self).db),
    { unimplemented!() }
}
impl DbIndex {
    #[verifier::external_body]
    pub fn get_vfs(&self) -> (r: &Vfs) ensures r == sp_vfs(self) { unimplemented!() }
}
impl Vfs {
    #[verifier::external_body]
    pub fn get_all_file_ids(&self) -> (r: Vec<FileId>) ensures r@ == sp_all_file_ids(self) { unimplemented!() }
    #[verifier::external_body]
    pub fn get_all_local_file_ids(&self) -> (r: Vec<FileId>) ensures r@ == sp_local_file_ids(self) { unimplemented!() }
}

//@@ EmmyLuaAnalysis
impl EmmyLuaAnalysis {
    //@@ EmmyLuaAnalysis::reindex
}

} // verus!
fn main() {}
