// unit c19_match — C19 "Diagnostic suppression comments affect exactly their scope": the matching of a
// suppression region against a diagnostic range, and the per-file scan over the recorded regions.
use vstd::prelude::*;
use std::collections::{HashMap, HashSet};
verus! {

//@@include common/textsize.rs

#[derive(Clone, Copy, Hash)]
pub struct DiagnosticCode { pub id: u32 }
impl vstd::std_specs::cmp::PartialEqSpecImpl for DiagnosticCode {
    open spec fn obeys_eq_spec() -> bool { true }
    open spec fn eq_spec(&self, other: &DiagnosticCode) -> bool { self.id == other.id }
}
impl PartialEq for DiagnosticCode {
    fn eq(&self, other: &DiagnosticCode) -> bool { self.id == other.id }
}
impl Eq for DiagnosticCode {}
#[derive(Clone, Copy, PartialEq, Eq, Hash)]
pub struct FileId { pub id: u32 }
#[verifier::external_body]
pub struct AnalyzeError { _p: () }

// ---------------------------------------------------------------------------------------------
// property vocabulary (from the statement of C19)
// ---------------------------------------------------------------------------------------------
/// a suppression region `a` (half-open byte range) affects a diagnostic at `d` iff they share at least
/// one byte, or — for a zero-width diagnostic — its position lies inside the region. Touching ranges
/// (the diagnostic starts exactly where the region ends: column 0 of the line after a
/// `disable-next-line` scope) are NOT affected: "other lines … are unaffected".
pub open spec fn covers(a: TextRange, d: TextRange) -> bool {
    let lo = if a.start.raw >= d.start.raw { a.start.raw } else { d.start.raw };
    let hi = if a.end.raw <= d.end.raw { a.end.raw } else { d.end.raw };
    if d.start.raw < d.end.raw { lo < hi } else { a.start.raw <= d.start.raw && d.start.raw < a.end.raw }
}

/// a code list suppresses exactly its codes, no list suppresses every code, `enable` never suppresses
pub open spec fn kind_matches(k: DiagnosticActionKind, is_disable: bool, code: DiagnosticCode) -> bool {
    match k {
        DiagnosticActionKind::Disable(c) => is_disable && c == code,
        DiagnosticActionKind::Enable(c) => !is_disable && c == code,
        DiagnosticActionKind::DisableAll => is_disable,
    }
}

pub open spec fn action_matches(a: &DiagnosticAction, is_disable: bool, range: TextRange, code: DiagnosticCode) -> bool {
    covers(a.range, range) && kind_matches(a.kind, is_disable, code)
}

// ---------------------------------------------------------------------------------------------
// extracted from /repo
// ---------------------------------------------------------------------------------------------
//@@ DiagnosticActionKind
//@@ DiagnosticAction

impl DiagnosticAction {
    //@@ DiagnosticAction::new
    //@@ DiagnosticAction::get_range
    //@@ DiagnosticAction::is_match
}

//@@ DiagnosticIndex

impl DiagnosticIndex {
    //@@ DiagnosticIndex::is_file_diagnostic_code_disabled
    //@@ DiagnosticIndex::is_file_disabled
    //@@ DiagnosticIndex::is_file_enabled
}

} // verus!
fn main() {}
