ACT = 'crates/emmylua_code_analysis/src/db_index/diagnostic/diagnostic_action.rs'
IDX = 'crates/emmylua_code_analysis/src/db_index/diagnostic/mod.rs'

KEYS = 'vstd::std_specs::hash::obeys_key_model::<FileId>(), vstd::std_specs::hash::obeys_key_model::<DiagnosticCode>()'

UNIT = {
    'items': {
        'DiagnosticActionKind': {'src': {'file': ACT, 'kind': 'enum', 'name': 'DiagnosticActionKind'}},
        'DiagnosticAction': {'src': {'file': ACT, 'kind': 'struct', 'name': 'DiagnosticAction'},
                             'rules': [('struct-fields', {})]},
        'DiagnosticAction::new': {'src': {'file': ACT, 'kind': 'fn', 'impl': 'DiagnosticAction', 'name': 'new'},
                                  'ret': 'r', 'ensures': 'r.range == range, r.kind == kind'},
        'DiagnosticAction::get_range': {'src': {'file': ACT, 'kind': 'fn', 'impl': 'DiagnosticAction', 'name': 'get_range'},
                                        'ret': 'r', 'ensures': 'r == self.range'},
        'DiagnosticAction::is_match': {
            'src': {'file': ACT, 'kind': 'fn', 'impl': 'DiagnosticAction', 'name': 'is_match'},
            'rules': [('is-some-and', {'optional': True})],
            'ret': 'r',
            'requires': 'self.range.wf(), range.wf()',
            'ensures': '''r ==> covers(self.range, *range) /*@C19.match.only-inside-scope*/,
            r ==> kind_matches(self.kind, is_disable, *code) /*@C19.match.only-listed-codes*/,
            action_matches(self, is_disable, *range, *code) ==> r /*@C19.match.suppresses-inside-scope*/''',
        },
        'DiagnosticIndex': {'src': {'file': IDX, 'kind': 'struct', 'name': 'DiagnosticIndex'},
                            'rules': [('struct-fields', {})]},
        'DiagnosticIndex::is_file_diagnostic_code_disabled': {
            'src': {'file': IDX, 'kind': 'fn', 'impl': 'DiagnosticIndex', 'name': 'is_file_diagnostic_code_disabled'},
            'ret': 'r',
            'requires': KEYS + ''', range.wf(),
            forall|f: FileId, i: int| self.diagnostic_actions@.contains_key(f) && 0 <= i < self.diagnostic_actions@[f]@.len() ==> (#[trigger] self.diagnostic_actions@[f]@[i]).range.wf()''',
            'ensures': '''r <==> (self.diagnostic_actions@.contains_key(*file_id)
                && exists|i: int| 0 <= i < self.diagnostic_actions@[*file_id]@.len()
                    && action_matches(&self.diagnostic_actions@[*file_id]@[i], true, *range, *code)) /*@C19.suppressed-iff-some-region-matches*/''',
            'iter_names': {0: 'it'},
            'loops': {0: '''invariant
                    self.diagnostic_actions@.contains_key(*file_id), disabled == &self.diagnostic_actions@[*file_id], range.wf(),
                    forall|i: int| 0 <= i < disabled@.len() ==> (#[trigger] disabled@[i]).range.wf(),
                    forall|i: int| 0 <= i < it.index@ ==> !action_matches(&disabled@[i], true, *range, *code),'''},
        },
        'DiagnosticIndex::is_file_disabled': {
            'src': {'file': IDX, 'kind': 'fn', 'impl': 'DiagnosticIndex', 'name': 'is_file_disabled'},
            'ret': 'r', 'requires': KEYS,
            'ensures': 'r <==> (self.file_diagnostic_disabled@.contains_key(*file_id) && self.file_diagnostic_disabled@[*file_id]@.contains(*code)) /*@C19.file-disable-exact-codes*/'},
        'DiagnosticIndex::is_file_enabled': {
            'src': {'file': IDX, 'kind': 'fn', 'impl': 'DiagnosticIndex', 'name': 'is_file_enabled'},
            'ret': 'r', 'requires': KEYS,
            'ensures': 'r <==> (self.file_diagnostic_enabled@.contains_key(*file_id) && self.file_diagnostic_enabled@[*file_id]@.contains(*code)) /*@C19.file-enable-exact-codes*/'},
    },
    'allow': [r'external_body'],
    'min_obligations': 6,
    'trusted': [
        'text-size shim (TextRange::intersect transcribed; cross-checked by Kani on the real crate, thorough tier)',
        'DiagnosticCode / FileId as opaque value types with derived Eq/Hash (obeys_key_model is a precondition)',
        'hashbrown -> std::collections (same get/contains API; iteration order not used)',
    ],
    'samples': [
        'is_match: r <==> covers(self.range, range) && kind_matches(self.kind, is_disable, code), for all u32 ranges',
        'is_file_diagnostic_code_disabled: r <==> exists a recorded region of the file that matches',
    ],
    'mutants': [
        {'name': 'touching-ranges-match', 'item': 'DiagnosticAction::is_match',
         'pattern': r'fn is_match\(&self, is_disable: bool, range: &TextRange, code: &DiagnosticCode\) -> bool \{.*?\n        match',
         'repl': 'fn is_match(&self, is_disable: bool, range: &TextRange, code: &DiagnosticCode) -> bool {\n        if self.range.intersect(*range).is_none() {\n            return false;\n        }\n\n        match',
         'expect': r'C19\.match\.only-inside-scope'},
        {'name': 'disable-all-matches-enable', 'item': 'DiagnosticAction::is_match',
         'pattern': r'\(DiagnosticActionKind::DisableAll, true\) => true', 'repl': '(DiagnosticActionKind::DisableAll, _) => true',
         'expect': r'C19\.match\.only-listed-codes'},
        {'name': 'code-list-ignored', 'item': 'DiagnosticAction::is_match',
         'pattern': r'\(DiagnosticActionKind::Disable\(disable_code\), true\) => disable_code == code', 'repl': '(DiagnosticActionKind::Disable(_disable_code), true) => true',
         'expect': r'C19\.match\.only-listed-codes'},
        {'name': 'scan-stops-early', 'item': 'DiagnosticIndex::is_file_diagnostic_code_disabled',
         'pattern': r'return true;\s*\}', 'repl': 'return true;\n                }\n                break;',
         'expect': r'C19\.suppressed-iff'},
    ],
}
